import OmplModel.Proofs.WorldFrame
import OmplModel.Proofs.WorldFrameDubins
import OmplModel.Proofs.WorldFrameYaw
import OmplModel.Proofs.RSExamples
/-!
# C14 (round 4) — Dubins / Reeds–Shepp in the WORLD frame: `interpolate` ends at the target, `distance = rho · Σ|segments|`

Rounds 1–3 (`Props/C14.lean`, `Props/C14RS.lean`) prove the reach theorems in the solvers' normalised
frame: start `(0, 0, α)` resp. the origin, unit turning radius, goal `(d, 0, β)` resp. `(x, y, φ)`.  This
file composes them with what `dubins(s1, s2, rho)` / `reedsShepp(s1, s2)` do before the solver
(translate, rotate, divide by `rho`) and what `interpolate(from, path, t, state)` does after the
integration (multiply by `rho`, translate by `from`, wrap the yaw), so the statements are about the poses
the caller passes in and gets back.  Helper lemmas: `Proofs/WorldFrame.lean` (Reeds–Shepp),
`Proofs/WorldFrameDubins.lean` (Dubins), `Proofs/WorldFrameYaw.lean` (the SO(2) wrap).

Tags: **[AF]** arithmetic-free (generic over `[DNum α]` / `[RSNum α]`, holds for the `Float` instance the
driver runs); **[EX]** exact arithmetic over ℝ (instance of `Proofs/DubinsReal.lean` / `Proofs/RSReal.lean`);
what [EX] leaves unverified is the IEEE rounding of the `double` run.

What is proved
* [AF] the shortcut returns of `interpolate(from, to, t, ·)`: `to` for `t ≥ 1`, `from` for `t ≤ 0`, the
  path branch otherwise (`rs_interpolate_branches`, `dubins_interpolate_branches`).
* [AF] `distance` is `rho` times the sum of the (absolute) segment lengths of the path found:
  `rs_distance_eq` (`rho · (|t| + |u| + |v| + |w| + |x|)`), `dubins_distance_eq` (`rho · (t + p + q)`).
* [EX] the SO(2) wrap used for the yaw picks the representative in `[-π, π)`: it is in that interval, differs
  from its argument by a multiple of 2π, is 2π-periodic, and is the identity on `[-π, π)` (`so2_wrap_canonical`).
* [EX] **Reeds–Shepp, world frame, unconditional**: for `rho ≠ 0` the path `reedsShepp(s1, s2)` returns,
  interpolated at `t = 1` from `s1`, is `(s2.x, s2.y, wrap(s2.th + 2πk))` (`rs_interpolate_reaches_target`),
  i.e. `(s2.x, s2.y, wrap(s2.th))`, which is `s2` itself when `s2.th ∈ [-π, π)`
  (`rs_interpolate_reaches_target_exact`).  Over ℝ `interpolate(s1, s2, t)` is `s1` for `t ≤ 0`, `s2` for
  `t ≥ 1` (`rs_interpolate_endpoints`), and the curve `t ↦ interpolate(s1, path, t)` it follows in between
  starts at `s1` and ends at `s2` (yaws wrapped) (`rs_interpolate_curve_endpoints`).
* [EX] `rs_distance_eq_real` (the [AF] statement with `|·|`), and **reported distance ≥ straight-line
  distance in the world frame**, unconditional for `rho > 0` (`rs_distance_ge_straight_line`).
* [EX] **Dubins, world frame, forward**: for `rho > 0`, the normalised triple `(d, α, β)` of
  `dubins(s1, s2, rho)` (`d = |s2 − s1| / rho`, `α ≡ s1.th − atan2(dy, dx)`, `β ≡ s2.th − atan2(dy, dx)`
  modulo 2π), an exact non-negative angle normalisation and any of the six word solvers (outside the clamp
  band for RSL/LSR): the returned path, interpolated at `t = 1` from `s1`, is `(s2.x, s2.y, wrap(s2.th + 2πk))`
  (`dubins_interpolate_reaches_target`), `= s2` when `s2.th ∈ [-π, π)` (`dubins_interpolate_reaches_target_exact`).
* [EX] **Dubins, world frame, reversed**: a solver's path for the reversed pair `(s2, s1)`, marked `reverse_`
  and interpolated at `t = 1` from `s1`, ends at `s2` (`dubins_interpolate_reaches_target_reversed`) — the two
  branches `choosePath` can pick in the symmetric space.
* [EX] integration of a Dubins word commutes with rigid motions of the start pose, forward and `reverse_`
  loop (`dubins_integration_equivariant`).
* [EX] the degenerate early return `zeroPath d`: closed form of its end point (`dubins_zeroPath_endpoint`), a
  straight segment of length `rho·d` along the START heading.  It is the target only if the target lies on
  that ray with the same yaw; the code takes the branch only for `d < DUBINS_EPS ∧ |α − β| < DUBINS_EPS`, so
  the miss is of the order `rho · DUBINS_EPS` (not quantified here).
* [EX] Dubins `interpolate` shortcut returns over ℝ (`dubins_interpolate_endpoints`), the two ends of the curve
  `t ↦ interpolate(s1, P, t)` (`dubins_interpolate_curve_endpoints`), `distance(s, s) = 0`
  (`dubins_distance_self`) and **`rho · length ≥`
  straight-line distance in the world frame** for a solver's path (`dubins_distance_ge_straight_line`).

What is NOT proved
* for Dubins the glue from `dubinsStates` to a single `solve` call: `dubinsStates` uses the code's `mod2pi`
  with its two fudges (not exact modulo 2π: `mod2pi_fudge_bound` of round 1 bounds the error by `ε/2`), the
  classification table / exhaustive search pick the word, and RSL/LSR clamp inside `[DUBINS_ZERO, 0)`; the
  theorems here are per solver call with an exact normalisation, as in round 1;
* the selection made by `choosePath` (which of the two branches is taken) — both branches are covered;
* intermediate `t`: that the interpolated point lies on the curve is rounds 1–2 (`prefix_of_path`,
  `rs_prefix_of_path`, vehicle-model theorems); here only the end points are placed in the world frame;
* floating-point rounding.
-/
namespace OmplModel.Props.C14W
open OmplModel OmplModel.Dubins OmplModel.RS

/-! ## [AF] shortcut returns and `distance` -/
section AF

/-- [AF] **Reeds–Shepp `interpolate(from, to, t, ·)`, the three branches**: `to` for `1 ≤ t`; `from` when
that test fails and `t ≤ 0`; otherwise the state of the path `reedsShepp(from, to)` at `t` (none if the
default path was returned). -/
theorem rs_interpolate_branches {α : Type} [RSNum α] (rho : α) (frm tgt : Pose α) (t : α) :
    (1 ≤ t → rsInterpolate rho frm tgt t = some tgt) ∧
    (¬ 1 ≤ t → t ≤ 0 → rsInterpolate rho frm tgt t = some frm) ∧
    (¬ 1 ≤ t → ¬ t ≤ 0 → rsInterpolate rho frm tgt t =
      (reedsSheppStates rho frm tgt).map (fun p => rsInterpPath rho frm p t)) := by
  unfold rsInterpolate
  refine ⟨fun h => ?_, fun h1 h0 => ?_, fun h1 h0 => ?_⟩
  · rw [if_pos h]
  · rw [if_neg h1, if_pos h0]
  · rw [if_neg h1, if_neg h0]

example {α : Type} [RSNum α] (rho : α) (frm tgt : Pose α) (t : α) (h : 1 ≤ t) :
    rsInterpolate rho frm tgt t = some tgt := (rs_interpolate_branches rho frm tgt t).1 h

/-- [AF] **Dubins `interpolate(from, to, t, ·)`, the shortcut returns and the path branch**. -/
theorem dubins_interpolate_branches {α : Type} [DNum α] (rho : α) (sym : Bool) (frm tgt : Pose α) (t : α) :
    (1 ≤ t → interpolate rho sym frm tgt t = some tgt) ∧
    (¬ 1 ≤ t → t ≤ 0 → interpolate rho sym frm tgt t = some frm) ∧
    (∀ P, ¬ 1 ≤ t → ¬ t ≤ 0 → choosePath rho sym frm tgt = .path P →
      interpolate rho sym frm tgt t = some (interpPath rho frm P t)) := by
  unfold interpolate
  refine ⟨fun h => ?_, fun h1 h0 => ?_, fun P h1 h0 hP => ?_⟩
  · rw [if_pos h]
  · rw [if_neg h1, if_pos h0]
  · rw [if_neg h1, if_neg h0, hP]

example {α : Type} [DNum α] (rho : α) (frm tgt : Pose α) (t : α) (h : 1 ≤ t) :
    interpolate rho true frm tgt t = some tgt := (dubins_interpolate_branches rho true frm tgt t).1 h

/-- [AF] **Reeds–Shepp `distance` = `rho · Σ|segments|`**: when `reedsShepp(s1, s2)` returns the path `P`,
`distance(s1, s2)` is `rho` times the sum of the absolute values of its five signed segment lengths. -/
theorem rs_distance_eq {α : Type} [RSNum α] (rho : α) (s1 s2 : Pose α) (P : RSPath α)
    (h : reedsSheppStates rho s1 s2 = some P) :
    rsDistance rho s1 s2 =
      some (rho * (Num.abs P.l0 + Num.abs P.l1 + Num.abs P.l2 + Num.abs P.l3 + Num.abs P.l4)) := by
  unfold rsDistance
  rw [h]
  rfl

example {α : Type} [RSNum α] (rho : α) (s1 s2 : Pose α)
    (h : reedsSheppStates rho s1 s2 = none) : rsDistance rho s1 s2 = none := by
  unfold rsDistance; rw [h]; rfl

/-- [AF] **Dubins `distance` = `rho · (t + p + q)`** (non-symmetric space): when `dubins(s1, s2, rho)` returns
the path `P`, `distance(s1, s2)` is `rho` times the sum of its three segment lengths. -/
theorem dubins_distance_eq {α : Type} [DNum α] (rho : α) (s1 s2 : Pose α) (P : Path α)
    (h : dubinsStates rho s1 s2 = .path P) :
    distance rho false s1 s2 = some (rho * (P.t + P.p + P.q)) := by
  unfold distance
  rw [h]
  rfl

example {α : Type} [DNum α] (rho : α) (s1 s2 : Pose α)
    (h : dubinsStates rho s1 s2 = .nopath) : distance rho false s1 s2 = none := by
  unfold distance; rw [h]; rfl

end AF

/- From here on everything is about ℝ; numerals must be Mathlib's (see Proofs/DubinsReal.lean). -/
attribute [-instance] Num.instOfNat

/-! ## [EX] the yaw wrap -/

/-- [EX] **The SO(2) wrap is the canonical representative in `[-π, π)`**: `enforceBounds` of the yaw
(C `fmod` by 2π, then one wrap) lands in `[-π, π)`, differs from its argument by an integer multiple of 2π,
hence is 2π-periodic and the identity on `[-π, π)`. -/
theorem so2_wrap_canonical (x : ℝ) :
    (-Real.pi ≤ so2Enforce x ∧ so2Enforce x < Real.pi) ∧
    (∃ k : ℤ, so2Enforce x = x + k * (2 * Real.pi)) ∧
    (∀ k : ℤ, so2Enforce (x + k * (2 * Real.pi)) = so2Enforce x) ∧
    (-Real.pi ≤ x → x < Real.pi → so2Enforce x = x) :=
  ⟨so2Enforce_mem x, so2Enforce_exact x, so2Enforce_add_int x, so2Enforce_of_mem x⟩

example : so2Enforce (0 : ℝ) = 0 :=
  (so2_wrap_canonical 0).2.2.2 (by have := Real.pi_pos; linarith) Real.pi_pos
-- the interval is half open: `π` itself is wrapped to `-π`
example : so2Enforce Real.pi = -Real.pi := by
  have h := (so2_wrap_canonical (-Real.pi)).2.2.1 1
  have e : -Real.pi + ((1 : ℤ) : ℝ) * (2 * Real.pi) = Real.pi := by push_cast; ring
  rw [e] at h
  rw [h]
  exact (so2_wrap_canonical (-Real.pi)).2.2.2 le_rfl (by have := Real.pi_pos; linarith)

/-! ## [EX] Reeds–Shepp in the world frame -/

/-- [EX] **Reeds–Shepp `interpolate` ends at the target (world frame, unconditional).**  For a turning radius
`rho ≠ 0` and arbitrary poses `s1`, `s2`: whatever path `P` `reedsShepp(s1, s2)` returns, the state
`interpolate(s1, P, 1, ·)` computes — integrate the whole signed word from `(0, 0, s1.th)`, scale by `rho`,
translate by `s1`, wrap the yaw — has position exactly `(s2.x, s2.y)` and yaw `wrap(s2.th + 2πk)`. -/
theorem rs_interpolate_reaches_target (rho : ℝ) (hrho : rho ≠ 0) (s1 s2 : Pose ℝ) (P : RSPath ℝ)
    (h : reedsSheppStates rho s1 s2 = some P) :
    ∃ k : ℤ, rsInterpPath rho s1 P 1 = ⟨s2.x, s2.y, so2Enforce (s2.th + k * (2 * Real.pi))⟩ :=
  rs_interp_one_world rho hrho s1 s2 P h

-- the premise is satisfiable: from the origin pose to `(3, 0, 0)` at radius 1 a path is returned
example : ∃ P, reedsSheppStates (1 : ℝ) ⟨0, 0, 0⟩ ⟨3, 0, 0⟩ = some P := by
  rw [reedsSheppStates_eq]
  simp only [Real.cos_zero, Real.sin_zero]
  norm_num
  exact reedsShepp_3_0_0

/-- [EX] the same with the yaw in canonical form: the end state is `(s2.x, s2.y, wrap(s2.th))`, and it is
`s2` itself when `s2`'s yaw satisfies the SO(2) bounds `[-π, π)`. -/
theorem rs_interpolate_reaches_target_exact (rho : ℝ) (hrho : rho ≠ 0) (s1 s2 : Pose ℝ) (P : RSPath ℝ)
    (h : reedsSheppStates rho s1 s2 = some P) :
    rsInterpPath rho s1 P 1 = ⟨s2.x, s2.y, so2Enforce s2.th⟩ ∧
    (-Real.pi ≤ s2.th → s2.th < Real.pi → rsInterpPath rho s1 P 1 = s2) := by
  have h1 := rs_interp_one_world_wrapped rho hrho s1 s2 P h
  refine ⟨h1, fun ha hb => ?_⟩
  rw [h1, so2Enforce_of_mem _ ha hb]

example : ∃ P, reedsSheppStates (1 : ℝ) ⟨0, 0, 0⟩ ⟨3, 0, 0⟩ = some P ∧
    rsInterpPath 1 ⟨0, 0, 0⟩ P 1 = ⟨3, 0, 0⟩ := by
  have hex : ∃ P, reedsSheppStates (1 : ℝ) ⟨0, 0, 0⟩ ⟨3, 0, 0⟩ = some P := by
    rw [reedsSheppStates_eq]
    simp only [Real.cos_zero, Real.sin_zero]
    norm_num
    exact reedsShepp_3_0_0
  obtain ⟨P, hP⟩ := hex
  exact ⟨P, hP, (rs_interpolate_reaches_target_exact 1 one_ne_zero _ _ P hP).2
    (by have := Real.pi_pos; simp only; linarith) (by simp only; exact Real.pi_pos)⟩

/-- [EX] **Reeds–Shepp `interpolate(s1, s2, t, ·)` at and beyond the ends** over ℝ: `s1` for `t ≤ 0`,
`s2` for `t ≥ 1`. -/
theorem rs_interpolate_endpoints (rho : ℝ) (s1 s2 : Pose ℝ) (t : ℝ) :
    (1 ≤ t → rsInterpolate rho s1 s2 t = some s2) ∧ (t ≤ 0 → rsInterpolate rho s1 s2 t = some s1) := by
  rw [rsInterpolate_eq]
  refine ⟨fun h => by rw [if_pos h], fun h => ?_⟩
  rw [if_neg (by linarith), if_pos h]

example (rho : ℝ) (s1 s2 : Pose ℝ) : rsInterpolate rho s1 s2 0 = some s1 :=
  (rs_interpolate_endpoints rho s1 s2 0).2 le_rfl

/-- [EX] **The interpolated Reeds–Shepp curve runs from `s1` to `s2`.**  With `P` the path
`reedsShepp(s1, s2)` returns (`rho ≠ 0`): `interpolate(s1, s2, t)` is `s1` at `t = 0`, `s2` at `t = 1`, and
for `0 < t < 1` the point `interpolate(s1, P, t)` of a curve whose own values at `t = 0` and `t = 1` are
`s1` and `s2` with the yaw wrapped — so the shortcut returns agree with the curve's ends (exactly, for
yaws inside `[-π, π)`). -/
theorem rs_interpolate_curve_endpoints (rho : ℝ) (hrho : rho ≠ 0) (s1 s2 : Pose ℝ) (P : RSPath ℝ)
    (h : reedsSheppStates rho s1 s2 = some P) :
    rsInterpolate rho s1 s2 0 = some s1 ∧ rsInterpolate rho s1 s2 1 = some s2 ∧
    (∀ t, 0 < t → t < 1 → rsInterpolate rho s1 s2 t = some (rsInterpPath rho s1 P t)) ∧
    rsInterpPath rho s1 P 0 = ⟨s1.x, s1.y, so2Enforce s1.th⟩ ∧
    rsInterpPath rho s1 P 1 = ⟨s2.x, s2.y, so2Enforce s2.th⟩ := by
  refine ⟨(rs_interpolate_endpoints rho s1 s2 0).2 le_rfl, (rs_interpolate_endpoints rho s1 s2 1).1 le_rfl,
    fun t h0 h1 => ?_, rsInterpPath_zero rho s1 P, rs_interp_one_world_wrapped rho hrho s1 s2 P h⟩
  rw [rsInterpolate_eq, if_neg (by linarith), if_neg (by linarith), h]
  rfl

example (rho : ℝ) (s : Pose ℝ) (P : RSPath ℝ) (h1 : -Real.pi ≤ s.th) (h2 : s.th < Real.pi) :
    rsInterpPath rho s P 0 = s := by
  rw [rsInterpPath_zero, so2Enforce_of_mem _ h1 h2]

/-- [EX] `rs_distance_eq` over ℝ with the ordinary absolute value. -/
theorem rs_distance_eq_real (rho : ℝ) (s1 s2 : Pose ℝ) (P : RSPath ℝ)
    (h : reedsSheppStates rho s1 s2 = some P) :
    rsDistance rho s1 s2 = some (rho * (|P.l0| + |P.l1| + |P.l2| + |P.l3| + |P.l4|)) :=
  rs_distance_eq rho s1 s2 P h

example (P : RSPath ℝ) : P.len = |P.l0| + |P.l1| + |P.l2| + |P.l3| + |P.l4| := rfl

/-- [EX] **Reeds–Shepp reported distance ≥ straight-line distance, world frame, unconditional**: for
`rho > 0`, whenever `distance(s1, s2)` is defined (a path was found) it is at least the Euclidean distance
between the two positions. -/
theorem rs_distance_ge_straight_line (rho : ℝ) (hrho : 0 < rho) (s1 s2 : Pose ℝ) (d : ℝ)
    (h : rsDistance rho s1 s2 = some d) :
    Real.sqrt ((s2.x - s1.x) ^ 2 + (s2.y - s1.y) ^ 2) ≤ d := by
  unfold rsDistance at h
  cases hP : reedsSheppStates rho s1 s2 with
  | none => rw [hP] at h; cases h
  | some P =>
    rw [hP] at h
    obtain rfl := Option.some.inj h
    exact rs_world_len_ge rho hrho s1 s2 P hP

example : ∃ d, rsDistance (1 : ℝ) ⟨0, 0, 0⟩ ⟨3, 0, 0⟩ = some d := by
  have hex : ∃ P, reedsSheppStates (1 : ℝ) ⟨0, 0, 0⟩ ⟨3, 0, 0⟩ = some P := by
    rw [reedsSheppStates_eq]
    simp only [Real.cos_zero, Real.sin_zero]
    norm_num
    exact reedsShepp_3_0_0
  obtain ⟨P, hP⟩ := hex
  exact ⟨_, rs_distance_eq_real 1 _ _ P hP⟩

/-! ## [EX] Dubins in the world frame -/

/-- [EX] **Integration of a Dubins word commutes with rigid motions of the start pose**, for the forward
loop and for the `reverse_` loop: moving the start pose by the rigid motion `(a, b, g)` moves the end pose
(and so the whole driven curve) by `(a, b, g)`. -/
theorem dubins_integration_equivariant (segs : List (Seg × ℝ)) (a b g : ℝ) (P : Pose ℝ) :
    integFull stepFwd segs (move a b g P) = move a b g (integFull stepFwd segs P) ∧
    integFull stepRev segs (move a b g P) = move a b g (integFull stepRev segs P) :=
  ⟨integFull_fwd_move segs a b g P, integFull_rev_move segs a b g P⟩

example (a b g : ℝ) (P : Pose ℝ) : move a b g P =
    ⟨a + P.x * Real.cos g - P.y * Real.sin g, b + P.x * Real.sin g + P.y * Real.cos g, P.th + g⟩ := rfl

/-- [EX] **Dubins `interpolate` ends at the target (world frame, forward path).**  `rho > 0`; `s1`, `s2`
arbitrary poses; `d = √(dx·dx + dy·dy) / rho` and `α`, `β` any representatives modulo 2π of
`s1.th − atan2(dy, dx)`, `s2.th − atan2(dy, dx)` (what `dubins(s1, s2, rho)` feeds the solvers;
`Num.atan2 dy dx = Complex.arg ⟨dx, dy⟩` over ℝ); `m2p` an exact, non-negative angle normalisation; `w` any
of the six words, outside the clamp band for RSL/LSR.  Then the path the solver returns, interpolated at
`t = 1` from `s1` — integrate the whole word from `(0, 0, s1.th)`, scale by `rho`, translate by `s1`, wrap
the yaw — has position exactly `(s2.x, s2.y)` and yaw `wrap(s2.th + 2πk)`. -/
theorem dubins_interpolate_reaches_target (m2p : ℝ → ℝ) (hm : Exact m2p) (hnn : ∀ x, 0 ≤ m2p x) (w : Word)
    (rho : ℝ) (hrho : 0 < rho) (s1 s2 : Pose ℝ) (α β : ℝ)
    (hα : ∃ k₁ : ℤ, α = s1.th - Complex.arg ⟨s2.x - s1.x, s2.y - s1.y⟩ + k₁ * (2 * Real.pi))
    (hβ : ∃ k₂ : ℤ, β = s2.th - Complex.arg ⟨s2.x - s1.x, s2.y - s1.y⟩ + k₂ * (2 * Real.pi))
    (P : Path ℝ)
    (hb : NoClamp w (Real.sqrt ((s2.x - s1.x) * (s2.x - s1.x) + (s2.y - s1.y) * (s2.y - s1.y)) / rho) α β)
    (h : solve m2p w (Real.sqrt ((s2.x - s1.x) * (s2.x - s1.x) + (s2.y - s1.y) * (s2.y - s1.y)) / rho) α β
      = some P) :
    ∃ k : ℤ, interpPath rho s1 P 1 = ⟨s2.x, s2.y, so2Enforce (s2.th + k * (2 * Real.pi))⟩ :=
  dubins_interp_one_world m2p hm hnn w rho hrho s1 s2 α β hα hβ P hb h

-- the hypotheses are jointly satisfiable for EVERY pair of poses and radius: the fudge-free `mod2piExact`,
-- the word LSL (always solvable, no clamp band), `α`, `β` the unnormalised differences
example (rho : ℝ) (hrho : 0 < rho) (s1 s2 : Pose ℝ) :
    ∃ P, ∃ k : ℤ, interpPath rho s1 P 1 = ⟨s2.x, s2.y, so2Enforce (s2.th + k * (2 * Real.pi))⟩ := by
  obtain ⟨P, hP⟩ := dubinsLSL_isSome mod2piExact
    (Real.sqrt ((s2.x - s1.x) * (s2.x - s1.x) + (s2.y - s1.y) * (s2.y - s1.y)) / rho)
    (s1.th - Complex.arg ⟨s2.x - s1.x, s2.y - s1.y⟩) (s2.th - Complex.arg ⟨s2.x - s1.x, s2.y - s1.y⟩)
  obtain ⟨k, hk⟩ := dubins_interpolate_reaches_target mod2piExact mod2piExact_exact mod2piExact_nonneg .LSL
    rho hrho s1 s2 _ _ ⟨0, by simp⟩ ⟨0, by simp⟩ P trivial hP
  exact ⟨P, k, hk⟩

/-- [EX] the same with the yaw in canonical form: the end state is `(s2.x, s2.y, wrap(s2.th))`, and it is
`s2` itself when `s2`'s yaw satisfies the SO(2) bounds `[-π, π)`. -/
theorem dubins_interpolate_reaches_target_exact (m2p : ℝ → ℝ) (hm : Exact m2p) (hnn : ∀ x, 0 ≤ m2p x)
    (w : Word) (rho : ℝ) (hrho : 0 < rho) (s1 s2 : Pose ℝ) (α β : ℝ)
    (hα : ∃ k₁ : ℤ, α = s1.th - Complex.arg ⟨s2.x - s1.x, s2.y - s1.y⟩ + k₁ * (2 * Real.pi))
    (hβ : ∃ k₂ : ℤ, β = s2.th - Complex.arg ⟨s2.x - s1.x, s2.y - s1.y⟩ + k₂ * (2 * Real.pi))
    (P : Path ℝ)
    (hb : NoClamp w (Real.sqrt ((s2.x - s1.x) * (s2.x - s1.x) + (s2.y - s1.y) * (s2.y - s1.y)) / rho) α β)
    (h : solve m2p w (Real.sqrt ((s2.x - s1.x) * (s2.x - s1.x) + (s2.y - s1.y) * (s2.y - s1.y)) / rho) α β
      = some P) :
    interpPath rho s1 P 1 = ⟨s2.x, s2.y, so2Enforce s2.th⟩ ∧
    (-Real.pi ≤ s2.th → s2.th < Real.pi → interpPath rho s1 P 1 = s2) := by
  obtain ⟨k, hk⟩ := dubins_interp_one_world m2p hm hnn w rho hrho s1 s2 α β hα hβ P hb h
  rw [so2Enforce_add_int] at hk
  refine ⟨hk, fun ha hb' => ?_⟩
  rw [hk, so2Enforce_of_mem _ ha hb']

example (rho : ℝ) (hrho : 0 < rho) (s1 s2 : Pose ℝ) (h1 : -Real.pi ≤ s2.th) (h2 : s2.th < Real.pi) :
    ∃ P, interpPath rho s1 P 1 = s2 := by
  obtain ⟨P, hP⟩ := dubinsLSL_isSome mod2piExact
    (Real.sqrt ((s2.x - s1.x) * (s2.x - s1.x) + (s2.y - s1.y) * (s2.y - s1.y)) / rho)
    (s1.th - Complex.arg ⟨s2.x - s1.x, s2.y - s1.y⟩) (s2.th - Complex.arg ⟨s2.x - s1.x, s2.y - s1.y⟩)
  exact ⟨P, (dubins_interpolate_reaches_target_exact mod2piExact mod2piExact_exact mod2piExact_nonneg .LSL
    rho hrho s1 s2 _ _ ⟨0, by simp⟩ ⟨0, by simp⟩ P trivial hP).2 h1 h2⟩

/-- [EX] **Dubins `interpolate` ends at the target (world frame, `reverse_` path).**  In the symmetric
space `interpolate` may store the path `P2` computed for the REVERSED pair — from `s2` to `s1`, normalised
accordingly (`d` as before, `α ≡ s2.th − atan2(−dy, −dx)`, `β ≡ s1.th − atan2(−dy, −dx)`) — marked
`reverse_`, and drives its segments in reverse order backwards from `s1`.  That too ends exactly at
`(s2.x, s2.y)` with yaw `wrap(s2.th + 2πk)`. -/
theorem dubins_interpolate_reaches_target_reversed (m2p : ℝ → ℝ) (hm : Exact m2p) (hnn : ∀ x, 0 ≤ m2p x)
    (w : Word) (rho : ℝ) (hrho : 0 < rho) (s1 s2 : Pose ℝ) (α β : ℝ)
    (hα : ∃ k₁ : ℤ, α = s2.th - Complex.arg ⟨s1.x - s2.x, s1.y - s2.y⟩ + k₁ * (2 * Real.pi))
    (hβ : ∃ k₂ : ℤ, β = s1.th - Complex.arg ⟨s1.x - s2.x, s1.y - s2.y⟩ + k₂ * (2 * Real.pi))
    (P2 : Path ℝ)
    (hb : NoClamp w (Real.sqrt ((s1.x - s2.x) * (s1.x - s2.x) + (s1.y - s2.y) * (s1.y - s2.y)) / rho) α β)
    (h : solve m2p w (Real.sqrt ((s1.x - s2.x) * (s1.x - s2.x) + (s1.y - s2.y) * (s1.y - s2.y)) / rho) α β
      = some P2) :
    ∃ k : ℤ, interpPath rho s1 { P2 with rev := true } 1 =
      ⟨s2.x, s2.y, so2Enforce (s2.th + k * (2 * Real.pi))⟩ :=
  dubins_interp_one_world_rev m2p hm hnn w rho hrho s1 s2 α β hα hβ P2 hb h

example (rho : ℝ) (hrho : 0 < rho) (s1 s2 : Pose ℝ) :
    ∃ P2 : Path ℝ, ∃ k : ℤ, interpPath rho s1 { P2 with rev := true } 1 =
      ⟨s2.x, s2.y, so2Enforce (s2.th + k * (2 * Real.pi))⟩ := by
  obtain ⟨P, hP⟩ := dubinsLSL_isSome mod2piExact
    (Real.sqrt ((s1.x - s2.x) * (s1.x - s2.x) + (s1.y - s2.y) * (s1.y - s2.y)) / rho)
    (s2.th - Complex.arg ⟨s1.x - s2.x, s1.y - s2.y⟩) (s1.th - Complex.arg ⟨s1.x - s2.x, s1.y - s2.y⟩)
  obtain ⟨k, hk⟩ := dubins_interpolate_reaches_target_reversed mod2piExact mod2piExact_exact
    mod2piExact_nonneg .LSL rho hrho s1 s2 _ _ ⟨0, by simp⟩ ⟨0, by simp⟩ P trivial hP
  exact ⟨P, k, hk⟩
-- what `reverse_` drives: the segments in reverse order
example : Path.segList ({ (⟨.LSR, 1, 2, 3, false⟩ : Path ℝ) with rev := true }) = [(.R, 3), (.S, 2), (.L, 1)] := by
  simp [Path.segList, Word.segs]

/-- [EX] **The degenerate early return.**  For `d < DUBINS_EPS ∧ |α − β| < DUBINS_EPS` the code returns
`zeroPath d = LSL(0, d, 0)` without solving.  Interpolated at `t = 1` from `s1` it is the straight segment of
length `rho·d` along the START heading, yaw unchanged: exact only if the target lies on that ray with the
same yaw (the general miss, of the order `rho·DUBINS_EPS`, is not quantified here). -/
theorem dubins_zeroPath_endpoint (rho d : ℝ) (hd : 0 ≤ d) (s1 : Pose ℝ) :
    interpPath rho s1 (zeroPath d) 1 =
      ⟨s1.x + rho * d * Real.cos s1.th, s1.y + rho * d * Real.sin s1.th, so2Enforce s1.th⟩ :=
  zeroPath_interp_one rho d hd s1

-- the branch is taken, e.g. for coincident poses, and then the end point is the start (yaw wrapped)
example (rho : ℝ) (s : Pose ℝ) : dubinsStates rho s s = .path (zeroPath 0) := dubinsStates_self rho s
example (rho : ℝ) (s : Pose ℝ) : interpPath rho s (zeroPath 0) 1 = ⟨s.x, s.y, so2Enforce s.th⟩ := by
  rw [dubins_zeroPath_endpoint rho 0 le_rfl s]; simp

/-- [EX] **Dubins `interpolate(s1, s2, t, ·)` at and beyond the ends** over ℝ (symmetric or not): `s1` for
`t ≤ 0`, `s2` for `t ≥ 1`; for `0 < t < 1` the state of the chosen path at `t`. -/
theorem dubins_interpolate_endpoints (rho : ℝ) (sym : Bool) (s1 s2 : Pose ℝ) (t : ℝ) :
    (1 ≤ t → interpolate rho sym s1 s2 t = some s2) ∧ (t ≤ 0 → interpolate rho sym s1 s2 t = some s1) ∧
    (∀ P, 0 < t → t < 1 → choosePath rho sym s1 s2 = .path P →
      interpolate rho sym s1 s2 t = some (interpPath rho s1 P t)) :=
  ⟨interpolate_of_one_le rho sym s1 s2 t, interpolate_of_nonpos rho sym s1 s2 t,
    fun P h0 h1 hP => interpolate_mid rho sym s1 s2 t h0 h1 P hP⟩

example (rho : ℝ) (s1 s2 : Pose ℝ) : interpolate rho true s1 s2 1 = some s2 :=
  (dubins_interpolate_endpoints rho true s1 s2 1).1 le_rfl

/-- [EX] **The interpolated Dubins curve runs from `s1` to `s2`** (forward path).  Under the hypotheses of
`dubins_interpolate_reaches_target`, the curve `t ↦ interpolate(s1, P, t)` takes the values `s1` at `t = 0`
(for any path, forward or `reverse_`) and `s2` at `t = 1`, yaws wrapped — the values the shortcut returns of
`interpolate(s1, s2, t)` give at the two ends (`dubins_interpolate_endpoints`). -/
theorem dubins_interpolate_curve_endpoints (m2p : ℝ → ℝ) (hm : Exact m2p) (hnn : ∀ x, 0 ≤ m2p x)
    (w : Word) (rho : ℝ) (hrho : 0 < rho) (s1 s2 : Pose ℝ) (α β : ℝ)
    (hα : ∃ k₁ : ℤ, α = s1.th - Complex.arg ⟨s2.x - s1.x, s2.y - s1.y⟩ + k₁ * (2 * Real.pi))
    (hβ : ∃ k₂ : ℤ, β = s2.th - Complex.arg ⟨s2.x - s1.x, s2.y - s1.y⟩ + k₂ * (2 * Real.pi))
    (P : Path ℝ)
    (hb : NoClamp w (Real.sqrt ((s2.x - s1.x) * (s2.x - s1.x) + (s2.y - s1.y) * (s2.y - s1.y)) / rho) α β)
    (h : solve m2p w (Real.sqrt ((s2.x - s1.x) * (s2.x - s1.x) + (s2.y - s1.y) * (s2.y - s1.y)) / rho) α β
      = some P) :
    (∀ Q : Path ℝ, interpPath rho s1 Q 0 = ⟨s1.x, s1.y, so2Enforce s1.th⟩) ∧
    interpPath rho s1 P 1 = ⟨s2.x, s2.y, so2Enforce s2.th⟩ :=
  ⟨fun Q => interpPath_zero rho s1 Q,
    (dubins_interpolate_reaches_target_exact m2p hm hnn w rho hrho s1 s2 α β hα hβ P hb h).1⟩

example (rho : ℝ) (s : Pose ℝ) (Q : Path ℝ) (h1 : -Real.pi ≤ s.th) (h2 : s.th < Real.pi) :
    interpPath rho s Q 0 = s := by
  rw [interpPath_zero, so2Enforce_of_mem _ h1 h2]

/-- [EX] `dubins_distance_eq` instantiated: for coincident poses the distance is `rho · (0 + 0 + 0)`. -/
theorem dubins_distance_self (rho : ℝ) (s : Pose ℝ) : distance rho false s s = some 0 := by
  rw [dubins_distance_eq rho s s _ (dubinsStates_self rho s)]
  simp [zeroPath]

example : distance (2 : ℝ) false ⟨1, 2, 3⟩ ⟨1, 2, 3⟩ = some 0 := dubins_distance_self 2 _

/-- [EX] **Dubins `rho · length ≥` straight-line distance, world frame**: with `D ≥ 0` the Euclidean distance
between the two positions and `rho > 0`, a path any of the six solvers returns for `d = D / rho` (exact,
non-negative normalisation; outside the clamp band for RSL/LSR) satisfies `D ≤ rho · (t + p + q)` — what
`distance` reports (`dubins_distance_eq`). -/
theorem dubins_distance_ge_straight_line (m2p : ℝ → ℝ) (hm : Exact m2p) (hnn : ∀ x, 0 ≤ m2p x) (w : Word)
    (rho : ℝ) (hrho : 0 < rho) (s1 s2 : Pose ℝ) (α β : ℝ) (P : Path ℝ)
    (hb : NoClamp w (Real.sqrt ((s2.x - s1.x) * (s2.x - s1.x) + (s2.y - s1.y) * (s2.y - s1.y)) / rho) α β)
    (h : solve m2p w (Real.sqrt ((s2.x - s1.x) * (s2.x - s1.x) + (s2.y - s1.y) * (s2.y - s1.y)) / rho) α β
      = some P) :
    Real.sqrt ((s2.x - s1.x) * (s2.x - s1.x) + (s2.y - s1.y) * (s2.y - s1.y)) ≤ rho * (P.t + P.p + P.q) :=
  dubins_world_len_ge m2p hm hnn w rho hrho _ α β (Real.sqrt_nonneg _) P hb h

example (rho : ℝ) (s1 s2 : Pose ℝ) (α β : ℝ) : ∃ P, solve mod2piExact .LSL
    (Real.sqrt ((s2.x - s1.x) * (s2.x - s1.x) + (s2.y - s1.y) * (s2.y - s1.y)) / rho) α β = some P :=
  dubinsLSL_isSome mod2piExact _ α β

end OmplModel.Props.C14W
