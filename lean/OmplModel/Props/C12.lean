import OmplModel.Model.Pdf
/-! C12 property theorems (filled in below). -/
namespace OmplModel.Props.C12
open OmplModel.Pdf

theorem clear_size {α} (s : Pdf α) : s.clear.size = 0 := rfl

end OmplModel.Props.C12
