import OmplModel.Proofs.PdfSample
/-!
C12 — weighted sampling follows the current weights after any edits (`ompl::PDF`).

`[AF]` = arithmetic-free: holds for every weight type with any `+ - < *`, hence for the `Float`
instance the driver runs.  `[EX]` = exact arithmetic (ordered commutative group / ring); what these
leave unverified is exactly IEEE rounding.  The model's `sample` is the code *with* the F2 bound
guard; `sampleOld` is the descent before the fix.
-/
namespace OmplModel.Props.C12
open OmplModel.Pdf

/-- core `Int` as a weight type (for kernel-evaluated examples and the F2 witness) -/
@[reducible] def intScale : WScale Int where
  add := (· + ·)
  sub := (· - ·)
  lt := fun a b => decide (a < b)
  zero := 0
  mul := (· * ·)
  one := 1

/-! ## arithmetic-free part -/
section AF
variable {α : Type}

/-- [AF] tree shape (`tree_` empty iff no elements; row 0 has `n` cells, row `i+1` has `⌈|row i|/2⌉`,
the last row one) holds after every finite sequence of add / update / remove / clear / sample. -/
theorem shape_preserved [WOps α] (ops : List (Op α)) : ShapeInv ((Pdf.empty : Pdf α).run ops) :=
  shapeInv_run ops _ shapeInv_empty

example : ShapeInv (@Pdf.run Int intScale.toWOps Pdf.empty [.add 1, .add 2, .add 3, .remove 0]) :=
  @shape_preserved Int intScale.toWOps _

/-- [AF] every element's `index_` equals its position, every live handle's `index_` points at itself,
for every finite operation sequence (so element handles always denote exactly the surviving elements). -/
theorem idx_sync_preserved [WOps α] (ops : List (Op α)) : IdxSync ((Pdf.empty : Pdf α).run ops) :=
  idxSync_run ops _ idxSync_empty

example : IdxSync (@Pdf.run Int intScale.toWOps Pdf.empty [.add 1, .add 2, .add 3, .remove 0, .add 5]) :=
  @idx_sync_preserved Int intScale.toWOps _

/-- [AF] positions hold pairwise distinct handles, and a handle is stored iff it is live. -/
theorem handles_exact [WOps α] (ops : List (Op α)) :
    let s := (Pdf.empty : Pdf α).run ops
    (∀ i j (hi : i < s.data.size) (hj : j < s.data.size), s.data[i] = s.data[j] → i = j) ∧
    (∀ h, (s.idx h).isSome ↔ h ∈ s.data) := by
  intro s
  have hs : IdxSync s := idx_sync_preserved ops
  refine ⟨fun i j hi hj e => hs.inj hi hj e, fun h => ⟨?_, ?_⟩⟩
  · intro hl
    obtain ⟨i, hi⟩ := Option.isSome_iff_exists.mp hl
    have := hs.bwd h i hi
    exact Array.mem_of_getElem? this
  · intro hm
    obtain ⟨i, hi, e⟩ := Array.getElem_of_mem hm
    have := hs.fwd i hi
    rw [e] at this
    simp [this]

/-- [AF] `sample` (with the F2 guard) never reads outside a tree row or outside `data_`: from the
shape alone, for every weight type — in particular under floating-point rounding. -/
theorem sample_inbounds_of_shape [WScale α] (s : Pdf α) (r : α) (hs : ShapeInv s) : s.sample r ≠ .oob := by
  unfold Pdf.sample
  split
  · simp
  · rename_i hn
    split
    · simp
    · have hn' : 0 < s.data.size := by omega
      have ht := total_isSome s.tree _ hn' hs
      obtain ⟨tot, htot⟩ := Option.isSome_iff_exists.mp ht
      rw [htot]
      simp only
      have hlt := walk_lt s.tree _ (WScale.mul r tot) hn' hs
      rw [Array.getElem?_eq_getElem hlt]
      simp

theorem sample_inbounds [WScale α] (ops : List (Op α)) (r : α) :
    ((Pdf.empty : Pdf α).run ops).sample r ≠ .oob :=
  sample_inbounds_of_shape _ r (shape_preserved ops)

example : @Pdf.sample Int intScale (@Pdf.run Int intScale.toWOps Pdf.empty [.add 1, .add 1, .add 1, .remove 1]) 1
    = SampleRes.ok 2 := by decide

/-- the result of `getWeight` is the stored leaf of that element -/
theorem getWeight_reads_leaf (s : Pdf α) (h : Nat) :
    s.getWeight h = (s.idx h).bind (fun i => (row0 s)[i]?) := getWeight_eq s h

/-- [AF] **refinement.**  After any finite operation sequence the structure's per-handle weights
(`getWeight`), handle counter and stored handles are exactly those of the abstract handle → weight
map run on the same sequence; with `handles_exact` (no duplicates) the size is the number of live
handles. -/
theorem refines_assoc [WOps α] (ops : List (Op α)) :
    let s := (Pdf.empty : Pdf α).run ops
    let a := ({} : Abs α).run ops
    (∀ h, s.getWeight h = a.m h) ∧ s.next = a.next ∧ (∀ h, h ∈ s.data ↔ (a.m h).isSome) := by
  intro s a
  have hr : Refines s a := refines_run ops _ _ shapeInv_empty idxSync_empty
    ⟨fun h => by simp [Pdf.getWeight, Pdf.empty], rfl⟩
  have hsh : ShapeInv s := shape_preserved ops
  have hix : IdxSync s := idx_sync_preserved ops
  refine ⟨hr.1, hr.2, fun h => ?_⟩
  rw [← hr.1 h, getWeight_eq, ← (handles_exact ops).2 h]
  cases hi : s.idx h with
  | none => simp
  | some i =>
    have := hix.sync.lt hi
    have hsz := row0_size s hsh
    simp [hsz, this]

example : (@Pdf.run Int intScale.toWOps Pdf.empty [.add 1, .add 2, .remove 0, .update 1 7]).getWeight 1 = some 7 := by
  decide

end AF

/-! ## F2: the descent before the fix is index-safe only while parents equal their children's sum -/

/-- a shape-correct, index-synchronised 3-element structure whose single-child parent (row 1, cell 1)
is 2 while its only child is 1 — the kind of state rounding produces (F2). -/
def driftState : Pdf Int :=
  { data := #[0, 1, 2], idx := fun h => if h < 3 then some h else none,
    tree := [#[1, 1, 1], #[2, 2], #[4]], next := 3 }

theorem driftState_shape : ShapeInv driftState := by
  simp [ShapeInv, driftState, sizes, ShapeSizes]

/-- F2 witness: the unfixed descent reads out of range on `sample(1)`; the kernel evaluates the model. -/
theorem sampleOld_oob_of_drift : @Pdf.sampleOld Int intScale driftState 1 = SampleRes.oob := by decide

/-- … while the fixed descent stays on the last element. -/
theorem sample_fixed_on_drift : @Pdf.sample Int intScale driftState 1 = SampleRes.ok 2 := by decide

/-! ## exact-arithmetic part -/
section EX
open Exact

section group
variable {α : Type} [AddCommGroup α] [LinearOrder α]

/-- [EX] every parent cell is the sum of its one or two children, after every finite operation sequence. -/
theorem sum_preserved (ops : List (Op α)) : SumInv ((Pdf.empty : Pdf α).run ops) :=
  (treeInv_run ops _ ⟨shapeInv_empty, sumInv_empty⟩).2

example : SumInv ((Pdf.empty : Pdf ℤ).run [.add 1, .add 2, .add 3, .update 1 5, .remove 0]) := sum_preserved _

end group

section ring
variable {α : Type} [CommRing α] [LinearOrder α] [IsStrictOrderedRing α]

theorem reachable_inv : ∀ (ops : List (Op α)) (s : Pdf α), (∀ op ∈ ops, OpOk op) →
    ShapeInv s → SumInv s → LeavesNonneg s →
    ShapeInv (s.run ops) ∧ SumInv (s.run ops) ∧ LeavesNonneg (s.run ops)
  | [], s, _, h1, h2, h3 => ⟨h1, h2, h3⟩
  | op :: ops, s, hok, h1, h2, h3 => by
    have t := treeInv_step s op ⟨h1, h2⟩
    exact reachable_inv ops (s.step op) (fun o ho => hok o (List.mem_cons_of_mem _ ho)) t.1 t.2
      (leavesNonneg_step s op h1 h3 (hok op List.mem_cons_self))

/-- [EX] **selection rule.**  After any finite sequence of operations with non-negative weights, for
`r ∈ [0,1]` on a non-empty structure `sample r` returns the element at the *least* position `i` whose
prefix sum reaches `r * total` (`total` = sum of all current weights, `pre w k` = sum of the first
`k` weights in element order): `r*total ≤ pre (i+1)` and every `k` with `r*total ≤ pre (k+1)` is `≥ i`. -/
theorem sample_spec (ops : List (Op α)) (hok : ∀ op ∈ ops, OpOk op) (r : α) (h0 : 0 ≤ r) (h1 : r ≤ 1) :
    let s := (Pdf.empty : Pdf α).run ops
    0 < s.data.size →
    ∃ i, ∃ hi : i < s.data.size, s.sample r = .ok s.data[i] ∧
      r * pre (row0 s) s.data.size ≤ pre (row0 s) (i + 1) ∧
      ∀ k, r * pre (row0 s) s.data.size ≤ pre (row0 s) (k + 1) → i ≤ k := by
  intro s hn
  obtain ⟨hsh, hsum, hnn⟩ := reachable_inv ops (Pdf.empty : Pdf α) hok shapeInv_empty sumInv_empty leavesNonneg_empty
  obtain ⟨i, hi, hres, hle, hlt⟩ := sample_interval s r hsh hsum hn h0 h1 hnn
  refine ⟨i, hi, hres, hle, ?_⟩
  intro k hk
  by_contra hki
  have hki : k + 1 ≤ i := by omega
  have := pre_mono (row0 s) hnn (k + 1) i hki
  have := hlt (by omega)
  linarith

example := sample_spec (α := ℚ) [.add 1, .add 0, .add 3] (by simp [OpOk]) (1 / 4) (by norm_num) (by norm_num)

/-- [EX] **an element of zero weight is never drawn** for `0 < r ≤ 1` when the total weight is
positive: the returned handle's current weight is strictly positive. -/
theorem zero_weight_never_drawn (ops : List (Op α)) (hok : ∀ op ∈ ops, OpOk op) (r : α) (h0 : 0 < r)
    (h1 : r ≤ 1) :
    let s := (Pdf.empty : Pdf α).run ops
    0 < pre (row0 s) s.data.size →
    ∃ h w, s.sample r = .ok h ∧ s.getWeight h = some w ∧ 0 < w := by
  intro s htot
  obtain ⟨hsh, hsum, hnn⟩ := reachable_inv ops (Pdf.empty : Pdf α) hok shapeInv_empty sumInv_empty leavesNonneg_empty
  have hix : IdxSync s := idx_sync_preserved ops
  have hn : 0 < s.data.size := by
    rcases Nat.eq_zero_or_pos s.data.size with h | h
    · rw [h] at htot; simp [pre] at htot
    · exact h
  obtain ⟨i, hi, hres, hle, hlt⟩ := sample_interval s r hsh hsum hn (le_of_lt h0) h1 hnn
  have hsz := row0_size s hsh
  have hi' : i < (row0 s).size := by omega
  refine ⟨s.data[i], (row0 s)[i], hres, ?_, ?_⟩
  · rw [getWeight_eq, hix.fwd i hi]
    simp [hi']
  · have hX : 0 < r * pre (row0 s) s.data.size := mul_pos h0 htot
    have hc : cell (row0 s) i = (row0 s)[i] := cell_lt _ _ hi'
    rw [← hc]
    simp only [pre] at hle
    rcases Nat.eq_zero_or_pos i with hz | hp
    · subst hz
      simp only [pre, zero_add] at hle
      linarith
    · have := hlt hp
      linarith

example := zero_weight_never_drawn (α := ℚ) [.add 1, .add 0, .add 3, .update 0 2, .remove 1] (by simp [OpOk]) (1 / 4)
  (by norm_num) (by norm_num)

end ring
end EX
end OmplModel.Props.C12
