import OmplModel.Proofs.PdfSample
import OmplModel.Proofs.ESTPdf
import OmplModel.Proofs.ProjEST
import OmplModel.Proofs.AtlasPdf
import OmplModel.Proofs.PdfChecked
import OmplModel.Proofs.CellPdf
import Mathlib.MeasureTheory.Measure.Lebesgue.Basic
import Mathlib.Tactic.FieldSimp
import Mathlib.Tactic.Ring
import Mathlib.Algebra.Order.Field.Basic
/-!
C12 — weighted sampling follows the current weights after any edits (`ompl::PDF`).

`[AF]` = arithmetic-free: holds for every weight type with any `+ - < *`, hence for the `Float`
instance the driver runs.  `[EX]` = exact arithmetic (ordered commutative group / ring); what these
leave unverified is exactly IEEE rounding.  The model's `sample` is the code *with* the F2 bound
guard; `sampleOld` is the descent before the fix.
-/
namespace OmplModel.Props.C12
open OmplModel.Pdf

/-- core `Int` as a weight type (for kernel-evaluated examples and the F2 witness) -/
@[reducible] def intScale : WScale Int where
  add := (· + ·)
  sub := (· - ·)
  lt := fun a b => decide (a < b)
  zero := 0
  mul := (· * ·)
  one := 1

/-! ## arithmetic-free part -/
section AF
variable {α : Type}

/-- [AF] tree shape (`tree_` empty iff no elements; row 0 has `n` cells, row `i+1` has `⌈|row i|/2⌉`,
the last row one) holds after every finite sequence of add / update / remove / clear / sample. -/
theorem shape_preserved [WOps α] (ops : List (Op α)) : ShapeInv ((Pdf.empty : Pdf α).run ops) :=
  shapeInv_run ops _ shapeInv_empty

example : ShapeInv (@Pdf.run Int intScale.toWOps Pdf.empty [.add 1, .add 2, .add 3, .remove 0]) :=
  @shape_preserved Int intScale.toWOps _

/-- [AF] every element's `index_` equals its position, every live handle's `index_` points at itself,
for every finite operation sequence (so element handles always denote exactly the surviving elements). -/
theorem idx_sync_preserved [WOps α] (ops : List (Op α)) : IdxSync ((Pdf.empty : Pdf α).run ops) :=
  idxSync_run ops _ idxSync_empty

example : IdxSync (@Pdf.run Int intScale.toWOps Pdf.empty [.add 1, .add 2, .add 3, .remove 0, .add 5]) :=
  @idx_sync_preserved Int intScale.toWOps _

/-- [AF] positions hold pairwise distinct handles, and a handle is stored iff it is live. -/
theorem handles_exact [WOps α] (ops : List (Op α)) :
    let s := (Pdf.empty : Pdf α).run ops
    (∀ i j (hi : i < s.data.size) (hj : j < s.data.size), s.data[i] = s.data[j] → i = j) ∧
    (∀ h, (s.idx h).isSome ↔ h ∈ s.data) := by
  intro s
  have hs : IdxSync s := idx_sync_preserved ops
  refine ⟨fun i j hi hj e => hs.inj hi hj e, fun h => ⟨?_, ?_⟩⟩
  · intro hl
    obtain ⟨i, hi⟩ := Option.isSome_iff_exists.mp hl
    have := hs.bwd h i hi
    exact Array.mem_of_getElem? this
  · intro hm
    obtain ⟨i, hi, e⟩ := Array.getElem_of_mem hm
    have := hs.fwd i hi
    rw [e] at this
    simp [this]

/-- [AF] **size is the number of surviving elements**: after any operation sequence `size()` equals the number of live
handles (handles created and not removed / cleared). -/
theorem size_is_live_count [WOps α] (ops : List (Op α)) :
    ((Pdf.empty : Pdf α).run ops).size =
      ((List.range ((Pdf.empty : Pdf α).run ops).next).filter
        (fun k => (((Pdf.empty : Pdf α).run ops).idx k).isSome)).length :=
  size_counts_live _ (idx_sync_preserved ops)

example : (@Pdf.run Int intScale.toWOps Pdf.empty [.add 1, .add 2, .add 3, .remove 1]).size = 2 := by decide

/-- [AF] `sample` (with the F2 guard) never reads outside a tree row or outside `data_`: from the
shape alone, for every weight type — in particular under floating-point rounding. -/
theorem sample_inbounds_of_shape [WScale α] (s : Pdf α) (r : α) (hs : ShapeInv s) : s.sample r ≠ .oob := by
  unfold Pdf.sample
  split
  · simp
  · rename_i hn
    split
    · simp
    · have hn' : 0 < s.data.size := by omega
      have ht := total_isSome s.tree _ hn' hs
      obtain ⟨tot, htot⟩ := Option.isSome_iff_exists.mp ht
      rw [htot]
      simp only
      have hlt := walk_lt s.tree _ (WScale.mul r tot) hn' hs
      rw [Array.getElem?_eq_getElem hlt]
      simp

theorem sample_inbounds [WScale α] (ops : List (Op α)) (r : α) :
    ((Pdf.empty : Pdf α).run ops).sample r ≠ .oob :=
  sample_inbounds_of_shape _ r (shape_preserved ops)

example : @Pdf.sample Int intScale (@Pdf.run Int intScale.toWOps Pdf.empty [.add 1, .add 1, .add 1, .remove 1]) 1
    = SampleRes.ok 2 := by decide

/-- the result of `getWeight` is the stored leaf of that element -/
theorem getWeight_reads_leaf (s : Pdf α) (h : Nat) :
    s.getWeight h = (s.idx h).bind (fun i => (row0 s)[i]?) := getWeight_eq s h

/-- [AF] **refinement.**  After any finite operation sequence the structure's per-handle weights
(`getWeight`), handle counter and stored handles are exactly those of the abstract handle → weight
map run on the same sequence; with `handles_exact` (no duplicates) the size is the number of live
handles. -/
theorem refines_assoc [WOps α] (ops : List (Op α)) :
    let s := (Pdf.empty : Pdf α).run ops
    let a := ({} : Abs α).run ops
    (∀ h, s.getWeight h = a.m h) ∧ s.next = a.next ∧ (∀ h, h ∈ s.data ↔ (a.m h).isSome) := by
  intro s a
  have hr : Refines s a := refines_run ops _ _ shapeInv_empty idxSync_empty
    ⟨fun h => by simp [Pdf.getWeight, Pdf.empty], rfl⟩
  have hsh : ShapeInv s := shape_preserved ops
  have hix : IdxSync s := idx_sync_preserved ops
  refine ⟨hr.1, hr.2, fun h => ?_⟩
  rw [← hr.1 h, getWeight_eq, ← (handles_exact ops).2 h]
  cases hi : s.idx h with
  | none => simp
  | some i =>
    have := hix.sync.lt hi
    have hsz := row0_size s hsh
    simp [hsz, this]

example : (@Pdf.run Int intScale.toWOps Pdf.empty [.add 1, .add 2, .remove 0, .update 1 7]).getWeight 1 = some 7 := by
  decide

/-- [AF] **no edit reads or writes outside the structure's storage** (one step): on every state with the tree shape and
synchronised `index_` fields, the CHECKED twin of the operation (`Model/PdfChecked.lean`: every `tree_.front()`,
`row.back()`, `row.pop_back()`, `tree_[row][index]`, `data_[index]`, `tree_.back()[0]/[1]` of PDF.h made explicit, `none`
when one leaves its container) succeeds and computes exactly the guarded operation the other theorems are about.  Holds
for every weight type, so also under floating-point rounding (the driver runs the twins at `Float`). -/
theorem edits_inbounds_of_inv [WOps α] (s : Pdf α) (op : Op α) (hs : ShapeInv s) (hix : IdxSync s) :
    s.stepC op = some (s.step op) := stepC_eq s op hs hix

/-- [AF] … and for every finite sequence of add / update / remove / clear / sample from the empty structure: no access of
any edit leaves the storage (`runC` never yields `none`), and the checked run is the run.  With `sample_inbounds` this is
the clause "no operation reads or writes outside the structure's storage" for all five operations. -/
theorem edits_inbounds [WOps α] (ops : List (Op α)) :
    (Pdf.empty : Pdf α).runC ops = some ((Pdf.empty : Pdf α).run ops) :=
  runC_eq ops _ shapeInv_empty idxSync_empty

example : ((@Pdf.runC Int intScale.toWOps Pdf.empty [.add 1, .add 2, .add 3, .update 1 5, .remove 0, .remove 2]).map
    (fun s => (s.data, s.tree))) = some (#[1], [#[5]]) := by decide

/-- the twins are not vacuous: on a state whose row 1 is one cell short the guarded `update` silently skips the write
(`Array.modify` out of range) while the twin reports the access; likewise `remove` on a tree without its leaf row. -/
example : (@Pdf.updateC Int intScale.toWOps
    { data := #[0, 1, 2], idx := fun h => if h < 3 then some h else none, tree := [#[1, 1, 1], #[2], #[3]], next := 3 } 2 7).isNone
    = true := by decide
example : (@Pdf.removeC Int intScale.toWOps
    { data := #[0, 1, 2], idx := fun h => if h < 3 then some h else none, tree := [#[1, 1, 1], #[], #[3]], next := 3 } 2).isNone
    = true := by decide
example : (@Pdf.addC Int intScale.toWOps
    { data := #[0], idx := fun h => if h < 1 then some h else none, tree := [], next := 1 } 4).isNone
    = true := by decide

/-- [AF] **`getWeight` and `operator[]` stay inside the storage** (item D: `getWeight_reads_leaf` is only the unfolding of
the definition and says nothing about the range).  After every finite operation sequence, for every live handle `h`:
its `index_` is a position of `data_` holding `h`, that position exists in the leaf row, and `getWeight h` is the leaf
there (a value, not the checked read's `none`); and `operator[](i)` is defined exactly for `i < size()`. -/
theorem getWeight_inbounds [WOps α] (ops : List (Op α)) (h i : Nat)
    (hi : ((Pdf.empty : Pdf α).run ops).idx h = some i) :
    ∃ (hd : i < ((Pdf.empty : Pdf α).run ops).data.size) (hr : i < (row0 ((Pdf.empty : Pdf α).run ops)).size),
      ((Pdf.empty : Pdf α).run ops).data[i] = h ∧
      ((Pdf.empty : Pdf α).run ops).getWeight h = some (row0 ((Pdf.empty : Pdf α).run ops))[i] ∧
      ∀ j, (((Pdf.empty : Pdf α).run ops).elemAt j).isSome ↔ j < ((Pdf.empty : Pdf α).run ops).size := by
  have hix : IdxSync ((Pdf.empty : Pdf α).run ops) := idx_sync_preserved ops
  have hsh : ShapeInv ((Pdf.empty : Pdf α).run ops) := shape_preserved ops
  have hd := hix.sync.lt hi
  have hsz := row0_size _ hsh
  refine ⟨hd, by omega, hix.sync.get hi hd, ?_, ?_⟩
  · rw [getWeight_eq, hi]
    simp [hsz, hd]
  · intro j
    simp [Pdf.elemAt, Pdf.size]

example := @getWeight_inbounds Int intScale.toWOps [.add 1, .add 2, .add 3, .remove 0] 2 0 (by decide)

end AF

/-! ## F2: the descent before the fix is index-safe only while parents equal their children's sum -/

/-- a shape-correct, index-synchronised 3-element structure whose single-child parent (row 1, cell 1)
is 2 while its only child is 1 — the kind of state rounding produces (F2). -/
def driftState : Pdf Int :=
  { data := #[0, 1, 2], idx := fun h => if h < 3 then some h else none,
    tree := [#[1, 1, 1], #[2, 2], #[4]], next := 3 }

theorem driftState_shape : ShapeInv driftState := by
  simp [ShapeInv, driftState, sizes, ShapeSizes]

/-- F2 witness: the unfixed descent reads out of range on `sample(1)`; the kernel evaluates the model. -/
theorem sampleOld_oob_of_drift : @Pdf.sampleOld Int intScale driftState 1 = SampleRes.oob := by decide

/-- … while the fixed descent stays on the last element. -/
theorem sample_fixed_on_drift : @Pdf.sample Int intScale driftState 1 = SampleRes.ok 2 := by decide

/-! ## exact-arithmetic part -/
section EX
open Exact

section group
variable {α : Type} [AddCommGroup α] [LinearOrder α]

/-- [EX] every parent cell is the sum of its one or two children, after every finite operation sequence. -/
theorem sum_preserved (ops : List (Op α)) : SumInv ((Pdf.empty : Pdf α).run ops) :=
  (treeInv_run ops _ ⟨shapeInv_empty, sumInv_empty⟩).2

example : SumInv ((Pdf.empty : Pdf ℤ).run [.add 1, .add 2, .add 3, .update 1 5, .remove 0]) := sum_preserved _

end group

section ring
variable {α : Type} [CommRing α] [LinearOrder α] [IsStrictOrderedRing α]

theorem reachable_inv : ∀ (ops : List (Op α)) (s : Pdf α), (∀ op ∈ ops, OpOk op) →
    ShapeInv s → SumInv s → LeavesNonneg s →
    ShapeInv (s.run ops) ∧ SumInv (s.run ops) ∧ LeavesNonneg (s.run ops)
  | [], s, _, h1, h2, h3 => ⟨h1, h2, h3⟩
  | op :: ops, s, hok, h1, h2, h3 => by
    have t := treeInv_step s op ⟨h1, h2⟩
    exact reachable_inv ops (s.step op) (fun o ho => hok o (List.mem_cons_of_mem _ ho)) t.1 t.2
      (leavesNonneg_step s op h1 h3 (hok op List.mem_cons_self))

/-- [EX] **selection rule.**  After any finite sequence of operations with non-negative weights, for
`r ∈ [0,1]` on a non-empty structure `sample r` returns the element at the *least* position `i` whose
prefix sum reaches `r * total` (`total` = sum of all current weights, `pre w k` = sum of the first
`k` weights in element order): `r*total ≤ pre (i+1)` and every `k` with `r*total ≤ pre (k+1)` is `≥ i`. -/
theorem sample_spec (ops : List (Op α)) (hok : ∀ op ∈ ops, OpOk op) (r : α) (h0 : 0 ≤ r) (h1 : r ≤ 1) :
    let s := (Pdf.empty : Pdf α).run ops
    0 < s.data.size →
    ∃ i, ∃ hi : i < s.data.size, s.sample r = .ok s.data[i] ∧
      r * pre (row0 s) s.data.size ≤ pre (row0 s) (i + 1) ∧
      ∀ k, r * pre (row0 s) s.data.size ≤ pre (row0 s) (k + 1) → i ≤ k := by
  intro s hn
  obtain ⟨hsh, hsum, hnn⟩ := reachable_inv ops (Pdf.empty : Pdf α) hok shapeInv_empty sumInv_empty leavesNonneg_empty
  obtain ⟨i, hi, hres, hle, hlt⟩ := sample_interval s r hsh hsum hn h0 h1 hnn
  refine ⟨i, hi, hres, hle, ?_⟩
  intro k hk
  by_contra hki
  have hki : k + 1 ≤ i := by omega
  have := pre_mono (row0 s) hnn (k + 1) i hki
  have := hlt (by omega)
  linarith

example := sample_spec (α := ℚ) [.add 1, .add 0, .add 3] (by simp [OpOk]) (1 / 4) (by norm_num) (by norm_num)

/-- [EX] **an element of zero weight is never drawn** for `0 < r ≤ 1` when the total weight is
positive: the returned handle's current weight is strictly positive. -/
theorem zero_weight_never_drawn (ops : List (Op α)) (hok : ∀ op ∈ ops, OpOk op) (r : α) (h0 : 0 < r)
    (h1 : r ≤ 1) :
    let s := (Pdf.empty : Pdf α).run ops
    0 < pre (row0 s) s.data.size →
    ∃ h w, s.sample r = .ok h ∧ s.getWeight h = some w ∧ 0 < w := by
  intro s htot
  obtain ⟨hsh, hsum, hnn⟩ := reachable_inv ops (Pdf.empty : Pdf α) hok shapeInv_empty sumInv_empty leavesNonneg_empty
  have hix : IdxSync s := idx_sync_preserved ops
  have hn : 0 < s.data.size := by
    rcases Nat.eq_zero_or_pos s.data.size with h | h
    · rw [h] at htot; simp [pre] at htot
    · exact h
  obtain ⟨i, hi, hres, hle, hlt⟩ := sample_interval s r hsh hsum hn (le_of_lt h0) h1 hnn
  have hsz := row0_size s hsh
  have hi' : i < (row0 s).size := by omega
  refine ⟨s.data[i], (row0 s)[i], hres, ?_, ?_⟩
  · rw [getWeight_eq, hix.fwd i hi]
    simp [hi']
  · have hX : 0 < r * pre (row0 s) s.data.size := mul_pos h0 htot
    have hc : cell (row0 s) i = (row0 s)[i] := cell_lt _ _ hi'
    rw [← hc]
    simp only [pre] at hle
    rcases Nat.eq_zero_or_pos i with hz | hp
    · subst hz
      simp only [pre, zero_add] at hle
      linarith
    · have := hlt hp
      linarith

/-- [EX] **the F2 guard changes nothing in exact arithmetic**: after any operation sequence with non-negative weights the
descent before the fix and the guarded descent return the same result for every `r ∈ [0,1]` — the guard only matters once
rounding has broken `SumInv` (so the fix cannot have changed the selection rule). -/
theorem descents_agree_exact (ops : List (Op α)) (hok : ∀ op ∈ ops, OpOk op) (r : α) (h0 : 0 ≤ r) (h1 : r ≤ 1) :
    ((Pdf.empty : Pdf α).run ops).sampleOld r = ((Pdf.empty : Pdf α).run ops).sample r := by
  obtain ⟨hsh, hsum, hnn⟩ := reachable_inv ops (Pdf.empty : Pdf α) hok shapeInv_empty sumInv_empty leavesNonneg_empty
  exact sampleOld_eq_sample _ r hsh hsum hnn h0 h1

example := descents_agree_exact (α := ℚ) [.add 1, .add 0, .add 3, .remove 0] (by simp [OpOk]) (1 / 2) (by norm_num) (by norm_num)

example := zero_weight_never_drawn (α := ℚ) [.add 1, .add 0, .add 3, .update 0 2, .remove 1] (by simp [OpOk]) (1 / 4)
  (by norm_num) (by norm_num)

/-- [EX] **which values of `r` draw which element** (the selection rule as an equivalence).  After any operation sequence
with non-negative weights and positive total weight `T`, for `0 < r ≤ 1` and every position `i`:
`sample r` returns the element at position `i`  ⇔  `prefix i < r·T ≤ prefix (i+1)` — the element's cumulative-weight
interval in the structure's element order (half-open on the left, so adjacent intervals do not overlap and an element of
weight 0 has an empty interval). -/
theorem sample_iff_interval (ops : List (Op α)) (hok : ∀ op ∈ ops, OpOk op) (r : α) (h0 : 0 < r) (h1 : r ≤ 1) :
    let s := (Pdf.empty : Pdf α).run ops
    0 < pre (row0 s) s.data.size →
    ∀ i (hi : i < s.data.size), s.sample r = .ok s.data[i] ↔
      (pre (row0 s) i < r * pre (row0 s) s.data.size ∧ r * pre (row0 s) s.data.size ≤ pre (row0 s) (i + 1)) := by
  intro s htot i hi
  obtain ⟨hsh, hsum, hnn⟩ := reachable_inv ops (Pdf.empty : Pdf α) hok shapeInv_empty sumInv_empty leavesNonneg_empty
  have hix : IdxSync s := idx_sync_preserved ops
  have hn : 0 < s.data.size := by omega
  obtain ⟨j, hj, hres, hle, hlt⟩ := sample_interval s r hsh hsum hn (le_of_lt h0) h1 hnn
  have hX : 0 < r * pre (row0 s) s.data.size := mul_pos h0 htot
  constructor
  · intro hsi
    rw [hres] at hsi
    have e : j = i := hix.inj hj hi (by injection hsi)
    subst e
    refine ⟨?_, hle⟩
    rcases Nat.eq_zero_or_pos j with hz | hp
    · subst hz; simpa [pre] using hX
    · exact hlt hp
  · rintro ⟨ha, hb⟩
    have e : j = i := by
      rcases Nat.lt_trichotomy j i with hji | hji | hji
      · have := pre_mono (row0 s) hnn (j + 1) i hji
        linarith
      · exact hji
      · have := pre_mono (row0 s) hnn (i + 1) j hji
        have := hlt (by omega)
        linarith
    subst e
    exact hres

example := sample_iff_interval (α := ℚ) [.add 1, .add 0, .add 3, .remove 0] (by simp [OpOk]) (1 / 2) (by norm_num) (by norm_num)

end ring

section field
variable {K : Type} [Field K] [LinearOrder K] [IsStrictOrderedRing K]

/-- [EX] **elements are drawn in proportion to their current weights.**  After any operation sequence with non-negative
weights and positive total `T`, the set of sampling values `r ∈ (0,1]` for which `sample` returns the element at position
`i` is exactly the interval `(prefix i / T, prefix (i+1) / T]`; it lies inside `[0,1]` and its length is
`w_i / T` where `w_i` is the element's current weight (`getWeight` of its handle).  So for `r` uniform on `[0,1]` element
`i` is drawn with probability `w_i / T` (see `sample_probability` for the measure-theoretic form over `ℝ`). -/
theorem sample_proportional (ops : List (Op K)) (hok : ∀ op ∈ ops, OpOk op) :
    let s := (Pdf.empty : Pdf K).run ops
    let T := pre (row0 s) s.data.size
    0 < T →
    ∀ i (hi : i < s.data.size),
      {r : K | 0 < r ∧ r ≤ 1 ∧ s.sample r = .ok s.data[i]} = Set.Ioc (pre (row0 s) i / T) (pre (row0 s) (i + 1) / T) ∧
      0 ≤ pre (row0 s) i / T ∧ pre (row0 s) (i + 1) / T ≤ 1 ∧
      ∃ w, s.getWeight s.data[i] = some w ∧ 0 ≤ w ∧ pre (row0 s) (i + 1) / T - pre (row0 s) i / T = w / T := by
  intro s T hT i hi
  obtain ⟨hsh, hsum, hnn⟩ := reachable_inv ops (Pdf.empty : Pdf K) hok shapeInv_empty sumInv_empty leavesNonneg_empty
  have hix : IdxSync s := idx_sync_preserved ops
  have hsz := row0_size s hsh
  have hi' : i < (row0 s).size := by omega
  have hup : pre (row0 s) (i + 1) ≤ T := pre_mono (row0 s) hnn (i + 1) s.data.size (by omega)
  refine ⟨?_, div_nonneg (pre_nonneg _ hnn i) (le_of_lt hT), (div_le_one hT).mpr hup, (row0 s)[i], ?_, ?_, ?_⟩
  · ext r
    simp only [Set.mem_ofPred_eq, Set.mem_Ioc]
    constructor
    · rintro ⟨h0, h1, hs⟩
      have := (sample_iff_interval ops hok r h0 h1 hT i hi).mp hs
      exact ⟨(div_lt_iff₀ hT).mpr this.1, (le_div_iff₀ hT).mpr this.2⟩
    · rintro ⟨ha, hb⟩
      have ha' := (div_lt_iff₀ hT).mp ha
      have hb' := (le_div_iff₀ hT).mp hb
      have h0 : 0 < r := lt_of_le_of_lt (div_nonneg (pre_nonneg _ hnn i) (le_of_lt hT)) ha
      have h1 : r ≤ 1 := le_trans hb ((div_le_one hT).mpr hup)
      exact ⟨h0, h1, (sample_iff_interval ops hok r h0 h1 hT i hi).mpr ⟨ha', hb'⟩⟩
  · rw [getWeight_eq, hix.fwd i hi]
    simp [hi']
  · have := hnn i
    rwa [cell_lt _ _ hi'] at this
  · have hc : cell (row0 s) i = (row0 s)[i] := cell_lt _ _ hi'
    simp only [pre, hc]
    field_simp
    ring

example := sample_proportional (K := ℚ) [.add 1, .add 0, .add 3, .update 0 2, .remove 1] (by simp [OpOk])

end field

section real
open MeasureTheory

/-- [EX] **probability form** over the reals: after any operation sequence with non-negative weights and positive total
`T`, the Lebesgue measure of the set of `r ∈ [0,1]` (endpoints included) for which `sample r` returns the element at
position `i` is `w_i / T`, `w_i` the element's current weight: with `r` drawn uniformly from `[0,1]` (what every caller
does: `rng_.uniform01()`), each element is drawn with probability weight / total, a zero-weight element with probability 0. -/
theorem sample_probability (ops : List (Op ℝ)) (hok : ∀ op ∈ ops, OpOk op) :
    let s := (Pdf.empty : Pdf ℝ).run ops
    let T := pre (row0 s) s.data.size
    0 < T →
    ∀ i (hi : i < s.data.size), ∃ w, s.getWeight s.data[i] = some w ∧
      volume {r : ℝ | 0 ≤ r ∧ r ≤ 1 ∧ s.sample r = .ok s.data[i]} = ENNReal.ofReal (w / T) := by
  intro s T hT i hi
  obtain ⟨hset, _, _, w, hw, _, hlen⟩ := sample_proportional ops hok hT i hi
  refine ⟨w, hw, ?_⟩
  rw [← hlen, ← Real.volume_Ioc, ← hset]
  apply le_antisymm
  · calc volume {r : ℝ | 0 ≤ r ∧ r ≤ 1 ∧ s.sample r = .ok s.data[i]}
        ≤ volume (insert (0 : ℝ) {r : ℝ | 0 < r ∧ r ≤ 1 ∧ s.sample r = .ok s.data[i]}) := by
          apply measure_mono
          intro r hr
          rcases eq_or_lt_of_le hr.1 with h | h
          · exact Or.inl h.symm
          · exact Or.inr ⟨h, hr.2.1, hr.2.2⟩
      _ = volume {r : ℝ | 0 < r ∧ r ≤ 1 ∧ s.sample r = .ok s.data[i]} := by
          exact measure_congr (insert_ae_eq_self 0 _)
  · apply measure_mono
    intro r hr
    exact ⟨le_of_lt hr.1, hr.2.1, hr.2.2⟩

example := sample_probability [.add 1, .add 0, .add 3, .update 0 2, .remove 1] (by simp [OpOk])

end real
end EX
/-! ## the main user of the PDF: `geometric::EST` -/
open OmplModel.EST OmplModel.PlannerReport
open OmplModel.RRT (Chain)

/-- a toy instance for the non-vacuity examples: states are naturals on a line, two states are neighbours when
at most 2 apart, motions of length ≤ 3 that do not touch 7 are valid, goal 9 (threshold 1); integer
weights `wNew k = 60 / (k+1)`, `wUpd w = w - 1` (the theorems hold for any formulas) -/
def estToy : Cfg Nat Int where
  dist a b := (Int.ofNat a - Int.ofNat b).natAbs
  lt a b := decide (a < b)
  le a b := decide (a ≤ b)
  inf := 1000
  radius := 2
  goalBias := 1
  canSample := true
  rejectP _ := 0
  wNew k := 60 / (Int.ofNat k + 1)
  wUpd w := w - 1
  bounds s := decide (s ≤ 20)
  valid s := decide (s ≠ 7)
  checkMotion a b := decide (b ≠ 7 ∧ (Int.ofNat a - Int.ofNat b).natAbs ≤ 3)
  goalDist s := (Int.ofNat s - 9).natAbs
  threshold := 1

def estScript : Script Nat Int :=
  { us := [0, 5, 1, 1, 5, 1, 1, 5, 1, 0], nears := [(true, 5), (true, 6), (false, 0)], goals := [9] }

def estRun (budget : Nat) : Report Nat Int := @solve Nat Int intScale estToy #[4, 30] estScript budget


section EST
variable {S D : Type}

/-- **EST tree invariant**, for every configuration, start set, script (draws, sampler and goal answers) and
interruption point (`budget`): every root is a problem-definition start that satisfies the bounds and is valid;
every other motion's parent was inserted earlier and `checkMotion(parent, child)` returned true. -/
theorem est_tree_inv [WScale D] (cfg : Cfg S D) (starts : Array S) (sc : Script S D) (budget : Nat) :
    TreeInv cfg starts (solve cfg starts sc budget).final.tree := by
  rw [solve_final]
  have hi := initSt_inv cfg starts sc
  split
  · exact hi.1.tree
  · exact (loop_inv cfg starts budget _ hi.1 hi.2).tree

example : TreeInv estToy #[4, 30] (estRun 6).final.tree := @est_tree_inv Nat Int intScale estToy #[4, 30] estScript 6
example : (estRun 6).final.tree.size = 4 := by decide

/-- **The PDF follows the tree** [AF], for every script and interruption point: the PDF holds exactly one
element per tree motion (as many elements as motions, the stored handles are exactly the motion indices,
`index_` fields in sync, tree shape intact) and the weight of motion `i`'s element is the coded formula
for the motion's CURRENT neighbour counts: `wNew` of the neighbours found at insertion, then `wUpd`
once for every later motion that found `i` in its neighbourhood.  (`hw`: `add` never rejects `wNew k`.) -/
theorem est_pdf_sync [WScale D] (cfg : Cfg S D) (hw : ∀ k, WOps.lt (cfg.wNew k) (WOps.zero : D) = false)
    (starts : Array S) (sc : Script S D) (budget : Nat) :
    let st := (solve cfg starts sc budget).final
    st.pdf.data.size = st.tree.size ∧ ShapeInv st.pdf ∧ IdxSync st.pdf ∧
      (∀ h, h ∈ st.pdf.data ↔ h < st.tree.size) ∧
      ∀ i, i < st.tree.size →
        st.pdf.getWeight i = some ((cfg.wUpd)^[later cfg st.tree i] (cfg.wNew (earlier cfg st.tree i))) := by
  intro st
  have h := final_pdfInv cfg hw starts sc budget
  refine ⟨h.p.size, h.p.shape, h.p.idx, fun k => ⟨?_, ?_⟩, h.weight⟩
  · intro hm
    obtain ⟨i, hi, e⟩ := Array.getElem_of_mem hm
    have := h.p.idx.fwd i hi
    rw [e] at this
    rcases Nat.lt_or_ge k st.tree.size with hk | hk
    · exact hk
    · have := h.p.idx.fresh k (by rw [h.p.next]; exact hk)
      simp_all
  · intro hk
    have hwk := h.weight k hk
    rw [getWeight_eq] at hwk
    cases hi : st.pdf.idx k with
    | none => rw [hi] at hwk; simp at hwk
    | some i => exact Array.mem_of_getElem? (h.p.idx.bwd k i hi)

theorem estToy_hw : ∀ k, @WOps.lt Int intScale.toWOps (estToy.wNew k) (@WOps.zero Int intScale.toWOps) = false := by
  intro k
  show decide ((60 : Int) / (Int.ofNat k + 1) < 0) = false
  have : (0 : Int) ≤ 60 / (Int.ofNat k + 1) := Int.ediv_nonneg (by omega) (by have := Int.natCast_nonneg k; simp only [Int.ofNat_eq_natCast]; omega)
  simp only [decide_eq_false_iff_not, Int.not_lt]
  exact this

example := @est_pdf_sync Nat Int intScale estToy estToy_hw #[4, 30] estScript 6
example : (estRun 6).final.pdf.tree = [#[58, 29, 20, 60], #[87, 80], #[167]] ∧ (estRun 6).final.pdf.data = #[0, 1, 2, 3] := by
  decide

/-- [EX] in an ordered field, with the formulas as coded (`1/(k+1)`, `w/(w+1)`), the weight is
`1 / (current number of neighbours + 1)`. -/
theorem est_weight_is_inverse_count {K : Type} [Field K] [LinearOrder K] [IsStrictOrderedRing K]
    (k n : Nat) : (fun w : K => w / (w + 1))^[n] (1 / ((k : K) + 1)) = 1 / (((k + n : Nat) : K) + 1) := by
  induction n with
  | zero => simp
  | succ n ih =>
    rw [Function.iterate_succ_apply', ih]
    have h1 : ((k + n : Nat) : K) + 1 ≠ 0 := by positivity
    have h2 : ((k + (n + 1) : Nat) : K) + 1 ≠ 0 := by positivity
    field_simp
    push_cast
    ring

open Exact in
/-- [EX] **the weight follows the current neighbour count**: over an ordered field, with the formulas as coded,
at every interruption point of every run the PDF weight of motion `i` is `1 / (c + 1)` where `c` is the number of
tree motions currently in a neighbour relation with `i` (found by `i` at its insertion, or that found `i` at theirs). -/
theorem est_weight_follows_count {K : Type} [Field K] [LinearOrder K] [IsStrictOrderedRing K] (cfg : Cfg S K)
    (hnew : cfg.wNew = fun (k : Nat) => 1 / ((k : K) + 1)) (hupd : cfg.wUpd = fun w => w / (w + 1))
    (starts : Array S) (sc : Script S K) (budget : Nat) :
    ∀ i, i < (solve cfg starts sc budget).final.tree.size →
      (solve cfg starts sc budget).final.pdf.getWeight i =
        some (1 / (((earlier cfg (solve cfg starts sc budget).final.tree i +
          later cfg (solve cfg starts sc budget).final.tree i : Nat) : K) + 1)) := by
  intro i hi
  have hw : ∀ k, WOps.lt (cfg.wNew k) (WOps.zero : K) = false := by
    intro k
    rw [hnew]
    show decide ((1 : K) / ((k : K) + 1) < 0) = false
    have : (0 : K) ≤ 1 / ((k : K) + 1) := by positivity
    simp only [decide_eq_false_iff_not, not_lt]
    exact this
  have := (est_pdf_sync cfg hw starts sc budget).2.2.2.2 i hi
  rw [this, hnew, hupd, est_weight_is_inverse_count]

/-- non-vacuity: a configuration over ℚ with the coded formulas (everything is everybody's neighbour) -/
def estRat : Cfg Nat ℚ where
  dist _ _ := 0
  lt a b := decide (a < b)
  le a b := decide (a ≤ b)
  inf := 1000
  radius := 1
  goalBias := 0
  canSample := true
  rejectP _ := 0
  wNew k := 1 / ((k : ℚ) + 1)
  wUpd w := w / (w + 1)
  bounds _ := true
  valid _ := true
  checkMotion _ _ := true
  goalDist _ := 5
  threshold := 1

open Exact in
example := est_weight_follows_count estRat rfl rfl #[1, 2, 3] { us := [0, 1, 1], nears := [(true, 7)] } 1

example : (fun w : ℚ => w / (w + 1))^[3] (1 / ((2 : ℕ) + 1)) = 1 / 6 := by
  rw [est_weight_is_inverse_count 2 3]; norm_num

/-- **The motion `pdf_.sample` selects is a tree motion** [AF]: at every interruption point of every run
with a non-empty tree, for every value `r` whatsoever, `pdf_.sample(r)` never reads out of range, never
finds the PDF empty, and if it returns an element then that element is a motion of the tree (so
`existing` never dangles); for `r` in `[0,1]` it does return one. -/
theorem est_select_is_tree_motion [WScale D] (cfg : Cfg S D)
    (hw : ∀ k, WOps.lt (cfg.wNew k) (WOps.zero : D) = false) (starts : Array S) (sc : Script S D)
    (budget : Nat) (r : D) :
    ∀ st, st = (solve cfg starts sc budget).final →
    0 < st.tree.size →
    st.pdf.sample r ≠ .oob ∧ st.pdf.sample r ≠ .errEmpty ∧
      (∀ h, st.pdf.sample r = .ok h → ∃ nd, st.tree[h]? = some nd) ∧
      ((WOps.lt r (WOps.zero : D) || WOps.lt (WScale.one : D) r) = false → ∃ h, st.pdf.sample r = .ok h) := by
  intro st hst hn
  subst hst
  have h := final_pdfInv cfg hw starts sc budget
  have hsync := est_pdf_sync cfg hw starts sc budget
  have hoob := sample_inbounds_of_shape (solve cfg starts sc budget).final.pdf r h.p.shape
  have hne : (solve cfg starts sc budget).final.pdf.data.size ≠ 0 := by rw [h.p.size]; omega
  have hemp : (solve cfg starts sc budget).final.pdf.sample r ≠ .errEmpty := by
    unfold Pdf.sample
    rw [if_neg hne]
    split
    · simp
    · split
      · simp
      · split <;> simp
  refine ⟨hoob, hemp, ?_, ?_⟩
  · intro k hk
    have := (hsync.2.2.2.1 k).mp (sample_ok_mem _ r k hk)
    exact ⟨(solve cfg starts sc budget).final.tree[k], by simp [this]⟩
  · intro hr
    cases hres : (solve cfg starts sc budget).final.pdf.sample r with
    | ok k => exact ⟨k, rfl⟩
    | errEmpty => exact absurd hres hemp
    | oob => exact absurd hres hoob
    | errRange =>
      unfold Pdf.sample at hres
      rw [if_neg hne, hr] at hres
      simp only [Bool.false_eq_true, if_false] at hres
      split at hres
      · cases hres
      · split at hres <;> cases hres

example := @est_select_is_tree_motion Nat Int intScale estToy estToy_hw #[4, 30] estScript 6 1 _ rfl (by decide)

/-- what a truthful report of EST looks like (the shape of C01's `Real` for RRT) -/
structure EstReal (cfg : Cfg S D) (starts : Array S) (status : Status) (path : List S) (approx : Bool) (dif : D) :
    Prop where
  /-- non-empty, first state is a valid in-bounds start of the problem definition -/
  start : ∃ s0, path.head? = some s0 ∧ ValidStart cfg starts s0
  /-- consecutive states were answered valid by `checkMotion` -/
  edges : Chain (fun a b => cfg.checkMotion a b = true) path
  /-- the reported difference is the goal distance at the last state, and the approximate flag is set
  exactly when the goal is not satisfied there -/
  goal : ∃ last, path.getLast? = some last ∧ dif = cfg.goalDist last ∧
    (approx = false ↔ cfg.lt (cfg.goalDist last) cfg.threshold = true)
  exact : status = .exactSolution ↔ approx = false
  approximate : status = .approximateSolution ↔ approx = true

/-- **EST reports only real solutions** [AF]: for every configuration, start set, script and interruption
point: a solution status means `addSolutionPath` was called with a path that is `EstReal` (starts at a valid
start, every step passed `checkMotion`, difference = goal distance of the last state, approximate flag
truthful); any other status (TIMEOUT, INVALID_START) means it was not called. -/
theorem est_solution_real [WScale D] (cfg : Cfg S D) (starts : Array S) (sc : Script S D) (budget : Nat) :
    ((solve cfg starts sc budget).status.toBool = true →
        ∃ path approx dif, (solve cfg starts sc budget).added = some (path, approx, dif) ∧
          EstReal cfg starts (solve cfg starts sc budget).status path approx dif) ∧
      ((solve cfg starts sc budget).status.toBool = false → (solve cfg starts sc budget).added = none) := by
  unfold solve
  simp only
  split
  · exact ⟨fun h => by simp [Status.toBool] at h, fun _ => rfl⟩
  · have hi := initSt_inv cfg starts sc
    have hinv := loop_inv cfg starts budget _ hi.1 hi.2
    generalize loop cfg budget (initSt cfg starts sc).1 = st at hinv
    split
    · next i hsol =>
      refine ⟨fun _ => ?_, fun h => by simp [ofFlags_toBool] at h⟩
      refine ⟨_, _, _, rfl, ?_⟩
      cases hs : st.solution with
      | some j =>
        simp only [hs, Option.some.injEq] at hsol
        subst hsol
        obtain ⟨nd, h1, h2, h3⟩ := hinv.sol j hs
        obtain ⟨l, e1, e2, e3, e4⟩ := pathTo_spec cfg starts st.tree hinv.tree (j + 1) j nd [] h1 (by omega)
        simp only [List.append_nil] at e1
        rw [e1]
        exact ⟨e2, e3, ⟨nd.state, e4, h3, by simp [h2]⟩, by simp [Status.ofFlags], by simp [Status.ofFlags]⟩
      | none =>
        simp only [hs] at hsol
        obtain ⟨nd, h1, h2, h3⟩ := hinv.approx hs i hsol
        obtain ⟨l, e1, e2, e3, e4⟩ := pathTo_spec cfg starts st.tree hinv.tree (i + 1) i nd [] h1 (by omega)
        simp only [List.append_nil] at e1
        rw [e1]
        exact ⟨e2, e3, ⟨nd.state, e4, h3, by simp [h2]⟩, by simp [Status.ofFlags], by simp [Status.ofFlags]⟩
    · exact ⟨fun h => by simp [ofFlags_toBool] at h, fun _ => rfl⟩

/-- non-vacuity: an exact solution (premise of `est_solution_real` satisfiable), interrupted after two iterations an
approximate one with difference 3 = |9 - 6|, interrupted at once nothing is added (TIMEOUT), without a valid start
INVALID_START. -/
example : (estRun 6).status = .exactSolution ∧ (estRun 6).added = some ([4, 5, 6, 9], false, 0) := by decide
example : (estRun 2).status = .approximateSolution ∧ (estRun 2).added = some ([4, 5, 6], true, 3) := by decide
example : (estRun 0).status = .timeout ∧ (estRun 0).added = none := by decide
example : (@solve Nat Int intScale estToy #[30] estScript 6).status = .invalidStart := by decide

end EST

/-! ## the user that combines the PDF with a grid: `geometric::ProjEST` -/

section ProjEST
open OmplModel.ProjEST
open OmplModel.EST (Node Script)
variable {S D : Type}

/-- a toy instance for the non-vacuity examples: states are naturals on a line, the projection cell of `s` is `s / 3`,
motions of length ≤ 3 ending off 7 are valid, goal 9 (threshold 1); integer weights `wOne = 60`, `wCell n = 60 / n`;
the index draw is `u mod n`. -/
def projToy : ProjEST.Cfg Nat Int where
  coord s := [Int.ofNat (s / 3)]
  lt a b := decide (a < b)
  inf := 1000
  goalBias := 1
  canSample := true
  wOne := 60
  wCell n := 60 / Int.ofNat n
  pickIdx u n := u.toNat % n
  bounds s := decide (s ≤ 20)
  valid s := decide (s ≠ 7)
  checkMotion a b := decide (b ≠ 7 ∧ (Int.ofNat a - Int.ofNat b).natAbs ≤ 3)
  goalDist s := (Int.ofNat s - 9).natAbs
  threshold := 1

def projScript : Script Nat Int :=
  { us := [0, 0, 5, 0, 1, 5, 1, 0, 5, 1, 0, 0], nears := [(true, 5), (true, 6), (false, 0)], goals := [9] }

def projRun (budget : Nat) : ProjEST.Report Nat Int := @ProjEST.solve Nat Int intScale projToy #[4, 30] projScript budget



theorem projToy_hw : @WOps.lt Int intScale.toWOps projToy.wOne (@WOps.zero Int intScale.toWOps) = false := by decide

theorem projToy_pick : ∀ (u : Int) (n : Nat), 0 < n → projToy.pickIdx u n < n := fun u n hn => Nat.mod_lt _ hn


/-- **ProjEST tree invariant** [AF], for every configuration (projection, validity, motion validator, goal, weight
formulas, index draw), start set, script and interruption point: every root is a problem-definition start that
satisfies the bounds and is valid; every other motion's parent was created earlier and `checkMotion(parent, child)`
returned true. -/
theorem projest_tree_inv [WScale D] (cfg : ProjEST.Cfg S D) (starts : Array S) (sc : Script S D) (budget : Nat) :
    ProjEST.TreeInv cfg starts (ProjEST.solve cfg starts sc budget).final.tree :=
  (ProjEST.final_stInv cfg starts sc budget).tree

example : ProjEST.TreeInv projToy #[4, 30] (projRun 6).final.tree :=
  @projest_tree_inv Nat Int intScale projToy #[4, 30] projScript 6
example : (projRun 6).final.tree.size = 4 := by decide

/-- **every motion sits in exactly the cell of its projection coordinate** [AF]: for every motion `i` of the tree there
is a cell `k` and a position `p` with `cells[k].motions[p] = i`, that cell's coordinate is the motion's projection
coordinate and it is the cell the grid returns for that coordinate; `(k, p)` is unique; conversely every entry of every
cell is a tree motion with the cell's coordinate, and no cell is empty. -/
theorem projest_cells_partition [WScale D] (cfg : ProjEST.Cfg S D) (hw : WOps.lt cfg.wOne (WOps.zero : D) = false)
    (starts : Array S) (sc : Script S D) (budget : Nat) :
    ∀ st, st = (ProjEST.solve cfg starts sc budget).final →
      (∀ i, i < st.tree.size → ∃ (k : Nat) (ci : CellInfo) (p : Nat) (nd : Node S),
          st.cells[k]? = some ci ∧ ci.motions[p]? = some i ∧ st.tree[i]? = some nd ∧
          ci.coord = cfg.coord nd.state ∧
          (OmplModel.Grid.getCell st.grid (cfg.coord nd.state)).map (·.id) = some k ∧
          ∀ (k' : Nat) (ci' : CellInfo) (p' : Nat), st.cells[k']? = some ci' → ci'.motions[p']? = some i → k' = k ∧ p' = p) ∧
      (∀ (k : Nat) (ci : CellInfo), st.cells[k]? = some ci → 0 < ci.motions.size ∧
          ∀ (p m : Nat), ci.motions[p]? = some m → ∃ nd, st.tree[m]? = some nd ∧ cfg.coord nd.state = ci.coord) := by
  intro st hst
  subst hst
  have h := ProjEST.final_ginv cfg hw starts sc budget
  refine ⟨?_, fun k ci hk => ⟨h.nonempty k ci hk, fun p m hp => h.mem k ci p m hk hp⟩⟩
  intro i hi
  obtain ⟨k, ci, p, hk, hp⟩ := h.cover i hi
  obtain ⟨nd, hnd, hc⟩ := h.mem k ci p i hk hp
  refine ⟨k, ci, p, nd, hk, hp, hnd, hc.symm, ?_, ?_⟩
  · have hklt : k < (ProjEST.solve cfg starts sc budget).final.grid.length := by
      rw [h.glen]; exact ProjEST.lt_of_getElem?_some _ _ _ hk
    obtain ⟨hid, ci0, hci0, hc0⟩ := h.gcell k _ (List.getElem?_eq_getElem hklt)
    rw [hk] at hci0; cases hci0
    have := (OmplModel.Grid.getCell_eq_some_iff h.gnodup (x := cfg.coord nd.state)).mpr
      ⟨List.getElem_mem hklt, by rw [← hc0, hc]⟩
    rw [this]; simp [hid]
  · intro k' ci' p' hk' hp'
    have := h.uniq k' k ci' ci p' p i hk' hk hp' hp
    exact this

example := @projest_cells_partition Nat Int intScale projToy projToy_hw #[4, 30] projScript 6 _ rfl
example : ((projRun 6).final.cells.toList.map (fun c => (c.coord, c.motions.toList, c.elem))) =
    [([1], [0, 1], 0), ([2], [2], 1), ([3], [3], 2)] := by decide

/-- **The PDF follows the cells** [AF], for every script and interruption point: the PDF holds exactly one element per
grid cell (sizes agree, the stored handles are exactly the cell indices, `index_` fields in sync, tree shape intact);
handle ↔ cell is a bijection through the stored `elem_` back-pointer (`cells[k].elem = k`, and grid cell `k` carries id
`k`); cells are never empty; and the weight of cell `k`'s element is the coded function of the cell's CURRENT motion
count: `wOne` (= `1.0`) for a singleton, `wCell n` (= `1.0 / n`) for `n ≥ 2` motions.  (`hw`: `add` does not reject
`wOne`.) -/
theorem projest_pdf_sync [WScale D] (cfg : ProjEST.Cfg S D) (hw : WOps.lt cfg.wOne (WOps.zero : D) = false)
    (starts : Array S) (sc : Script S D) (budget : Nat) :
    ∀ st, st = (ProjEST.solve cfg starts sc budget).final →
      st.pdf.data.size = st.cells.size ∧ st.grid.length = st.cells.size ∧ ShapeInv st.pdf ∧ IdxSync st.pdf ∧
      (∀ h, h ∈ st.pdf.data ↔ h < st.cells.size) ∧
      (∀ (k : Nat) (gc : OmplModel.Grid.Cell), st.grid[k]? = some gc → gc.id = k) ∧
      ∀ (k : Nat) (ci : CellInfo), st.cells[k]? = some ci →
        ci.elem = k ∧ 0 < ci.motions.size ∧
        st.pdf.getWeight k = some (if ci.motions.size = 1 then cfg.wOne else cfg.wCell ci.motions.size) := by
  intro st hst
  subst hst
  have h := ProjEST.final_ginv cfg hw starts sc budget
  refine ⟨h.p.size, h.glen, h.p.shape, h.p.idx, fun k => ⟨?_, ?_⟩, fun k gc hg => (h.gcell k gc hg).1,
    fun k ci hk => ⟨h.elem k ci hk, h.nonempty k ci hk, h.weight k ci hk⟩⟩
  · intro hm
    obtain ⟨i, hi, e⟩ := Array.getElem_of_mem hm
    have := h.p.idx.fwd i hi
    rw [e] at this
    rcases Nat.lt_or_ge k (ProjEST.solve cfg starts sc budget).final.cells.size with hk | hk
    · exact hk
    · have := h.p.idx.fresh k (by rw [h.p.next]; exact hk)
      simp_all
  · intro hk
    have hci : (ProjEST.solve cfg starts sc budget).final.cells[k]? = some _ := Array.getElem?_eq_getElem hk
    have hwk := h.weight k _ hci
    rw [getWeight_eq] at hwk
    cases hi : (ProjEST.solve cfg starts sc budget).final.pdf.idx k with
    | none => rw [hi] at hwk; simp at hwk
    | some i => exact Array.mem_of_getElem? (h.p.idx.bwd k i hi)

example := @projest_pdf_sync Nat Int intScale projToy projToy_hw #[4, 30] projScript 6 _ rfl
example : (projRun 6).final.pdf.tree = [#[30, 60, 60], #[90, 60], #[150]] ∧ (projRun 6).final.pdf.data = #[0, 1, 2] := by
  decide

open Exact in
/-- [EX] over an ordered field, with the weights as coded (`1`, `1/n`), the weight of every cell's element is
`1 / (current number of motions in the cell)`. -/
theorem projest_weight_is_inverse_count {K : Type} [Field K] [LinearOrder K] [IsStrictOrderedRing K]
    (cfg : ProjEST.Cfg S K) (hone : cfg.wOne = 1) (hcell : cfg.wCell = fun (n : Nat) => 1 / (n : K))
    (starts : Array S) (sc : Script S K) (budget : Nat) (k : Nat) (ci : CellInfo)
    (hk : (ProjEST.solve cfg starts sc budget).final.cells[k]? = some ci) :
    (ProjEST.solve cfg starts sc budget).final.pdf.getWeight k = some (1 / (ci.motions.size : K)) := by
  have hw : WOps.lt cfg.wOne (WOps.zero : K) = false := by
    rw [hone]
    show decide ((1 : K) < 0) = false
    simp
  have := ((projest_pdf_sync cfg hw starts sc budget _ rfl).2.2.2.2.2.2 k ci hk).2.2
  rw [this, hone, hcell]
  split
  · next h1 => rw [h1]; simp
  · rfl

/-- non-vacuity: a configuration over ℚ with the coded weights (one cell for everything) -/
def projRat : ProjEST.Cfg Nat ℚ where
  coord _ := [0]
  lt a b := decide (a < b)
  inf := 1000
  goalBias := 0
  canSample := true
  wOne := 1
  wCell n := 1 / (n : ℚ)
  pickIdx _ _ := 0
  bounds _ := true
  valid _ := true
  checkMotion _ _ := true
  goalDist _ := 5
  threshold := 1

open Exact in
example := projest_weight_is_inverse_count projRat rfl rfl #[1, 2, 3] { us := [0, 0, 1], nears := [(true, 7)] } 1

/-- **The motion `selectMotion` picks is a tree motion** [AF]: at every interruption point of every run with at least
one cell, for every pair of draws: `pdf_.sample` never reads out of range and never finds the PDF empty; the cell it
returns exists and is non-empty (cells are created non-empty and never emptied); if the index draw respects its bounds
(`hpick`, the contract of `uniformInt(0, n-1)`) the index is inside the cell and the motion found is a motion of the
tree — so whenever `selectMotion` returns at all it returns a tree motion, and for `r ∈ [0,1]` it does return. -/
theorem projest_select_is_tree_motion [WScale D] (cfg : ProjEST.Cfg S D)
    (hw : WOps.lt cfg.wOne (WOps.zero : D) = false) (hpick : ∀ u n, 0 < n → cfg.pickIdx u n < n)
    (starts : Array S) (sc : Script S D) (budget : Nat) (r u : D) :
    ∀ st, st = (ProjEST.solve cfg starts sc budget).final → 0 < st.cells.size →
      st.pdf.sample r ≠ .oob ∧ st.pdf.sample r ≠ .errEmpty ∧
      (∀ h, st.pdf.sample r = .ok h → ∃ ci, st.cells[h]? = some ci ∧ 0 < ci.motions.size ∧
        ∃ m nd, ci.motions[cfg.pickIdx u ci.motions.size]? = some m ∧ st.tree[m]? = some nd ∧
          ProjEST.selectMotion cfg st r u = some m) ∧
      ((WOps.lt r (WOps.zero : D) || WOps.lt (WScale.one : D) r) = false →
        ∃ m nd, ProjEST.selectMotion cfg st r u = some m ∧ st.tree[m]? = some nd) := by
  intro st hst hn
  subst hst
  have h := ProjEST.final_ginv cfg hw starts sc budget
  have hsync := projest_pdf_sync cfg hw starts sc budget _ rfl
  have hoob := sample_inbounds_of_shape (ProjEST.solve cfg starts sc budget).final.pdf r h.p.shape
  have hne : (ProjEST.solve cfg starts sc budget).final.pdf.data.size ≠ 0 := by rw [h.p.size]; omega
  have hemp : (ProjEST.solve cfg starts sc budget).final.pdf.sample r ≠ .errEmpty := by
    unfold Pdf.sample
    rw [if_neg hne]
    split
    · simp
    · split
      · simp
      · split <;> simp
  have key : ∀ k, (ProjEST.solve cfg starts sc budget).final.pdf.sample r = .ok k →
      ∃ ci, (ProjEST.solve cfg starts sc budget).final.cells[k]? = some ci ∧ 0 < ci.motions.size ∧
        ∃ m nd, ci.motions[cfg.pickIdx u ci.motions.size]? = some m ∧
          (ProjEST.solve cfg starts sc budget).final.tree[m]? = some nd ∧
          ProjEST.selectMotion cfg (ProjEST.solve cfg starts sc budget).final r u = some m := by
    intro k hk
    have hklt := (hsync.2.2.2.2.1 k).mp (OmplModel.EST.sample_ok_mem _ r k hk)
    have hci : (ProjEST.solve cfg starts sc budget).final.cells[k]? =
        some (ProjEST.solve cfg starts sc budget).final.cells[k] := Array.getElem?_eq_getElem hklt
    have hpos := h.nonempty k _ hci
    have hidx := hpick u _ hpos
    have hm : (ProjEST.solve cfg starts sc budget).final.cells[k].motions[cfg.pickIdx u
        (ProjEST.solve cfg starts sc budget).final.cells[k].motions.size]? = some _ := Array.getElem?_eq_getElem hidx
    obtain ⟨nd, hnd, _⟩ := h.mem k _ _ _ hci hm
    refine ⟨_, hci, hpos, _, nd, hm, hnd, ?_⟩
    unfold ProjEST.selectMotion
    rw [hk]
    simp only [hci]
    rw [if_neg (by omega), hm]
  refine ⟨hoob, hemp, key, ?_⟩
  intro hr
  cases hres : (ProjEST.solve cfg starts sc budget).final.pdf.sample r with
  | ok k =>
    obtain ⟨ci, _, _, m, nd, _, hnd, hsel⟩ := key k hres
    exact ⟨m, nd, hsel, hnd⟩
  | errEmpty => exact absurd hres hemp
  | oob => exact absurd hres hoob
  | errRange =>
    unfold Pdf.sample at hres
    rw [if_neg hne, hr] at hres
    simp only [Bool.false_eq_true, if_false] at hres
    split at hres
    · cases hres
    · split at hres <;> cases hres

example := @projest_select_is_tree_motion Nat Int intScale projToy projToy_hw projToy_pick #[4, 30] projScript 6 1 0 _ rfl
  (by decide)

/-- what a truthful report of ProjEST looks like (as `EstReal`) -/
structure ProjReal (cfg : ProjEST.Cfg S D) (starts : Array S) (status : Status) (path : List S) (approx : Bool)
    (dif : D) : Prop where
  start : ∃ s0, path.head? = some s0 ∧ ProjEST.ValidStart cfg starts s0
  edges : Chain (fun a b => cfg.checkMotion a b = true) path
  goal : ∃ last, path.getLast? = some last ∧ dif = cfg.goalDist last ∧
    (approx = false ↔ cfg.lt (cfg.goalDist last) cfg.threshold = true)
  exact : status = .exactSolution ↔ approx = false
  approximate : status = .approximateSolution ↔ approx = true

/-- **ProjEST reports only real solutions** [AF]: for every configuration, start set, script and interruption point a
solution status means `addSolutionPath` was called with a path that starts at a valid start, whose every step passed
`checkMotion`, with difference = goal distance of the last state and a truthful approximate flag; any other status
(TIMEOUT, INVALID_START) means it was not called. -/
theorem projest_solution_real [WScale D] (cfg : ProjEST.Cfg S D) (starts : Array S) (sc : Script S D) (budget : Nat) :
    ((ProjEST.solve cfg starts sc budget).status.toBool = true →
        ∃ path approx dif, (ProjEST.solve cfg starts sc budget).added = some (path, approx, dif) ∧
          ProjReal cfg starts (ProjEST.solve cfg starts sc budget).status path approx dif) ∧
      ((ProjEST.solve cfg starts sc budget).status.toBool = false → (ProjEST.solve cfg starts sc budget).added = none) := by
  unfold ProjEST.solve
  simp only
  split
  · exact ⟨fun h => by simp [Status.toBool] at h, fun _ => rfl⟩
  · have hi := ProjEST.initSt_inv cfg starts sc
    have hinv := ProjEST.loop_inv cfg starts budget _ hi.1 hi.2
    generalize ProjEST.loop cfg budget (ProjEST.initSt cfg starts sc).1 = st at hinv
    split
    · next i hsol =>
      refine ⟨fun _ => ?_, fun h => by simp [ofFlags_toBool] at h⟩
      refine ⟨_, _, _, rfl, ?_⟩
      cases hs : st.solution with
      | some j =>
        simp only [hs, Option.some.injEq] at hsol
        subst hsol
        obtain ⟨nd, h1, h2, h3⟩ := hinv.sol j hs
        obtain ⟨l, e1, e2, e3, e4⟩ :=
          OmplModel.EST.pathTo_spec (ProjEST.toEST cfg) starts st.tree hinv.tree (j + 1) j nd [] h1 (by omega)
        simp only [List.append_nil] at e1
        rw [e1]
        exact ⟨e2, e3, ⟨nd.state, e4, h3, by simp [h2]⟩, by simp [Status.ofFlags], by simp [Status.ofFlags]⟩
      | none =>
        simp only [hs] at hsol
        obtain ⟨nd, h1, h2, h3⟩ := hinv.approx hs i hsol
        obtain ⟨l, e1, e2, e3, e4⟩ :=
          OmplModel.EST.pathTo_spec (ProjEST.toEST cfg) starts st.tree hinv.tree (i + 1) i nd [] h1 (by omega)
        simp only [List.append_nil] at e1
        rw [e1]
        exact ⟨e2, e3, ⟨nd.state, e4, h3, by simp [h2]⟩, by simp [Status.ofFlags], by simp [Status.ofFlags]⟩
    · exact ⟨fun h => by simp [ofFlags_toBool] at h, fun _ => rfl⟩

/-- non-vacuity: an exact solution, interrupted after two iterations an approximate one (difference 3 = |9 - 6|),
interrupted at once TIMEOUT, without a valid start INVALID_START. -/
example : (projRun 6).status = .exactSolution ∧ (projRun 6).added = some ([4, 5, 6, 9], false, 0) := by decide
example : (projRun 2).status = .approximateSolution ∧ (projRun 2).added = some ([4, 5, 6], true, 3) := by decide
example : (projRun 0).status = .timeout ∧ (projRun 0).added = none := by decide
example : (@ProjEST.solve Nat Int intScale projToy #[30] projScript 6).status = .invalidStart := by decide

end ProjEST

/-! ## the chart PDF of `AtlasStateSpace` (position-addressed weight refresh) -/

section Atlas
open OmplModel.AtlasPdf

/-- **Element `i` of `chartPDF_` is chart `i`** [AF]: for every history of `newChart` calls (any neighbour lists, any bias
values the bias function returned — `add` must not reject them, i.e. no negative bias), after the history the PDF has one
element per chart, the element at position `i` is the one created for chart `i` (so the position-addressed refresh
`update(getElements()[near.second], …)` hits the right element), `index_` fields and tree shape are intact, and element
`i` carries the bias most recently computed for chart `i` (`specRun`: the new chart's bias at creation, overwritten by every
later refresh of that chart). -/
theorem atlas_pdf_index_is_chart_index {α : Type} [WOps α] (cs : List (NewChart α))
    (hb : ∀ c ∈ cs, WOps.lt c.bias (WOps.zero : α) = false) :
    (run (Pdf.empty : Pdf α) cs).data.size = cs.length ∧
      (∀ i, i < cs.length → (run (Pdf.empty : Pdf α) cs).data[i]? = some i) ∧
      ShapeInv (run (Pdf.empty : Pdf α) cs) ∧ IdxSync (run (Pdf.empty : Pdf α) cs) ∧
      (specRun ([] : List α) cs).length = cs.length ∧
      ∀ i, (run (Pdf.empty : Pdf α) cs).getWeight i = (specRun ([] : List α) cs)[i]? := by
  have h := aligned_run cs (Pdf.empty : Pdf α) [] hb aligned_empty
  have hlen : ∀ (cs : List (NewChart α)) (ws : List α), (specRun ws cs).length = ws.length + cs.length := by
    intro cs
    induction cs with
    | nil => intro ws; simp [specRun]
    | cons c rest ih =>
      intro ws
      simp only [specRun, List.foldl_cons] at ih ⊢
      rw [ih]
      have : ∀ (l : List (Nat × α)) (w : List α), (l.foldl (fun w ib => w.set ib.1 ib.2) w).length = w.length := by
        intro l
        induction l with
        | nil => intro w; rfl
        | cons a r ih2 => intro w; simp only [List.foldl_cons]; rw [ih2]; simp
      simp [specStep, this]; omega
  have hl := hlen cs []
  simp only [List.length_nil, Nat.zero_add] at hl
  refine ⟨by rw [h.inv.size, hl], fun i hi => h.pos i (by rw [hl]; exact hi), h.inv.shape, h.inv.idx, hl, h.weight⟩

/-- the history of the seeded change C12-s5 in miniature: chart 0 has bias 0, chart 1 bias 2, chart 2 (bias 1) is created
next to chart 0 whose bias is recomputed (still 0) -/
def atlasHistory : List (NewChart Int) := [⟨[], 0⟩, ⟨[], 2⟩, ⟨[(0, 0)], 1⟩]

example : (@run Int intScale.toWOps Pdf.empty atlasHistory).tree = [#[0, 2, 1], #[2, 1], #[3]] ∧
    (@run Int intScale.toWOps Pdf.empty atlasHistory).data = #[0, 1, 2] := by decide
example := @atlas_pdf_index_is_chart_index Int intScale.toWOps atlasHistory (by decide)

/-- **Skipping an `add` breaks the position addressing** (witness, kernel-evaluated): with "a chart whose bias is not
positive is not added", the same history leaves 2 elements for 3 charts, and the refresh of chart 0 has overwritten the
weight of chart 1's element (2, its bias) with 0 — chart 1 can never be drawn again. -/
theorem atlas_skip_add_breaks :
    (@runSkip Int intScale.toWOps Pdf.empty atlasHistory).data.size = 2 ∧
      (@runSkip Int intScale.toWOps Pdf.empty atlasHistory).tree = [#[0, 1], #[1]] ∧
      (specRun ([] : List Int) atlasHistory) = [0, 2, 1] := by decide

end Atlas

/-! ## the cell-PDF protocol of `geometric::SBL`, `control::EST` (and ProjEST): add / re-weigh / remove per grid cell -/

section CellPdf
open OmplModel.CellPdf

/-- **The cell PDF follows the grid through additions AND removals of motions** [AF].  For every finite history of
`addMotion(coord)` / `removeMotion(coord)` / `clear()` (the PDF part of SBL.cpp `addMotion` / `removeMotion`,
control/EST.cpp `addMotion`), with `net ops c` = the number of motions the history leaves in the cell of coordinate `c`:
* the grid holds a cell for `c` exactly when `net ops c > 0`, and its motion count is `net ops c`;
* that cell's `elem_` is a stored PDF element whose payload is the cell, and its weight is `wCell (net ops c)` — the coded
  `1.0 / cell->data.size()` of the CURRENT size (a new cell's `1.0` is `wCell 1`: hypothesis `hone`, true for `Float` and
  in every field);
* every stored PDF element is the `elem_` of the grid cell its payload names (so elements ↔ non-empty cells is a
  bijection: no element survives its cell, no cell is without element);
* `ShapeInv`, `IdxSync` of the PDF.  (`hw`: `add` does not reject `wOne`.) -/
theorem cellpdf_sync {α : Type} [WOps α] (cfg : CellPdf.Cfg α) (hw : WOps.lt cfg.wOne (WOps.zero : α) = false)
    (hone : cfg.wCell 1 = cfg.wOne) (ops : List COp) :
    let st := CellPdf.run cfg ({} : CellPdf.St α) ops
    ShapeInv st.pdf ∧ IdxSync st.pdf ∧
      (∀ c, (st.cell c).map (·.1) = if net ops c = 0 then none else some (net ops c)) ∧
      (∀ c n e, st.cell c = some (n, e) →
        e ∈ st.pdf.data ∧ st.owner e = some c ∧ st.pdf.getWeight e = some (cfg.wCell (net ops c))) ∧
      (∀ h, h ∈ st.pdf.data → ∃ c n, st.owner h = some c ∧ st.cell c = some (n, h)) := by
  intro st
  obtain ⟨hinv, hcnt⟩ := run_inv cfg hw hone ops ({} : CellPdf.St α) (fun _ => 0) (cinv_empty cfg)
    (fun c => by simp)
  refine ⟨hinv.shape, hinv.idx, hcnt, ?_, ?_⟩
  · intro c n e hc
    obtain ⟨_, hown, hwt⟩ := hinv.fwd c n e hc
    have hn : n = net ops c := by
      have := hcnt c
      rw [hc] at this
      simp only [Option.map_some] at this
      by_cases hz : (List.foldl netStep (fun _ => 0) ops) c = 0
      · simp [hz] at this
      · simp only [hz, if_false, Option.some.injEq] at this
        exact this
    refine ⟨mem_of_gw _ hinv.idx e (by rw [hwt]; rfl), hown, ?_⟩
    rw [hwt, hn]
  · intro h hm
    exact hinv.bwd h (gw_of_mem _ hinv.shape hinv.idx h hm)

/-- **… and no PDF edit of the protocol leaves the storage** [AF]: the same history run through the checked twins of
`add` / `update` / `remove` never yields `none`. -/
theorem cellpdf_inbounds {α : Type} [WOps α] (cfg : CellPdf.Cfg α) (hw : WOps.lt cfg.wOne (WOps.zero : α) = false)
    (hone : cfg.wCell 1 = cfg.wOne) (ops : List COp) :
    CellPdf.runC cfg ({} : CellPdf.St α) ops = some (CellPdf.run cfg ({} : CellPdf.St α) ops) :=
  CellPdf.runC_eq cfg hw hone ops _ (cinv_empty cfg)

/-- non-vacuity (kernel-evaluated, integer weights `60 / n`): three motions in cell (0), one in (1), one in (2); then
(1) is emptied (its element is removed: the last element moves into its slot) and (0) loses one motion. -/
def cellToy : CellPdf.Cfg Int := { wOne := 60, wCell := fun n => 60 / Int.ofNat n }

def cellHistory : List COp := [.add [0], .add [1], .add [0], .add [2], .add [0], .remove [1], .remove [0], .remove [7]]

example : (@CellPdf.run Int intScale.toWOps cellToy {} cellHistory).pdf.tree = [#[30, 60], #[90]] ∧
    (@CellPdf.run Int intScale.toWOps cellToy {} cellHistory).pdf.data = #[0, 2] ∧
    (@CellPdf.run Int intScale.toWOps cellToy {} cellHistory).cell [0] = some (2, 0) ∧
    (@CellPdf.run Int intScale.toWOps cellToy {} cellHistory).cell [1] = none ∧
    (@CellPdf.run Int intScale.toWOps cellToy {} cellHistory).cell [2] = some (1, 2) ∧
    net cellHistory [0] = 2 ∧ net cellHistory [1] = 0 := by decide
example := @cellpdf_sync Int intScale.toWOps cellToy (by decide) (by decide) cellHistory
example := @cellpdf_inbounds Int intScale.toWOps cellToy (by decide) (by decide) cellHistory

end CellPdf

/-! ## the two-vector constructor and the "`tree_` empty iff `data_` empty" invariant -/

section Ctor
open OmplModel.CellPdf (tree_nil_iff ofWeights_spec)
variable {α : Type}

/-- [AF] **`tree_` is empty exactly when `data_` is, and no tree row is ever empty**, after every finite sequence of
add / update / remove / clear / sample.  (Every operation branches on one of the two and indexes the other: a bulk
constructor that leaves a leaf row for no elements, or a `remove` that leaves empty rows after a full drain — the seeded
changes C12-s6 / C12-s7 — break exactly this.) -/
theorem storage_empty_iff [WOps α] (ops : List (Op α)) :
    (((Pdf.empty : Pdf α).run ops).tree = [] ↔ ((Pdf.empty : Pdf α).run ops).data.size = 0) ∧
      ∀ r ∈ ((Pdf.empty : Pdf α).run ops).tree, 0 < r.size :=
  tree_nil_iff _ (shape_preserved ops)

example : (@Pdf.run Int intScale.toWOps Pdf.empty [.add 1, .add 2, .remove 0, .remove 1]).tree = [] := by decide

/-- [AF] **the constructor `PDF(data, weights)` is `add` in a loop on the empty structure** — so everything proved "after
every operation sequence" holds for a constructed object and for every history continued on it (the driver's `ctor`
replaces the object under test by `Pdf.ofWeights`). -/
theorem ctor_is_adds [WOps α] (ws : List α) :
    Pdf.ofWeights ws = (Pdf.empty : Pdf α).run (ws.map Op.add) := by
  unfold Pdf.ofWeights Pdf.run
  rw [List.foldl_map]
  rfl

/-- [AF] **what a constructed PDF holds** (any rewrite of the constructor must preserve this): for weights none of which
`add` rejects, `PDF(data, weights)` has exactly `n` elements, element `i` at position `i` with `getWeight = weights[i]`,
`ShapeInv`, `IdxSync`, and `tree_` is empty iff the input is (in particular: NO rows for empty input, one one-cell row
for a single element). -/
theorem ctor_spec [WOps α] (ws : List α) (hnn : ∀ w ∈ ws, WOps.lt w (WOps.zero : α) = false) :
    ShapeInv (Pdf.ofWeights ws) ∧ IdxSync (Pdf.ofWeights ws) ∧ (Pdf.ofWeights ws).data.size = ws.length ∧
      (Pdf.ofWeights ws).next = ws.length ∧ ((Pdf.ofWeights ws).tree = [] ↔ ws = []) ∧
      ∀ i, i < ws.length → (Pdf.ofWeights ws).data[i]? = some i ∧ (Pdf.ofWeights ws).getWeight i = ws[i]? := by
  have h := ofWeights_spec ws hnn
  refine ⟨h.shape, h.idx, h.size, h.next, ?_, fun i hi => ⟨h.pos i hi, h.weight i hi⟩⟩
  rw [(tree_nil_iff _ h.shape).1, h.size]
  exact List.length_eq_zero_iff

example : (@Pdf.ofWeights Int intScale.toWOps []).tree = [] ∧ (@Pdf.ofWeights Int intScale.toWOps [7]).tree = [#[7]] ∧
    (@Pdf.ofWeights Int intScale.toWOps [1, 2, 3]).tree = [#[1, 2, 3], #[3, 3], #[6]] := by decide
example := @ctor_spec Int intScale.toWOps [1, 0, 3] (by decide)

end Ctor

/-! ## `Syclop::RegionSet`: the counting PDF (insert = `add(r, 1)` or `update(elem, getWeight(elem) + 1)`) -/

section RegionSet
open OmplModel.CellPdf Exact
variable {K : Type} [CommRing K] [LinearOrder K] [IsStrictOrderedRing K]

/-- the cell-PDF protocol read as `RegionSet`: the "cell" of region `r` is `[r]`, a new region enters with weight `1`, a
region with `n` insertions carries `n` -/
def regionCfg (K : Type) [CommRing K] : CellPdf.Cfg K := { wOne := 1, wCell := fun n => (n : K) }

/-- [EX] **`RegionSet` counts insertions**: after any history of `insert` / `clear` (cell-PDF histories; `net ops c` =
insertions of region `c` since the last `clear`), every known region's element carries the weight `net ops c`, and the
protocol model's next step for that region IS the coded `regions.update(elem, regions.getWeight(elem) + 1)` — so a
region is sampled with probability (its insertions) / (all insertions) (`sample_probability` applies to this PDF). -/
theorem regionset_sync (ops : List COp) :
    ∀ c n e, (CellPdf.run (regionCfg K) ({} : CellPdf.St K) ops).cell c = some (n, e) →
      (CellPdf.run (regionCfg K) ({} : CellPdf.St K) ops).pdf.getWeight e = some ((net ops c : ℕ) : K) ∧
      ∀ w, (CellPdf.run (regionCfg K) ({} : CellPdf.St K) ops).pdf.getWeight e = some w →
        (CellPdf.addMotion (regionCfg K) (CellPdf.run (regionCfg K) ({} : CellPdf.St K) ops) c).pdf =
          (CellPdf.run (regionCfg K) ({} : CellPdf.St K) ops).pdf.update e (w + 1) := by
  intro c n e hc
  have hw : WOps.lt (regionCfg K).wOne (WOps.zero : K) = false := by
    show decide ((1 : K) < 0) = false
    simp
  have hone : (regionCfg K).wCell 1 = (regionCfg K).wOne := by simp [regionCfg]
  obtain ⟨_, _, hcnt, hf, _⟩ := cellpdf_sync (regionCfg K) hw hone ops
  have hwt := (hf c n e hc).2.2
  have hn : n = net ops c := by
    have := hcnt c
    rw [hc] at this
    simp only [Option.map_some] at this
    by_cases hz : net ops c = 0
    · simp [hz] at this
    · simp only [hz, if_false, Option.some.injEq] at this
      exact this
  refine ⟨hwt, fun w hw' => ?_⟩
  rw [hwt] at hw'
  have hwv : w = ((net ops c : ℕ) : K) := (Option.some.inj hw').symm
  unfold CellPdf.addMotion
  rw [hc]
  simp only [regionCfg, hn, hwv]
  push_cast
  rfl

example : (@CellPdf.run Int intScale.toWOps { wOne := 1, wCell := fun n => Int.ofNat n } {}
    [.add [3], .add [5], .add [3], .add [3], .clear, .add [5], .add [5]]).pdf.tree = [#[2]] := by decide
example := regionset_sync (K := ℚ) [.add [3], .add [5], .add [3]] [3] 2 0 (by decide)

end RegionSet

end OmplModel.Props.C12
