import OmplModel.Proofs.Oracle
import OmplModel.Proofs.PlannerReport
import OmplModel.Proofs.RRT
import OmplModel.Proofs.RRTHistory
import OmplModel.Proofs.GoalStates
import OmplModel.Proofs.RRTConnectHistory
import OmplModel.Proofs.RRTConnect
import OmplModel.Proofs.RRTReal
import OmplModel.Proofs.LazyPRM
import OmplModel.Proofs.LazyPRMComp
import OmplModel.Proofs.LazyPRMFuel
/-!
# C01 — geometric planners only report solution paths that are real

Property theorems, in three layers (DESIGN 2.1).  All are arithmetic-free: they use no law of the
number type, so they hold for the `Float` instantiation the lock-step driver runs.

* **L0, the reporting layer every planner shares** (`Model/PlannerReport.lean`): status truth table,
  `PlannerInputStates::nextStart/nextGoal`, `PathGeometric::check`, `addSolutionPath`.
* **L1, planners as oracle machines** (`Model/Oracle.lean`): what a transcript of validity queries
  can and cannot vouch for.  These are statements about *every* computation `Comp Q A Out`, i.e.
  about every planner; which runs obey the discipline is observed per run by `checks/c01.py`.
* **L2, `geometric::RRT::solve`** (`Model/RRT.lean`): for EVERY script of draws (= every seed and
  every interruption point), EVERY validity predicate / motion validator / goal / threshold / range
  (`Cfg` is universally quantified), the tree invariant and the truth of the report.

Planners other than RRT have no model here: for them the property is checked on the runs explored.
-/
namespace OmplModel.Props.C01
open OmplModel.Oracle OmplModel.PlannerReport OmplModel.RRT

variable {S P D Q A Out : Type}

/-! ## L0 -/

/-- **Status truth table**: the `bool` cast is true iff the status is a solution status; the
`(solved, approximate)` constructor of the planners' epilogues yields EXACT iff solved ∧ ¬approximate,
APPROXIMATE iff solved ∧ approximate, TIMEOUT iff ¬solved. -/
theorem status_ofFlags (solved approximate : Bool) :
    (Status.ofFlags solved approximate).toBool = solved ∧
      (Status.ofFlags solved approximate = .exactSolution ↔ (solved = true ∧ approximate = false)) ∧
      (Status.ofFlags solved approximate = .approximateSolution ↔ (solved = true ∧ approximate = true)) ∧
      (Status.ofFlags solved approximate = .timeout ↔ solved = false) ∧
      ∀ st : Status, st.toBool = true ↔ (st = .approximateSolution ∨ st = .exactSolution) :=
  ⟨ofFlags_toBool _ _, ofFlags_exact _ _, ofFlags_approx _ _, ofFlags_timeout _ _, toBool_iff⟩

example : (Status.ofFlags true true).toBool = true ∧ Status.invalidStart.toBool = false := by decide

/-- **`nextStart` hands out only filtered problem-definition starts**: the state returned is
`starts[i]`, it satisfies the bounds and is valid, every start skipped on the way failed the filter,
and the counter moves past `i` (so the next call can only return a larger index). -/
theorem nextStart_valid (bounds valid : S → Bool) (starts : Array S) (pis pis' : Pis) (i : Nat) (s : S)
    (h : nextStart bounds valid starts pis = (some (i, s), pis')) :
    ∃ hi : i < starts.size, starts[i] = s ∧ bounds s = true ∧ valid s = true ∧
      pis.addedStartStates ≤ i ∧ pis'.addedStartStates = i + 1 ∧
      ∀ j (hj : j < starts.size), pis.addedStartStates ≤ j → j < i → inputOk bounds valid starts[j] = false := by
  obtain ⟨hi, h1, h2, h3, h4, h5, _, h7⟩ := nextStart_some bounds valid starts pis pis' i s h
  exact ⟨hi, h1, h2, h3, h4, h5, h7⟩

/-- **Each start index at most once between clears**: the `while (st = pis_.nextStart())` loop hands out
strictly increasing indices, each a filtered start; it stops only when every start has been looked at,
and no start that passes the filter is left out. -/
theorem starts_handed_out_once (bounds valid : S → Bool) (starts : Array S) :
    let r := drainStarts bounds valid starts (starts.size + 1) {}
    r.1.Pairwise (fun a b => a.1 < b.1) ∧
      (∀ x ∈ r.1, ∃ hi : x.1 < starts.size, starts[x.1] = x.2 ∧ bounds x.2 = true ∧ valid x.2 = true) ∧
      r.2.addedStartStates = starts.size ∧
      ∀ j (hj : j < starts.size), inputOk bounds valid starts[j] = true → ∃ x ∈ r.1, x.1 = j := by
  have h1 := drainStarts_spec bounds valid starts (starts.size + 1) {}
  have h2 := drainStarts_exhausts bounds valid starts (starts.size + 1) {} (by simp) (by simp)
  refine ⟨h1.2, ?_, h2.1, fun j hj hok => h2.2 j hj (Nat.zero_le _) hok⟩
  intro x hx
  obtain ⟨hi, a, b, c, _⟩ := h1.1 x hx
  exact ⟨hi, a, b, c⟩

example : (drainStarts (fun s => decide (s ≤ 20)) (fun s => decide (s ≠ 5)) #[30, 5, 0, 7] 5 {}).1
    = [(2, 0), (3, 7)] := by decide

/-- **`nextGoal` hands out only filtered goal samples**, never more than `maxSampleCount()` of them. -/
theorem nextGoal_valid (bounds valid : S → Bool) (sample : Nat → S) (maxCount : Nat) (ptcScript : List Bool)
    (pis pis' : Pis) (k : Nat) (s : S)
    (h : nextGoal bounds valid sample maxCount ptcScript pis = (some (k, s), pis')) :
    s = sample k ∧ bounds s = true ∧ valid s = true ∧ pis.sampledGoalsCount ≤ k ∧
      k < pis'.sampledGoalsCount ∧ k < maxCount :=
  let ⟨a, b, c, d, e, g, _⟩ := PlannerReport.nextGoal_valid bounds valid sample maxCount ptcScript pis pis' k s h
  ⟨a, b, c, d, e, g⟩

example : (nextGoal (fun s => decide (s ≤ 20)) (fun s => decide (s ≠ 5)) (fun k => 4 + k) 3 [false, false] {}).1
    = some (0, 4) ∧
    (nextGoal (fun s => decide (s ≤ 20)) (fun s => decide (s ≠ 5)) (fun k => 5 + 20 * k) 3 [false, false] {}).1
    = none := by decide

/-- **`PathGeometric::check`** is true iff the first state is valid and every consecutive pair passes
`checkMotion` (an empty path passes). -/
theorem check_iff (valid : S → Bool) (checkMotion : S → S → Bool) (p : List S) :
    pathCheck valid checkMotion p = true ↔
      (∀ h : 0 < p.length, valid p[0] = true) ∧
        (∀ i (h : i + 1 < p.length), checkMotion p[i] p[i + 1] = true) :=
  pathCheck_iff valid checkMotion p

example : pathCheck (fun s : Nat => decide (s ≠ 5)) (fun _ b => decide (b ≠ 5)) [0, 2, 4] = true ∧
    pathCheck (fun s : Nat => decide (s ≠ 5)) (fun _ b => decide (b ≠ 5)) [0, 5, 4] = false := by decide

/-- **`GoalRegion::isSatisfied`** reports the goal distance and compares it strictly with the threshold. -/
theorem isSatisfied_spec (distanceGoal : S → D) (lt : D → D → Bool) (thr : D) (s : S) :
    (isSatisfied distanceGoal lt thr s).2 = distanceGoal s ∧
      ((isSatisfied distanceGoal lt thr s).1 = true ↔ lt (distanceGoal s) thr = true) :=
  ⟨rfl, Iff.rfl⟩

/-- **`addSolutionPath` bookkeeping**: exactly one more solution, the starts untouched; on a problem
definition without solutions the approximate flag is the one passed and the difference is the one passed
(for an approximate solution; an exact one keeps the default 0). -/
theorem addSolutionPath_registers (zero minusOne : D) (lt : D → D → Bool) (better : P → P → Bool)
    (pd : Pdef S P D) (path : P) (a : Bool) (d : D) :
    getSolutionCount (addSolutionPath zero pd path a d) = getSolutionCount pd + 1 ∧
      (addSolutionPath zero pd path a d).starts = pd.starts ∧
      (pd.solutions = [] →
        hasApproximateSolution lt better (addSolutionPath zero pd path a d) = a ∧
        getSolutionDifference lt better minusOne (addSolutionPath zero pd path a d) = (if a then d else zero)) :=
  ⟨addSolutionPath_count _ _ _ _ _, rfl, fun h => addSolutionPath_fresh zero minusOne lt better pd h path a d⟩

/-- **The approximate-solution bookkeeping the tree planners share** (`approxdif`, `approxsol`, the epilogue with
`addSolutionPath(path, approximate, approxdif, name)` and `return {solved, approximate}`), for every sequence of motions
tested against the goal, every goal distance, comparison and threshold: a solution status reports a motion that was
tested, with the difference equal to its goal distance, flagged approximate exactly when it does not satisfy the goal
(and then nothing tested satisfied the goal), status EXACT iff not approximate; otherwise TIMEOUT and nothing reported. -/
theorem approx_bookkeeping_real {M : Type} (goalDist : M → D) (lt : D → D → Bool) (threshold inf : D) (ms : List M) :
    let r := (ms.foldl (fun t m => t.observe goalDist lt threshold m) (⟨none, none, inf⟩ : Tracker M D)).finish
    (r.2.toBool = true → ∃ m approx dif, r.1 = some (m, approx, dif) ∧ m ∈ ms ∧ dif = goalDist m ∧
        (approx = false ↔ lt (goalDist m) threshold = true) ∧
        (approx = true → ∀ x ∈ ms, lt (goalDist x) threshold = false) ∧
        (r.2 = .exactSolution ↔ approx = false) ∧ (r.2 = .approximateSolution ↔ approx = true)) ∧
      (r.2.toBool = false → r.1 = none ∧ r.2 = .timeout) := by
  have hinv := tracker_run_inv goalDist lt threshold inf ms
  generalize ms.foldl (fun t m => t.observe goalDist lt threshold m) (⟨none, none, inf⟩ : Tracker M D) = t at hinv
  simp only [Tracker.finish]
  split
  · next m hm =>
    obtain ⟨a, b, c⟩ := hinv.sol m hm
    exact ⟨fun _ => ⟨m, false, t.approxdif, rfl, a, c, by simp [b], by simp, by simp [Status.ofFlags], by simp [Status.ofFlags]⟩,
      fun h => by simp [Status.ofFlags, Status.toBool] at h⟩
  · next hnone =>
    split
    · next m hm =>
      obtain ⟨a, b, c⟩ := hinv.approx hnone m hm
      exact ⟨fun _ => ⟨m, true, t.approxdif, rfl, a, c, by simp [b], fun _ => hinv.none_sat hnone,
        by simp [Status.ofFlags], by simp [Status.ofFlags]⟩, fun h => by simp [Status.ofFlags, Status.toBool] at h⟩
    · exact ⟨fun h => by simp [Status.ofFlags, Status.toBool] at h, fun _ => ⟨rfl, rfl⟩⟩

example : ((([1, 9, 4] : List Nat).foldl (fun t m => t.observe (fun m => if m < 6 then 6 - m else m - 6) (fun a b => decide (a < b)) 1 m)
    (⟨none, none, 1000⟩ : Tracker Nat Nat)).finish) = (some (4, true, 2), .approximateSolution) := by decide
example : ((([1, 6, 4] : List Nat).foldl (fun t m => t.observe (fun m => if m < 6 then 6 - m else m - 6) (fun a b => decide (a < b)) 1 m)
    (⟨none, none, 1000⟩ : Tracker Nat Nat)).finish) = (some (6, false, 0), .exactSolution) := by decide

/-! ## L1: planners as oracle machines -/

/-- environments that agree on the questions a run asked give the same transcript and output -/
theorem run_congr (e1 e2 : Q → A) (c : Comp Q A Out) (h : ∀ q ∈ asked e1 c, e2 q = e1 q) :
    run e2 c = run e1 c := Oracle.run_congr e1 e2 c h

/-- changing the answer to a question that was never asked changes nothing -/
theorem unasked_flip [DecidableEq Q] (env : Q → A) (c : Comp Q A Out) (q0 : Q) (a0 : A)
    (h : q0 ∉ asked env c) : run (flip env q0 a0) c = run env c := Oracle.unasked_flip env c q0 a0 h

/-- **Necessity of the discipline**: if a run never asked about any point of the stretch `S`, then in
the environment that differs from the original exactly on `S` (answering `bad` there) the same
computation yields the SAME transcript and the SAME output.  No planner can guarantee the validity of
stretches it did not query. -/
theorem undisciplined_refutable (S : Q → Bool) (bad : A) (env : Q → A) (c : Comp Q A Out)
    (h : ∀ q ∈ asked env c, S q = false) :
    run (blockOn S bad env) c = run env c ∧
      (∀ q, S q = true → blockOn S bad env q = bad) ∧
      (∀ q, S q = false → blockOn S bad env q = env q) := Oracle.undisciplined_refutable S bad env c h

/-- the same along an edge's curve `γ`: an unqueried stretch `I` of curve parameters (abstractly `Long`)
can be made entirely invalid without changing the run (the unobserved-gap attack of the check). -/
theorem undisciplined_refutable_curve {ι : Type} (γ : ι → Q) (Long : (ι → Prop) → Prop)
    (env : Q → Bool) (c : Comp Q Bool Out)
    (h : ∃ I : ι → Prop, Long I ∧ ∀ t, I t → γ t ∉ asked env c) :
    ∃ env' : Q → Bool, run env' c = run env c ∧ ∃ I : ι → Prop, Long I ∧ ∀ t, I t → env' (γ t) = false :=
  Oracle.undisciplined_refutable_curve γ Long env c h

/-- **Sufficiency, strict form**: every state the transcript answered valid is valid in the run's
environment, and every reported edge whose subdivision points `j/n` (and end state) were all answered
valid passes the model `checkMotion` again. -/
theorem checked_points_valid (env : Q → Bool) (c : Comp Q Bool Out) :
    (∀ q, (q, true) ∈ (run env c).1 → env q = true) ∧
      ∀ (interp : Q → Q → Nat → Nat → Q) (segCount : Q → Q → Nat) (a b : Q),
        (∀ p ∈ motionPoints interp segCount a b, (p, true) ∈ (run env c).1) →
          Oracle.checkMotion env interp segCount a b = true :=
  ⟨fun q h => Oracle.checked_points_valid env c q h,
   fun interp segCount a b h => checked_motion_passes env c interp segCount a b h⟩

/-- **Sufficiency, gap form**: if the indices answered valid along an edge are dense (consecutive ones
`near`, i.e. at most `g` apart in curve length — an abstract relation, monotone under shrinking), then
every all-invalid stretch `[x, y]` of the edge's indexed points is `near`: no invalid stretch longer
than `g` among the points the environment is evaluated at. -/
theorem discipline_sound (env : Q → Bool) (c : Comp Q Bool Out) (pt : Nat → Q)
    (near : Nat → Nat → Prop)
    (hmono : ∀ a b a' b', near a b → a ≤ a' → b' ≤ b → near a' b')
    (cs : List Nat) (c0 : Nat) (hd : Dense near (c0 :: cs))
    (hvalid : ∀ i ∈ c0 :: cs, (pt i, true) ∈ (run env c).1)
    (x y : Nat) (hx : c0 ≤ x) (hxy : x ≤ y) (hy : y ≤ (c0 :: cs).getLast (by simp))
    (hinv : ∀ i, x ≤ i → i ≤ y → env (pt i) = false) : near x y :=
  Oracle.discipline_sound env c pt near hmono cs c0 hd hvalid x y hx hxy hy hinv

/-- a two-question computation for the examples: ask 1, then ask 2 or 3 depending on the answer -/
def demo : Comp Nat Bool Nat := .ask 1 (fun a => if a then .ask 2 (fun b => .done (if b then 7 else 8)) else .ask 3 (fun _ => .done 9))

example : run (fun _ => true) demo = ([(1, true), (2, true)], 7) := by decide
/-- question 3 was never asked under the all-true environment: flipping it changes nothing -/
example : run (flip (fun _ => true) 3 false) demo = run (fun _ => true) demo := by decide
/-- … whereas flipping an asked question does change the run -/
example : run (flip (fun _ => true) 2 false) demo ≠ run (fun _ => true) demo := by decide

/-! ## L2: RRT -/

/-- **Tree invariant**, for every configuration, start set and script (hence every number of
iterations): every root is a problem-definition start that satisfies the bounds and is valid; every
other node's parent was inserted earlier and the (parent, child) edge is justified (`Link`):
`checkMotion(parent, child)` returned true, or — only with intermediate states — the two are consecutive
`getMotionStates` points of a motion for which `checkMotion` returned true. -/
theorem rrt_tree_inv (cfg : Cfg S D) (starts : Array S) (script : List (Draw S)) :
    TreeInv cfg starts (solve cfg starts script).tree := by
  unfold solve
  simp only
  split
  · exact (initTree_inv cfg starts).1
  · have := (loop_inv cfg starts script ⟨(initTree cfg starts).1, none, none, cfg.inf⟩
      ⟨(initTree_inv cfg starts).1, fun i h => by simp at h, fun _ i h => by simp at h⟩).tree
    split <;> exact this

/-- without intermediate states every (parent, child) edge of the tree was answered `true` by
`checkMotion` -/
theorem rrt_tree_edges_checked (cfg : Cfg S D) (hni : cfg.addIntermediate = false) (starts : Array S)
    (script : List (Draw S)) (i : Nat) (nd : Node S) (p : Nat)
    (h : (solve cfg starts script).tree[i]? = some nd) (hp : nd.parent = some p) :
    p < i ∧ ∃ np, (solve cfg starts script).tree[p]? = some np ∧ cfg.checkMotion np.state nd.state = true := by
  have := rrt_tree_inv cfg starts script i nd h
  simp only [hp] at this
  obtain ⟨h1, np, h2, h3⟩ := this
  exact ⟨h1, np, h2, link_strict cfg hni _ _ h3⟩

/-- what a truthful report looks like -/
structure Real (cfg : Cfg S D) (starts : Array S) (status : Status) (path : List S) (approx : Bool) (dif : D) :
    Prop where
  /-- non-empty, first state is a valid in-bounds start of the problem definition -/
  start : ∃ s0, path.head? = some s0 ∧ ValidStart cfg starts s0
  /-- consecutive states are justified tree edges -/
  edges : Chain (Link cfg) path
  /-- the reported difference is the goal distance at the last state, and the approximate flag is set
  exactly when the goal is not satisfied there -/
  goal : ∃ last, path.getLast? = some last ∧ dif = cfg.goalDist last ∧
    (approx = false ↔ cfg.lt (cfg.goalDist last) cfg.threshold = true)
  exact : status = .exactSolution ↔ approx = false
  approximate : status = .approximateSolution ↔ approx = true

/-- **RRT reports only real solutions**: for every configuration (validity predicate, motion validator,
goal, threshold, range, intermediate-state flag), start set and script (seed, interruption point):
a solution status means `addSolutionPath` was called with a path that is `Real`; any other status
(TIMEOUT, INVALID_START) means it was not called. -/
theorem rrt_solution_real (cfg : Cfg S D) (starts : Array S) (script : List (Draw S)) :
    ((solve cfg starts script).status.toBool = true →
        ∃ path approx dif, (solve cfg starts script).added = some (path, approx, dif) ∧
          Real cfg starts (solve cfg starts script).status path approx dif) ∧
      ((solve cfg starts script).status.toBool = false → (solve cfg starts script).added = none) := by
  unfold solve
  simp only
  split
  · exact ⟨fun h => by simp [Status.toBool] at h, fun _ => rfl⟩
  · have hinv := loop_inv cfg starts script ⟨(initTree cfg starts).1, none, none, cfg.inf⟩
      ⟨(initTree_inv cfg starts).1, fun i h => by simp at h, fun _ i h => by simp at h⟩
    generalize (loop cfg ⟨(initTree cfg starts).1, none, none, cfg.inf⟩ script) = r at hinv
    split
    · next i hsol =>
      refine ⟨fun _ => ?_, fun h => by simp [ofFlags_toBool] at h⟩
      refine ⟨_, _, _, rfl, ?_⟩
      cases hs : r.1.solution with
      | some j =>
        simp only [hs, Option.some.injEq] at hsol
        subst hsol
        obtain ⟨nd, h1, h2, h3⟩ := hinv.sol j hs
        obtain ⟨l, e1, e2, e3, e4⟩ := pathTo_spec cfg starts r.1.tree hinv.tree (j + 1) j nd [] h1 (by omega)
        simp only [List.append_nil] at e1
        rw [e1]
        exact ⟨e2, e3, ⟨nd.state, e4, h3, by simp [h2]⟩, by simp [Status.ofFlags], by simp [Status.ofFlags]⟩
      | none =>
        simp only [hs] at hsol
        obtain ⟨nd, h1, h2, h3⟩ := hinv.approx hs i hsol
        obtain ⟨l, e1, e2, e3, e4⟩ := pathTo_spec cfg starts r.1.tree hinv.tree (i + 1) i nd [] h1 (by omega)
        simp only [List.append_nil] at e1
        rw [e1]
        exact ⟨e2, e3, ⟨nd.state, e4, h3, by simp [h2]⟩, by simp [Status.ofFlags], by simp [Status.ofFlags]⟩
    · exact ⟨fun h => by simp [ofFlags_toBool] at h, fun _ => rfl⟩

/-- **Strict form for plain RRT** (no intermediate states): the reported path passes
`PathGeometric::check` with the same oracles — first state valid, every consecutive pair passes
`checkMotion` again. -/
theorem rrt_path_checks (cfg : Cfg S D) (hni : cfg.addIntermediate = false) (starts : Array S)
    (script : List (Draw S)) (path : List S) (approx : Bool) (dif : D)
    (h : (solve cfg starts script).added = some (path, approx, dif)) :
    pathCheck cfg.valid cfg.checkMotion path = true := by
  have hs : (solve cfg starts script).status.toBool = true := by
    cases hb : (solve cfg starts script).status.toBool with
    | true => rfl
    | false =>
      have := (rrt_solution_real cfg starts script).2 hb
      rw [this] at h; exact absurd h (by simp)
  obtain ⟨path', approx', dif', h1, hr⟩ := (rrt_solution_real cfg starts script).1 hs
  rw [h] at h1
  simp only [Option.some.injEq, Prod.mk.injEq] at h1
  obtain ⟨rfl, rfl, rfl⟩ := h1
  rw [pathCheck_iff]
  refine ⟨?_, ?_⟩
  · intro hlen
    obtain ⟨s0, hs0, _, _, _, _, hv⟩ := hr.start
    cases path with
    | nil => simp at hlen
    | cons a r =>
      simp only [List.head?_cons, Option.some.injEq] at hs0
      subst hs0
      simpa using hv
  · exact chain_getElem _ _ (chain_mono _ _ (link_strict cfg hni) _ hr.edges)

/-- **The problem definition after `RRT::solve`**: a solution status adds exactly one solution, whose
flags (on a problem definition that had none) are the reported ones; any other status leaves the problem
definition untouched — in particular the solution count. -/
theorem rrt_problem_definition (cfg : Cfg S D) (mkPath : List S → P) (pd : Pdef S P D) (script : List (Draw S))
    (lt : D → D → Bool) (better : P → P → Bool) (minusOne : D) :
    ((solveOn cfg mkPath pd script).1.toBool = true →
        getSolutionCount (solveOn cfg mkPath pd script).2 = getSolutionCount pd + 1 ∧
        (pd.solutions = [] →
          (hasApproximateSolution lt better (solveOn cfg mkPath pd script).2 = true ↔
            (solveOn cfg mkPath pd script).1 = .approximateSolution))) ∧
      ((solveOn cfg mkPath pd script).1.toBool = false → (solveOn cfg mkPath pd script).2 = pd) := by
  have hreal := rrt_solution_real cfg pd.starts script
  unfold solveOn
  simp only
  cases hadd : (solve cfg pd.starts script).added with
  | none =>
    simp only
    refine ⟨fun hb => ?_, fun _ => trivial⟩
    obtain ⟨_, _, _, h, _⟩ := hreal.1 hb
    rw [hadd] at h; exact absurd h (by simp)
  | some x =>
    obtain ⟨path, approx, dif⟩ := x
    simp only
    refine ⟨fun hb => ⟨addSolutionPath_count _ _ _ _ _, fun hempty => ?_⟩, fun hb => ?_⟩
    · obtain ⟨path', approx', dif', h, hr⟩ := hreal.1 hb
      rw [hadd] at h
      simp only [Option.some.injEq, Prod.mk.injEq] at h
      obtain ⟨rfl, rfl, rfl⟩ := h
      rw [(addSolutionPath_fresh cfg.zero minusOne lt better pd hempty (mkPath path) approx dif).1]
      exact hr.approximate.symm
    · have := hreal.2 hb
      rw [hadd] at this; exact absurd this (by simp)

/-- `nearest` always returns a tree node (the tree is never empty inside the loop) -/
theorem rrt_nearest_in_tree (cfg : Cfg S D) (tree : Array (Node S)) (q : S) (h : 0 < tree.size) :
    nearest cfg tree q < tree.size := nearest_lt cfg tree q h

/-- **Tree states stay in bounds** whenever the space's bounds predicate is preserved by `interpolate` at parameters
of the unit interval (`ConvexBounds`): given in-bounds samples (every scripted draw satisfies the bounds), every state of
the tree — hence of every reported path — satisfies the bounds.  Arithmetic enters only through the hypothesis. -/
theorem rrt_inbounds (cfg : Cfg S D) (UnitT : D → Prop) (hc : ConvexBounds cfg UnitT) (starts : Array S)
    (script : List (Draw S)) (hdraws : ∀ dr ∈ script, cfg.bounds dr.state = true)
    (i : Nat) (nd : Node S) (h : (solve cfg starts script).tree[i]? = some nd) : cfg.bounds nd.state = true := by
  have key : AllInB cfg (solve cfg starts script).tree := by
    unfold solve
    simp only
    split
    · exact initTree_inB cfg starts
    · have := loop_inB cfg UnitT hc script ⟨(initTree cfg starts).1, none, none, cfg.inf⟩ (initTree_inB cfg starts) hdraws
      split <;> exact this
  exact key i nd h

section RealInstance
open scoped OmplModel.SpaceInterp.RealNum

/-- **[EX] R^n over ℝ**: with `interpolate`, `satisfiesBounds` (±eps slack), `<`, `/` as coded for
`RealVectorStateSpace` but over the reals, a non-negative range and in-bounds samples, every tree state satisfies the
bounds, for every validity predicate, motion validator, distance, goal and script (uses C07's convexity of the as-coded
bounds predicate).  Left unverified: IEEE rounding inside `interpolate` (C07's F16: a few ulp outside for bounds of
magnitude ≥ 2). -/
theorem rrt_inbounds_real (cfg : Cfg (List ℝ) ℝ) (lo hi : List ℝ) (hrv : RvCfg cfg lo hi) (starts : Array (List ℝ))
    (script : List (Draw (List ℝ))) (hdraws : ∀ dr ∈ script, OmplModel.SpaceInterp.rvInB dr.state lo hi = true)
    (i : Nat) (nd : Node (List ℝ)) (h : (solve cfg starts script).tree[i]? = some nd) :
    OmplModel.SpaceInterp.rvInB nd.state lo hi = true := by
  have := rrt_inbounds cfg _ (rv_convex cfg lo hi hrv) starts script
    (fun dr hdr => by rw [hrv.bounds]; exact hdraws dr hdr) i nd h
  rw [hrv.bounds] at this
  exact this

/-- non-vacuity: an R^1 configuration over ℝ (range 1/4, everything valid, goal 1) satisfies `RvCfg` -/
noncomputable def realCfg : Cfg (List ℝ) ℝ where
  dist a b := |a.headD 0 - b.headD 0|
  interp := OmplModel.SpaceInterp.rvInterp
  lt a b := decide (a < b)
  div a b := a / b
  frac j n := (j : ℝ) / (n : ℝ)
  inf := 1000
  zero := 0
  maxDistance := 1 / 4
  bounds s := OmplModel.SpaceInterp.rvInB s [0] [1]
  valid _ := true
  checkMotion _ _ := true
  segCount _ _ := 3
  goalDist s := |s.headD 0 - 1|
  threshold := 1 / 100
  addIntermediate := true

example : RvCfg realCfg [0] [1] :=
  ⟨rfl, rfl, fun _ _ h => of_decide_eq_true h, rfl, rfl, by simp [realCfg]⟩

end RealInstance

/-! ## L2b: RRTConnect -/

section RRTConnect
open OmplModel.RRTConnect (ValidGoal Edge TreeEdge RealExact)

/-- **Both trees keep their invariant**, for every configuration, start set, termination count, initial value of
`startTree_` and script of uniform draws: start-tree roots are filtered problem-definition starts, goal-tree roots are
goal samples that passed the `nextGoal` filter (at most `maxSampleCount()` of them); every other node's parent is older,
shares its root, and the edge is a justified motion *in path direction* — parent → child in the start tree, child →
parent in the goal tree (`checkMotion` returned true for exactly that ordered pair, or, with intermediate states, the two
are consecutive `getMotionStates` points of such a motion). -/
theorem rrtconnect_tree_inv (cfg : RRTConnect.Cfg S D) (starts : Array S) (ptc : Nat) (startTree : Bool)
    (script : List S) :
    RRTConnect.TreeInv (RRTConnect.ValidStart cfg starts) (TreeEdge cfg true)
        (RRTConnect.solve cfg starts ptc startTree script).tStart ∧
      RRTConnect.TreeInv (ValidGoal cfg) (TreeEdge cfg false)
        (RRTConnect.solve cfg starts ptc startTree script).tGoal := by
  unfold RRTConnect.solve
  simp only
  split
  · exact ⟨RRTConnect.initTree_inv cfg starts, RRTConnect.empty_inv _ _⟩
  · split
    · exact ⟨RRTConnect.initTree_inv cfg starts, RRTConnect.empty_inv _ _⟩
    · have := RRTConnect.solve_loop_inv cfg starts ptc startTree script
      exact ⟨this.tS, this.tG⟩

/-- a truthful approximate report of RRTConnect: a start-tree branch and its goal distance -/
structure RealApprox (cfg : RRTConnect.Cfg S D) (starts : Array S) (path : List S) (dif : D) : Prop where
  start : ∃ s0, path.head? = some s0 ∧ RRTConnect.ValidStart cfg starts s0
  edges : RRT.Chain (Edge cfg) path
  goal : ∃ last, path.getLast? = some last ∧ dif = cfg.goalDist last

/-- **RRTConnect reports only real solutions**: for every configuration (validity predicate, motion validator, goal
sampler, pair predicate, range, intermediate-state flag, connect bound), start set, termination count and script:
EXACT_SOLUTION means `addSolutionPath(path, false, 0)` was called with a path from a valid start along justified motions
to a filtered goal sample whose (start, goal) pair was accepted; APPROXIMATE_SOLUTION means
`addSolutionPath(path, true, dif)` with a start-tree branch and `dif` the goal distance at its last state; any other
status (TIMEOUT, INVALID_START, INVALID_GOAL) adds nothing. -/
theorem rrtconnect_solution_real (cfg : RRTConnect.Cfg S D) (starts : Array S) (ptc : Nat) (startTree : Bool)
    (script : List S) :
    ((RRTConnect.solve cfg starts ptc startTree script).status.toBool = true →
        (∃ path, (RRTConnect.solve cfg starts ptc startTree script).added = some (path, false, cfg.zero) ∧
          (RRTConnect.solve cfg starts ptc startTree script).status = .exactSolution ∧ RealExact cfg starts path) ∨
        (∃ path dif, (RRTConnect.solve cfg starts ptc startTree script).added = some (path, true, dif) ∧
          (RRTConnect.solve cfg starts ptc startTree script).status = .approximateSolution ∧
          RealApprox cfg starts path dif)) ∧
      ((RRTConnect.solve cfg starts ptc startTree script).status.toBool = false →
        (RRTConnect.solve cfg starts ptc startTree script).added = none) := by
  unfold RRTConnect.solve
  simp only
  split
  · exact ⟨fun h => by simp [Status.toBool] at h, fun _ => rfl⟩
  · split
    · exact ⟨fun h => by simp [Status.toBool] at h, fun _ => rfl⟩
    · have hinv := RRTConnect.solve_loop_inv cfg starts ptc startTree script
      generalize (RRTConnect.loop cfg ⟨(RRTConnect.initTree cfg starts).1, #[], startTree,
        (RRTConnect.initTree cfg starts).2, ptc, none, cfg.inf, none, .timeout, false, false⟩ script) = r at hinv
      split
      · next path hex =>
        exact ⟨fun _ => Or.inl ⟨path, rfl, rfl, hinv.exact path hex⟩, fun h => by simp [Status.toBool] at h⟩
      · split
        · next i hap =>
          refine ⟨fun _ => Or.inr ⟨_, _, rfl, rfl, ?_⟩, fun h => by simp [Status.toBool] at h⟩
          obtain ⟨nd, h1, h2⟩ := hinv.approx i hap
          obtain ⟨d1, d2, d3, d4⟩ := RRTConnect.pathDown_spec cfg starts r.1.tStart hinv.tS i nd h1
          exact ⟨⟨nd.root, d1, d3⟩, d4, ⟨nd.state, d2, h2⟩⟩
        · refine ⟨fun h => ?_, fun _ => rfl⟩
          rcases hinv.status with hs | hs <;> simp [hs, Status.toBool] at h

/-- **Strict form for plain RRTConnect** (no intermediate states): every reported path, exact or approximate, passes
`PathGeometric::check` with the same oracles — first state valid, every consecutive pair passes `checkMotion` again
in path direction (goal-tree motions were validated child → parent, which is the direction the path runs). -/
theorem rrtconnect_path_checks (cfg : RRTConnect.Cfg S D) (hni : cfg.addIntermediate = false) (starts : Array S)
    (ptc : Nat) (startTree : Bool) (script : List S) (path : List S) (approx : Bool) (dif : D)
    (h : (RRTConnect.solve cfg starts ptc startTree script).added = some (path, approx, dif)) :
    pathCheck cfg.valid cfg.checkMotion path = true := by
  have hreal := rrtconnect_solution_real cfg starts ptc startTree script
  have hs : (RRTConnect.solve cfg starts ptc startTree script).status.toBool = true := by
    cases hb : (RRTConnect.solve cfg starts ptc startTree script).status.toBool with
    | true => rfl
    | false => rw [hreal.2 hb] at h; exact absurd h (by simp)
  have key : (∃ s0, path.head? = some s0 ∧ RRTConnect.ValidStart cfg starts s0) ∧ RRT.Chain (Edge cfg) path := by
    rcases hreal.1 hs with ⟨p, h1, _, hr⟩ | ⟨p, d, h1, _, hr⟩
    · rw [h] at h1
      simp only [Option.some.injEq, Prod.mk.injEq] at h1
      obtain ⟨rfl, _, _⟩ := h1
      obtain ⟨s0, g, a, _, c, _, _⟩ := hr.ends
      exact ⟨⟨s0, a, c⟩, hr.edges⟩
    · rw [h] at h1
      simp only [Option.some.injEq, Prod.mk.injEq] at h1
      obtain ⟨rfl, _, _⟩ := h1
      exact ⟨hr.start, hr.edges⟩
  rw [pathCheck_iff]
  refine ⟨?_, ?_⟩
  · intro hlen
    obtain ⟨s0, hs0, _, _, _, _, hv⟩ := key.1
    cases path with
    | nil => simp at hlen
    | cons a r =>
      simp only [List.head?_cons, Option.some.injEq] at hs0
      subst hs0
      simpa using hv
  · exact RRT.chain_getElem _ _ (RRT.chain_mono _ _ (RRTConnect.edge_strict cfg hni) _ key.2)

end RRTConnect

/-! ## L2c: LazyPRM (a roadmap planner; `boost::astar_search` is an oracle whose answers the model checks) -/

section LazyPRM
open OmplModel.LazyPRM (RInv Ext EitherWay RealPath)

/-- the planner state in which `LazyPRM::solve` leaves its loop satisfies the invariant (helper for the theorems below) -/
theorem lazyprm_solve_inv (cfg : LazyPRM.Cfg S D) (starts : Array S) (ptc : Nat) (evs : List (LazyPRM.Event S)) :
    RInv cfg (LazyPRM.solve cfg starts ptc evs).rm ∧
      (∀ v ∈ (LazyPRM.solve cfg starts ptc evs).startM, LazyPRM.isAlive (LazyPRM.solve cfg starts ptc evs).rm v = true ∧
        ∃ s, (LazyPRM.solve cfg starts ptc evs).rm.states[v]? = some s ∧ LazyPRM.ValidStart cfg starts s) ∧
      (∀ path c, (LazyPRM.solve cfg starts ptc evs).added = some (path, false, c) → RealPath cfg starts path) ∧
      ((LazyPRM.solve cfg starts ptc evs).status.toBool = true →
        ∃ path c, (LazyPRM.solve cfg starts ptc evs).added = some (path, false, c) ∧
          (LazyPRM.solve cfg starts ptc evs).status = .exactSolution) ∧
      ((LazyPRM.solve cfg starts ptc evs).status.toBool = false → (LazyPRM.solve cfg starts ptc evs).added = none) := by
  unfold LazyPRM.solve
  simp only
  have hds := (drainStarts_spec cfg.bounds cfg.valid starts (starts.size + 1) {}).1
  generalize drainStarts cfg.bounds cfg.valid starts (starts.size + 1) {} = ds at hds
  have hvs : ∀ x ∈ ds.1, LazyPRM.ValidStart cfg starts x.2 := by
    intro x hx
    obtain ⟨hi, h1, h2, h3, _⟩ := hds x hx
    exact ⟨x.1, hi, h1, h2, h3⟩
  obtain ⟨s1, s2⟩ := LazyPRM.addStarts_spec cfg starts ds.1 {} [] (LazyPRM.empty_rinv cfg) hvs (fun v hv => by simp at hv)
  generalize LazyPRM.addStarts cfg ds.1 {} [] = as at s1 s2
  split
  · exact ⟨s1, fun v hv => by simp at hv, fun _ _ h => by simp at h, fun h => by simp [Status.toBool] at h, fun _ => rfl⟩
  · split
    · exact ⟨s1, s2, fun _ _ h => by simp at h, fun h => by simp [Status.toBool] at h, fun _ => rfl⟩
    · have hg := (goalOuter_spec cfg.bounds cfg.valid cfg.goalSample cfg.maxGoalSamples (ptc + 1)
        ds.2.sampledGoalsCount (List.replicate ptc false)).2.2
      generalize goalOuter cfg.bounds cfg.valid cfg.goalSample cfg.maxGoalSamples (ptc + 1)
        ds.2.sampledGoalsCount (List.replicate ptc false) = g at hg
      split
      · exact ⟨s1, s2, fun _ _ h => by simp at h, fun h => by simp [Status.toBool] at h, fun _ => rfl⟩
      · next x hx =>
        obtain ⟨g1, g2, g3, _, _, g6⟩ := hg x hx
        obtain ⟨a1, a2, a3, a4, a5, a6⟩ := LazyPRM.addMilestone_spec cfg as.1 x.2 s1
        have hk := LazyPRM.addMilestone_keeps cfg _ as.1 x.2 s1 as.2 s2
        generalize ham : LazyPRM.addMilestone cfg as.1 x.2 = am at a1 a2 a3 a4 a5 a6 hk
        have hst0 : LazyPRM.StInv cfg starts (LazyPRM.initSt cfg am.1 as.2 am.2
            (LazyPRM.solve.pisOf ds.2 g.2.1) g.2.2.length) := by
          refine ⟨a1, hk, ?_, fun p hp => by simp [LazyPRM.initSt] at hp⟩
          intro v hv
          simp only [LazyPRM.initSt, List.mem_singleton] at hv
          subst hv
          refine ⟨a5, x.2, ?_, ⟨x.1, g6, g1.symm, g2, g3⟩⟩
          show am.1.states[am.2]? = some x.2
          rw [a4, a3, Array.getElem?_push]; simp
        obtain ⟨l1, _⟩ := LazyPRM.loop_spec cfg starts (evs.length + 1) _ evs hst0
        generalize LazyPRM.loop cfg (evs.length + 1) _ evs = r at l1
        have hsm : r.1.startM = r.1.startM := rfl
        split
        · next path hbest =>
          refine ⟨l1.rm, l1.startsOK, ?_, fun _ => ⟨path, _, rfl, rfl⟩, fun h => by simp [Status.toBool] at h⟩
          intro p c hp
          simp only [Option.some.injEq, Prod.mk.injEq] at hp
          obtain ⟨rfl, _⟩ := hp
          exact l1.best _ hbest
        · exact ⟨l1.rm, l1.startsOK, fun _ _ h => by simp at h, fun h => by simp [Status.toBool] at h, fun _ => rfl⟩

/-- **Roadmap invariant**, for every configuration, start set, termination count and event script (sampled states and
oracle answers): edges connect vertices that are in the graph, the nearest-neighbour list holds only such vertices, a
vertex marked VALID was answered valid by `isValid`, an edge marked VALID was answered valid by `checkMotion` for one of
the two orders of its end states, and the start milestones are in the graph and carry filtered start states. -/
theorem lazyprm_roadmap_inv (cfg : LazyPRM.Cfg S D) (starts : Array S) (ptc : Nat) (evs : List (LazyPRM.Event S)) :
    RInv cfg (LazyPRM.solve cfg starts ptc evs).rm ∧
      ∀ v ∈ (LazyPRM.solve cfg starts ptc evs).startM, LazyPRM.isAlive (LazyPRM.solve cfg starts ptc evs).rm v = true ∧
        ∃ s, (LazyPRM.solve cfg starts ptc evs).rm.states[v]? = some s ∧ LazyPRM.ValidStart cfg starts s :=
  ⟨(lazyprm_solve_inv cfg starts ptc evs).1, (lazyprm_solve_inv cfg starts ptc evs).2.1⟩

/-- **Removed items never reappear**: every step of the planner — `addMilestone`, one `constructSolution` call (whatever
vertex sequence the oracle hands it), a whole loop turn, the whole loop — extends the roadmap (`Ext`): every vertex keeps
its number and state, and a vertex that has left the graph stays out; and the roadmap invariant is kept. -/
theorem lazyprm_removed_stay_removed (cfg : LazyPRM.Cfg S D) (starts : Array S) :
    (∀ (r : LazyPRM.Roadmap S D) (s : S), RInv cfg r → Ext r (LazyPRM.addMilestone cfg r s).1) ∧
      (∀ (r : LazyPRM.Roadmap S D) (start : Nat) (p : List Nat), RInv cfg r →
        RInv cfg (LazyPRM.constructSolution cfg r start p).1 ∧ Ext r (LazyPRM.constructSolution cfg r start p).1) ∧
      (∀ (st : LazyPRM.St S D) (s : S) (evs : List (LazyPRM.Event S)), LazyPRM.StInv cfg starts st →
        Ext st.rm (LazyPRM.iterate cfg st s evs).1.rm) ∧
      (∀ (fuel : Nat) (st : LazyPRM.St S D) (evs : List (LazyPRM.Event S)), LazyPRM.StInv cfg starts st →
        Ext st.rm (LazyPRM.loop cfg fuel st evs).1.rm) :=
  ⟨fun r s h => (LazyPRM.addMilestone_spec cfg r s h).2.1,
   fun r start p h => ⟨(LazyPRM.constructSolution_spec cfg r start p h).1, (LazyPRM.constructSolution_spec cfg r start p h).2.1⟩,
   fun st s evs h => (LazyPRM.iterate_spec cfg starts st s evs h).2.1,
   fun fuel st evs h => (LazyPRM.loop_spec cfg starts fuel st evs h).2⟩

/-- **The lazy re-validation cannot be skipped**: whatever vertex sequence the A* oracle returns, if
`constructSolution` returns a path then every intermediate vertex of it was answered valid by `isValid` and every edge
of it by `checkMotion` (now, in the direction of travel, or by an earlier call, in one of the two directions). -/
theorem lazyprm_construct_validates (cfg : LazyPRM.Cfg S D) (r : LazyPRM.Roadmap S D) (start : Nat) (p : List Nat)
    (h : RInv cfg r) (path : List S) (hp : (LazyPRM.constructSolution cfg r start p).2 = some path) :
    path = p.filterMap (fun v => r.states[v]?) ∧
      (∀ v ∈ (p.drop 1).dropLast, ∀ s, r.states[v]? = some s → cfg.valid s = true) ∧
      (∀ pq ∈ LazyPRM.pairsOf p, ∀ (a b : S), r.states[pq.1]? = some a → r.states[pq.2]? = some b → EitherWay cfg a b) :=
  (LazyPRM.constructSolution_spec cfg r start p h).2.2.2 path hp

/-- **LazyPRM reports only real solutions**: for every configuration, start set, termination count and event script:
a solution status is EXACT_SOLUTION with a path that starts at a filtered start, ends at a filtered goal sample, all of
whose states were answered valid by `isValid` and all of whose consecutive pairs were answered valid by `checkMotion`
(one of the two orders); any other status (TIMEOUT, INVALID_START, INVALID_GOAL) adds nothing. -/
theorem lazyprm_solution_real (cfg : LazyPRM.Cfg S D) (starts : Array S) (ptc : Nat) (evs : List (LazyPRM.Event S)) :
    ((LazyPRM.solve cfg starts ptc evs).status.toBool = true →
        ∃ path c, (LazyPRM.solve cfg starts ptc evs).added = some (path, false, c) ∧
          (LazyPRM.solve cfg starts ptc evs).status = .exactSolution ∧ RealPath cfg starts path) ∧
      ((LazyPRM.solve cfg starts ptc evs).status.toBool = false → (LazyPRM.solve cfg starts ptc evs).added = none) := by
  obtain ⟨_, _, h3, h4, h5⟩ := lazyprm_solve_inv cfg starts ptc evs
  refine ⟨fun hb => ?_, h5⟩
  obtain ⟨path, c, ha, hs⟩ := h4 hb
  exact ⟨path, c, ha, hs, h3 path c ha⟩

/-- **Strict form** when the motion validator is symmetric (`checkMotion(a,b) = checkMotion(b,a)`, true of the discrete
validator on spaces with symmetric interpolation up to rounding): the reported path passes `PathGeometric::check`. -/
theorem lazyprm_path_checks (cfg : LazyPRM.Cfg S D) (hsym : ∀ a b, cfg.checkMotion a b = cfg.checkMotion b a)
    (starts : Array S) (ptc : Nat) (evs : List (LazyPRM.Event S)) (path : List S) (c : D)
    (h : (LazyPRM.solve cfg starts ptc evs).added = some (path, false, c)) :
    pathCheck cfg.valid cfg.checkMotion path = true := by
  have hr := (lazyprm_solve_inv cfg starts ptc evs).2.2.1 path c h
  rw [pathCheck_iff]
  refine ⟨?_, ?_⟩
  · intro hlen
    apply hr.states
    exact List.getElem_mem hlen
  · have hch : RRT.Chain (fun a b => cfg.checkMotion a b = true) path := by
      apply RRT.chain_mono _ _ _ _ hr.edges
      intro a b hab
      rcases hab with hab | hab
      · exact hab
      · rw [hsym]; exact hab
    exact RRT.chain_getElem _ _ hch

/-- **Component bookkeeping is sound**: for every configuration, start set, termination count and event script, if the
model's own self-checks never failed (`Roadmap.stale = false`: after every breadth-first relabelling every edge joins
equal ids, and after the relabelling that follows a vertex removal the old id is gone — the flag is printed by the driver
and is false on every lock-step run), then in the final roadmap (a) every edge joins two vertices with the same component
id, (b) ids in use are below `componentCount_`, and (c) **two vertices of the graph with the same component id are
connected** by a walk of current edges.  What is *not* kept sound by the code is `componentSize_`: removed vertices are
never subtracted from their component's size (it only steers which side `uniteComponents` relabels).  That `markLoop`'s
fuel (2·|E| + 2 pops) always suffices is proved below (`lazyprm_relabel_fuel_sufficient`), which makes the `checkSame` half of
the self-check redundant; the `checkNone` half (after a vertex removal no vertex of the graph keeps the old id) is still a
hypothesis. -/
theorem lazyprm_components_sound (cfg : LazyPRM.Cfg S D) (starts : Array S) (ptc : Nat) (evs : List (LazyPRM.Event S))
    (hst : (LazyPRM.solve cfg starts ptc evs).rm.stale = false) :
    (∀ e ∈ (LazyPRM.solve cfg starts ptc evs).rm.edges,
        LazyPRM.compOf (LazyPRM.solve cfg starts ptc evs).rm e.u = LazyPRM.compOf (LazyPRM.solve cfg starts ptc evs).rm e.v) ∧
      (∀ v, LazyPRM.isAlive (LazyPRM.solve cfg starts ptc evs).rm v = true →
        LazyPRM.compOf (LazyPRM.solve cfg starts ptc evs).rm v < (LazyPRM.solve cfg starts ptc evs).rm.compCount) ∧
      (∀ u v, LazyPRM.isAlive (LazyPRM.solve cfg starts ptc evs).rm u = true →
        LazyPRM.isAlive (LazyPRM.solve cfg starts ptc evs).rm v = true →
        LazyPRM.compOf (LazyPRM.solve cfg starts ptc evs).rm u = LazyPRM.compOf (LazyPRM.solve cfg starts ptc evs).rm v →
        LazyPRM.Conn (LazyPRM.solve cfg starts ptc evs).rm.edges u v) := by
  have key : LazyPRM.Good (LazyPRM.solve cfg starts ptc evs).rm := by
    revert hst
    unfold LazyPRM.solve
    simp only
    have hds := (drainStarts_spec cfg.bounds cfg.valid starts (starts.size + 1) {}).1
    generalize drainStarts cfg.bounds cfg.valid starts (starts.size + 1) {} = ds at hds
    have hvs : ∀ x ∈ ds.1, LazyPRM.ValidStart cfg starts x.2 := by
      intro x hx
      obtain ⟨hi, h1, h2, h3, _⟩ := hds x hx
      exact ⟨x.1, hi, h1, h2, h3⟩
    obtain ⟨s1, s2⟩ := LazyPRM.addStarts_spec cfg starts ds.1 {} [] (LazyPRM.empty_rinv cfg) hvs (fun v hv => by simp at hv)
    have ga := LazyPRM.addStarts_good cfg ds.1 {} [] (LazyPRM.empty_rinv cfg) (fun _ => LazyPRM.empty_good)
    generalize LazyPRM.addStarts cfg ds.1 {} [] = as at s1 s2 ga
    split
    · exact fun h => (ga h).1
    · split
      · exact fun h => (ga h).1
      · have hg := (goalOuter_spec cfg.bounds cfg.valid cfg.goalSample cfg.maxGoalSamples (ptc + 1)
          ds.2.sampledGoalsCount (List.replicate ptc false)).2.2
        generalize goalOuter cfg.bounds cfg.valid cfg.goalSample cfg.maxGoalSamples (ptc + 1)
          ds.2.sampledGoalsCount (List.replicate ptc false) = g at hg
        split
        · exact fun h => (ga h).1
        · next x hx =>
          obtain ⟨g1, g2, g3, _, _, g6⟩ := hg x hx
          obtain ⟨a1, a2, a3, a4, a5, a6⟩ := LazyPRM.addMilestone_spec cfg as.1 x.2 s1
          have hk := LazyPRM.addMilestone_keeps cfg _ as.1 x.2 s1 as.2 s2
          have gm := LazyPRM.addMilestone_good cfg as.1 x.2 s1 (fun hs => (ga hs).1)
          generalize ham : LazyPRM.addMilestone cfg as.1 x.2 = am at a1 a2 a3 a4 a5 a6 hk gm
          have hst0 : LazyPRM.StInv cfg starts (LazyPRM.initSt cfg am.1 as.2 am.2
              (LazyPRM.solve.pisOf ds.2 g.2.1) g.2.2.length) := by
            refine ⟨a1, hk, ?_, fun p hp => by simp [LazyPRM.initSt] at hp⟩
            intro v hv
            simp only [LazyPRM.initSt, List.mem_singleton] at hv
            subst hv
            refine ⟨a5, x.2, ?_, ⟨x.1, g6, g1.symm, g2, g3⟩⟩
            show am.1.states[am.2]? = some x.2
            rw [a4, a3, Array.getElem?_push]; simp
          have gl := LazyPRM.loop_good cfg starts (evs.length + 1) _ evs hst0 (fun hs => (gm hs).1)
          generalize LazyPRM.loop cfg (evs.length + 1) _ evs = r at gl
          split <;> exact fun h => (gl h).1
  exact ⟨key.same, fun v hv => key.bound v (key.aliveLt v hv), key.sound⟩

/-- **Fuel sufficiency of `markComponent`.**  The model's breadth-first relabelling is bounded by `2·|E| + 2` pops; that
bound always suffices: if, before the call, every edge joins equal ids or hangs on the seed `v` (whose id is not the new
one) — the situation right after `addEdge` in `uniteComponents`, and (with no exceptional edge) in the relabelling after
a removal — then afterwards EVERY edge joins equal ids, i.e. the traversal ran to an empty queue.  Proved with the
potential `|queue| + #(edge ends not yet carrying the new id)` (`Proofs/LazyPRMFuel.lean`). -/
theorem lazyprm_relabel_fuel_sufficient (r : LazyPRM.Roadmap S D) (v newC : Nat)
    (hb : ∀ e ∈ r.edges, e.u < r.comp.size ∧ e.v < r.comp.size)
    (hpre : ∀ e ∈ r.edges, LazyPRM.compOf r e.u = LazyPRM.compOf r e.v ∨
      (e.u = v ∧ LazyPRM.compOf r v ≠ newC) ∨ (e.v = v ∧ LazyPRM.compOf r v ≠ newC)) :
    ∀ e ∈ (LazyPRM.markComponent r v newC).edges,
      LazyPRM.compOf (LazyPRM.markComponent r v newC) e.u = LazyPRM.compOf (LazyPRM.markComponent r v newC) e.v :=
  LazyPRM.markComponent_same r v newC hb hpre

/-- hence the self-check that follows `uniteComponents` (insertion side) is redundant: it never changes the flag -/
theorem lazyprm_unite_selfcheck_redundant (r : LazyPRM.Roadmap S D) (m n : Nat) (w : D)
    (hsame : ∀ e ∈ r.edges, LazyPRM.compOf r e.u = LazyPRM.compOf r e.v)
    (hb : ∀ e ∈ r.edges, e.u < r.comp.size ∧ e.v < r.comp.size) (hm : m < r.comp.size) (hn : n < r.comp.size) :
    (LazyPRM.uniteComponents (LazyPRM.addEdge r m n w) m n).stale = r.stale :=
  LazyPRM.unite_stale_eq r m n w hsame hb hm hn

/-- and so is the `checkSame` inside the relabelling that follows a removal; what remains behind the hypothesis of
`lazyprm_components_sound` is `checkNone` alone (no vertex of the graph keeps the removed vertices' old id) -/
theorem lazyprm_relabel_selfcheck_redundant (c0 : Nat) (l : List Nat) (r : LazyPRM.Roadmap S D)
    (hsame : ∀ e ∈ r.edges, LazyPRM.compOf r e.u = LazyPRM.compOf r e.v)
    (hb : ∀ e ∈ r.edges, e.u < r.comp.size ∧ e.v < r.comp.size) :
    (LazyPRM.relabelNeighbours c0 l r).stale = r.stale :=
  LazyPRM.relabel_stale_eq c0 l r hsame hb

end LazyPRM


/-! ## L2h: histories of one RRT object (round 10)

`solve()` does not start from scratch: the tree, `PlannerInputStates`' start counter and `lastGoalMotion_` survive,
`clear()` resets them, and between two calls the user may add start states, change the range, the goal threshold and
the intermediate-state flag, call `setup()` again and empty the problem definition's solution list.
`Model/RRTHistory.lean` models these calls (`Op`, `applyOp`, `runOps`); the harness drives the real object through the
same histories in lock-step. -/

section History

/-- **A history of length one on a fresh object is the single-call model** (so everything proved about `RRT.solve`
is about the first `solve()` of every history). -/
theorem rrt_history_first_call (cfg : Cfg S D) (starts : Array S) (script : List (Draw S)) :
    solveFrom cfg starts {} script = solve cfg starts script := (solve_eq_solveFrom cfg starts script).symm

/-- **One call, from ANY state a history can reach** (`WInv`: the tree's roots are filtered starts of the problem
definition, every edge is a validated motion or a piece of one; the start counter does not exceed the number of starts):
every `Op` keeps `WInv`; a `solve` reports truthfully for the parameters then in force (`RepReal`: a solution status
comes with `addSolutionPath(path, approx, dif)` whose path starts at a filtered start, runs along justified edges, has
`dif = distanceGoal(last)`, `approx = false ↔ distanceGoal(last) < threshold`, EXACT ↔ ¬approx, APPROXIMATE ↔ approx; any
other status adds nothing); a solution status adds exactly one solution to the problem definition, any other status
leaves it unchanged; start states are never lost. -/
theorem rrt_history_step (cfg : Cfg S D) (eps autoRange : D) (w : World S D) (op : Op S D) (h : WInv cfg w) :
    WInv cfg (applyOp cfg eps autoRange w op).1 ∧
      (∀ s, ValidStart cfg w.pd.starts s → ValidStart cfg (applyOp cfg eps autoRange w op).1.pd.starts s) ∧
      (∀ r, (applyOp cfg eps autoRange w op).2 = some r →
        RepReal cfg (applyOp cfg eps autoRange w op).1.pd.starts (w.params, r) ∧
        (r.status.toBool = true →
          getSolutionCount (applyOp cfg eps autoRange w op).1.pd = getSolutionCount w.pd + 1) ∧
        (r.status.toBool = false → (applyOp cfg eps autoRange w op).1.pd = w.pd)) := by
  obtain ⟨a1, a2, a3, _⟩ := applyOp_spec cfg eps autoRange w op h
  refine ⟨a1, a2, fun r hr => ⟨a3 r hr, ?_, ?_⟩⟩
  · intro hb
    obtain ⟨path, approx, dif, hadd, _⟩ := (a3 r hr).1 hb
    cases op <;> simp only [applyOp, Option.some.injEq] at hr <;> try (exact absurd hr (by simp))
    subst hr
    have hadd' := hadd
    simp only at hadd'
    simp only [applyOp, hadd']
    exact addSolutionPath_count _ _ _ _ _
  · intro hb
    have hadd := (a3 r hr).2 hb
    cases op <;> simp only [applyOp, Option.some.injEq] at hr <;> try (exact absurd hr (by simp))
    subst hr
    have hadd' := hadd
    simp only at hadd'
    simp only [applyOp, hadd']

/-- **Every history**: for every configuration, start set, initial parameters and EVERY finite sequence of calls
(`solve` with any script, `clear`, `addStartState`, `setRange`, `setThreshold`, `setIntermediateStates`, `setup`,
`clearSolutionPaths`) on a fresh planner and a problem definition without solutions:
(1) the report of every `solve` in the history is truthful (`RepReal`, with the threshold in force at that call and the
start states the problem definition holds at the end — they only grow);
(2) every solution the problem definition holds at the end was registered by one of these reports, with the flag it
reported and the difference it reported (0 for an exact one);
(3) hence every such solution starts at a filtered start, runs along justified edges, and its recorded difference is
the goal distance of its last state when flagged approximate;
(4) `runOpsP` is `runOps` with the parameters recorded (same world, same reports). -/
theorem rrt_history_real (cfg : Cfg S D) (eps autoRange : D) (starts : Array S) (p : Params D) (ops : List (Op S D)) :
    let res := runOpsP cfg eps autoRange (World.fresh starts p) ops
    (∀ pr ∈ res.2, RepReal cfg res.1.pd.starts pr) ∧
      (∀ sol ∈ res.1.pd.solutions, ∃ pr ∈ res.2, FromReport cfg.zero pr sol) ∧
      (∀ sol ∈ res.1.pd.solutions,
        (∃ s0, sol.path.head? = some s0 ∧ ValidStart cfg res.1.pd.starts s0) ∧ Chain (LinkAny cfg) sol.path ∧
        ∃ last, sol.path.getLast? = some last ∧
          (sol.approximate = true → sol.difference = cfg.goalDist last) ∧
          (sol.approximate = false → sol.difference = cfg.zero ∧
            ∃ pr ∈ res.2, cfg.lt (cfg.goalDist last) pr.1.threshold = true)) ∧
      res.1 = (runOps cfg eps autoRange (World.fresh starts p) ops).1 ∧
      res.2.map (·.2) = (runOps cfg eps autoRange (World.fresh starts p) ops).2 := by
  intro res
  obtain ⟨_, _, b3, b4⟩ := runOpsP_spec cfg eps autoRange ops (World.fresh starts p) (fresh_inv cfg starts p)
  have hfrom : ∀ sol ∈ res.1.pd.solutions, ∃ pr ∈ res.2, FromReport cfg.zero pr sol := by
    intro sol hs
    rcases b4 sol hs with h | h
    · simp [World.fresh] at h
    · exact h
  refine ⟨b3, hfrom, ?_, (runOpsP_fst cfg eps autoRange ops _).1, (runOpsP_fst cfg eps autoRange ops _).2⟩
  intro sol hs
  obtain ⟨pr, hpr, dif, hadd, hdif⟩ := hfrom sol hs
  have hrep := b3 pr hpr
  have hb : pr.2.status.toBool = true := by
    cases hb : pr.2.status.toBool with
    | true => rfl
    | false => rw [hrep.2 hb] at hadd; exact absurd hadd (by simp)
  obtain ⟨path, approx, dif', h1, hr⟩ := hrep.1 hb
  rw [hadd] at h1
  simp only [Option.some.injEq, Prod.mk.injEq] at h1
  obtain ⟨rfl, rfl, rfl⟩ := h1
  obtain ⟨last, g1, g2, g3⟩ := hr.goal
  refine ⟨hr.start, hr.edges, last, g1, fun ha => ?_, fun ha => ⟨?_, pr, hpr, g3.1 ha⟩⟩
  · rw [hdif, ha]; exact g2
  · rw [hdif, ha]; rfl

/-- **The approximate flag of a problem definition that holds several solutions** (`solutions_[0]` under
`PlannerSolution::operator<`, for every comparison of differences and every cost clause): `hasApproximateSolution()`
is true iff there is a solution and ALL solutions are approximate — one exact solution, from whichever call, keeps the
flag false whatever is added later. -/
theorem hasApproximate_iff_all (lt : D → D → Bool) (better : P → P → Bool) (pd : Pdef S P D) :
    hasApproximateSolution lt better pd = true ↔
      pd.solutions ≠ [] ∧ ∀ s ∈ pd.solutions, s.approximate = true := by
  have key : ∀ l : List (Solution P D),
      (top lt better l = none ↔ l = []) ∧
      ∀ t, top lt better l = some t → t ∈ l ∧ (t.approximate = true ↔ ∀ s ∈ l, s.approximate = true) := by
    intro l
    induction l with
    | nil => simp [top]
    | cons s rest ih =>
      obtain ⟨ih1, ih2⟩ := ih
      refine ⟨by simp only [top]; split <;> (try split) <;> simp, ?_⟩
      intro t ht
      simp only [top] at ht
      split at ht
      · next hnone =>
        simp only [Option.some.injEq] at ht
        subst ht
        have := ih1.1 hnone
        subst this
        simp
      · next t' ht' =>
        obtain ⟨m1, m2⟩ := ih2 t' ht'
        split at ht
        · next hlt =>
          simp only [Option.some.injEq] at ht
          subst ht
          refine ⟨List.mem_cons_of_mem _ m1, ?_⟩
          simp only [List.mem_cons, forall_eq_or_imp]
          rw [← m2]
          simp only [solLt] at hlt
          cases ha : t'.approximate <;> cases hb : s.approximate <;> simp_all
        · next hlt =>
          simp only [Option.some.injEq] at ht
          subst ht
          refine ⟨by simp, ?_⟩
          simp only [List.mem_cons, forall_eq_or_imp]
          rw [← m2]
          simp only [solLt] at hlt
          cases ha : t'.approximate <;> cases hb : s.approximate <;> simp_all
  unfold hasApproximateSolution
  obtain ⟨k1, k2⟩ := key pd.solutions
  split
  · next t ht =>
    obtain ⟨m1, m2⟩ := k2 t ht
    rw [m2]
    constructor
    · intro h; exact ⟨fun he => by rw [he] at m1; simp at m1, h⟩
    · intro h; exact h.2
  · next hn =>
    have := k1.1 hn
    simp [this]

end History


/-! ## L0g: `GoalStates` (several goal states; round 10)

The planner models take the goal as an oracle `goalSample : Nat → S` (the `k`-th state `sampleGoal` hands to the
planner's `PlannerInputStates`) with `maxGoalSamples`.  `Model/GoalStates.lean` is the shipped multi-state goal; the
lock-step drives RRT, RRTConnect and LazyPRM with it (first goal invalid, goals out of bounds, duplicates). -/

section GoalStatesSec
open OmplModel.GoalStates

/-- **Sampling order of `GoalStates`**: `n` consecutive `sampleGoal` calls on a goal whose counter starts at 0 hand out
`states[0], states[1], …` cyclically (`samplePosition_` is reduced modulo the size *before* use and incremented without
roll-over after it), and every state handed out by a non-empty goal is one of its states. -/
theorem goalstates_sampling (states : Array S) (dflt : S) (n k : Nat) (hk : k < n) :
    (sampleMany states dflt n 0).1[k]? = some (kth states dflt k) ∧
      (0 < states.size → kth states dflt k ∈ states) :=
  ⟨kth_eq_iterate states dflt n k hk, kth_mem states dflt k⟩

example : (sampleMany #[7, 8, 9] 0 5 0) = ([7, 8, 9, 7, 8], 2) := by decide

/-- **`GoalStates::distanceGoal`** returns its initial value (infinity) or the distance to one of the goal states —
never a number that is not a distance to a goal state. -/
theorem goalstates_distance (dist : S → S → D) (lt : D → D → Bool) (inf : D) (states : Array S) (st : S) :
    distanceGoal dist lt inf states st = inf ∨ ∃ s ∈ states, distanceGoal dist lt inf states st = dist st s :=
  distanceGoal_mem dist lt inf states st

example : distanceGoal (fun a b : Nat => if a < b then b - a else a - b) (fun a b => decide (a < b)) 1000 #[2, 9, 6] 7 = 1 := by
  decide

/-- **RRTConnect on a `GoalStates` goal**: an EXACT path ends at one of the user's goal states, and that state
satisfies the bounds and is valid (an invalid or out-of-bounds goal state is never connected to). -/
theorem rrtconnect_goalstates_real (cfg : RRTConnect.Cfg S D) (goals : Array S) (dflt : S)
    (hs : cfg.goalSample = kth goals dflt) (hm : cfg.maxGoalSamples = goals.size)
    (starts : Array S) (ptc : Nat) (startTree : Bool) (script : List S)
    (hst : (RRTConnect.solve cfg starts ptc startTree script).status = .exactSolution) :
    ∃ path g, (RRTConnect.solve cfg starts ptc startTree script).added = some (path, false, cfg.zero) ∧
      path.getLast? = some g ∧ g ∈ goals ∧ cfg.bounds g = true ∧ cfg.valid g = true := by
  have hb : (RRTConnect.solve cfg starts ptc startTree script).status.toBool = true := by rw [hst]; rfl
  rcases (rrtconnect_solution_real cfg starts ptc startTree script).1 hb with ⟨path, h1, _, hr⟩ | ⟨_, _, _, h2, _⟩
  · obtain ⟨s0, g, _, hl, _, ⟨k, hk, hg, hbnd, hv⟩, _⟩ := hr.ends
    refine ⟨path, g, h1, hl, ?_, hbnd, hv⟩
    rw [← hg, hs]
    exact kth_mem goals dflt k (by omega)
  · rw [hst] at h2; exact absurd h2 (by simp)

/-- **LazyPRM on a `GoalStates` goal**: the same. -/
theorem lazyprm_goalstates_real (cfg : LazyPRM.Cfg S D) (goals : Array S) (dflt : S)
    (hs : cfg.goalSample = kth goals dflt) (hm : cfg.maxGoalSamples = goals.size)
    (starts : Array S) (ptc : Nat) (evs : List (LazyPRM.Event S))
    (hb : (LazyPRM.solve cfg starts ptc evs).status.toBool = true) :
    ∃ path c g, (LazyPRM.solve cfg starts ptc evs).added = some (path, false, c) ∧
      path.getLast? = some g ∧ g ∈ goals ∧ cfg.bounds g = true ∧ cfg.valid g = true := by
  obtain ⟨path, c, h1, _, hr⟩ := (lazyprm_solution_real cfg starts ptc evs).1 hb
  obtain ⟨g, hl, k, hk, hg, hbnd, hv⟩ := hr.goal
  refine ⟨path, c, g, h1, hl, ?_, hbnd, hv⟩
  rw [← hg, hs]
  exact kth_mem goals dflt k (by omega)

end GoalStatesSec


/-! ## L2bh: histories of one RRTConnect object (round 11; `Model/RRTConnectHistory.lean`) -/

section RRTConnectHistory

/-- a history of length one on a fresh object (whatever `startTree_` is) is the single-call model -/
theorem rrtconnect_history_first_call (cfg : RRTConnect.Cfg S D) (starts : Array S) (ptc : Nat) (startTree : Bool)
    (script : List S) :
    RRTConnect.solveFrom cfg starts { startTree := startTree } ptc script = RRTConnect.solve cfg starts ptc startTree script :=
  (RRTConnect.solve_eq_solveFrom cfg starts ptc startTree script).symm

/-- **Every history of one RRTConnect object**: for every configuration, start set, range and EVERY finite sequence of
calls (`solve` with any termination count and script — resumed on the kept trees, goals re-sampled through the kept
`PlannerInputStates` counters —, `clear`, `addStartState`, `setRange`, `clearSolutionPaths`) on a fresh planner and a
problem definition without solutions: (1) both trees keep their invariant (start-tree roots are filtered starts, goal-tree
roots filtered goal samples, every edge a justified motion in path direction); (2) the report of every `solve` is
truthful (`RepReal`: EXACT with `addSolutionPath(path, false, 0)` and a path from a filtered start along justified motions
to a filtered goal sample with an accepted (start, goal) pair; APPROXIMATE with a start-tree branch and `dif` its goal
distance; anything else adds nothing) with respect to the start states held at the end and to the goal as the planner
sees it in that epoch (`shiftGoal b`: the goal object's own `samplePosition_` is not reset by `planner.clear()`, so after a
clear the planner's `k`-th sample is the goal's `(b + k)`-th); (3) every solution the problem definition holds at the end
was registered by one of these reports. -/
theorem rrtconnect_history_real (cfg : RRTConnect.Cfg S D) (starts : Array S) (range : D)
    (ops : List (RRTConnect.Op S D)) :
    let res := RRTConnect.runOps cfg (RRTConnect.World.fresh starts range) ops
    RRTConnect.WInv cfg res.1 ∧
      (∀ r ∈ res.2, ∃ b, RRTConnect.RepReal (cfg.shiftGoal b) res.1.pd.starts r) ∧
      (∀ sol ∈ res.1.pd.solutions, ∃ r ∈ res.2, RRTConnect.FromReport cfg.zero r sol) := by
  intro res
  obtain ⟨b1, _, b3, b4⟩ := RRTConnect.runOps_spec cfg ops (RRTConnect.World.fresh starts range)
    (RRTConnect.fresh_inv cfg starts range)
  refine ⟨b1, b3, fun sol hs => ?_⟩
  rcases b4 sol hs with h | h
  · simp [RRTConnect.World.fresh] at h
  · exact h

end RRTConnectHistory

/-! ### non-vacuity: a toy world on the number line

States are naturals, the range is 2, landing on 5 is invalid, the goal is 6 with threshold 1 (so only 6
satisfies it); start candidates 30 (out of bounds), 5 (invalid) and 0. -/

def toy (interm : Bool) : Cfg Nat Nat where
  dist a b := if a < b then b - a else a - b
  interp a b t := if a < b then a + t else a - t
  lt a b := decide (a < b)
  div a _ := a
  frac j _ := j
  inf := 1000
  zero := 0
  maxDistance := 2
  bounds s := decide (s ≤ 20)
  valid s := decide (s ≠ 5)
  checkMotion _ b := decide (b ≠ 5)
  segCount a b := if a < b then b - a else a - b
  goalDist s := if s < 6 then 6 - s else s - 6
  threshold := 1
  addIntermediate := interm

def toyScript : List (Draw Nat) := [⟨false, 9⟩, ⟨true, 6⟩, ⟨false, 3⟩, ⟨true, 6⟩, ⟨true, 6⟩]

/-- an exact solution is reported (premise of `rrt_solution_real` satisfiable), … -/
example : (solve (toy false) #[30, 5, 0] toyScript).status = .exactSolution ∧
    (solve (toy false) #[30, 5, 0] toyScript).added = some ([0, 2, 4, 6], false, 0) := by decide
/-- … interrupted after two iterations an approximate one, with difference 2 = |6 - 4|, … -/
example : (solve (toy false) #[30, 5, 0] (toyScript.take 2)).status = .approximateSolution ∧
    (solve (toy false) #[30, 5, 0] (toyScript.take 2)).added = some ([0, 2, 4], true, 2) := by decide
/-- … with intermediate states the chain points are in the path, … -/
example : (solve (toy true) #[30, 5, 0] (toyScript.take 1)).added = some ([0, 1, 2], true, 4) := by decide
/-- … interrupted at once nothing is added (TIMEOUT), and without a valid start INVALID_START. -/
example : (solve (toy false) #[30, 5, 0] []).status = .timeout ∧ (solve (toy false) #[30, 5, 0] []).added = none ∧
    (solve (toy false) #[30, 5] toyScript).status = .invalidStart ∧
    (solve (toy false) #[30, 5] toyScript).added = none := by decide

/-! ### F310: a goal state handed out by a DIRECT `sampleGoal` is not filtered

`rrt_inbounds` needs every draw — goal draws included — to satisfy the bounds.  For the goal draws nothing in
`RRT::solve` establishes that: `goal_s->sampleGoal(rstate)` is called directly, not through
`PlannerInputStates::nextGoal` (whose `satisfiesBounds` / `isValid` filter `nextGoal_valid` is about), and the extension
is only gated by `checkMotion`, i.e. by the USER's validity checker, which need not look at the bounds.  The witness:
bounds `s ≤ 20`, a validity checker and motion validator that only know the obstacle `5`, a goal state `26` (threshold
1), range 10, three goal draws.  Every sampler draw (there is none) is in bounds, the planner answers EXACT_SOLUTION, and
the reported path `[0, 10, 20, 26]` ends outside the bounds.  Replayed on the real code by the `bounds-blind:outside-goal`
class of checks/c01.py (18 planners share the direct call). -/

def toyOutside : Cfg Nat Nat :=
  { toy false with maxDistance := 10, goalDist := fun s => if s < 26 then 26 - s else s - 26 }

theorem rrt_unfiltered_goal_draw_fails :
    ∃ (cfg : Cfg Nat Nat) (starts : Array Nat) (script : List (Draw Nat)),
      (∀ dr ∈ script, dr.fromGoal = false → cfg.bounds dr.state = true) ∧
      (∀ s ∈ starts.toList, cfg.bounds s = true) ∧
      (solve cfg starts script).status = .exactSolution ∧
      ∃ path approx dif, (solve cfg starts script).added = some (path, approx, dif) ∧
        ∃ s ∈ path, cfg.bounds s = false :=
  ⟨toyOutside, #[0], [⟨true, 26⟩, ⟨true, 26⟩, ⟨true, 26⟩], by decide, by decide, by decide,
    [0, 10, 20, 26], false, 0, by decide, 26, by decide, by decide⟩


/-! ### non-vacuity for RRTConnect: the same toy world, goal sample `goal`, connect loop bounded by `fuel` -/

def toyC (interm : Bool) (goal fuel : Nat) : RRTConnect.Cfg Nat Nat where
  dist a b := if a < b then b - a else a - b
  interp a b t := if a < b then a + t else a - t
  lt a b := decide (a < b)
  div a _ := a
  frac j _ := j
  inf := 1000
  zero := 0
  maxDistance := 2
  bounds s := decide (s ≤ 20)
  valid s := decide (s ≠ 5)
  checkMotion _ b := decide (b ≠ 5)
  segCount a b := if a < b then b - a else a - b
  equalStates a b := a == b
  goalDist s := if s < goal then goal - s else s - goal
  goalSample _ := goal
  maxGoalSamples := 1
  pairValid _ _ := true
  addIntermediate := interm
  connectFuel := fuel

/-- the trees meet: EXACT with the path start tree ++ goal tree, … -/
example : (RRTConnect.solve (toyC false 6 10) #[30, 5, 0] 5 true [9]).status = .exactSolution ∧
    (RRTConnect.solve (toyC false 6 10) #[30, 5, 0] 5 true [9]).added = some ([0, 2, 4, 6], false, 0) := by decide
/-- … an interrupted connection from the goal side leaves an approximate start-tree branch (difference |12 - 4|), … -/
example : (RRTConnect.solve (toyC false 12 1) #[30, 5, 0] 1 false [9]).status = .approximateSolution ∧
    (RRTConnect.solve (toyC false 12 1) #[30, 5, 0] 1 false [9]).added = some ([0, 2, 4], true, 8) := by decide
/-- … an invalid goal sample gives INVALID_GOAL, no valid start INVALID_START, a fired condition TIMEOUT: nothing added. -/
example : (RRTConnect.solve (toyC false 5 10) #[30, 5, 0] 5 true [9]).status = .invalidGoal ∧
    (RRTConnect.solve (toyC false 5 10) #[30, 5, 0] 5 true [9]).added = none ∧
    (RRTConnect.solve (toyC false 6 10) #[30, 5] 5 true [9]).status = .invalidStart ∧
    (RRTConnect.solve (toyC false 6 10) #[30, 5, 0] 0 true [9]).status = .timeout ∧
    (RRTConnect.solve (toyC false 6 10) #[30, 5, 0] 0 true [9]).added = none := by decide

/-! ### non-vacuity for LazyPRM: number line, start 0, goal 8, state 5 invalid, motions longer than 4 invalid -/

def toyL : LazyPRM.Cfg Nat Nat where
  dist a b := if a < b then b - a else a - b
  cost a b := if a < b then b - a else a - b
  lt a b := decide (a < b)
  bound := 10
  k := 5
  bounds s := decide (s ≤ 20)
  valid s := decide (s ≠ 5)
  checkMotion a b := decide ((if a < b then b - a else a - b) ≤ 4)
  goalSample _ := 8
  maxGoalSamples := 1
  filter _ _ := true
  pathCost p := p.length
  satisfied _ := true
  better a b := decide (a < b)
  infCost := 1000

/-- the direct edge fails `checkMotion` and is removed, the detour 0-3-8 loses its second edge, vertex 3 (state 5) is
answered invalid and removed with its edges, finally 0-3-6-8 is validated vertex by vertex and edge by edge -/
def toyEvents : List (LazyPRM.Event Nat) :=
  [.draw 3, .astar [0, 1], .astar [0, 2, 1], .draw 5, .astar [0, 3, 1], .draw 6, .astar [0, 2, 4, 1]]

example : (LazyPRM.solve toyL #[30, 0] 10 toyEvents).status = .exactSolution ∧
    (LazyPRM.solve toyL #[30, 0] 10 toyEvents).added = some ([0, 3, 6, 8], false, 4) ∧
    (LazyPRM.solve toyL #[30, 0] 10 toyEvents).oracleBad = false ∧
    (LazyPRM.solve toyL #[30, 0] 10 toyEvents).rm.alive = #[true, true, true, false, true] := by decide
/-- the self-check flag stays false on this run (the hypothesis of `lazyprm_components_sound` is satisfiable, with a vertex
removal, two edge removals and several relabellings behind it), and the ids are as the theorem says: vertex 3 is out,
the rest share one component -/
example : (LazyPRM.solve toyL #[30, 0] 10 toyEvents).rm.stale = false ∧
    (LazyPRM.solve toyL #[30, 0] 10 toyEvents).rm.comp = #[6, 6, 6, 4, 6] := by decide
/-- fuel sufficiency is not vacuous: a path 0-1-2 with id 0 and a path 3-4 with id 1 get joined by the edge 2-3; the
smaller side (3, 4) is relabelled to 0 with fuel 2·5+2, every edge joins equal ids and the flag is untouched -/
def toyRoadmap : LazyPRM.Roadmap Nat Nat :=
  { states := #[0, 1, 2, 3, 4], alive := #[true, true, true, true, true], vflag := #[false, false, false, false, false],
    comp := #[0, 0, 0, 1, 1], edges := [⟨0, 1, 1, false⟩, ⟨1, 2, 1, false⟩, ⟨3, 4, 1, false⟩], compCount := 2,
    sizes := [(0, 3), (1, 2)] }
example : (LazyPRM.uniteComponents (LazyPRM.addEdge toyRoadmap 2 3 1) 2 3).comp = #[0, 0, 0, 0, 0] ∧
    (LazyPRM.uniteComponents (LazyPRM.addEdge toyRoadmap 2 3 1) 2 3).stale = false ∧
    (LazyPRM.uniteComponents (LazyPRM.addEdge toyRoadmap 2 3 1) 2 3).sizes = [(0, 5)] := by decide
/-- interrupted before the last sample: TIMEOUT, nothing added, the removed vertex stays removed -/
example : (LazyPRM.solve toyL #[30, 0] 10 (toyEvents.take 5)).status = .timeout ∧
    (LazyPRM.solve toyL #[30, 0] 10 (toyEvents.take 5)).added = none ∧
    (LazyPRM.solve toyL #[30, 0] 10 (toyEvents.take 5)).rm.alive = #[true, true, true, false] := by decide
/-- an oracle answer that is not a walk in the roadmap is rejected by the model -/
example : (LazyPRM.solve toyL #[30, 0] 10 [.draw 3, .astar [0, 7, 1]]).oracleBad = true := by decide

/-! ### non-vacuity for histories: the toy world again

`solve` (2 iterations: approximate `[0,2,4]`), `addStartState(8)`, `solve` again on the SAME tree (one goal draw: the
kept node 4 is extended to 6, exact `[0,2,4,6]`; the new start 8 became a root), `setThreshold(5)`, `clear()`,
`setIntermediateStates(true)`, `solve` (roots 0 and 8 again; the draw 11 extends 8 by the chain 9, 10: exact under the new
threshold), `clearSolutionPaths()`, `solve` with an empty script: TIMEOUT?  No — the tree is kept, but `approxsol` is a
local: nothing is reported. -/

def toyOps : List (Op Nat Nat) :=
  [.solve (toyScript.take 2), .addStart 8, .solve [⟨true, 6⟩], .setThreshold 5, .clear, .setIntermediate true,
   .solve [⟨false, 11⟩], .clearSolutions, .solve []]

example : (runOps (toy false) 1 7 (World.fresh #[30, 5, 0] ⟨2, 1, false⟩) toyOps).2.map (fun r => (r.status, r.added)) =
    [(.approximateSolution, some ([0, 2, 4], true, 2)), (.exactSolution, some ([0, 2, 4, 6], false, 0)),
     (.exactSolution, some ([8, 9, 10], false, 4)), (.timeout, none)] := by decide
example : (runOps (toy false) 1 7 (World.fresh #[30, 5, 0] ⟨2, 1, false⟩) (toyOps.take 7)).1.pd.solutions.map
      (fun s => (s.path, s.approximate, s.difference, s.index)) =
    [([0, 2, 4], true, 2, 0), ([0, 2, 4, 6], false, 0, 1), ([8, 9, 10], false, 0, 2)] ∧
    (runOps (toy false) 1 7 (World.fresh #[30, 5, 0] ⟨2, 1, false⟩) toyOps).1.pd.solutions.length = 0 ∧
    (runOps (toy false) 1 7 (World.fresh #[30, 5, 0] ⟨2, 1, false⟩) toyOps).1.planner.tree.size = 4 ∧
    (runOps (toy false) 1 7 (World.fresh #[30, 5, 0] ⟨2, 1, false⟩) toyOps).1.planner.pis.addedStartStates = 4 := by decide
/-- `setRange(0)` after `setup()` is taken literally, a second `setup()` replaces it by the automatic value -/
example : (runOps (toy false) 1 7 (World.fresh #[0] ⟨2, 1, false⟩) [.setRange 0]).1.params.maxDistance = 0 ∧
    (runOps (toy false) 1 7 (World.fresh #[0] ⟨2, 1, false⟩) [.setRange 0, .setup]).1.params.maxDistance = 7 := by decide
/-- one exact solution keeps `hasApproximateSolution()` false -/
example : hasApproximateSolution (fun a b : Nat => decide (a < b)) (fun _ _ : List Nat => false)
    (runOps (toy false) 1 7 (World.fresh #[30, 5, 0] ⟨2, 1, false⟩) (toyOps.take 1)).1.pd = true ∧
    hasApproximateSolution (fun a b : Nat => decide (a < b)) (fun _ _ : List Nat => false)
    (runOps (toy false) 1 7 (World.fresh #[30, 5, 0] ⟨2, 1, false⟩) (toyOps.take 3)).1.pd = false := by decide

/-! ### non-vacuity for `GoalStates`: goal states 5 (invalid), 12, 6 — the first sample is filtered out, the second becomes
the goal-tree root and the path ends there; with only invalid / out-of-bounds goal states the answer is INVALID_GOAL -/

def toyCg (goals : Array Nat) : RRTConnect.Cfg Nat Nat :=
  { toyC false 0 10 with
    goalSample := GoalStates.kth goals 0, maxGoalSamples := goals.size,
    goalDist := GoalStates.distanceGoal (fun a b => if a < b then b - a else a - b) (fun a b => decide (a < b)) 1000 goals }

example : (RRTConnect.solve (toyCg #[5, 12, 6]) #[30, 5, 0] 9 true [9, 9, 9, 9, 9, 9]).status = .exactSolution ∧
    (RRTConnect.solve (toyCg #[5, 12, 6]) #[30, 5, 0] 9 true [9, 9, 9, 9, 9, 9]).added = some ([0, 2, 4, 6, 8, 10, 12], false, 0) ∧
    (RRTConnect.solve (toyCg #[5, 12, 6]) #[30, 5, 0] 9 true [9, 9, 9, 9, 9, 9]).pis.sampledGoalsCount = 2 ∧
    (RRTConnect.solve (toyCg #[5, 25]) #[30, 5, 0] 9 true [9, 9, 9]).status = .invalidGoal := by decide

/-! ### non-vacuity for RRTConnect histories: interrupted (TIMEOUT, trees kept), resumed on the kept trees (exact),
`clear()`, a start added, solved again from both starts -/
def toyOpsC : List (RRTConnect.Op Nat Nat) :=
  [.solve 1 [9], .solve 5 [9, 9], .clear, .addStart 8, .solve 5 [9, 9]]

example : (RRTConnect.runOps (toyC false 12 1) (RRTConnect.World.fresh #[30, 5, 0] 2) toyOpsC).2.map (fun r => (r.status, r.added.map (·.1)))
    = [(.timeout, none), (.exactSolution, some [0, 2, 4, 6, 8, 8, 10, 12]),
       (.exactSolution, some [8, 10, 12])] := by decide

end OmplModel.Props.C01
