import OmplModel.Model.Copy
import OmplModel.Proofs.CopyArchive
import OmplModel.Proofs.CopyState
import OmplModel.Proofs.CopyCsd
import OmplModel.Proofs.CopyCommon
import OmplModel.Proofs.CopyWcFix
import OmplModel.Proofs.CopySig
import OmplModel.Proofs.CopyWrapNames
import OmplModel.Proofs.CopyScoped
import OmplModel.Proofs.CopyKeyed
import OmplModel.Model.CopyEvolve
/-!
C09 — copies and persisted data reproduce states and planner graphs exactly.

Property theorems only (helper lemmas: `Proofs/CopyState.lean`, `Proofs/CopyArchive.lean`).  All theorems are
arithmetic-free ([AF]); the state-level ones hold for every space tree (`Sp` nests `List Sp` arbitrarily) and every
state that `fits` it (shape allocated by the space, 64-bit patterns / 32-bit ints).

* F29 (fixed in /repo by 4a60b3f19): `markGoalState` did not keep the goal list sorted while `isGoalVertex` is a binary
  search.  The model follows the fixed code (`Graph.markGoal` = sorted insert); the old operation is kept as
  `Graph.markGoalOld` with the kernel-checked witness `load_store_unsorted_goals_old_fails`.
* F31 (open finding): `storeVertices` stores a single type per vertex (a start *and* goal vertex comes back as a
  start).  `load_store_graph_partial` therefore keeps the hypothesis `Disjoint`; the full form is refuted by
  `load_store_start_and_goal_fails`.
* F32 (open finding): a wrapper around a compound below a compound loses its value locations
  (`valueLocations_wrapped_compound_fails`); location theorems carry `Sp.ok`.
-/
namespace OmplModel.Props.C09
open OmplModel.Copy

/-! ## states -/

/-- deserialize ∘ serialize = id, for arbitrarily nested compounds/wrappers, even with trailing bytes -/
theorem deser_ser (sp : Sp) (st : St) (rest : List Nat) (h : fits sp st = true) :
    deserialize sp (image sp st ++ rest) = st :=
  OmplModel.Copy.deser_ser sp st rest h

example : deserialize (.compound 1 [.real 2 1, .wrapper 3 (.discrete 4)])
    (image (.compound 1 [.real 2 1, .wrapper 3 (.discrete 4)]) (.comp [.leaf [.f64 7], .wrap (.leaf [.i32 (-3)])]))
    = .comp [.leaf [.f64 7], .wrap (.leaf [.i32 (-3)])] := by rfl

/-- the image has exactly `getSerializationLength()` bytes -/
theorem ser_length (sp : Sp) (st : St) (h : fits sp st = true) : (image sp st).length = serLen sp :=
  OmplModel.Copy.ser_length sp st h

example : (image (.compound 1 [.so3 2, .discrete 3])
    (.comp [.leaf [.f64 0, .f64 0, .f64 0, .f64 1], .leaf [.i32 5]])).length = 36 := by decide

/-- `copyState` makes the destination equal to the source -/
theorem copy_equal (sp : Sp) (dst src : St) (hs : fits sp src = true) (hd : fits sp dst = true) :
    copyState sp dst src = src :=
  OmplModel.Copy.copy_equal sp dst src hs hd

/-- `cloneState` returns a state equal to the source -/
theorem clone_equal (sp : Sp) (src : St) (h : fits sp src = true) : cloneState sp src = src :=
  OmplModel.Copy.clone_equal sp src h

example : cloneState (.wrapper 1 (.compound 2 [.so2 3, .compound 4 []])) (.wrap (.comp [.leaf [.f64 9], .comp []]))
    = .wrap (.comp [.leaf [.f64 9], .comp []]) := by rfl

/-- `getValueAddressAtIndex(state, i)` (the literal compound double loop) is the `i`-th double of the state in
serialization order and null past the end: not off by one, for every nesting -/
theorem valueAddress_enumerates (sp : Sp) (i : Nat) : addrAtIndex sp i = (realAddrs sp)[i]? :=
  OmplModel.Copy.addrAtIndex_spec sp i

example : addrAtIndex (.compound 1 [.discrete 2, .real 3 0, .compound 4 [.so2 5, .real 6 2]]) 2 = some [2, 1, 1] := by
  decide

/-- `getValueLocations()` (the `computeLocationsHelper` enumeration) resolves to every double of the state exactly
once and in order, for every nesting without a wrapper-of-compound below a compound (`Sp.ok`; see F32) -/
theorem valueLocations_enumerates_each_once (sp : Sp) (h : sp.ok = true) :
    (valueLocations sp).map (resolve sp) = (realAddrs sp).map some ∧ (realAddrs sp).Nodup ∧
    (realAddrs sp).length = nReals sp :=
  ⟨OmplModel.Copy.valueLocations_enumerates sp h, realAddrs_nodup sp, realAddrs_length sp⟩

example : (Sp.compound 0 [.discrete 1, .wrapper 2 (.so2 3), .compound 4 [.real 5 2]]).ok = true ∧
    (valueLocations (.compound 0 [.discrete 1, .wrapper 2 (.so2 3), .compound 4 [.real 5 2]])).length = 3 := by decide

/-- F32 as the model reproduces it: a wrapper around a compound below a compound loses its value locations -/
theorem valueLocations_wrapped_compound_fails :
    ¬ ∀ sp : Sp, (valueLocations sp).map (resolve sp) = (realAddrs sp).map some := by
  intro h
  have := h (.compound 0 [.wrapper 1 (.compound 2 [.real 3 1])])
  revert this
  decide

/-- state → reals → state and reals → state → reals are the identity; the integers (and everything that is not a
double) are untouched by `copyFromReals` -/
theorem reals_roundtrip (sp : Sp) (st : St) (rs : List Nat) (hok : sp.ok = true) (hf : fits sp st = true) :
    copyFromReals sp st (copyToReals sp st) = st ∧
    (rs.length = nReals sp → copyToReals sp (copyFromReals sp st rs) = rs) ∧
    (∀ q, q ∉ realAddrs sp → (copyFromReals sp st rs).get q = st.get q) :=
  ⟨fromReals_toReals sp st hok hf, fun hl => toReals_fromReals sp st rs hok hf hl,
   fun q hq => by rw [copyFromReals_eq sp st rs hok]; exact writeP_get_notin _ st rs q hq⟩

example : copyFromReals (.compound 0 [.discrete 1, .real 2 2]) (.comp [.leaf [.i32 7], .leaf [.f64 1, .f64 2]]) [8, 9]
    = .comp [.leaf [.i32 7], .leaf [.f64 8, .f64 9]] := by rfl

/-- with the proposed repair of F32 (`notes/C09-fix-F32.diff`: the helpers descend only into genuine
`CompoundStateSpace` objects, a wrapper is an opaque leaf) the value locations enumerate every double exactly once and in
order for **every** space tree — no `Sp.ok` hypothesis — and the repair changes nothing on `ok` trees.  The driver runs
these definitions when the check observes the repaired behaviour on the code under test (`copy wc=fixed`). -/
theorem valueLocations_repaired_enumerates (sp : Sp) :
    (valueLocationsF sp).map (resolve sp) = (realAddrs sp).map some ∧ (valueLocationsF sp).length = nReals sp ∧
    (sp.ok = true → valueLocationsF sp = valueLocations sp) :=
  ⟨valueLocationsF_enumerates sp, valueLocationsF_length sp, valueLocationsF_eq_of_ok sp⟩

example : (valueLocationsF (.compound 0 [.wrapper 1 (.compound 2 [.real 3 1])])).length = 1 ∧
    (valueLocations (.compound 0 [.wrapper 1 (.compound 2 [.real 3 1])])).length = 0 := by decide

/-- reals round trip with the repair, for every space tree and every fitting state -/
theorem reals_roundtrip_repaired (sp : Sp) (st : St) (hf : fits sp st = true) :
    copyFromRealsF sp st (copyToRealsF sp st) = st ∧
    (∀ rs, rs.length = nReals sp → copyToRealsF sp (copyFromRealsF sp st rs) = rs) ∧
    (∀ rs q, q ∉ realAddrs sp → (copyFromRealsF sp st rs).get q = st.get q) :=
  ⟨fromRealsF_toRealsF sp st hf, fun rs hl => toRealsF_fromRealsF sp st rs hf hl,
   fun rs q hq => copyFromRealsF_frame sp st rs q hq⟩

example : copyToRealsF (.compound 0 [.wrapper 1 (.compound 2 [.real 3 1, .so2 4])]) (.comp [.wrap (.comp [.leaf [.f64 7], .leaf [.f64 8]])])
    = [7, 8] := by decide

/-- `computeSignature` of a nested space: the head is the length of the rest, the rest lists (type, dimension) of every
node in pre-order — two entries per node, a compound contributing `[STATE_SPACE_UNKNOWN, Σ dim]` followed by its components;
a top-level wrapper has the signature of the space it wraps -/
theorem signature_of_nested (nm : Nat) (cs : List Sp) (s : Sp) :
    signature (.compound nm cs) = ((2 * (1 + sigNodesL cs) : Nat) : Int) :: ([0, (dimL cs : Int)] ++ sigBodyL cs) ∧
    (sigBodyL cs).length = 2 * sigNodesL cs ∧
    signature (.wrapper nm s) = signature s := by
  refine ⟨?_, sigBodyL_length cs, by simp [signature]⟩
  have h := sigBody_length (.compound nm cs)
  rw [signature_nonwrapper _ (by intro a b; simp), h]
  simp [sigBody, sigNodes]

example : signature (.compound 0 [.real 1 2, .compound 2 [.so2 3, .discrete 4], .wrapper 5 (.so3 6)])
    = [12, 0, 7, 1, 2, 0, 2, 2, 1, 7, 1, 0, 3] := by decide

/-- `ScopedState::reals()` (the walk over `getValueAddressAtIndex` until null) returns every double of the state once and in
order, and `ScopedState::operator=(reals)` writes the first `reals.size()` of them in that order (extra values are ignored,
missing ones leave the rest untouched) — for every space tree, no hypothesis -/
theorem scopedState_reals (sp : Sp) (st : St) (rs : List Nat) :
    scopedReals sp st = (realAddrs sp).map (fun p => readBits st (some p)) ∧
    scopedAssign sp st 0 rs = writeP st (realAddrs sp) rs := by
  refine ⟨scopedReals_eq sp st, ?_⟩
  have := scopedAssign_eq sp rs st 0
  simpa using this

example : scopedAssign (.compound 0 [.discrete 1, .so3 2, .real 3 1]) (.comp [.leaf [.i32 4], .leaf [.f64 0, .f64 0, .f64 0, .f64 1], .leaf [.f64 9]]) 0 [5, 6]
    = .comp [.leaf [.i32 4], .leaf [.f64 5, .f64 6, .f64 0, .f64 1], .leaf [.f64 9]] := by rfl

/-! ## partial copies -/

/-- `copyStateData(destS, dest, sourceS, source)` (the recursive overload) transfers **exactly the common subspaces**:
the resulting destination is `specCsd` — top-down over the destination, a node whose name occurs in the source is
replaced by the source's substate of that name, any other compound is descended into, any other leaf is untouched.
Hypotheses: every name occurs once in each space (`NodupNames`), equally named nodes of the two spaces are the same
space (`Coherent`: OMPL matches subspaces by name only), both states fit.  Each hypothesis is necessary
(`csd_state_needs_nodup_source`, `…_nodup_dest`, `…_coherent` in `Proofs/CopyCsd.lean`, by `decide`). -/
theorem copyStateData_transfers_common (D : Sp) (d : St) (S : Sp) (s : St) (hnD : NodupNames D) (hnS : NodupNames S)
    (hc : Coherent D S) (hd : fits D d = true) (hs : fits S s = true) :
    (csd D d S s).1 = specCsd S s D d ∧ fits D (csd D d S s).1 = true ∧
    (∀ x ∈ nodes D, x.name ∈ names S → findState D (csd D d S s).1 x.name = findState S s x.name) ∧
    (∀ x ∈ nodes D, (∀ nm ∈ names x, nm ∉ names S) → findState D (csd D d S s).1 x.name = findState D d x.name) :=
  ⟨csd_state D d S s hnD hnS hc hd hs, csd_fits D d S s hnD hnS hc hd hs,
   fun x hx hn => csd_common D d S s hnD hnS hc hd hs x hx hn,
   fun x hx hn => csd_frame D d S s hnD hnS hc hd hs x hx hn⟩

/-- pos/vel: two shared components of equal dimension are both transferred, the third component is untouched -/
example : csd (.compound 0 [.real 1 2, .real 2 2, .so2 3]) (.comp [.leaf [.f64 0, .f64 0], .leaf [.f64 0, .f64 0], .leaf [.f64 9]])
    (.compound 7 [.real 2 2, .real 1 2]) (.comp [.leaf [.f64 3, .f64 4], .leaf [.f64 1, .f64 2]])
    = (.comp [.leaf [.f64 1, .f64 2], .leaf [.f64 3, .f64 4], .leaf [.f64 9]], .all) := by rfl

/-- the complete result code of the recursive `copyStateData`: `ALL_DATA_COPIED` iff the source is covered by
same-named subspaces of the destination; otherwise `SOME_DATA_COPIED` iff some node of the source has its name in the
destination **or is an empty compound** (0 of 0 components copied counts as "all of it": the corner case found by the
proof attempt, `csd_empty_compound_source_all`); otherwise `NO_DATA_COPIED` -/
theorem copyStateData_result_code (D : Sp) (d : St) (S : Sp) (s : St) (hd : fits D d = true) (hs : fits S s = true) :
    ((csd D d S s).2 = .all ↔ covered D S) ∧
    ((csd D d S s).2 = .some ↔ touched D S ∧ ¬ covered D S) ∧
    ((csd D d S s).2 = .none ↔ ¬ touched D S) :=
  ⟨csd_all_fits D d S s hd hs, csd_some_fits D d S s hd hs, csd_none_fits D d S s hd hs⟩

example : (csd (.compound 1 [.real 2 1, .so2 3]) (.comp [.leaf [.f64 0], .leaf [.f64 0]])
    (.compound 9 [.so2 3]) (.comp [.leaf [.f64 5]])) = (.comp [.leaf [.f64 0], .leaf [.f64 5]], .all) := by rfl

example : (csd (.real 1 1) (.leaf [.f64 0]) (.compound 2 [.compound 3 [], .so2 4]) (.comp [.comp [], .leaf [.f64 1]])).2 = .some := by
  decide

/-- result code of the overload with a list of subspace names -/
theorem copyStateData_names_result (D : Sp) (d : St) (S : Sp) (s : St) (names : List Nat) :
    ((csdNames D d S s names).2 = .all ↔ ∀ nm ∈ names, nameFound D S nm = true) ∧
    ((csdNames D d S s names).2 = .some ↔
      (∃ nm ∈ names, nameFound D S nm = true) ∧ (∃ nm ∈ names, nameFound D S nm = false)) :=
  ⟨csdNames_all D d S s names, csdNames_some D d S s names⟩

example : (csdNames (.compound 1 [.real 2 1, .so2 3]) (.comp [.leaf [.f64 0], .leaf [.f64 0]])
    (.compound 9 [.so2 3]) (.comp [.leaf [.f64 5]]) [3, 7]).2 = .some := by decide

/-- the overload with a list of names transfers exactly the named subspaces found in both spaces (for names whose
destination nodes are not nested in one another): each such destination substate becomes the source's, every
substate away from them is unchanged, the result fits -/
theorem copyStateData_names_transfers {D S : Sp} {d s : St} (ctx : CopyCtx D S s) (hd : fits D d = true)
    (names : List Nat) (hnn : NonNested D S names) :
    fits D (csdNames D d S s names).1 = true ∧
    (∀ n ∈ names, ∀ dc sc, findSub (substateLocs D) n = some dc → findSub (substateLocs S) n = some sc →
      (csdNames D d S s names).1.sub dc = s.sub sc) ∧
    (∀ q, (∀ n ∈ names, nameFound D S n = true → ∀ dc, findSub (substateLocs D) n = some dc → Incomp dc q) →
      (csdNames D d S s names).1.sub q = d.sub q) :=
  csdNames_state ctx hd names hnn

/-- substate addressing through top-level wrappers (the model side of F105's proposed repair: `getSubstateAtLocation`
unwraps the wrapper's state): the names overload transfers exactly the named substates of the *wrapped* states, the result
fits the wrapper space, the result code is that of the copy between the wrapped spaces; without a top-level wrapper it is
`csdNames` itself -/
theorem copyStateData_names_through_wrappers {D S : Sp} {d s : St}
    (ctx : CopyCtx D.unwrap S.unwrap (St.unwrapAs S s)) (hd : fits D d = true) (names : List Nat)
    (hnn : NonNested D.unwrap S.unwrap names) :
    fits D (csdNamesW D d S s names).1 = true ∧
    (∀ n ∈ names, ∀ dc sc, findSub (substateLocs D) n = some dc → findSub (substateLocs S) n = some sc →
      (St.unwrapAs D (csdNamesW D d S s names).1).sub dc = (St.unwrapAs S s).sub sc) ∧
    (∀ q, (∀ n ∈ names, nameFound D.unwrap S.unwrap n = true → ∀ dc, findSub (substateLocs D) n = some dc → Incomp dc q) →
      (St.unwrapAs D (csdNamesW D d S s names).1).sub q = (St.unwrapAs D d).sub q) ∧
    (csdNamesW D d S s names).2 = (csdNames D.unwrap (St.unwrapAs D d) S.unwrap (St.unwrapAs S s) names).2 ∧
    ((∀ nm x, D ≠ .wrapper nm x) → (∀ nm x, S ≠ .wrapper nm x) → csdNamesW D d S s names = csdNames D d S s names) :=
  let h := csdNamesW_state ctx hd names hnn
  ⟨h.1, h.2.1, h.2.2.1, h.2.2.2, fun hD hS => csdNamesW_eq hD hS d s names⟩

/-- Wrapper(SE2-like) ← Wrapper(SE2-like), names `[3]` (the R2 part): only that part of the wrapped state changes -/
example : csdNamesW (.wrapper 1 (.compound 2 [.real 3 2, .so2 4])) (.wrap (.comp [.leaf [.f64 0, .f64 0], .leaf [.f64 9]]))
    (.wrapper 1 (.compound 2 [.real 3 2, .so2 4])) (.wrap (.comp [.leaf [.f64 5, .f64 6], .leaf [.f64 7]])) [3]
    = (.wrap (.comp [.leaf [.f64 5, .f64 6], .leaf [.f64 9]]), .all) := by rfl

/-- `getCommonSubspaces`: every returned space is a node of the destination whose name is a key of both maps; every
common name is returned or covered by a returned space (**no common subspace is lost**, whatever its dimension); no
returned space is covered by another; the names are distinct -/
theorem commonSubspaces_complete_minimal {D S : Sp} (hDw : ∀ nm s, D ≠ .wrapper nm s) (hD : (spNames D).Nodup) :
    (∀ x ∈ commonSubspaces D S, IsNode D x ∧ nameFound D S x.name = true) ∧
    (∀ n, nameFound D S n = true → ∃ chain node, findSub (substateLocs D) n = some chain ∧
      nodeAt D chain = some node ∧ node.name = n ∧ ∃ r ∈ commonSubspaces D S, covers r node = true) ∧
    (∀ it ∈ commonSubspaces D S, ∀ jt ∈ commonSubspaces D S, jt.name ≠ it.name → covers it jt = false) ∧
    ((commonSubspaces D S).map Sp.name).Nodup :=
  commonSubspaces_spec hDw hD

/-- the ordered set keeps two subspaces apart unless they have the same name: what a dimension-only comparator breaks -/
theorem commonSubspaces_set_keeps_names (x : Sp) (l : List Sp) (n : Nat) :
    n ∈ (cslInsert x l).map Sp.name ↔ n = x.name ∨ n ∈ l.map Sp.name :=
  cslInsert_names x l n

example : (commonSubspaces (.compound 0 [.real 2 2, .real 3 2, .so3 4]) (.compound 9 [.real 3 2, .real 2 2])).map Sp.name
    = [3, 2] := by decide
example : (cslInsertWith dimOnlyLess (.so2 1) [.time 2]).map Sp.name = [2] := by decide   -- the seeded defect class

/-- what `SubspaceStateSampler` does — `copyStateData(dest, src, getCommonSubspaces(...))` — reports
`ALL_DATA_COPIED` and leaves **every** node of the destination whose name occurs in the source with the source's
substate (also the nodes erased as covered and compounds covered only piecewise) -/
theorem copyStateData_common_complete {D S : Sp} {d s : St} (ctx : CopyCtx D S s) (hD : (spNames D).Nodup)
    (hS : (spNames S).Nodup) (hd : fits D d = true) :
    (csdNames D d S s ((commonSubspaces D S).map Sp.name)).2 = .all ∧
    (∀ q sq x, nodeAt D q = some x → findSub (substateLocs S) x.name = some sq →
      (csdNames D d S s ((commonSubspaces D S).map Sp.name)).1.sub q = s.sub sq) ∧
    (∀ q, (∀ x ∈ commonSubspaces D S, ∀ dc, findSub (substateLocs D) x.name = some dc → Incomp dc q) →
      (csdNames D d S s ((commonSubspaces D S).map Sp.name)).1.sub q = d.sub q) :=
  ⟨(csdNames_common_state ctx hd).1,
   fun q sq x hx hsq => csdNames_common_complete ctx hD hS hd q sq x hx hsq,
   (csdNames_common_state ctx hd).2.2.2⟩

/-! ## state archives -/

theorem load_store_states (sig : List Int) (imgs : List (List Nat)) :
    loadStates sig (storeStates sig imgs) = .ok imgs :=
  OmplModel.Copy.load_store_states sig imgs

theorem loadStates_rejects_marker (sig : List Int) (h : Header) (rest : List Rec) (hm : h.marker ≠ markerStates) :
    loadStates sig (.header h :: rest) = .error .marker :=
  OmplModel.Copy.loadStates_rejects_marker sig h rest hm

theorem loadStates_rejects_signature (sig sig' : List Int) (imgs : List (List Nat)) (hs : sig' ≠ sig) :
    loadStates sig (storeStates sig' imgs) = .error .signature :=
  OmplModel.Copy.loadStates_rejects_signature sig sig' imgs hs

/-- every proper prefix (record granularity) is reported as truncated, and what the loader holds by then is
exactly the fully-read states -/
theorem loadStates_truncated_errors (sig : List Int) (imgs : List (List Nat)) (k : Nat)
    (hk : k < (storeStates sig imgs).length) :
    loadStates sig ((storeStates sig imgs).take k) = .error .truncated ∧
    (1 ≤ k → readPrefix (((storeStates sig imgs).take k).drop 1) = imgs.take (k - 1)) :=
  ⟨OmplModel.Copy.loadStates_truncated sig imgs k hk,
   fun h1 => OmplModel.Copy.readPrefix_truncated sig imgs k h1 (by simp [storeStates] at hk; omega)⟩

example : loadStates [2, 1, 1] ((storeStates [2, 1, 1] [[1], [2]]).take 2) = .error .truncated := by rfl

/-! ## planner-data archives -/

/-- store then load gives the same graph (same vertices with tags and state images, same edges with weights and
controls, same start and goal lists; identity on indices, hence an isomorphism), for **every graph the
`PlannerData` operations can build** (`addVertex`, `addEdge`, `markStart`, `markGoal`, `setTag`, `removeEdge`,
`removeVertex`, in any order — with `markGoalState` as fixed by 4a60b3f19 the goal list is always ascending, so no
hypothesis about it is needed any more) in which no vertex is both start and goal (`Disjoint`, finding F31) -/
theorem load_store_graph_partial (m : Nat) (sig csig : List Int) (g : Graph) (hb : Built g) (hD : Disjoint g) :
    loadGraph m sig csig (storeGraph m sig csig g) = .ok g :=
  load_store_graph_built m sig csig g hb hD

/- full statement (false on the current code because of F31):
   `∀ g, Built g → loadGraph m sig csig (storeGraph m sig csig g) = .ok g` -/

example : Built (((((({} : Graph).addVertex ⟨3, [1]⟩).addVertex ⟨4, [2]⟩).addVertex ⟨5, [3]⟩).markGoal 2).markGoal 0) ∧
    (((((({} : Graph).addVertex ⟨3, [1]⟩).addVertex ⟨4, [2]⟩).addVertex ⟨5, [3]⟩).markGoal 2).markGoal 0).goals = [0, 2] :=
  ⟨.markGoal 0 (.markGoal 2 (.addVertex _ (.addVertex _ (.addVertex _ .empty)))), by decide⟩

/-- the same invariant, usable for graphs given as data: well-formed edges, ascending start and goal lists -/
theorem load_store_graph_of_invariant (m : Nat) (sig csig : List Int) (g : Graph)
    (hW : g.WF) (hS : StartsOK g) (hG : GoalsOK g) (hD : Disjoint g) :
    loadGraph m sig csig (storeGraph m sig csig g) = .ok g :=
  load_store_graph_eq m sig csig g hW hS hG hD

/-- F29 (fixed by 4a60b3f19), kept as a witness about the *old* `markGoalState` (`Graph.markGoalOld`: the goal list
stayed in marking order): goals marked 2 then 0 are both lost by store → load -/
theorem load_store_unsorted_goals_old_fails (m : Nat) (sig csig : List Int) :
    gUnsortedGoals = ((((({} : Graph).addVertex ⟨0, []⟩).addVertex ⟨0, []⟩).addVertex ⟨0, []⟩).markGoalOld 2).markGoalOld 0 ∧
    gUnsortedGoals.goals = [2, 0] ∧
    loadGraph m sig csig (storeGraph m sig csig gUnsortedGoals) = .ok { gUnsortedGoals with goals := [] } :=
  ⟨rfl, (OmplModel.Copy.load_store_unsorted_goals_old_fails m sig csig).2.2.2.1,
   (OmplModel.Copy.load_store_unsorted_goals_old_fails m sig csig).2.2.2.2.2⟩

/-- F31: a vertex that is both start and goal comes back as a start only — the round trip fails for a graph the
operations can build -/
theorem load_store_start_and_goal_fails :
    ¬ ∀ (m : Nat) (sig csig : List Int) (g : Graph), Built g →
        loadGraph m sig csig (storeGraph m sig csig g) = .ok g := by
  intro h
  have hb : Built gStartAndGoal := .markGoal 0 (.markStart 0 (.addVertex _ .empty))
  have h1 := h 0 [] [] gStartAndGoal hb
  rw [(OmplModel.Copy.load_store_start_and_goal_fails 0 [] []).2.2.2.2.2] at h1
  injection h1 with h1
  have h2 := congrArg Graph.goals h1
  rw [gStartAndGoal_eq] at h2
  simp at h2

/-- `std::binary_search` finds exactly the members of an ascending list (what `isStartVertex/isGoalVertex` rely on) -/
theorem lookup_accurate_when_sorted (l : List Nat) (x : Nat) (hs : l.Pairwise (· < ·)) :
    binSearch l x = true ↔ x ∈ l :=
  binSearch_sorted l x hs

theorem load_rejects_marker (m : Nat) (sig csig : List Int) (h : Header) (rest : List Rec) (hm : h.marker ≠ m) :
    loadGraph m sig csig (.header h :: rest) = .error .marker :=
  loadGraph_rejects_marker m sig csig h rest hm

theorem load_rejects_signature (m : Nat) (sig sig' csig csig' : List Int) (g : Graph) :
    (sig' ≠ sig → loadGraph m sig csig (storeGraph m sig' csig g) = .error .signature) ∧
    (csig' ≠ csig → loadGraph m sig csig (storeGraph m sig csig' g) = .error .ctrlSignature) :=
  ⟨loadGraph_rejects_signature m sig sig' csig g, loadGraph_rejects_ctrl_signature m sig csig csig' g⟩

/-- the archive header carries two signatures (state space, control space; the latter empty for geometric archives) and
`load` accepts **only if both match**: an archive stored for (`sig'`, `csig'`) that loads successfully under
(`sig`, `csig`) has `sig' = sig` and `csig' = csig`; otherwise the error names the first mismatch -/
theorem load_rejects_signature_mismatch (m : Nat) (sig sig' csig csig' : List Int) (g : Graph) :
    ((∃ g', loadGraph m sig csig (storeGraph m sig' csig' g) = .ok g') → sig' = sig ∧ csig' = csig) ∧
    (sig' ≠ sig → loadGraph m sig csig (storeGraph m sig' csig' g) = .error .signature) ∧
    (sig' = sig → csig' ≠ csig → loadGraph m sig csig (storeGraph m sig' csig' g) = .error .ctrlSignature) := by
  have h1 : sig' ≠ sig → loadGraph m sig csig (storeGraph m sig' csig' g) = .error .signature := by
    intro hs; simp [loadGraph, storeGraph, hs]
  have h2 : sig' = sig → csig' ≠ csig → loadGraph m sig csig (storeGraph m sig' csig' g) = .error .ctrlSignature := by
    intro hs hc; simp [loadGraph, storeGraph, hs, hc]
  refine ⟨?_, h1, h2⟩
  rintro ⟨g', hg⟩
  by_cases hs : sig' = sig
  · by_cases hc : csig' = csig
    · exact ⟨hs, hc⟩
    · rw [h2 hs hc] at hg; cases hg
  · rw [h1 hs] at hg; cases hg

/-- control spaces of another dimension, discrete, or compound (even a compound of the same single component) have a
different `computeSignature`, so their archives are mutually rejected although the state space is the same -/
example : ctrlSignature (.real 3) ≠ ctrlSignature (.real 2) ∧ ctrlSignature (.real 1) ≠ ctrlSignature .discrete ∧
    ctrlSignature (.real 3) ≠ ctrlSignature (.compound [.real 3]) ∧
    ctrlSignature (.real 3) ≠ ctrlSignature (.compound [.real 2, .discrete]) := by decide

example : loadGraph markerPDC [2, 1, 2] (ctrlSignature (.real 2))
    (storeGraph markerPDC [2, 1, 2] (ctrlSignature (.real 3)) (({} : Graph).addVertex ⟨0, [1]⟩)) = .error .ctrlSignature := by
  rfl

/-- every proper prefix of a stored graph (record granularity) makes `load` fail -/
theorem load_truncated_errors (m : Nat) (sig csig : List Int) (g : Graph) (k : Nat)
    (hk : k < (storeGraph m sig csig g).length) :
    loadGraph m sig csig ((storeGraph m sig csig g).take k) = .error .truncated :=
  loadGraph_truncated m sig csig g k hk

example : loadGraph markerPD [] [] ((storeGraph markerPD [] [] (({} : Graph).addVertex ⟨0, [1]⟩)).take 1)
    = .error .truncated := by rfl

/-- the same for a graph **without edges** (vertices only, marked or not): the archive is the header and one record
per vertex, and every proper prefix — i.e. any truncation inside the vertex block — makes `load` fail; nothing after
the vertex block could mask it -/
theorem load_truncated_errors_no_edges (m : Nat) (sig csig : List Int) (g : Graph) (he : g.edges = []) (k : Nat)
    (hk : k ≤ g.verts.length) :
    (storeGraph m sig csig g).length = g.verts.length + 1 ∧
    loadGraph m sig csig ((storeGraph m sig csig g).take k) = .error .truncated := by
  have hl : (storeGraph m sig csig g).length = g.verts.length + 1 := by
    simp [storeGraph, he, vrecs_length]
  exact ⟨hl, loadGraph_truncated m sig csig g k (by omega)⟩

example : loadGraph markerPD [] [] ((storeGraph markerPD [] []
    (((({} : Graph).addVertex ⟨0, [1]⟩).addVertex ⟨1, [2]⟩).markGoal 1)).take 2) = .error .truncated := by rfl

/-- a geometric archive is rejected by the control loader and vice versa (at record level the markers differ) -/
theorem load_rejects_other_kind (sig csig csig' : List Int) (g : Graph) :
    loadGraph markerPDC sig csig (storeGraph markerPD sig csig' g) = .error .marker ∧
    loadGraph markerPD sig csig (storeGraph markerPDC sig csig' g) = .error .marker := by
  constructor <;> simp [loadGraph, storeGraph, markerPD, markerPDC]

/-! ## round 10: vertices addressed by state (`stateIndexMap_`), aliasing, `GraphStateStorage`, `extractStateStorage` -/

/-- Every `PlannerData` reachable from the empty one by **any** sequence of the by-state operations (`addVertex`,
`addStartVertex`, `addGoalVertex`, `markStartState`, `markGoalState`, `tagState`, `addEdge(v1, v2, …)`,
`removeVertex(v)`, `removeEdge(v1, v2)`), the by-index ones, `clear()` (re-use), `decoupleFromPlanner()` and changes of the
caller's state objects while coupled, stores and loads back as itself — provided no vertex is both start and goal (F31, see
`load_store_start_and_goal_fails`; the full statement without `Disjoint` is false). -/
theorem load_store_keyed_graph_partial (m : Nat) (sig csig : List Int) (kg : KGraph) (hb : KBuilt kg)
    (hD : Disjoint kg.g) : loadGraph m sig csig (storeGraph m sig csig kg.g) = .ok kg.g :=
  load_store_graph_eq m sig csig kg.g hb.kinv.inv.1 hb.kinv.inv.2.1 hb.kinv.inv.2.2 hD

example : KBuilt ((((({} : KGraph).addStartVertex 5 ⟨0, [1]⟩).1.addEdgeV 5 ⟨9, [1]⟩ 6 ⟨1, [2]⟩ 3 none).1.removeVertexV 5).1.decouple) ∧
    ((((({} : KGraph).addStartVertex 5 ⟨0, [1]⟩).1.addEdgeV 5 ⟨9, [1]⟩ 6 ⟨1, [2]⟩ 3 none).1.removeVertexV 5).1.decouple).g
      = { verts := [⟨1, [2]⟩], edges := [], starts := [], goals := [] } :=
  ⟨.decouple (.removeVertexV 5 (.addEdgeV 5 _ 6 _ 3 none (.addStartVertex 5 _ .empty))), by decide⟩

/-- `stateIndexMap_` stays exact through every history (`removeVertex` shifts it, `clear` empties it, `decoupleFromPlanner`
re-keys it): `vertexIndex` answers `i` iff vertex `i` is the one that points to that state object, and `i` is a vertex. -/
theorem vertexIndex_exact (kg : KGraph) (hb : KBuilt kg) (sid i : Nat) :
    (kg.vertexIndex sid = some i ↔ kg.keys[i]? = some (some sid)) ∧
    (kg.vertexIndex sid = some i → i < kg.g.verts.length) ∧ kg.keys.length = kg.g.verts.length :=
  ⟨vertexIndex_iff kg hb.kinv sid i, vertexIndex_lt kg hb.kinv sid i, hb.kinv.len⟩

example : ((((({} : KGraph).addVertex 7 ⟨0, []⟩).1.addVertex 8 ⟨0, []⟩).1.addVertex 9 ⟨0, []⟩).1.removeVertexI 0).1.vertexIndex 9
    = some 1 := by decide

/-- the same state object is a vertex at most once: adding it again changes nothing (not even the tag) and reports the
index it already has -/
theorem addVertex_same_state_once (kg : KGraph) (hb : KBuilt kg) (sid : Nat) (v v' : Vertex) :
    (kg.addVertex sid v).1.addVertex sid v' = ((kg.addVertex sid v).1, (kg.addVertex sid v).2) :=
  addVertex_twice kg hb.kinv sid v v'

example : ((({} : KGraph).addVertex 4 ⟨1, [5]⟩).1.addVertex 4 ⟨2, [6]⟩).1.g.verts = [⟨1, [5]⟩] := by decide

/-- a decoupled graph (after `decoupleFromPlanner()`, and every graph `PlannerDataStorage::load` produced) is a copy: no
change of the caller's state objects shows in it; a coupled vertex shows what its state object holds now -/
theorem decoupled_graph_is_a_copy (kg : KGraph) (g : Graph) (tbl : Nat → Option (List Nat)) :
    kg.decouple.refresh tbl = kg.decouple ∧ (KGraph.ofLoaded g).refresh tbl = KGraph.ofLoaded g ∧
    ∀ (i sid : Nat) (img : List Nat) (v : Vertex), kg.keys[i]? = some (some sid) → kg.g.verts[i]? = some v →
      tbl sid = some img → (kg.refresh tbl).g.verts[i]? = some { v with img := img } :=
  ⟨decouple_refresh kg tbl, ofLoaded_refresh g tbl,
    fun i sid img v hk hv ht => refreshVerts_coupled tbl _ _ i sid img v hk hv ht⟩

example : ((({} : KGraph).addVertex 4 ⟨1, [5]⟩).1.refresh (fun _ => some [6])).g.verts = [⟨1, [6]⟩] ∧
    ((({} : KGraph).addVertex 4 ⟨1, [5]⟩).1.decouple.refresh (fun _ => some [6])).g.verts = [⟨1, [5]⟩] := by decide

/-- `GraphStateStorage` (states + one metadata vector per state): store then load gives the same object, cleanly -/
theorem graphStorage_load_store (sig : List Int) (s : MStore) :
    loadStatesM sig (storeStatesM sig s) = (s, none) :=
  load_store_states_meta sig s

example : loadStatesM [2, 1, 1] (storeStatesM [2, 1, 1] { states := [[1], [2]], md := [[1], []] })
    = ({ states := [[1], [2]], md := [[1], []] }, none) := by decide

/-- every proper record prefix of a `GraphStateStorage` archive (also the one that ends just before the metadata block)
is reported as truncated, and the object is left **consistent**: the completely read states, each with one (default)
metadata entry -/
theorem graphStorage_truncated_consistent (sig : List Int) (s : MStore) (k : Nat)
    (hk : k < (storeStatesM sig s).length) :
    ∃ st, loadStatesM sig ((storeStatesM sig s).take k) = (st, some .truncated) ∧
      st.states = s.states.take (k - 1) ∧ st.md.length = st.states.length ∧ ∀ m ∈ st.md, m = [] := by
  refine ⟨_, loadStatesM_truncated sig s k hk, rfl, by simp, ?_⟩
  intro m hm
  exact (List.mem_replicate.mp hm).2

example : loadStatesM [] ((storeStatesM [] { states := [[7]], md := [[0]] }).take 2)
    = ({ states := [[7]], md := [[]] }, some .truncated) := by decide

/-- F108 about the code before 2eed54bf6 (`metadata_.clear(); ia >> metadata_;`): the consistency clause fails -/
theorem graphStorage_truncated_old_fails :
    ¬ ∀ (sig : List Int) (s : MStore) (k : Nat), k < (storeStatesM sig s).length →
      (loadStatesMOld sig ((storeStatesM sig s).take k)).1.md.length =
        (loadStatesMOld sig ((storeStatesM sig s).take k)).1.states.length := by
  intro h
  have := h [] { states := [[7]], md := [[0]] } 2 (by decide)
  rw [loadStatesMOld_truncated_inconsistent] at this
  simp at this

/-- `PlannerData::extractStateStorage()`: whatever order the pointer-keyed `stateIndexMap_` enumerates the vertices in
(`order`, any permutation), the storage holds one entry per vertex, entry `j` is the state of vertex `order[j]`, and its
metadata, read back through `order`, is exactly that vertex' out-neighbour list: the storage is the graph, renumbered. -/
theorem extractStateStorage_isomorphic (g : Graph) (order : List Nat) (hW : g.WF)
    (hp : order.Perm (List.range g.verts.length)) :
    (extractStorage g order).states.length = g.verts.length ∧
    (extractStorage g order).md.length = g.verts.length ∧
    ∀ j (hj : j < order.length),
      (extractStorage g order).states[j]? = (g.verts[order[j]]?).map (fun x => x.img) ∧
      (extractStorage g order).nbrsOf order j = outNbrs g order[j] :=
  extract_spec g order hW hp

example : extractStorage { verts := [⟨0, [1]⟩, ⟨0, [2]⟩, ⟨0, [3]⟩], edges := [⟨0, 2, 0, none⟩, ⟨0, 1, 0, none⟩, ⟨2, 0, 0, none⟩] } [2, 0, 1]
    = { states := [[3], [1], [2]], md := [[1], [0, 2], []] } := by decide

/-! ## round 10b: spaces that change after `setup()` and are set up again -/

/-- After `setup()` the cached tables are those of the structure the object has **now**, whatever happened before (earlier
setups, `addDimension`, `addSubspace` at any depth, `setName`, `lock`, weights): two objects with different histories and the
same current structure have the same value locations, substate table and `copyToReals`. -/
theorem locations_history_independent (o₁ o₂ : SpObj) (h₁ h₂ : List Step) (hc : (o₁.run h₁).cur = (o₂.run h₂).cur) :
    (o₁.run h₁).setup.valueLocations = valueLocationsF (o₁.run h₁).cur ∧
    (o₁.run h₁).setup.substates = substateLocs (o₁.run h₁).cur ∧
    (o₁.run h₁).setup.valueLocations = (o₂.run h₂).setup.valueLocations ∧
    (o₁.run h₁).setup.substates = (o₂.run h₂).setup.substates ∧
    ∀ st, (o₁.run h₁).setup.copyToReals st = (o₂.run h₂).setup.copyToReals st := by
  refine ⟨rfl, rfl, ?_, ?_, ?_⟩
  · simp [SpObj.setup, SpObj.valueLocations, hc]
  · simp [SpObj.setup, SpObj.substates, hc]
  · intro st; simp [SpObj.setup, SpObj.copyToReals, SpObj.valueLocations, hc]

example : (({ cur := .real 1 2 } : SpObj).run [.setup, .edit (.addDim 1), .setup]).valueLocations.length = 3 ∧
    (({ cur := .compound 0 [.so2 1] } : SpObj).run [.setup, .edit (.addSub 0 (.real 2 2)), .setup]).substates
      = substateLocs (.compound 0 [.so2 1, .real 2 2]) := by decide

/-- the reals round trip for a space with an arbitrary history, once it is set up: every double of the *current* structure
is converted (none dropped), and back -/
theorem reals_roundtrip_after_history (o : SpObj) (h : List Step) (st : St) (hf : fits (o.run h).cur st = true) :
    (o.run h).setup.copyFromReals st ((o.run h).setup.copyToReals st) = st ∧
    ((o.run h).setup.copyToReals st).length = nReals (o.run h).cur ∧
    ∀ rs, rs.length = nReals (o.run h).cur →
      (o.run h).setup.copyToReals ((o.run h).setup.copyFromReals st rs) = rs := by
  have hr := reals_roundtrip_repaired (o.run h).cur st hf
  refine ⟨hr.1, ?_, hr.2.1⟩
  show ((valueLocationsF (o.run h).cur).map _).length = _
  rw [List.length_map]
  exact (valueLocations_repaired_enumerates (o.run h).cur).2.1

/-- non-vacuity, and what the seeded variant "compute the locations only once" loses: the added dimension -/
example : ((({ cur := .real 1 2 } : SpObj).setup.edit (.addDim 1)).setup.copyToReals (.leaf [.f64 7, .f64 8, .f64 9])) = [7, 8, 9] ∧
    ((({ cur := .real 1 2 } : SpObj).setupIfEmpty.edit (.addDim 1)).setupIfEmpty.copyToReals (.leaf [.f64 7, .f64 8, .f64 9])) = [7, 8] := by
  decide

end OmplModel.Props.C09
