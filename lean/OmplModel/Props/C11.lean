import OmplModel.Proofs.Heap
import OmplModel.Proofs.HeapHole
import OmplModel.Proofs.HeapPos
/-!
# C11 — the updatable heap always pops in order, whatever was removed or updated

Property theorems about the model `OmplModel.Heap` of `ompl::BinaryHeap` (BinaryHeap.h), for
**every** finite sequence of operations (`Op`: insert, insert(vector), remove(handle),
key change + update(handle), pop, key changes + rebuild, buildFrom, sort, clear), every key type
and every comparison functor that is a strict weak order (`SWO`: asymmetric, negatively
transitive — C++'s own requirement on `LessThan`).  Helper lemmas live in `Proofs/Heap.lean`.
All theorems are arithmetic-free: they hold for whatever the key type is.
-/
namespace OmplModel.Props.C11
open OmplModel.Heap

/-- `<` on `Nat` (used by the non-vacuity examples) -/
def ltNat' : Nat → Nat → Bool := fun a b => decide (a < b)

variable {κ : Type}

/-- States reachable from the empty heap by any operation sequence. -/
def reach (lt : κ → κ → Bool) (ops : List (Op κ)) : Heap κ := (Heap.empty : Heap κ).run lt ops

/-- **Heap order is an invariant of every operation sequence**: no element is smaller than its
parent (`InvFrom _ _ 0`), handles are pairwise distinct and were all handed out (`Wf`). -/
theorem reachable_inv {lt : κ → κ → Bool} (h : SWO lt) (ops : List (Op κ)) :
    HeapInv lt (reach lt ops).arr ∧ Wf (reach lt ops) :=
  ⟨run_inv h ops _ (by intro c hc; exact absurd hc (Nat.not_lt_zero _)), run_wf lt ops _ empty_wf⟩

/-- **The top is a minimum of the current contents** after any operation sequence. -/
theorem top_is_min {lt : κ → κ → Bool} (h : SWO lt) (ops : List (Op κ)) (t : Elem κ)
    (ht : (reach lt ops).top = some t) :
    ∀ x ∈ (reach lt ops).arr.toList, lt x.key t.key = false := by
  intro x hx
  have H := (reachable_inv h ops).1
  obtain ⟨i, hi, rfl⟩ := List.getElem_of_mem hx
  simp only [Array.length_toList] at hi
  have h0 : 0 < (reach lt ops).arr.size := by omega
  have : t = (reach lt ops).arr[0] := by
    unfold Heap.top at ht
    rw [Array.getElem?_eq_getElem h0] at ht
    exact (Option.some.inj ht).symm
  subst this
  simpa using top_min h _ H i hi

/-- **Popping repeatedly yields all remaining elements in non-decreasing order**: draining any
reachable heap gives a permutation of its contents with no inversion. -/
theorem popAll_sorted_perm {lt : κ → κ → Bool} (h : SWO lt) (ops : List (Op κ)) :
    let a := (reach lt ops).arr
    (drain lt a.size a).Perm a.toList ∧ Sorted lt (drain lt a.size a) :=
  ⟨drain_perm lt _ _ rfl, drain_sorted h _ _ rfl (reachable_inv h ops).1⟩

/-- `pop` removes exactly one element, and that element is a minimum. -/
theorem pop_removes_a_minimum {lt : κ → κ → Bool} (h : SWO lt) (ops : List (Op κ))
    (hne : 0 < (reach lt ops).arr.size) :
    ∃ e ∈ (reach lt ops).arr.toList, (∀ x ∈ (reach lt ops).arr.toList, lt x.key e.key = false) ∧
      (e :: ((reach lt ops).pop lt).arr.toList).Perm (reach lt ops).arr.toList :=
  pop_spec h _ (reachable_inv h ops).1 hne

/-- `insert` adds exactly the new element under a fresh handle. -/
theorem insert_adds (lt : κ → κ → Bool) (s : Heap κ) (k : κ) :
    (s.insert lt k).arr.toList.Perm (⟨s.next, k⟩ :: s.arr.toList) := insert_perm lt s k

/-- **Handles keep identifying their own element**: `remove(handle)` of a live handle deletes
exactly the element carrying that handle and nothing else; afterwards the handle is dead. -/
theorem remove_live_handle {lt : κ → κ → Bool} (h : SWO lt) (ops : List (Op κ)) (hd : Nat)
    (hlive : ∃ e ∈ (reach lt ops).arr.toList, e.h = hd) :
    ∃ e, e.h = hd ∧ (e :: ((reach lt ops).remove lt hd).arr.toList).Perm (reach lt ops).arr.toList ∧
      ∀ x ∈ ((reach lt ops).remove lt hd).arr.toList, x.h ≠ hd :=
  remove_spec_live lt _ hd (reachable_inv h ops).2 hlive

/-- a dead handle changes nothing (the model's totalisation; the C++ API forbids the call) -/
theorem remove_dead_handle (lt : κ → κ → Bool) (s : Heap κ) (hd : Nat)
    (hdead : ∀ e ∈ s.arr.toList, e.h ≠ hd) : s.remove lt hd = s := remove_spec_dead lt s hd hdead

/-- **In-place key update**: changing the key behind a live handle and calling `update` changes
that element's key and nothing else (and by `reachable_inv` the heap order is restored). -/
theorem update_changes_only_that_key {lt : κ → κ → Bool} (h : SWO lt) (ops : List (Op κ)) (hd : Nat) (k : κ)
    (hlive : ∃ e ∈ (reach lt ops).arr.toList, e.h = hd) :
    ((reach lt ops).setKey lt hd k).arr.toList.Perm
      ((reach lt ops).arr.toList.map (fun e => if e.h = hd then ⟨hd, k⟩ else e)) :=
  setKey_spec_live lt _ hd k (reachable_inv h ops).2 hlive

/-- a live handle names exactly one array slot -/
theorem handle_names_one_element {lt : κ → κ → Bool} (h : SWO lt) (ops : List (Op κ)) (i j : Nat)
    (hi : i < (reach lt ops).arr.size) (hj : j < (reach lt ops).arr.size)
    (he : (reach lt ops).arr[i].h = (reach lt ops).arr[j].h) : i = j :=
  handle_unique (reachable_inv h ops).2 i j hi hj he

/-- `rebuild()` after arbitrary key changes, and `buildFrom`, establish the heap order from *any*
array and keep its contents. -/
theorem build_establishes {lt : κ → κ → Bool} (h : SWO lt) (a : Array (Elem κ)) :
    HeapInv lt (build lt a) ∧ (build lt a).Perm a := ⟨build_inv h a, build_perm lt a⟩

/-- **`sort`** returns a sorted permutation of its argument and leaves the heap untouched. -/
theorem sort_correct {lt : κ → κ → Bool} (h : SWO lt) (s : Heap κ) (ks : List κ) :
    (s.sort lt ks).Perm ks ∧ (s.sort lt ks).Pairwise (fun x y => lt y x = false) ∧
      s.step lt (.sort ks) = s :=
  ⟨sort_perm lt s ks, sort_sorted h s ks, rfl⟩

/-! ## The model's swap-based sifting is the code's hole-moving sifting

`Model/HeapHole.lean` writes `percolateUp`/`percolateDown` exactly as BinaryHeap.h does (save the element
in `tmp`, shift parents/children into the travelling hole, the trailing `child == n` block for a lone
left child, write `tmp` once at the end and only if the hole moved).  They compute the same arrays as
the swap-based `siftUp`/`siftDown` every theorem above is about — for every array, position and
comparison function (no order law needed). -/

theorem percolateUp_as_coded (lt : κ → κ → Bool) (a : Array (Elem κ)) (pos : Nat) :
    percolateUp lt a pos = siftUp lt a pos := percolateUp_eq_siftUp lt a pos

theorem percolateDown_as_coded (lt : κ → κ → Bool) (a : Array (Elem κ)) (pos : Nat) :
    percolateDown lt a pos = siftDown lt a pos := percolateDown_eq_siftDown lt a pos

/-! ## The position field

`Model/HeapPos.lean` stores `Element::position` explicitly (a table handle ↦ position written next to every
array store, as the code does) and addresses `remove(handle)` / `update(handle)` through it.  For every
sequence of insert / remove / update / pop that respects the API contract (`LiveRun`: handles passed to
`remove`/`update` are live) the position-driven heap is in step with the handle-search model the theorems
above are about, and every element's position equals its index. -/

theorem position_field_refines_search (lt : κ → κ → Bool) (ops : List (Op κ)) (L : LiveRun lt Heap.empty ops) :
    ((({} : PHeap κ).run lt ops).arr = (reach lt ops).arr) ∧
      PosSync (({} : PHeap κ).run lt ops).arr (({} : PHeap κ).run lt ops).pos := by
  have R := run_rel lt ops {} Heap.empty empty_rel empty_wf L
  exact ⟨R.arr, R.sync⟩

/-- non-vacuity: a contract-respecting sequence -/
example : LiveRun ltNat' (Heap.empty : Heap Nat) [.insert 5, .insert 3, .insert 9] := by
  simp [LiveRun]

/-! ## The defect repaired by the `fix:` commit (F1)

`removePosOld` is `removePos` as it was before the fix (sift down only).  On a 7-element heap it
leaves a child smaller than its parent; with the repaired code the invariant is preserved
(`reachable_inv`). -/

def ltNat : Nat → Nat → Bool := fun a b => decide (a < b)

theorem ltNat_swo : SWO ltNat :=
  ⟨by intro a b h; simp [ltNat] at *; omega, by intro a b c h1 h2; simp [ltNat] at *; omega⟩

def f1Heap : Array (Elem Nat) := #[⟨0, 1⟩, ⟨1, 10⟩, ⟨2, 2⟩, ⟨3, 11⟩, ⟨4, 12⟩, ⟨5, 3⟩, ⟨6, 4⟩]

/-- the array order before the removal is a heap … -/
theorem f1Heap_ok : ∀ c : Fin 7, 0 < c.val →
    ltNat (f1Heap[c.val]'(by have := c.isLt; simp [f1Heap])).key
      (f1Heap[(c.val - 1) / 2]'(by have := c.isLt; simp [f1Heap]; omega)).key = false := by decide

/-- … and after `removePosOld` of slot 3 (key 11) slot 3 holds key 4 under its parent 10. -/
theorem removePosOld_breaks :
    ((removePosOld ltNat f1Heap 3).toList.map (·.key)) = [1, 10, 2, 4, 12, 3] ∧
    ((removePos ltNat f1Heap 3).toList.map (·.key)) = [1, 4, 2, 10, 12, 3] := by
  constructor
  · simp [removePosOld, f1Heap, siftDown]
  · simp [removePos, f1Heap, siftDown, siftUp, ltNat]

/-! ## Non-vacuity -/

example : SWO ltNat := ltNat_swo
/-- a reachable three-element heap with a live handle 1 (premises of the theorems above are
satisfiable by a non-trivial state) -/
theorem nonvacuous_state :
    (reach ltNat [.insert 5, .insert 3, .insert 9]).arr.toList.map (fun e => (e.h, e.key)) = [(1, 3), (0, 5), (2, 9)] := by
  simp [reach, Heap.run, Heap.step, Heap.insert, Heap.empty, siftUp, ltNat]

example : ∃ e ∈ (reach ltNat [.insert 5, .insert 3, .insert 9]).arr.toList, e.h = 1 := by
  have h := nonvacuous_state
  have hm : (1, 3) ∈ (reach ltNat [.insert 5, .insert 3, .insert 9]).arr.toList.map (fun e => (e.h, e.key)) := by
    rw [h]; simp
  obtain ⟨e, he, heq⟩ := List.mem_map.mp hm
  exact ⟨e, he, by simpa using congrArg Prod.fst heq⟩

end OmplModel.Props.C11
