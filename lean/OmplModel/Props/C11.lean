import OmplModel.Model.Heap
/-! C11 property theorems (filled in below). -/
namespace OmplModel.Props.C11
open OmplModel.Heap

theorem clear_empty {κ} (s : Heap κ) : s.clear.arr.size = 0 := rfl

end OmplModel.Props.C11
