import OmplModel.Proofs.Heap
import OmplModel.Proofs.HeapHole
import OmplModel.Proofs.HeapPos
import OmplModel.Proofs.HeapAudit
import OmplModel.Proofs.ReverseQueue
import OmplModel.Proofs.ForwardQueueRule
import OmplModel.Proofs.HeapFull
import OmplModel.Proofs.HeapSpec
import OmplModel.Proofs.HeapGridB
/-!
# C11 — the updatable heap always pops in order, whatever was removed or updated

Property theorems about the model `OmplModel.Heap` of `ompl::BinaryHeap` (BinaryHeap.h), for
**every** finite sequence of operations (`Op`: insert, insert(vector), remove(handle),
key change + update(handle), pop, key changes + rebuild, buildFrom, sort, clear), every key type
and every comparison functor that is a strict weak order (`SWO`: asymmetric, negatively
transitive — C++'s own requirement on `LessThan`).  Helper lemmas live in `Proofs/Heap.lean`.
All theorems are arithmetic-free: they hold for whatever the key type is.
-/
namespace OmplModel.Props.C11
open OmplModel.Heap

/-- `<` on `Nat` (used by the non-vacuity examples) -/
def ltNat' : Nat → Nat → Bool := fun a b => decide (a < b)

variable {κ : Type}

/-- States reachable from the empty heap by any operation sequence. -/
def reach (lt : κ → κ → Bool) (ops : List (Op κ)) : Heap κ := (Heap.empty : Heap κ).run lt ops

/-- **Heap order is an invariant of every operation sequence**: no element is smaller than its
parent (`InvFrom _ _ 0`), handles are pairwise distinct and were all handed out (`Wf`). -/
theorem reachable_inv {lt : κ → κ → Bool} (h : SWO lt) (ops : List (Op κ)) :
    HeapInv lt (reach lt ops).arr ∧ Wf (reach lt ops) :=
  ⟨run_inv h ops _ (by intro c hc; exact absurd hc (Nat.not_lt_zero _)), run_wf lt ops _ empty_wf⟩

/-- **The top is a minimum of the current contents** after any operation sequence. -/
theorem top_is_min {lt : κ → κ → Bool} (h : SWO lt) (ops : List (Op κ)) (t : Elem κ)
    (ht : (reach lt ops).top = some t) :
    ∀ x ∈ (reach lt ops).arr.toList, lt x.key t.key = false := by
  intro x hx
  have H := (reachable_inv h ops).1
  obtain ⟨i, hi, rfl⟩ := List.getElem_of_mem hx
  simp only [Array.length_toList] at hi
  have h0 : 0 < (reach lt ops).arr.size := by omega
  have : t = (reach lt ops).arr[0] := by
    unfold Heap.top at ht
    rw [Array.getElem?_eq_getElem h0] at ht
    exact (Option.some.inj ht).symm
  subst this
  simpa using top_min h _ H i hi

/-- **Popping repeatedly yields all remaining elements in non-decreasing order**: draining any
reachable heap gives a permutation of its contents with no inversion. -/
theorem popAll_sorted_perm {lt : κ → κ → Bool} (h : SWO lt) (ops : List (Op κ)) :
    let a := (reach lt ops).arr
    (drain lt a.size a).Perm a.toList ∧ Sorted lt (drain lt a.size a) :=
  ⟨drain_perm lt _ _ rfl, drain_sorted h _ _ rfl (reachable_inv h ops).1⟩

/-- `pop` removes exactly one element, and that element is a minimum. -/
theorem pop_removes_a_minimum {lt : κ → κ → Bool} (h : SWO lt) (ops : List (Op κ))
    (hne : 0 < (reach lt ops).arr.size) :
    ∃ e ∈ (reach lt ops).arr.toList, (∀ x ∈ (reach lt ops).arr.toList, lt x.key e.key = false) ∧
      (e :: ((reach lt ops).pop lt).arr.toList).Perm (reach lt ops).arr.toList :=
  pop_spec h _ (reachable_inv h ops).1 hne

/-- `insert` adds exactly the new element under a fresh handle. -/
theorem insert_adds (lt : κ → κ → Bool) (s : Heap κ) (k : κ) :
    (s.insert lt k).arr.toList.Perm (⟨s.next, k⟩ :: s.arr.toList) := insert_perm lt s k

/-- **Handles keep identifying their own element**: `remove(handle)` of a live handle deletes
exactly the element carrying that handle and nothing else; afterwards the handle is dead. -/
theorem remove_live_handle {lt : κ → κ → Bool} (h : SWO lt) (ops : List (Op κ)) (hd : Nat)
    (hlive : ∃ e ∈ (reach lt ops).arr.toList, e.h = hd) :
    ∃ e, e.h = hd ∧ (e :: ((reach lt ops).remove lt hd).arr.toList).Perm (reach lt ops).arr.toList ∧
      ∀ x ∈ ((reach lt ops).remove lt hd).arr.toList, x.h ≠ hd :=
  remove_spec_live lt _ hd (reachable_inv h ops).2 hlive

/-- a dead handle changes nothing (the model's totalisation; the C++ API forbids the call) -/
theorem remove_dead_handle (lt : κ → κ → Bool) (s : Heap κ) (hd : Nat)
    (hdead : ∀ e ∈ s.arr.toList, e.h ≠ hd) : s.remove lt hd = s := remove_spec_dead lt s hd hdead

/-- **In-place key update**: changing the key behind a live handle and calling `update` changes
that element's key and nothing else (and by `reachable_inv` the heap order is restored). -/
theorem update_changes_only_that_key {lt : κ → κ → Bool} (h : SWO lt) (ops : List (Op κ)) (hd : Nat) (k : κ)
    (hlive : ∃ e ∈ (reach lt ops).arr.toList, e.h = hd) :
    ((reach lt ops).setKey lt hd k).arr.toList.Perm
      ((reach lt ops).arr.toList.map (fun e => if e.h = hd then ⟨hd, k⟩ else e)) :=
  setKey_spec_live lt _ hd k (reachable_inv h ops).2 hlive

/-- a live handle names exactly one array slot -/
theorem handle_names_one_element {lt : κ → κ → Bool} (h : SWO lt) (ops : List (Op κ)) (i j : Nat)
    (hi : i < (reach lt ops).arr.size) (hj : j < (reach lt ops).arr.size)
    (he : (reach lt ops).arr[i].h = (reach lt ops).arr[j].h) : i = j :=
  handle_unique (reachable_inv h ops).2 i j hi hj he

/-- `rebuild()` after arbitrary key changes, and `buildFrom`, establish the heap order from *any*
array and keep its contents. -/
theorem build_establishes {lt : κ → κ → Bool} (h : SWO lt) (a : Array (Elem κ)) :
    HeapInv lt (build lt a) ∧ (build lt a).Perm a := ⟨build_inv h a, build_perm lt a⟩

/-- **`sort`** returns a sorted permutation of its argument and leaves the heap untouched. -/
theorem sort_correct {lt : κ → κ → Bool} (h : SWO lt) (s : Heap κ) (ks : List κ) :
    (s.sort lt ks).Perm ks ∧ (s.sort lt ks).Pairwise (fun x y => lt y x = false) ∧
      s.step lt (.sort ks) = s :=
  ⟨sort_perm lt s ks, sort_sorted h s ks, rfl⟩

/-! ## The model's swap-based sifting is the code's hole-moving sifting

`Model/HeapHole.lean` writes `percolateUp`/`percolateDown` exactly as BinaryHeap.h does (save the element
in `tmp`, shift parents/children into the travelling hole, the trailing `child == n` block for a lone
left child, write `tmp` once at the end and only if the hole moved).  They compute the same arrays as
the swap-based `siftUp`/`siftDown` every theorem above is about — for every array, position and
comparison function (no order law needed). -/

theorem percolateUp_as_coded (lt : κ → κ → Bool) (a : Array (Elem κ)) (pos : Nat) :
    percolateUp lt a pos = siftUp lt a pos := percolateUp_eq_siftUp lt a pos

theorem percolateDown_as_coded (lt : κ → κ → Bool) (a : Array (Elem κ)) (pos : Nat) :
    percolateDown lt a pos = siftDown lt a pos := percolateDown_eq_siftDown lt a pos

/-! ## The position field

`Model/HeapPos.lean` stores `Element::position` explicitly (a table handle ↦ position written next to every
array store, as the code does) and addresses `remove(handle)` / `update(handle)` through it.  For every
sequence of insert / remove / update / pop that respects the API contract (`LiveRun`: handles passed to
`remove`/`update` are live) the position-driven heap is in step with the handle-search model the theorems
above are about, and every element's position equals its index. -/

theorem position_field_refines_search (lt : κ → κ → Bool) (ops : List (Op κ)) (L : LiveRun lt Heap.empty ops) :
    ((({} : PHeap κ).run lt ops).arr = (reach lt ops).arr) ∧
      PosSync (({} : PHeap κ).run lt ops).arr (({} : PHeap κ).run lt ops).pos := by
  have R := run_rel lt ops {} Heap.empty empty_rel empty_wf L
  exact ⟨R.arr, R.sync⟩

/-- non-vacuity: a contract-respecting sequence -/
example : LiveRun ltNat' (Heap.empty : Heap Nat) [.insert 5, .insert 3, .insert 9] := by
  simp [LiveRun]

/-! ## The defect repaired by the `fix:` commit (F1)

`removePosOld` is `removePos` as it was before the fix (sift down only).  On a 7-element heap it
leaves a child smaller than its parent; with the repaired code the invariant is preserved
(`reachable_inv`). -/

def ltNat : Nat → Nat → Bool := fun a b => decide (a < b)

theorem ltNat_swo : SWO ltNat :=
  ⟨by intro a b h; simp [ltNat] at *; omega, by intro a b c h1 h2; simp [ltNat] at *; omega⟩

def f1Heap : Array (Elem Nat) := #[⟨0, 1⟩, ⟨1, 10⟩, ⟨2, 2⟩, ⟨3, 11⟩, ⟨4, 12⟩, ⟨5, 3⟩, ⟨6, 4⟩]

/-- the array order before the removal is a heap … -/
theorem f1Heap_ok : ∀ c : Fin 7, 0 < c.val →
    ltNat (f1Heap[c.val]'(by have := c.isLt; simp [f1Heap])).key
      (f1Heap[(c.val - 1) / 2]'(by have := c.isLt; simp [f1Heap]; omega)).key = false := by decide

/-- … and after `removePosOld` of slot 3 (key 11) slot 3 holds key 4 under its parent 10. -/
theorem removePosOld_breaks :
    ((removePosOld ltNat f1Heap 3).toList.map (·.key)) = [1, 10, 2, 4, 12, 3] ∧
    ((removePos ltNat f1Heap 3).toList.map (·.key)) = [1, 4, 2, 10, 12, 3] := by
  constructor
  · simp [removePosOld, f1Heap, siftDown]
  · simp [removePos, f1Heap, siftDown, siftUp, ltNat]

/-! ## Non-vacuity -/

example : SWO ltNat := ltNat_swo
/-- a reachable three-element heap with a live handle 1 (premises of the theorems above are
satisfiable by a non-trivial state) -/
theorem nonvacuous_state :
    (reach ltNat [.insert 5, .insert 3, .insert 9]).arr.toList.map (fun e => (e.h, e.key)) = [(1, 3), (0, 5), (2, 9)] := by
  simp [reach, Heap.run, Heap.step, Heap.insert, Heap.empty, siftUp, ltNat]

example : ∃ e ∈ (reach ltNat [.insert 5, .insert 3, .insert 9]).arr.toList, e.h = 1 := by
  have h := nonvacuous_state
  have hm : (1, 3) ∈ (reach ltNat [.insert 5, .insert 3, .insert 9]).arr.toList.map (fun e => (e.h, e.key)) := by
    rw [h]; simp
  obtain ⟨e, he, heq⟩ := List.mem_map.mp hm
  exact ⟨e, he, by simpa using congrArg Prod.fst heq⟩

/-! ## The heap's users: audit of a dumped heap array (engine "heapusers")

`BinaryHeap` promises its order only to users that keep their side of the contract: after changing an
element's key in place they call `update(handle)` (or `rebuild()`), with the key at its final value.
The users named by the property's anchors (GridB's internal_/external_ heaps, the BIT*/AIT*/EIT* queues)
are *not* modelled here; their discipline is observed: the harness dumps each user's underlying array after
every operation and the dump is judged (a) by the property's own clauses evaluated on the implementation
(top is a minimum of the current contents, popping a copy yields a non-decreasing sequence) and (b) by the
model-side audits below.  What is proved: the audits decide the invariants all the theorems above are about;
a true audit implies both clauses of the property; a false audit names a violated parent/child edge but need
not (yet) show in the pop order; a key change without `update` breaks the heap; with `update` it cannot. -/

/-- **the Bool audit decides the proved invariant** (`HeapInv` = `InvFrom _ _ 0`). -/
theorem heapOrdered_iff_inv (lt : κ → κ → Bool) (a : Array (Elem κ)) :
    heapOrdered lt a = true ↔ HeapInv lt a := heapOrdered_iff_inv' lt a

/-- the position audit decides `PosSync` (every element's position field equals its slot). -/
theorem posConsistent_iff_posSync (a : Array (Elem κ)) (pos : Array Nat) :
    posConsistent a pos = true ↔ PosSync a pos := posConsistent_iff' a pos

/-- `topIsMin` is the property's first clause, literally. -/
theorem topIsMin_iff (lt : κ → κ → Bool) (a : Array (Elem κ)) :
    topIsMin lt a = true ↔ ∀ i, (hi : i < a.size) → lt a[i].key (a[0]'(by omega)).key = false :=
  topIsMin_iff' lt a

/-- the audit never alarms on a heap that was only touched through its API. -/
theorem reachable_audit_true {lt : κ → κ → Bool} (h : SWO lt) (ops : List (Op κ)) :
    heapOrdered lt (reach lt ops).arr = true :=
  (heapOrdered_iff_inv lt _).mpr (reachable_inv h ops).1

/-- **a true audit implies clause 1**: the top of *any* array that passes the audit is a minimum of its contents. -/
theorem audit_top_is_min {lt : κ → κ → Bool} (h : SWO lt) (a : Array (Elem κ)) (hA : heapOrdered lt a = true) :
    topIsMin lt a = true ∧ ∀ i, (hi : i < a.size) → lt a[i].key (a[0]'(by omega)).key = false := by
  have H := top_min h a ((heapOrdered_iff_inv lt a).mp hA)
  exact ⟨(topIsMin_iff lt a).mpr H, H⟩

/-- **a true audit implies clause 2**: the pop loop run on *any* array that passes the audit yields a permutation
of its contents without inversion (the generalisation of `popAll_sorted_perm` from reachable heaps to audited
dumps), and the driver's adjacent-pairs test `sortedB` says so. -/
theorem audit_pops_sorted {lt : κ → κ → Bool} (h : SWO lt) (a : Array (Elem κ)) (hA : heapOrdered lt a = true) :
    (popAll lt a).Perm a.toList ∧ Sorted lt (popAll lt a) ∧ sortedB lt (popAll lt a) = true := by
  have H := (heapOrdered_iff_inv lt a).mp hA
  have hs := drain_sorted h a.size a rfl H
  exact ⟨drain_perm lt _ _ rfl, hs, sortedB_of_sorted lt _ hs⟩

/-- `sortedB` (adjacent pairs, what the driver prints) is `Sorted` (all pairs) for a strict weak order. -/
theorem sortedB_iff_sorted {lt : κ → κ → Bool} (h : SWO lt) (l : List (Elem κ)) :
    sortedB lt l = true ↔ Sorted lt l := ⟨sorted_of_sortedB h l, sortedB_of_sorted lt l⟩

/-- **what a false audit implies, precisely**: some element is smaller than its parent.  (It does *not* imply
that the top is wrong or that this array pops out of order — `audit_false_yet_pops_sorted` — which is why the
check's oracle judges the property's own clauses and uses the audit as the model-side tie and as the aim of a
targeted search; it does mean the damage can surface after further operations — `bad_edge_surfaces_after_pop`.) -/
theorem audit_false_names_bad_edge (lt : κ → κ → Bool) (a : Array (Elem κ)) (H : heapOrdered lt a = false) :
    ∃ c, ∃ (hc : c < a.size), ∃ (_h0 : 0 < c), lt a[c].key (a[(c - 1) / 2]'(by omega)).key = true :=
  bad_edge_of_not_heapOrdered lt a H

/-- **the audits and the pop loop commute with a key abstraction that carries the order** — the dump crosses the
protocol as ranks under the heap's own comparator; judging the rank vector is judging the dump. -/
theorem audit_rank_invariant {κ' : Type} (lt : κ → κ → Bool) (lt' : κ' → κ' → Bool) (f : κ → κ')
    (hf : ∀ x y, lt' (f x) (f y) = lt x y) (a : Array (Elem κ)) :
    heapOrdered lt' (mapKey f a) = heapOrdered lt a ∧ topIsMin lt' (mapKey f a) = topIsMin lt a ∧
      popAll lt' (mapKey f a) = (popAll lt a).map (fun e => ⟨e.h, f e.key⟩) :=
  ⟨heapOrdered_map lt lt' f hf a, topIsMin_map lt lt' f hf a, popAll_map lt lt' f hf a⟩

/-- **user discipline, positive**: changing the key behind a live handle in place and *then* calling
`update(handle)` (that is `setKey`: `setKey_eq_poke_update`) leaves an array that passes the audit, whose top is a
minimum, and whose contents changed in that one key only. -/
theorem inplace_change_then_update_ok {lt : κ → κ → Bool} (h : SWO lt) (ops : List (Op κ)) (hd : Nat) (k : κ)
    (hlive : ∃ e ∈ (reach lt ops).arr.toList, e.h = hd) :
    let s' := ((reach lt ops).poke hd k).update lt hd
    heapOrdered lt s'.arr = true ∧ topIsMin lt s'.arr = true ∧
      s'.arr.toList.Perm ((reach lt ops).arr.toList.map (fun e => if e.h = hd then ⟨hd, k⟩ else e)) := by
  intro s'
  have e : s' = (reach lt ops).setKey lt hd k := (setKey_eq_poke_update lt _ hd k).symm
  rw [e]
  have hA := (heapOrdered_iff_inv lt _).mpr (setKey_inv h (reach lt ops) hd k (reachable_inv h ops).1)
  exact ⟨hA, (audit_top_is_min h _ hA).1, update_changes_only_that_key h ops hd k hlive⟩

/-- the heap `[1, 2, 3]` built through the API, and the same array after the key behind handle 2 was overwritten by 0 -/
def h123 : Heap Nat := reach ltNat [.insert 1, .insert 2, .insert 3]
def a123 : Array (Elem Nat) := #[⟨0, 1⟩, ⟨1, 2⟩, ⟨2, 3⟩]
def a120 : Array (Elem Nat) := #[⟨0, 1⟩, ⟨1, 2⟩, ⟨2, 0⟩]

theorem h123_arr : h123.arr = a123 := by
  simp [h123, reach, Heap.run, Heap.step, Heap.insert, Heap.empty, siftUp, ltNat, a123]

theorem findIdx_a123 : findIdx a123 2 = some 2 := by simp [findIdx, a123, List.findIdx?_cons]
theorem findIdx_a120 : findIdx a120 2 = some 2 := by simp [findIdx, a120, List.findIdx?_cons]

theorem poke_h123 : (h123.poke 2 0).arr = a120 := by
  simp only [Heap.poke, h123_arr, pokeAll, findIdx_a123]
  simp [a123, a120]

/-- **user discipline, negative (kernel-checked witness)**: on the reachable heap `[1,2,3]` the user lowers the key
behind handle 2 from 3 to 0 in place and does *not* call `update`: the audit fails and the top (key 1) is no longer
a minimum of the contents (0 is in the heap); calling `update(handle)` afterwards repairs both. -/
theorem inplace_change_without_update_breaks :
    heapOrdered ltNat (h123.poke 2 0).arr = false ∧ topIsMin ltNat (h123.poke 2 0).arr = false ∧
      ((h123.poke 2 0).update ltNat 2).arr.toList.map (·.key) = [0, 2, 1] ∧
      heapOrdered ltNat ((h123.poke 2 0).update ltNat 2).arr = true := by
  have hu : ((h123.poke 2 0).update ltNat 2).arr = #[⟨2, 0⟩, ⟨1, 2⟩, ⟨0, 1⟩] := by
    unfold Heap.update
    rw [poke_h123]
    simp only [findIdx_a120]
    simp [a120, siftUp, siftDown, ltNat]
  rw [hu, poke_h123]
  refine ⟨?_, ?_, ?_, ?_⟩
  · simp [a120, heapOrdered, edgeOk, ltNat, List.range, List.range.loop]
  · simp [a120, topIsMin, ltNat]
  · simp
  · simp [heapOrdered, edgeOk, ltNat, List.range, List.range.loop]

/-- **updating before the key has its final value is no update**: `update(handle)` first, key change afterwards. -/
theorem update_before_final_value_breaks :
    topIsMin ltNat ((h123.update ltNat 2).poke 2 0).arr = false := by
  have hu : (h123.update ltNat 2).arr = a123 := by
    unfold Heap.update
    rw [h123_arr]
    simp only [findIdx_a123]
    simp [a123, siftUp, siftDown, ltNat]
  have hp : ((h123.update ltNat 2).poke 2 0).arr = a120 := by
    simp only [Heap.poke, hu, pokeAll, findIdx_a123]
    simp [a123, a120]
  rw [hp]
  simp [a120, topIsMin, ltNat]

def latent : Array (Elem Nat) := #[⟨0, 1⟩, ⟨1, 5⟩, ⟨2, 2⟩, ⟨3, 3⟩]
def latent2 : Array (Elem Nat) := #[⟨0, 1⟩, ⟨1, 5⟩, ⟨2, 6⟩, ⟨3, 3⟩, ⟨4, 9⟩]

/-- **a false audit need not show in the pop order**: `[1,5,2,3]` has 3 under 5, yet its top is a minimum and it pops
`1,2,3,5`.  So the oracle cannot be replaced by the audit, and an audit alarm alone is not a property failure. -/
theorem audit_false_yet_pops_sorted :
    heapOrdered ltNat latent = false ∧ topIsMin ltNat latent = true ∧
      (popAll ltNat latent).map (·.key) = [1, 2, 3, 5] := by
  refine ⟨?_, ?_, ?_⟩
  · simp [latent, heapOrdered, edgeOk, ltNat, List.range, List.range.loop]
  · simp [latent, topIsMin, ltNat]
  · simp [latent, popAll, drain, removePos, siftUp, siftDown, ltNat]

/-- **… but the damage is latent**: `[1,5,6,3,9]` (3 under 5) has a minimal top now; after one `pop` the top is 5 while
3 is still in the heap, and the pop sequence `1,5,3,6,9` has an inversion. -/
theorem bad_edge_surfaces_after_pop :
    topIsMin ltNat latent2 = true ∧ topIsMin ltNat (removePos ltNat latent2 0) = false ∧
      (popAll ltNat latent2).map (·.key) = [1, 5, 3, 6, 9] := by
  refine ⟨?_, ?_, ?_⟩
  · simp [latent2, topIsMin, ltNat]
  · simp [latent2, topIsMin, removePos, siftUp, siftDown, ltNat]
  · simp [latent2, popAll, drain, removePos, siftUp, siftDown, ltNat]

/-- non-vacuity of `audit_pops_sorted` / `audit_top_is_min`: an array that was *not* built through the API passes -/
example : heapOrdered ltNat #[⟨7, 1⟩, ⟨3, 4⟩, ⟨9, 1⟩, ⟨0, 4⟩] = true := by
  simp [heapOrdered, edgeOk, ltNat, List.range, List.range.loop]

/-- non-vacuity of `audit_rank_invariant`: ranks of the keys `10, 30, 30, 20` under `<` -/
example : ∀ x y : Nat, ltNat (x / 10) (y / 10) = (fun a b : Nat => decide (a / 10 < b / 10)) x y := by
  intro x y; rfl

/-- non-vacuity of `inplace_change_then_update_ok`: handle 2 is live in `h123` -/
example : ∃ e ∈ h123.arr.toList, e.h = 2 := by
  rw [h123_arr]; exact ⟨⟨2, 3⟩, by simp [a123], rfl⟩

/-! ## One user modelled end to end: `eitstar::ReverseQueue`

`Model/ReverseQueue.lean` writes `insertOrUpdate` / `updateIfExists` / `pop` / `clear` / `rebuild` / `removeOutgoingEdges` /
`setCostQueueOrder` as coded over the heap model, with the stored keys as COPIES of `keyFn world source target` and the
per-vertex handle lookups as vectors (emplace_back / swap-pop / clear).  The real class is driven in lock-step
(`harness/heapusers.cpp` mode `rq` vs `drv_revqueue`: stored 4-keys in array order and lookups in vector order after every op).
`world` steps change the vertex/state fields arbitrarily without telling the queue. -/
section ReverseQueue
open OmplModel.RevQ
variable {K W : Type}

/-- states reachable from the empty queue in world `w0` -/
def rqReach (ltc lte : K → K → Bool) (keyFn : W → Nat → Nat → K) (w0 : W) (costOrd : Bool) (ops : List (ROp W)) : Sys K W :=
  (⟨w0, { costOrd := costOrd }⟩ : Sys K W).run ltc lte keyFn ops

/-- **after every public operation of the reverse queue — interleaved with arbitrary changes of the fields the keys are
computed from — the heap invariant holds w.r.t. the queue's CURRENT order and the CURRENT stored keys**, handles are
well-formed, the Bool audit passes, the top is a minimum and the queue pops as a sorted permutation.  (Reason, visible in the
proof: the only place that overwrites a stored key, `updateIfExists`, goes through `Heap.setKey` = poke + `update(handle)`.) -/
theorem reverseQueue_heap_consistent {ltc lte : K → K → Bool} (hc : SWO ltc) (he : SWO lte) (keyFn : W → Nat → Nat → K)
    (w0 : W) (b : Bool) (ops : List (ROp W)) :
    let q := (rqReach ltc lte keyFn w0 b ops).q
    HeapInv (q.lt ltc lte) q.heap.arr ∧ Wf q.heap ∧ heapOrdered (q.lt ltc lte) q.heap.arr = true ∧
      topIsMin (q.lt ltc lte) q.heap.arr = true ∧
      (popAll (q.lt ltc lte) q.heap.arr).Perm q.heap.arr.toList ∧ Sorted (q.lt ltc lte) (popAll (q.lt ltc lte) q.heap.arr) := by
  intro q
  have G : Good ltc lte q := run_good hc he keyFn ops _ ⟨empty_inv _, ⟨by simp, by simp⟩⟩
  have hs := ltOf_swo hc he q.costOrd
  have hA := (heapOrdered_iff_inv (q.lt ltc lte) q.heap.arr).mpr G.inv
  have hp := audit_pops_sorted hs q.heap.arr hA
  exact ⟨G.inv, G.wf, hA, (audit_top_is_min hs _ hA).1, hp.1, hp.2.1⟩

/-- **`insertOrUpdate(s,t)` makes the stored key current**: afterwards the queue holds an element for that edge whose key is
`keyFn` of the fields as they are NOW, whether the edge was inserted or found through the source's lookup and updated in place;
all other elements are untouched (`insertOrUpdate_spec`). -/
theorem reverseQueue_insertOrUpdate_fresh {ltc lte : K → K → Bool} (hc : SWO ltc) (he : SWO lte) (keyFn : W → Nat → Nat → K)
    (w0 : W) (b : Bool) (ops : List (ROp W)) (s t : Nat) :
    let σ := rqReach ltc lte keyFn w0 b ops
    ∃ e ∈ (σ.q.insertOrUpdate ltc lte keyFn σ.w s t).heap.arr.toList, e.key.k = keyFn σ.w s t ∧ e.key.s = s ∧ e.key.t = t := by
  intro σ
  have G : Good ltc lte σ.q := run_good hc he keyFn ops _ ⟨empty_inv _, ⟨by simp, by simp⟩⟩
  exact insertOrUpdate_fresh ltc lte keyFn σ.w σ.q s t G.wf

/-- **`rebuild()` makes every stored key current.** -/
theorem reverseQueue_rebuild_all_fresh {ltc lte : K → K → Bool} (hc : SWO ltc) (he : SWO lte) (keyFn : W → Nat → Nat → K)
    (w : W) (q : RQ K) : ∀ e ∈ (q.rebuild ltc lte keyFn w).heap.arr.toList, e.key.k = keyFn w e.key.s e.key.t :=
  rebuild_allFresh hc he keyFn w q

/-- the two orders of the code (`getCostComparisonOperator`: key0,key1,key2; `getEffortComparisonOperator`: key2,key3,key0,key1)
are strict weak orders, so `reverseQueue_heap_consistent` applies to the instance the driver runs in lock-step with the real class
(`keyOf`: the four `compute…` functions over the State fields) -/
theorem reverseQueue_as_coded_consistent (w0 : World) (b : Bool) (ops : List (ROp World)) :
    let q := (rqReach ltCost ltEffort keyOf w0 b ops).q
    heapOrdered (q.lt ltCost ltEffort) q.heap.arr = true ∧ topIsMin (q.lt ltCost ltEffort) q.heap.arr = true :=
  let h := reverseQueue_heap_consistent ltCost_swo ltEffort_swo keyOf w0 b ops
  ⟨h.2.2.1, h.2.2.2.1⟩

/-- non-vacuity: the premises are satisfiable by the code's own orders -/
example : SWO ltCost ∧ SWO ltEffort := ⟨ltCost_swo, ltEffort_swo⟩

/-! ### the reviewers' change B inside this model (kernel-checked witness)

`RQ.insertOrUpdateB` is `updateIfExists` with the "optimisation" of change B: re-sift only when key0/key1/key2 changed.  In an
effort-ordered queue two edges tie on key2 = 15; the inadmissible effort (key3) of the second drops from 111 to 11 and the edge is
re-inserted: with B the stored key3 is overwritten but the element stays below the first edge — the top is not a minimum; the code
as it is puts it on top. -/
def k4 (a b c d : Nat) : K4 := ⟨a, b, c, d⟩
def same3 (o n : K4) : Bool := o.k0 == n.k0 && o.k1 == n.k1 && o.k2 == n.k2
def qB : RQ K4 :=
  { heap := { arr := #[⟨0, ⟨k4 30 10 15 110, 0, 1⟩⟩, ⟨1, ⟨k4 30 10 15 111, 0, 2⟩⟩], next := 2 },
    lk := #[[0, 1], [], []], costOrd := false }
def kfOld : Unit → Nat → Nat → K4 := fun _ _ t => k4 30 10 15 (109 + t)
def kfNew : Unit → Nat → Nat → K4 := fun _ _ _ => k4 30 10 15 11

/-- `qB` is what the real sequence of public calls produces -/
theorem qB_reachable :
    (rqReach ltCost ltEffort kfOld () false [.addState, .addState, .addState, .ins 0 1, .ins 0 2]).q.heap.arr = qB.heap.arr ∧
    (rqReach ltCost ltEffort kfOld () false [.addState, .addState, .addState, .ins 0 1, .ins 0 2]).q.lk = qB.lk := by
  simp [rqReach, Sys.run, Sys.step, RQ.addState, RQ.insertOrUpdate, findHandle, Heap.insert, siftUp, RQ.lt, ltOf, ltEffort,
    kfOld, k4, qB, targetOf, findIdx, List.findIdx?_cons]

theorem qB_findHandle : findHandle qB.heap.arr (qB.lk.getD 0 []) 2 = some 1 := by
  simp [findHandle, qB, targetOf, findIdx, List.findIdx?_cons, List.find?]

theorem reverseQueue_skip_update_on_key3_breaks :
    topIsMin (qB.lt ltCost ltEffort) (qB.insertOrUpdateB ltCost ltEffort same3 kfNew () 0 2).heap.arr = false ∧
    (qB.insertOrUpdate ltCost ltEffort kfNew () 0 2).heap.arr.toList.map (fun e => (e.key.s, e.key.t, e.key.k.k3)) =
      [(0, 2, 11), (0, 1, 110)] := by
  constructor
  · unfold RQ.insertOrUpdateB
    rw [qB_findHandle]
    simp [qB, findIdx, List.findIdx?_cons, same3, kfNew, k4, Heap.poke, pokeAll, topIsMin, RQ.lt, ltOf, ltEffort]
  · unfold RQ.insertOrUpdate
    rw [qB_findHandle]
    simp [qB, Heap.setKey, findIdx, List.findIdx?_cons, kfNew, k4, siftUp, siftDown, RQ.lt, ltOf, ltEffort]

end ReverseQueue

/-! ## `eitstar::ForwardQueue` (not a BinaryHeap): the front-selection rule as coded

`Model/ForwardQueueRule.lean` is `getFrontIter(suboptimalityFactor)` over the container's iteration order; the check feeds every
`peek`/`pop` of the real class (finite and infinite factors, with the front cache of `peek`) through it. -/

/-- **`forwardQueue_pop_rule`**: the rule answers with a position inside the container, and for an infinite suboptimality factor
that position holds an edge of least estimated effort. -/
theorem forwardQueue_pop_rule (f : Option Nat) (l : List OmplModel.FwdQ.Row) (i : Nat) (h : OmplModel.FwdQ.front f l = some i) :
    i < l.length ∧ (f = none → ∃ r, l[i]? = some r ∧ ∀ x ∈ l, r.eff ≤ x.eff) := by
  refine ⟨OmplModel.FwdQ.front_lt_length f l i h, ?_⟩
  intro hf
  subst hf
  exact OmplModel.FwdQ.front_inf_min_effort l i h

/-- non-vacuity: three rows, factor 2: the least-effort row is outside the inflated best estimate, the best estimate is not
below the inflated lower bound, so the (last) minimal-lower-bound row is selected -/
example : OmplModel.FwdQ.front (some 2) [⟨10, 10, 5⟩, ⟨3, 30, 1⟩] = some 1 := by decide

/-! ## Round 10 — the whole class as coded, and the abstract heap of the property text

`Model/HeapFull.lean` is `BinaryHeap` with nothing abstracted: hole-moving `percolateUp` / `percolateDown` WITH every
`->position` store, `removePos`, `build`, all public member functions in the code's statement order (`insert(vector)`
with `pos = i + n`, `buildFrom` with `newElement(list[i], i)`, `remove` / `update` addressed through `element->position`,
`sort` on separate elements) and the callback log.  `drv_heap` runs it next to the search/swap model against the real
template and prints positions and callbacks from it. -/

/-- **The class as coded refines the model all order theorems are about, over the FULL operation alphabet** (this
supersedes `position_field_refines_search`, which covered insert / remove / update / pop with swap-based sifting): for
every sequence of insert / insert(vector) / remove / update / pop / key changes + rebuild / buildFrom / sort / clear that
respects the API contract (`LiveAll`: handles passed in are live), the as-coded state machine holds exactly the array of
the handle-search model, has handed out the same handles, and every element's position field equals its index (as a
`Prop` and as the Bool audit `drv_heap` prints as `ps=`). -/
theorem whole_class_refines_search (lt : κ → κ → Bool) (ops : List (Op κ)) (L : LiveAll lt Heap.empty ops) :
    let F := ({} : FHeap κ).run lt ops
    F.arr = (reach lt ops).arr ∧ F.next = (reach lt ops).next ∧ PosSync F.arr F.pos ∧ posConsistent F.arr F.pos = true := by
  intro F
  have R := (run_frel lt ops {} Heap.empty empty_frel empty_wf L).1
  exact ⟨R.arr, R.next, R.sync, (posConsistent_iff_posSync _ _).mpr R.sync⟩

/-- non-vacuity: a contract-respecting sequence that uses every operation kind, handles included -/
example : LiveAll ltNat' (Heap.empty : Heap Nat)
    [.insert 5, .setKey 0 3, .pokeRebuild [(0, 7)], .insertMany [3, 9], .remove 0, .pop, .buildFrom [4, 2], .sort [1], .clear] := by
  simp only [LiveAll, and_true, true_and]
  refine ⟨?_, ?_, ?_⟩
  · apply live_of_liveB
    simp [liveB, Heap.step, Heap.insert, Heap.empty, siftUp]
  · intro c hc; simp only [List.mem_singleton] at hc; subst hc; apply live_of_liveB
    simp [liveB, Heap.step, Heap.insert, Heap.empty, Heap.setKey, findIdx, siftUp, siftDown, List.findIdx?_cons]
  · apply live_of_liveB
    simp [liveB, Heap.step, Heap.insert, Heap.empty, Heap.setKey, Heap.pokeRebuild, Heap.insertMany, findIdx, siftUp, siftDown,
      build, buildLoop, pokeAll, ltNat', List.findIdx?_cons]

/-- **the property's two order clauses hold for the class as coded**: after every contract-respecting operation sequence
the as-coded array passes the heap audit, its top is a minimum of its contents, and popping it (the as-coded `removePos(0)`
loop, `drainF`) yields a permutation of the contents without inversion. -/
theorem as_coded_top_min_pops_sorted {lt : κ → κ → Bool} (h : SWO lt) (ops : List (Op κ)) (L : LiveAll lt Heap.empty ops) :
    let F := ({} : FHeap κ).run lt ops
    heapOrdered lt F.arr = true ∧ topIsMin lt F.arr = true ∧
      (drainF lt F.arr.size F.arr F.pos).Perm F.arr.toList ∧ Sorted lt (drainF lt F.arr.size F.arr F.pos) := by
  intro F
  have R := (run_frel lt ops {} Heap.empty empty_frel empty_wf L).1
  have hA : heapOrdered lt F.arr = true := by rw [R.arr]; exact reachable_audit_true h ops
  have hp := audit_pops_sorted h F.arr hA
  rw [drainF_eq lt _ _ _ R.sync R.dist]
  exact ⟨hA, (audit_top_is_min h _ hA).1, hp.1, hp.2.1⟩

/-- **callbacks**: over a contract-respecting run the class fires exactly one `eventAfterInsert_` per element created by
`insert` / `insert(vector)` (in creation order, with the new handle) and one `eventBeforeRemove_` per `remove(handle)` —
and nothing for `pop`, `buildFrom`, `rebuild`, `update`, `sort`, `clear` (`evRun` / `evOf`: the specification read off the
abstract model).  GridB learns its handles through the first callback. -/
theorem callbacks_fire_as_specified (lt : κ → κ → Bool) (ops : List (Op κ)) (L : LiveAll lt Heap.empty ops) :
    (({} : FHeap κ).run lt ops).log.toList = evRun lt Heap.empty ops := by
  have := (run_frel lt ops {} Heap.empty empty_frel empty_wf L).2
  simpa using this

/-- non-vacuity: the log of a run with every callback-relevant operation -/
example : evRun ltNat' (Heap.empty : Heap Nat) [.insert 5, .insertMany [3, 9], .remove 1, .pop, .buildFrom [4], .clear] =
    [.ins 0, .ins 1, .ins 2, .rem 1] := by
  simp [evRun, evOf, Heap.step, Heap.insert, Heap.insertMany, Heap.empty, List.range']

/-- **`sort` as coded** (fresh elements with their own position fields, `build`, the `removePos(0)` loop) returns what the
model's `sort` returns, hence (by `sort_correct`) a sorted permutation of its argument. -/
theorem sort_as_coded {lt : κ → κ → Bool} (h : SWO lt) (F : FHeap κ) (ks : List κ) :
    (F.sort lt ks).Perm ks ∧ (F.sort lt ks).Pairwise (fun x y => lt y x = false) := by
  rw [sortF_eq lt F Heap.empty ks]
  exact ⟨(sort_correct h Heap.empty ks).1, (sort_correct h Heap.empty ks).2.1⟩

/-- **Refinement to the abstract heap of the property text** (a finite map handle ↦ key, `Spec`): every finite operation
sequence of the model is a run of the abstract heap (`SpecRun`: insert adds a fresh handle, insert(vector)/buildFrom add
consecutive fresh handles, `remove(h)` deletes exactly the elements with handle `h`, `update` re-keys exactly handle `h`,
`pop` deletes SOME minimum, rebuild re-keys, clear empties, sort changes nothing), ending in an abstract state with the
same contents as a multiset.  Consequently **the size equals the number of live elements**, live handles are pairwise
distinct and all handed out — for every history, every key type and every strict weak order. -/
theorem refines_multiset {lt : κ → κ → Bool} (h : SWO lt) (ops : List (Op κ)) :
    ∃ A : Spec κ, SpecRun lt {} ops A ∧ (reach lt ops).arr.toList.Perm A.live ∧ (reach lt ops).next = A.next ∧
      (reach lt ops).arr.size = A.live.length ∧ (A.live.map (·.h)).Nodup ∧ ∀ e ∈ A.live, e.h < A.next := by
  obtain ⟨A, r, p, n⟩ := run_sim h ops Heap.empty {} empty_wf
    (by intro c hc; exact absurd hc (Nat.not_lt_zero _)) ⟨by simp [Heap.empty], rfl⟩
  have W := (reachable_inv h ops).2
  refine ⟨A, r, p, n, by have := p.length_eq; simp only [Array.length_toList] at this; exact this, (p.map _).nodup_iff.mp W.nodup, ?_⟩
  intro e he
  rw [← n]; exact W.bound e (p.mem_iff.mpr he)

/-- non-vacuity / the abstract run of a concrete history: handle 1 is removed, handle 0 re-keyed, then the minimum popped -/
example : SpecRun ltNat ({} : Spec Nat) [.insert 5, .insert 3, .remove 1, .setKey 0 2, .pop] ⟨[], 2⟩ :=
  .cons (.insert _ 5) (.cons (.insert _ 3) (.cons (.remove _ 1) (.cons (.setKey _ 0 2)
    (.cons (.pop _ ⟨0, 2⟩ [] (by simp [rekey]) (by simp [rekey, ltNat])) (.nil _)))))

/-! ## `GridB::updateAll()` — the "in-place key update, rebuild" clause through the user, for EVERY callback configuration

`Model/Grid.lean` (C13's model of GridB, reused read-only) writes `updateAll()` as coded: the user's in-place writes, the
cell-update event on every cell, then an unconditional `rebuild()` of both heaps with every cell's current key.  `cfg.ev` is the
registered callback; NO callback registered is `ev = fun c => c.data` (the default `noCellUpdate`). -/
section GridB
open OmplModel.Grid

/-- **after `updateAll()` both heaps are valid heaps of the CURRENT keys, whatever callback is or is not registered**: for every
configuration (any event, any two strict weak orders), any grid state and any set of in-place writes, both arrays satisfy the heap
invariant (hence pass the audit and have a minimal top), and every cell's heap element carries the cell's current key.  (The side
condition — distinct heap handles, each side's cells pointing at distinct elements — is C13's `Inv`, preserved by every GridB
operation: `updateAll_inv` in Proofs/GridUpdateAll.lean; `updateAll` writes `data` only.) -/
theorem gridb_updateAll_rebuilds_current_keys (cfg : Cfg) (hE : SWO cfg.kltE) (hI : SWO cfg.kltI) (g : GridB)
    (chg : List (Coord × Int))
    (WE : (g.external.arr.toList.map (·.h)).Nodup) (WI : (g.internal.arr.toList.map (·.h)).Nodup)
    (NE : ((((updateAll cfg g chg).cells.filter (·.border)).map (fun c => (c.helem, c.key))).map (·.1)).Nodup)
    (NI : ((((updateAll cfg g chg).cells.filter (!·.border)).map (fun c => (c.helem, c.key))).map (·.1)).Nodup) :
    let g' := updateAll cfg g chg
    HeapInv cfg.kltE g'.external.arr ∧ HeapInv cfg.kltI g'.internal.arr ∧
      topIsMin cfg.kltE g'.external.arr = true ∧ topIsMin cfg.kltI g'.internal.arr = true ∧
      (∀ c ∈ g'.cells, c.border = true → ∀ e ∈ g'.external.arr.toList, e.h = c.helem → e.key = c.key) ∧
      (∀ c ∈ g'.cells, c.border = false → ∀ e ∈ g'.internal.arr.toList, e.h = c.helem → e.key = c.key) := by
  intro g'
  obtain ⟨e1, e2, _⟩ := pokeRebuild_current hE g.external WE _ NE
  obtain ⟨i1, i2, _⟩ := pokeRebuild_current hI g.internal WI _ NI
  refine ⟨e1, i1, (audit_top_is_min hE _ ((heapOrdered_iff_inv _ _).mpr e1)).1,
    (audit_top_is_min hI _ ((heapOrdered_iff_inv _ _).mpr i1)).1, ?_, ?_⟩
  · intro c hc hb e he hh
    exact e2 (c.helem, c.key) (List.mem_map.mpr ⟨c, List.mem_filter.mpr ⟨hc, by simpa using hb⟩, rfl⟩) e he hh
  · intro c hc hb e he hh
    exact i2 (c.helem, c.key) (List.mem_map.mpr ⟨c, List.mem_filter.mpr ⟨hc, by simpa using hb⟩, rfl⟩) e he hh

/-- a one-dimensional grid WITHOUT a callback (`ev` = identity on the data), two isolated border cells with keys 5 and 7 -/
def cfgNoCb : Cfg := { dim := 1, limit := 2, ltE := fun a b => decide (a < b), ltI := fun a b => decide (a < b), ev := fun c => c.data }
def gTwo : GridB :=
  { cells := [{ id := 0, coord := [0], data := 5, helem := 0 }, { id := 1, coord := [5], data := 7, helem := 1 }],
    external := { arr := #[⟨0, (5, 0)⟩, ⟨1, (7, 1)⟩], next := 2 }, nextId := 2 }

/-- **the seeded fast path breaks the clause (kernel-checked witness)**: the user writes key 1 into the second cell and calls
`updateAll()`.  With the early return (`updateAllSkip`) the external heap still answers cell 0 (stale key 5) although a border cell
with key 1 is in the grid — the top is not a minimum of the current contents; `updateAll` as coded answers cell 1. -/
theorem gridb_updateAll_skipped_without_callback_breaks :
    topExternal (updateAllSkip gTwo [([5], 1)]) = some 0 ∧
      (∃ c ∈ (updateAllSkip gTwo [([5], 1)]).cells, c.border = true ∧ c.id = 1 ∧ cfgNoCb.ltE c.data 5 = true) ∧
      topExternal (updateAll cfgNoCb gTwo [([5], 1)]) = some 1 := by
  refine ⟨by simp [topExternal, updateAllSkip, gTwo, Heap.top], ⟨{ id := 1, coord := [5], data := 1, helem := 1 }, by simp [updateAllSkip, gTwo, pokeData, getCell, setCell], rfl, rfl, by decide⟩, ?_⟩
  have hc : (pokeData gTwo.cells [([5], 1)]).map (fun c => { c with data := cfgNoCb.ev c }) =
      [{ id := 0, coord := [0], data := 5, helem := 0 }, { id := 1, coord := [5], data := 1, helem := 1 }] := by
    simp [gTwo, pokeData, getCell, setCell, cfgNoCb]
  unfold topExternal updateAll
  simp only [hc]
  simp [gTwo, Heap.pokeRebuild, Heap.top, pokeAll, findIdx, List.findIdx?_cons, build, buildLoop, siftDown, Cell.key, Cfg.kltE, cfgNoCb]

/-- non-vacuity of `gridb_updateAll_rebuilds_current_keys` on that grid: the side conditions hold and both orders are strict weak -/
example : SWO cfgNoCb.kltE ∧ (gTwo.external.arr.toList.map (·.h)).Nodup ∧
    ((((updateAll cfgNoCb gTwo [([5], 1)]).cells.filter (·.border)).map (fun c => (c.helem, c.key))).map (·.1)).Nodup := by
  refine ⟨⟨by intro a b h; simp [Cfg.kltE, cfgNoCb] at *; omega, by intro a b c h1 h2; simp [Cfg.kltE, cfgNoCb] at *; omega⟩,
    by simp [gTwo], by simp [updateAll, gTwo, pokeData, getCell, setCell, cfgNoCb]⟩

end GridB

end OmplModel.Props.C11
