import OmplModel.Proofs.Rng
import OmplModel.Proofs.RngOracle
import OmplModel.Proofs.RngSphere
import OmplModel.Proofs.RngPlan
import OmplModel.Proofs.RngPlanFuel
/-!
C20 — a fixed seed reproduces single-threaded planning bit for bit.

Property theorems over the executable model `OmplModel.Model.Rng` (tied to RandomNumbers.cpp / libstdc++ by the
correspondence run of checks/c20.py).  All are arithmetic-free: no law of `Float` is used, so they hold of the
very functions the driver executes.  `decide` appears only in the non-vacuity examples.
-/
namespace OmplModel.Props.C20
open OmplModel.Rng OmplModel.Rng.Oracle

/-! ## the seeding protocol -/

/-- After `setSeed s` (`s ≠ 0`) before any seed was handed out, nothing of the clock value the seed generator was
constructed from is left: the two generators are *equal* (first seed, started flag, all 24 words, carry and
index of `ranlux24_base`). -/
theorem setSeed_erases_clock (c₁ c₂ s : UInt64) (hs : s ≠ 0) :
    (SeedGen.init c₁).setSeed s = (SeedGen.init c₂).setSeed s := by
  have : s > 0 := UInt64.pos_iff_ne_zero.mpr hs
  simp [SeedGen.setSeed, SeedGen.init, this]

example : (SeedGen.init 5).setSeed 3 = (SeedGen.init 1727300000123456).setSeed 3 := by decide
-- the clock does matter without `setSeed` (so the statement is not vacuous)
example : SeedGen.init 5 ≠ SeedGen.init 6 := by decide

/-- For *every* seed (0 included, which the code replaces by 1 for the stream but not in `firstSeed_`) the local
seeds handed out after `setSeed s` do not depend on the clock. -/
theorem ithSeed_clock_free (c s : UInt64) (n : Nat) :
    SeedGen.seeds n ((SeedGen.init c).setSeed s).1 = SeedGen.seeds n ((SeedGen.init 0).setSeed s).1 := by
  apply seeds_congr
  simp only [SeedGen.setSeed, SeedGen.init]
  split <;> simp

/-- the `i`-th generator created after `setSeed s` in a fresh process gets local seed `ithSeed s i`: a function of
`(s, i)` only, whatever the clock read.  (Stated on `[i]?`, not on a totalised `getD`: the entry exists, and it is that
value; the inner `Option` is `none` only if the seed draw's rejection loop ran out of its 4096 rounds.) -/
theorem ith_generator_depends_on_seed_and_index (c s : UInt64) (i : Nat) :
    (SeedGen.seeds (i + 1) ((SeedGen.init c).setSeed s).1)[i]? = some (ithSeed s i) := by
  have hl : ∀ (n : Nat) (g : SeedGen), (SeedGen.seeds n g).length = n := by
    intro n
    induction n with
    | zero => intro g; rfl
    | succ n ih => intro g; simp [SeedGen.seeds, ih]
  unfold ithSeed
  rw [ithSeed_clock_free c s (i + 1), List.getD_eq_getElem?_getD, List.getElem?_eq_getElem (by rw [hl]; omega)]
  rfl

example : ithSeed 1 0 = some 523834656 ∧ ithSeed 1 1 = some 303609453 ∧ ithSeed 42 2 = some 975868425 := by decide

/-- every local seed handed out lies in `[1, 10^9]` (the bounds of `sDist_`) -/
theorem nextSeed_in_range (g : SeedGen) (v : UInt64) (h : g.nextSeed.1 = some v) :
    1 ≤ v.toNat ∧ v.toNat ≤ 1000000000 := by
  unfold SeedGen.nextSeed at h
  split at h
  · simp at h
  · rename_i r sg hd
    have hr := drawSeed_range _ _ _ hd
    simp only [Option.some.injEq] at h
    subst h
    have : (UInt64.ofNat r).toNat = r := by
      simp [UInt64.toNat_ofNat']; omega
    omega

example : (SeedGen.init 7).nextSeed.1 ≠ none := by decide

/-- handing out a seed marks the generator as started and never touches `firstSeed_` -/
theorem nextSeed_marks_started (g : SeedGen) :
    g.nextSeed.2.someSeedsGenerated = true ∧ g.nextSeed.2.firstSeed = g.firstSeed :=
  ⟨nextSeed_started g, nextSeed_firstSeed g⟩

/-- The code's own error path, as coded: `setSeed s` (`s ≠ 0`) after seeds were handed out logs the error and
leaves `firstSeed_` (what `getSeed()` reports) unchanged — but it *does* reseed `sGen_`. -/
theorem setSeed_after_start (g : SeedGen) (hg : g.someSeedsGenerated = true) (s : UInt64) (hs : s ≠ 0) :
    g.setSeed s = ({ g with sGen := Swc.seed s }, SeedMsg.errorStarted) := by
  have : s > 0 := UInt64.pos_iff_ne_zero.mpr hs
  simp [SeedGen.setSeed, this, hg]

/-- `setSeed 0` after seeds were handed out: warning, state untouched. -/
theorem setSeed_zero_after_start (g : SeedGen) (hg : g.someSeedsGenerated = true) :
    g.setSeed 0 = (g, SeedMsg.warnZeroIgnored) := by
  have : ¬ ((0 : UInt64) > 0) := by decide
  simp [SeedGen.setSeed, this, hg]

example : ((SeedGen.init 7).nextSeed.2.setSeed 5).2 = SeedMsg.errorStarted := by decide

/-- `setSeed 0` in a fresh process, as coded: warning "using 1 instead"; `sGen_` is seeded with 1 — but
`firstSeed_` keeps the *clock* value, so `getSeed()` does not report the seed in effect. -/
theorem zero_seed (c : UInt64) :
    (SeedGen.init c).setSeed 0 = ({ SeedGen.init c with sGen := Swc.seed 1 }, SeedMsg.warnZeroUsingOne) ∧
      ((SeedGen.init c).setSeed 0).1.firstSeed = c := by
  have : ¬ ((0 : UInt64) > 0) := by decide
  simp [SeedGen.setSeed, SeedGen.init, this]

/-- … and the stream of local seeds after `setSeed 0` is the stream of `setSeed 1`. -/
theorem zero_seed_stream (c : UInt64) (n : Nat) :
    SeedGen.seeds n ((SeedGen.init c).setSeed 0).1 = SeedGen.seeds n ((SeedGen.init c).setSeed 1).1 := by
  apply seeds_congr
  have h0 : ¬ ((0 : UInt64) > 0) := by decide
  have h1 : (1 : UInt64) > 0 := by decide
  simp [SeedGen.setSeed, SeedGen.init, h0, h1]

/-- `getSeed()`'s promise ("passing the returned value to setSeed() at a subsequent execution reproduces the run")
fails after `setSeed(0)`: the reported value is the clock's, the stream is seed 1's.  Witness: clock 5. -/
theorem zero_seed_getSeed_not_replayable :
    ∃ c : UInt64,
      let g := ((SeedGen.init c).setSeed 0).1
      SeedGen.seeds 1 ((SeedGen.init 0).setSeed g.firstSeed).1 ≠ SeedGen.seeds 1 g :=
  ⟨5, by decide⟩

/-- The property's first sentence, for the generators themselves: in two processes whose clocks read `c₁` and
`c₂`, after `setSeed s` the first `n` default-constructed `RNG()` objects are equal (local seed, all 624 words of
`mt19937`, index, normal-distribution cache) — hence every stream drawn from the `i`-th of them is the same. -/
theorem created_generators_function_of_seed (c₁ c₂ s : UInt64) (n : Nat) :
    (World.createN n { sg := ((SeedGen.init c₁).setSeed s).1, rngs := #[] }).rngs =
      (World.createN n { sg := ((SeedGen.init c₂).setSeed s).1, rngs := #[] }).rngs := by
  refine createN_congr _ _ _ ?_ rfl
  simp only [SeedGen.setSeed, SeedGen.init]
  split <;> simp

/-- the `i`-th local seed does not depend on how many generators are created after it -/
theorem ithSeed_stable (g : SeedGen) (n i : Nat) (hi : i < n) :
    (SeedGen.seeds n g)[i]? = (SeedGen.seeds (i + 1) g)[i]? :=
  seeds_getElem?_stable n i g hi

example : SeedGen.seeds 3 ((SeedGen.init 9).setSeed 42).1 = [some 207452777, some 118353252, some 975868425] := by
  decide

/-- `ranlux24_base` as modelled never leaves its range: a seeded state has 24-bit words and a carry bit, and
every draw returns a value `< 2^24` and preserves that — the premise `urng() ≤ urng.max()` under which
libstdc++'s `uniform_int_distribution` is written. -/
theorem ranlux24_stays_in_range (v : UInt64) :
    (Swc.seed v).WF ∧ ∀ g : Swc, g.WF → g.next.1 < 16777216 ∧ g.next.2.WF :=
  ⟨Swc.seed_WF v, fun g h => Swc.next_WF g h⟩

example : (Swc.seed 1).next.1 = 8871692 := by decide

/-! ## reseeding one generator -/

/-- For every earlier history `h` of draws on an `RNG` in any state, `setLocalSeed s` followed by `ops` produces
exactly the outputs of a freshly constructed `RNG(s)` on `ops`.  (Needs `normalDist_.reset()`: see
`reseed_without_reset_returns_stale` for the model with that line dropped.) -/
theorem reseed_fresh (r : Rng) (h : List Op) (s : UInt64) (ops : List Op) :
    (r.run (h ++ [Op.setLocalSeed s] ++ ops)).drop (h.length + 1) = (Rng.create s).run ops := by
  rw [List.append_assoc, run_append, List.drop_append, run_length]
  have e1 : h.length + 1 - h.length = 1 := by omega
  have e2 : List.drop (h.length + 1) (r.run h) = [] := by
    apply List.drop_eq_nil_of_le; rw [run_length]; omega
  rw [e1, e2]
  simp only [List.singleton_append, Rng.run, List.drop_succ_cons, List.drop_zero, List.nil_append, Rng.step]
  exact run_sim (setLocalSeed_sim_create _ s) ops

/-- the whole state after reseeding is indistinguishable from a fresh one -/
theorem reseed_state_fresh (r : Rng) (s : UInt64) : Sim (r.setLocalSeed s) (Rng.create s) :=
  setLocalSeed_sim_create r s

/-- `setLocalSeed` with `normalDist_.reset()` dropped (the mutant of DESIGN 2.20 "Catches") -/
def setLocalSeedNoReset (r : Rng) (s : UInt64) : Rng := { r with localSeed := s, gen := MT.seed s }

/-- Without the reset, a pending saved value survives reseeding: the first Gaussian after `setLocalSeed` is the
stale value computed from the *old* stream and the new generator is not advanced — so the outputs depend on
the history before the reseed (this is what the harness' odd-number-of-Gaussians histories look for). -/
theorem reseed_without_reset_returns_stale (r : Rng) (s : UInt64) (h : r.savedAvail = true) :
    ((setLocalSeedNoReset r s).step Op.gaussian01).1 = optReal (some (r.saved * 1.0 + 0.0)) ∧
      ((setLocalSeedNoReset r s).step Op.gaussian01).2.gen = MT.seed s ∧
      ¬ Sim (setLocalSeedNoReset r s) (Rng.create s) := by
  refine ⟨?_, ?_, ?_⟩
  · simp [setLocalSeedNoReset, Rng.step, Rng.normal, h]
  · simp [setLocalSeedNoReset, Rng.step, Rng.normal, h]
  · intro hs
    have := hs.2.2.1
    simp [setLocalSeedNoReset, Rng.create, h] at this

/-- The hypothesis of `reseed_without_reset_returns_stale` is what every generator is in after an odd number of
Gaussians: from any state without a pending value, a Gaussian draw that returned a value leaves one pending. -/
theorem saved_pending_after_gaussian (r : Rng) (h : r.savedAvail = false) (x : Float) (hx : r.normal.1 = some x) :
    r.normal.2.savedAvail = true := by
  unfold Rng.normal at hx ⊢
  simp only [h, Bool.false_eq_true, if_false] at hx ⊢
  split
  · rename_i hp; rw [hp] at hx; simp at hx
  · rfl

/-! ## the sphere-based routines, and copies -/

/-- `reseed_fresh` for *all* routines of `RNG`, the boost-based ones included (`uniformNormalVector`, `uniformInBall`,
and with them the draw part of `uniformProlateHyperspheroid[Surface]`): after `setLocalSeed s` every operation
sequence prints what a fresh `RNG(s)` prints.  In this boost the spherical distributions keep no state of their own;
what the theorem needs from the code is that they draw from the object's own `generator_`. -/
theorem reseed_fresh_all (r : Rng) (h : List OpX) (s : UInt64) (ops : List OpX) :
    (r.runX (h ++ [OpX.base (Op.setLocalSeed s)] ++ ops)).drop (h.length + 1) = (Rng.create s).runX ops := by
  rw [List.append_assoc, runX_append, List.drop_append, runX_length]
  have e1 : h.length + 1 - h.length = 1 := by omega
  have e2 : List.drop (h.length + 1) (r.runX h) = [] := by
    apply List.drop_eq_nil_of_le; rw [runX_length]; omega
  rw [e1, e2]
  simp only [List.singleton_append, Rng.runX, List.drop_succ_cons, List.drop_zero, List.nil_append, Rng.stepX,
    Rng.step]
  exact runX_sim (setLocalSeed_sim_create _ s) ops

/-- The clause in the property's own words — "a generator given a local seed reproduces its stream after being reseeded
with it" — for every variate kind `ompl::RNG` offers (uniform01/Real/Int/Bool, gaussian01/gaussian with the cached second
normal, halfNormalReal/Int, quaternion, eulerRPY, uniformNormalVector, uniformInBall and with them the PHS draws, shuffle):
a generator created with local seed `s` that printed the outputs of `ops`, then went through an arbitrary history `h` of
draws of any kind, prints after `setLocalSeed(s)` exactly what it printed for `ops` at the beginning of its life. -/
theorem reseed_reproduces_own_stream (s : UInt64) (ops h : List OpX) :
    ((Rng.create s).runX (ops ++ h ++ [OpX.base (Op.setLocalSeed s)] ++ ops)).drop (ops.length + h.length + 1) =
      ((Rng.create s).runX (ops ++ h ++ [OpX.base (Op.setLocalSeed s)] ++ ops)).take ops.length := by
  have h1 := reseed_fresh_all (Rng.create s) (ops ++ h) s ops
  rw [List.length_append] at h1
  rw [h1]
  rw [List.append_assoc, List.append_assoc, runX_append, List.take_left' (runX_length _ _)]

example :
    ((Rng.create 9).runX [OpX.base Op.getLocalSeed, OpX.base (Op.setLocalSeed 4), OpX.base (Op.setLocalSeed 9),
      OpX.base Op.getLocalSeed]).drop 3 = [OutX.out (Out.seed 9)] := by
  rfl

/-- The code *before* /repo af02ab991 (finding F200, kept as a witness about the former implicit copy; the driver models
it when the tree under test declares no `RNG(const RNG&)`): `RNG` is copyable, and the copy shares the original's `SphericalData`, which is bound to
the *original's* `generator_`.  So for a copy `k` of object `o`, whatever is done to `k` — in particular
`k.setLocalSeed(s)` for any `s` — has no influence on what `k.uniformNormalVector()` returns, and the call leaves `k`'s
own generator where it was: the "reseed reproduces the stream" clause fails for the sphere-based routines of a copy. -/
theorem copy_sphere_ignores_own_seed (rngs : Array Rng) (k o dim : Nat) (hko : k ≠ o) (r' : Rng) :
    (sphereAt (rngs.setIfInBounds k r') o dim).1 = (sphereAt rngs o dim).1 ∧
      (sphereAt rngs o dim).2[k]? = rngs[k]? :=
  ⟨sphereAt_ignores_other rngs k o dim hko r', sphereAt_leaves_other rngs k o dim hko⟩

/-- The fixed code (/repo af02ab991, `RNG(const RNG&)` re-binds a `SphericalData` of its own): a copy is a new object
bound to its own generator.  Its spherical routines are a function of the copy's own engine state (the original's at
the moment of the copy), they leave the original alone, and reseeding the copy resets them: after
`copy.setLocalSeed(s)` the copy's `uniformNormalVector` prints what a fresh `RNG(s)` prints. -/
theorem copy_sphere_uses_own_generator (rngs : Array Rng) (k dim : Nat) (h : k < rngs.size) (s : UInt64) :
    (sphereAt (rngs.push rngs[k]) rngs.size dim).1 = (rngs[k].uniformNormalVector dim).1 ∧
      (sphereAt (rngs.push rngs[k]) rngs.size dim).2[k]? = some rngs[k] ∧
      (sphereAt ((rngs.push rngs[k]).setIfInBounds rngs.size (rngs[k].setLocalSeed s)) rngs.size dim).1 =
        ((Rng.create s).uniformNormalVector dim).1 :=
  sphereAt_fixed_copy rngs k dim h s

/-- … whereas for an object that is not a copy the routine is `uniformNormalVector` on its own generator. -/
theorem sphere_of_original_uses_own_generator (rngs : Array Rng) (o dim : Nat) (h : o < rngs.size) :
    sphereAt rngs o dim =
      ((rngs[o].uniformNormalVector dim).1, rngs.setIfInBounds o (rngs[o].uniformNormalVector dim).2) :=
  sphereAt_self rngs o dim h

/-! ## planners as oracle machines -/

/-- The output (and the whole transcript) of a computation that interacts with its world only by asking
questions is determined by the answers to the questions it asks: two environments that agree wherever the
first run consulted its environment give identical transcripts and outputs. -/
theorem planner_is_function_of_draws {Q A Res : Type} (c : Comp Q A Res) (e₁ e₂ : Env Q A)
    (H : ∀ p ∈ c.asked e₁ [], e₁ p.1 p.2 = e₂ p.1 p.2) : c.run e₁ [] = c.run e₂ [] :=
  run_congr_asked c [] e₁ e₂ H

/-- stream form: a run depends only on the prefix of the draw stream it consumed -/
theorem planner_is_function_of_draw_prefix {Q A Res : Type} (c : Comp Q A Res) (d₁ d₂ : Nat → A)
    (H : ∀ i, i < (c.run (streamEnv d₁) []).1.length → d₁ i = d₂ i) :
    c.run (streamEnv d₁) [] = c.run (streamEnv d₂) [] :=
  run_stream_congr c [] d₁ d₂ (fun i _ hi => H i hi)

/-- Instance for C20: two processes that give the planner a generator with the same local seed (the model of
`ompl::RNG`), the same evaluation budget in the termination condition, and user callbacks that agree on the
points the run evaluates, produce the same transcript — every draw, every evaluated point, every poll, in
order — and the same output. -/
theorem planner_reproducible_across_processes {X Y Res : Type} (c : Comp (PQ X) (PA Y) Res) (s : UInt64)
    (budget : Nat) (orc₁ orc₂ : X → Y)
    (H : ∀ x ∈ evalPoints (c.asked (plannerEnv s budget orc₁) []), orc₁ x = orc₂ x) :
    c.run (plannerEnv s budget orc₁) [] = c.run (plannerEnv s budget orc₂) [] :=
  planner_run_congr c s budget orc₁ orc₂ H

-- non-vacuity: a computation whose output really depends on a draw, an evaluation and the poll
example :
    let c : Comp (PQ Nat) (PA Bool) Nat :=
      .ask (.draw (.uniformInt 0 9)) fun a => .ask (.eval 3) fun b => .ask .poll fun p =>
        .done (match a, b, p with | .drew (.int i), .val true, .stop true => i.toNat + 1 | _, _, _ => 0)
    (c.run (plannerEnv 1 1 (fun _ => true)) []).2 ≠ (c.run (plannerEnv 1 1 (fun _ => false)) []).2 := by
  decide

/-! ## a planner against the whole process: seed generator, several generators, validity callback, termination

`Model/RngPlan.lean`: the questions are `alloc` (a default-constructed `RNG`), `draw k op` (on the `k`-th generator
created), `eval x` (`isValid`), `poll` (the termination condition) and `arm b` (the caller builds a fresh condition); the
environment `envStep` answers from the model of `RNGSeedGenerator`/`ompl::RNG`, from the callback, and from an
evaluation-counting condition or `IterationTerminationCondition` as coded.  `program P budget hist` is
`geometric::RRT` (set-up, `solve`/`clear` history) written as such a computation; `drv_rngplan` runs exactly
`runS (envStep (boxOracle …)) (program …) (envInit clock seed …)` in lock-step with the real planner. -/

open OmplModel.RngPlan in
/-- The property's last sentence for *every* computation of this shape, from the *global* seed: two processes whose
clocks read `c₁` and `c₂`, both calling `RNG::setSeed(s)` first (any `s`, 0 included), the same kind of termination
condition, and validity callbacks that agree on the states the first run evaluates, produce the same result and end in
the same environment state (every generator's state, counters, transcript hash, transcript). -/
theorem planner_reproducible_from_global_seed {R : Type} (c : Comp Q A R) (c₁ c₂ s : UInt64) (it tr : Bool)
    (orc₁ orc₂ : Vec → Bool)
    (H : ∀ x ∈ evalPointsS (askedS (envStep orc₁) c (envInit c₁ s it tr)), orc₁ x = orc₂ x) :
    runS (envStep orc₁) c (envInit c₁ s it tr) = runS (envStep orc₂) c (envInit c₂ s it tr) := by
  rw [envInit_clock_free c₂ c₁ s it tr]
  apply runS_congr
  intro p hp
  obtain ⟨e, q⟩ := p
  apply envStep_orc_congr
  intro x hx
  subst hx
  exact H x (mem_evalPointsS hp)

-- non-vacuity: a computation whose result depends on the seed it is handed and on the callback
open OmplModel.RngPlan in
example :
    let c : Comp Q A Nat := .ask .alloc fun a => .ask (.eval #[]) fun b =>
      .done (match a, b with | .handle _ s, .val true => s.toNat | _, _ => 0)
    (runS (envStep fun _ => true) c (envInit 5 1 false false)).1 = 523834656 ∧
      (runS (envStep fun _ => true) c (envInit 5 42 false false)).1 = 207452777 ∧
      (runS (envStep fun _ => false) c (envInit 5 1 false false)).1 = 0 := by
  decide

open OmplModel.RngPlan in
/-- … and for the planner that is run in lock-step: `geometric::RRT` as modelled (`program`), on every problem, box
environment, budget, `solve`/`clear` history, seed and kind of termination condition: the reports of all `solve`s
(status, approximate flag, difference, path), the tree, the local seeds of the planner's and the sampler's generators and
the final environment (counters, transcript hash) do not depend on the clock. -/
theorem rrt_reproducible (P : Problem) (boxes : List (Vec × Vec)) (budget : Nat) (hist : List Phase)
    (c₁ c₂ s : UInt64) (it tr : Bool) :
    runS (envStep (boxOracle P boxes)) (program P budget hist) (envInit c₁ s it tr) =
      runS (envStep (boxOracle P boxes)) (program P budget hist) (envInit c₂ s it tr) :=
  planner_reproducible_from_global_seed _ c₁ c₂ s it tr _ _ (fun _ _ => rfl)

open OmplModel.RngPlan in
/-- The model's fuel is never the reason a run ends: `rrtLoop` has `budget + 2` iterations of fuel and the bisection
queue of `checkMotion` has `nd`, and for *every* validity callback, problem, budget, `solve`/`clear` history and *every*
environment state the program is started from (any seed, clock, kind of termination condition), a run of `program` that
returns no result has met an `alloc` the environment could not answer — the rejection loop of the seed draw
(`uniform_int_distribution(1,10⁹)` over `ranlux24_base`, rejection probability 10⁻⁶ per round) exhausted its own 4096
rounds.  So `model-diverged` is printed by `drv_rngplan` only in that case.  (Proof: a Hoare logic over `runS`; each
iteration that is not stopped by the poll makes at least one evaluation, resp. uses up one call of the iteration
condition; the bisection queue's total interval length drops by one per step.) -/
theorem rrt_never_out_of_fuel (orc : Vec → Bool) (P : Problem) (budget : Nat) (hist : List Phase) (e : EnvSt)
    (h : (runS (envStep orc) (program P budget hist) e).1 = none) :
    (runS (envStep orc) (program P budget hist) e).2.allocFailed = true := by
  have := Ok_programM orc P budget hist e
  unfold Ok exec at this
  have hp : program P budget hist = (programM P budget hist).run := rfl
  rw [hp] at h ⊢
  cases hr : runS (envStep orc) (programM P budget hist).run e with
  | mk o e' =>
    rw [hr] at this h
    simp only at h
    subst h
    exact this

-- non-vacuity of the ghost flag: in a real start state generators are created and the flag stays down
open OmplModel.RngPlan in
example :
    (runS (envStep fun _ => true) (allocN 3).run (envInit 5 1 false false)).1 = some () ∧
      (runS (envStep fun _ => true) (allocN 3).run (envInit 5 1 false false)).2.allocFailed = false ∧
      (runS (envStep fun _ => true) (allocN 3).run (envInit 5 1 false false)).2.rngs.size = 3 := by
  decide

open OmplModel.RngPlan in
/-- "The i-th generator created depends only on the seed and on i" — inside a running planner: for *every* sequence of
questions (draws on any generator, evaluations, polls, re-armed conditions interleaved in any way) the local seeds
handed to its `alloc` questions are the first seeds of the global sequence of `s`, the `i`-th of them is `ithSeed s i`,
and neither the clock nor the callback has any influence. -/
theorem created_generators_any_interleaving (orc : Vec → Bool) (c s : UInt64) (it tr : Bool) (qs : List Q) :
    allocSeeds (answers orc (envInit c s it tr) qs) = SeedGen.seeds (countAlloc qs) ((SeedGen.init 0).setSeed s).1 ∧
      ∀ i, i < countAlloc qs → (allocSeeds (answers orc (envInit c s it tr) qs))[i]? = some (ithSeed s i) := by
  have h := allocSeeds_eq orc (envInit c s it tr) qs ((SeedGen.init 0).setSeed s).1 (sgen_clock_free 0 c s)
  refine ⟨h, fun i hi => ?_⟩
  rw [h, seeds_getElem?_stable _ i _ hi]
  unfold ithSeed
  have hl : ∀ (n : Nat) (g : SeedGen), (SeedGen.seeds n g).length = n := by
    intro n
    induction n with
    | zero => intro g; rfl
    | succ n ih => intro g; simp [SeedGen.seeds, ih]
  rw [List.getD_eq_getElem?_getD, List.getElem?_eq_getElem (by rw [hl]; omega)]
  rfl

-- non-vacuity: two generators created around other activity get the first two seeds of seed 1 (what the real planner's
-- `rng_` and its sampler print as `getLocalSeed()` in a 2-D problem)
open OmplModel.RngPlan in
example :
    allocSeeds (answers (fun _ => true) (envInit 77 1 false false) [.alloc, .poll, .eval #[], .alloc, .poll]) =
      [some 523834656, some 303609453] := by
  decide

open OmplModel.RngPlan in
/-- `ompl::base::IterationTerminationCondition` as coded (`++timesCalled_; return timesCalled_ > maxCalls_;`, a fresh
copy per `solve`): after it is armed with `maxCalls = m`, and whatever else happens in between, the first `m` polls
answer *continue* and every later poll answers *stop* — the condition depends on the number of polls only. -/
theorem iteration_condition_counts_polls (orc : Vec → Bool) (e : EnvSt) (he : e.iterKind = true) (m : Nat)
    (qs : List Q) (hq : ∀ q ∈ qs, isArm q = false) :
    pollAnswers (answers orc (envStep orc e (.arm m)).2 qs) =
      (List.range (countPoll qs)).map fun j => decide (j + 1 > m) := by
  have := iterPolls_eq orc (envStep orc e (.arm m)).2 m 0 (by simp [envStep, he]) qs hq
  simpa using this

open OmplModel.RngPlan in
example :
    pollAnswers (answers (fun _ => true) (envStep (fun _ => true) (envInit 0 1 true false) (.arm 2)).2
      [.poll, .eval #[], .poll, .alloc, .poll, .poll]) = [false, false, true, true] := by
  decide

/-! ## an unasked input: what an output state held before the call -/

/-- Converse-style witness to `planner_is_function_of_draws`: a sampler that leaves one component of its output
state unwritten (model `skipSampler`, the shape of `CompoundStateSampler::sampleUniformNear` without its
zero-weight branch) produces, in the *same* environment — same seed, same draws, same callbacks — the *same
transcript* for every old content of the output state, and yet *different outputs* for two different old
contents.  Uninitialised memory is an oracle nobody asks; a computation that reads it is not a function of
(seed, problem, budget). -/
theorem unwritten_output_depends_on_garbage {α : Type} (env : Env Unit α) (skip : List Bool)
    (hs : true ∈ skip) (x y : α) (hxy : x ≠ y) :
    let g₁ := List.replicate skip.length x
    let g₂ := List.replicate skip.length y
    ((skipSampler skip g₁).run env []).1 = ((skipSampler skip g₂).run env []).1 ∧
      ((skipSampler skip g₁).run env []).2 ≠ ((skipSampler skip g₂).run env []).2 :=
  ⟨skipSampler_transcript_ignores_old env skip _ _ (by simp) [],
   skipSampler_output_depends_on_old env skip hs x y hxy []⟩

/-- … whereas a sampler that writes every component returns the same state whatever the output state held. -/
theorem fully_written_output_ignores_garbage {α : Type} (env : Env Unit α) (skip : List Bool)
    (hs : true ∉ skip) (g₁ g₂ : List α) (hl : g₁.length = g₂.length) :
    (skipSampler skip g₁).run env [] = (skipSampler skip g₂).run env [] :=
  skipSampler_full_ignores_old env skip hs g₁ g₂ hl []

-- concrete: three components, the middle one (a zero-weight subspace) skipped; draws 10, 11, …
example :
    ((skipSampler [false, true, false] [0, 0, 0]).run (streamEnv fun i => 10 + i) []).2 = [10, 0, 11] ∧
    ((skipSampler [false, true, false] [7, 7, 7]).run (streamEnv fun i => 10 + i) []).2 = [10, 7, 11] := by
  decide

end OmplModel.Props.C20
