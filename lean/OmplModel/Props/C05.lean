import OmplModel.Proofs.Motion
import OmplModel.Proofs.MotionNum
import OmplModel.Proofs.MotionReconf
/-!
C05 — a motion is valid exactly when every resolution step along it is valid.

All theorems quantify over EVERY segment count `n` and EVERY validity predicate `v : Nat → Bool`
on subdivision indices (`v j` = validity of `interpolate(s1,s2,j/n)`, `v n` = validity of `s2`);
proofs are by induction, nothing is bounded.  `[AF]` = uses no arithmetic law of a number type
(holds of the `Float`-executed code up to correspondence); `[EX]` = exact arithmetic (`ℚ`).
-/
namespace OmplModel.Props.C05
open OmplModel.Motion

/-- the property's right-hand side: the end state and every interior subdivision point are valid.
For `n ≥ 1` this is "every `j ∈ [1, n]` is valid" (`allValid_iff`); for `n = 0` it degenerates
to "the end state is valid". -/
def AllValid (n : Nat) (v : Nat → Bool) : Prop := v n = true ∧ ∀ j, 1 ≤ j → j < n → v j = true

theorem allValid_iff {n : Nat} (v : Nat → Bool) (hn : 1 ≤ n) :
    AllValid n v ↔ ∀ j, 1 ≤ j → j ≤ n → v j = true := by
  constructor
  · rintro ⟨h1, h2⟩ j hj1 hj2
    by_cases h : j = n
    · subst h; exact h1
    · exact h2 j hj1 (by omega)
  · intro h
    exact ⟨h n hn (Nat.le_refl _), fun j h1 h2 => h j h1 (by omega)⟩

example : AllValid 3 (fun _ => true) ∧ ¬ AllValid 3 (fun j => j != 2) := by
  refine ⟨⟨rfl, fun _ _ _ => rfl⟩, ?_⟩
  rintro ⟨_, h⟩
  exact absurd (h 2 (by omega) (by omega)) (by decide)

/-! ### three-argument form -/

/-- [AF] `checkMotion(s1,s2,lastValid)` answers valid exactly when every subdivision point is. -/
theorem linear_verdict (n : Nat) (v : Nat → Bool) :
    (checkLinear n v).verdict = true ↔ AllValid n v := by
  rcases checkLinear_spec n v with ⟨h, e⟩ | ⟨j, hj, _, hjn, hj1, e⟩
  · rw [e]; exact ⟨fun _ => h, fun _ => rfl⟩
  · rw [e]
    simp only [Bool.false_eq_true, false_iff]
    rintro ⟨h1, h2⟩
    by_cases hjn' : j = n
    · subst hjn'; simp [h1] at hj
    · have := h2 j (hj1 (by omega)) (by omega)
      simp [hj] at this

example : (checkLinear 4 (fun _ => true)).verdict = true ∧
    (checkLinear 4 (fun j => j != 3)).verdict = false := by decide

/-- [AF] on failure `lastValid` is written with the fraction `(j*-1)/n` where `j*` is the LEAST
invalid index: all `1 ≤ i < j*` are valid, `j*` is not; the indices asked are exactly `1..j*`; for
`n ≥ 1`, `1 ≤ j* ≤ n`, i.e. numerator `0 ≤ j*-1 < n` (so the fraction lies in `[0,1)`,
`linear_fraction_unit` below); for `n = 0` (zero-length motion, end state invalid) the fraction is `0`
(since the F124 fix e0f5863f3; `fraction_n0_old_fails` keeps the former `-1/0`).
That `lastValid.first` is `interpolate(s1,s2,fraction)` is how the code computes it and is only
compared (harness `lvs=eq`). -/
theorem linear_lastValid (n : Nat) (v : Nat → Bool) (h : (checkLinear n v).verdict = false) :
    ∃ j, (checkLinear n v).failAt = some j ∧
      (checkLinear n v).lastValid n = some (fracOf j n) ∧
      v j = false ∧ (∀ i, 1 ≤ i → i < j → v i = true) ∧
      (1 ≤ n → fracOf j n = ((j : Int) - 1, n) ∧ 1 ≤ j ∧ j ≤ n ∧ 0 ≤ fracNum j ∧ fracNum j < (n : Int) ∧
        (checkLinear n v).queries = List.range' 1 j) ∧
      (n = 0 → j = 0 ∧ fracOf j n = (0, 1)) := by
  rcases checkLinear_spec n v with ⟨_, e⟩ | ⟨j, hj, hlt, hjn, hj1, e⟩
  · rw [e] at h; simp at h
  · refine ⟨j, by rw [e], by rw [e]; simp [Result.lastValid], hj, hlt, ?_, ?_⟩
    · intro hn
      have := hj1 hn
      have hn0 : n ≠ 0 := by omega
      refine ⟨by simp [fracOf, hn0, fracNum], this, hjn, by unfold fracNum; omega, by unfold fracNum; omega, ?_⟩
      rw [e]; exact range'_one_snoc j this
    · intro h0
      have : j = 0 := by omega
      subst this; subst h0; exact ⟨rfl, rfl⟩

example : (checkLinear 5 (fun j => j != 3 && j != 4)).lastValid 5 = some (2, 5) := by decide
example : (checkLinear 0 (fun _ => false)).lastValid 0 = some (0, 1) := by decide

/-- [AF] on success the caller's `lastValid` is not written (and every index `1..n` was asked, in order). -/
theorem linear_success_untouched (n : Nat) (v : Nat → Bool)
    (h : (checkLinear n v).verdict = true) :
    (checkLinear n v).failAt = none ∧ (checkLinear n v).lastValid n = none ∧
      (1 ≤ n → (checkLinear n v).queries = List.range' 1 n) := by
  rcases checkLinear_spec n v with ⟨_, e⟩ | ⟨j, _, _, _, _, e⟩
  · rw [e]
    exact ⟨rfl, rfl, fun hn => range'_one_snoc n hn⟩
  · rw [e] at h; simp at h

example : (checkLinear 3 (fun _ => true)).failAt = none := by decide

/-- [EX] the reported fraction lies in `[0, 1)` — for EVERY `n` since the F124 fix e0f5863f3 (the former side
condition `n ≥ 1` is gone: a zero-length motion with an invalid end state reports `0`). -/
theorem linear_fraction_unit (n : Nat) (v : Nat → Bool) (p : Int × Nat)
    (h : (checkLinear n v).lastValid n = some p) :
    0 ≤ (p.1 : ℚ) / (p.2 : ℚ) ∧ (p.1 : ℚ) / (p.2 : ℚ) < 1 := by
  have hf : (checkLinear n v).verdict = false := by
    cases hv : (checkLinear n v).verdict with
    | false => rfl
    | true => rw [(linear_success_untouched n v hv).2.1] at h; simp at h
  obtain ⟨j, _, h2, _, _, h5, h0⟩ := linear_lastValid n v hf
  rw [h2] at h
  cases h
  by_cases hn : 1 ≤ n
  · obtain ⟨e, _, _, h6, h7, _⟩ := h5 hn
    rw [e]
    exact frac_unit (fracNum j) n hn h6 h7
  · obtain ⟨_, e⟩ := h0 (by omega)
    rw [e]; norm_num

/-- F124 on the former code (before e0f5863f3: `(double)(nd-1)/(double)nd` also for `nd = 0`): a zero-length motion with
an invalid end state reported the fraction `-1/0` (`-inf` at `double`), outside `[0,1)`. -/
theorem fraction_n0_old_fails :
    ¬ ∀ (n : Nat) (v : Nat → Bool) (p : Int × Nat),
        (checkLinear n v).lastValidOld n = some p → 0 ≤ p.1 ∧ p.1 < (p.2 : Int) := by
  intro h
  have := h 0 (fun _ => false) (-1, 0) (by decide)
  simp at this

/-- what held before: for `n ≥ 1` the former fraction is the present one. -/
theorem fraction_old_partial (n : Nat) (v : Nat → Bool) (hn : 1 ≤ n) :
    (checkLinear n v).lastValidOld n = (checkLinear n v).lastValid n := by
  have hn0 : n ≠ 0 := by omega
  simp [Result.lastValid, Result.lastValidOld, fracOf, hn0]

example : (checkLinear 5 (fun j => j != 3)).lastValid 5 = some (2, 5) := by decide

/-! ### two-argument form -/

/-- [AF] `checkMotion(s1,s2)` answers valid exactly when every subdivision point is (whether or not
the early return is counted). -/
theorem bisect_verdict_gen (c : Bool) (n : Nat) (v : Nat → Bool) :
    (checkBisectGen c n v).verdict = true ↔ AllValid n v := by
  rw [checkBisectGen_eq]
  unfold AllValid
  have hf := (bisPart_facts n v).1
  by_cases hv : v n = true
  · simp only [hv, Bool.not_true, Bool.false_eq_true, if_false, true_and]
    rw [← hf]
    cases (bisPart n v).1 <;> simp
  · simp [hv]

theorem bisect_verdict (n : Nat) (v : Nat → Bool) :
    (checkBisect n v).verdict = true ↔ AllValid n v := bisect_verdict_gen true n v

example : (checkBisect 6 (fun _ => true)).verdict = true ∧
    (checkBisect 6 (fun j => j != 4)).verdict = false := by
  simp [checkBisect, checkBisectGen, bisectLoop, push]

/-- [AF] absent a failure the queue visits every index of `[1, n-1]` exactly once (after the end
state, index `n`): the query list is a permutation of `1..n`.  Termination of the loop itself is
the well-founded definition of `bisectLoop` (measure `Σ (2·width + 1)` over the queue). -/
theorem bisect_visits_each_once (n : Nat) (v : Nat → Bool) (hn : 1 ≤ n) (h : AllValid n v) :
    (checkBisect n v).queries.Perm (List.range' 1 n) := by
  unfold checkBisect
  rw [checkBisectGen_eq]
  obtain ⟨h1, h2⟩ := h
  obtain ⟨f1, f2, _, _⟩ := bisPart_facts n v
  have hr := f1.2 h2
  simp only [h1, hr, Bool.not_true, Bool.false_eq_true, if_false, if_true]
  rw [← range'_one_snoc n hn]
  exact ((f2 hr).cons n).trans (List.perm_append_singleton n _).symm

/-- [AF] in every case (failure included) no subdivision point is asked twice and every query is
an index of `[1, n]` (`n ≥ 1`). -/
theorem bisect_queries_nodup (n : Nat) (v : Nat → Bool) (hn : 1 ≤ n) :
    (checkBisect n v).queries.Nodup ∧ ∀ i ∈ (checkBisect n v).queries, 1 ≤ i ∧ i ≤ n := by
  unfold checkBisect
  rw [checkBisectGen_eq]
  obtain ⟨_, _, f3, f4⟩ := bisPart_facts n v
  have hnot : n ∉ (bisPart n v).2 := fun hm => by have := f4 n hm; omega
  have key : (n :: (bisPart n v).2).Nodup ∧ ∀ i ∈ n :: (bisPart n v).2, 1 ≤ i ∧ i ≤ n := by
    refine ⟨List.nodup_cons.2 ⟨hnot, f3⟩, ?_⟩
    intro i hi
    rcases List.mem_cons.1 hi with rfl | hi
    · omega
    · have := f4 i hi; omega
  by_cases hv : v n = true
  · simp only [hv, Bool.not_true, Bool.false_eq_true, if_false]
    cases (bisPart n v).1 <;> exact key
  · simp only [hv, Bool.not_false, if_true]
    simp; omega

example : (checkBisect 7 (fun _ => true)).queries = [7, 3, 1, 5, 2, 4, 6] := by
  simp [checkBisect, checkBisectGen, bisectLoop, push]

/-- [AF] the two-argument check stops at the first invalid answer: on failure the last index asked
is invalid and every index asked before it was valid. -/
theorem bisect_stops_at_first_invalid (n : Nat) (v : Nat → Bool)
    (h : (checkBisect n v).verdict = false) :
    ∃ pre j, (checkBisect n v).queries = pre ++ [j] ∧ v j = false ∧ ∀ i ∈ pre, v i = true := by
  unfold checkBisect at h ⊢
  rw [checkBisectGen_eq] at h ⊢
  by_cases hv : v n = true
  · simp only [hv, Bool.not_true, Bool.false_eq_true, if_false] at h ⊢
    cases hb : (bisPart n v).1 with
    | true => rw [hb] at h; simp at h
    | false =>
      obtain ⟨pre, j, e, hj, hpre⟩ := bisPart_fail n v hb
      refine ⟨n :: pre, j, by simp [e], hj, ?_⟩
      intro i hi
      rcases List.mem_cons.1 hi with rfl | hi
      · exact hv
      · exact hpre i hi
  · exact ⟨[], n, by simp [hv], by simpa using hv, by simp⟩

example : (checkBisect 7 (fun j => j != 5)).queries = [7, 3, 1, 5] := by
  simp [checkBisect, checkBisectGen, bisectLoop, push]

/-- [AF] both forms of the check always agree on the verdict. -/
theorem forms_agree (n : Nat) (v : Nat → Bool) :
    (checkLinear n v).verdict = (checkBisect n v).verdict := by
  have h1 := linear_verdict n v
  have h2 := bisect_verdict n v
  cases ha : (checkLinear n v).verdict <;> cases hb : (checkBisect n v).verdict <;> simp_all

/-- [AF] the same for each shipped validator, whether or not Dubins3D finds a path. -/
theorem forms_agree_validators (val : Validator) (pathOk : Bool) (n : Nat) (v : Nat → Bool) :
    (checkMotion3 val pathOk n v).verdict = (checkMotion2 val pathOk n v).verdict := by
  have h := forms_agree n v
  have hl := linear_verdict n v
  unfold checkBisect at h
  cases val <;> simp only [checkMotion2, checkMotion3] <;> try exact h
  cases pathOk
  · by_cases hv : v n = true <;> simp [hv, noPath]
  · by_cases hv : v n = true
    · simpa [hv] using h
    · simp only [hv, Bool.not_false, if_true, Bool.not_true, Bool.false_eq_true, if_false]
      cases hc : (checkLinear n v).verdict with
      | false => rfl
      | true => exact absurd (hl.1 hc).1 hv

/-- [AF] every validator's verdict, in both forms, is "all subdivision points valid" (Dubins3D:
provided `getPath` produced a path; without one there is no curve to subdivide). -/
theorem validators_verdict (val : Validator) (n : Nat) (v : Nat → Bool) :
    ((checkMotion2 val true n v).verdict = true ↔ AllValid n v) ∧
    ((checkMotion3 val true n v).verdict = true ↔ AllValid n v) := by
  have h3 : (checkMotion3 val true n v).verdict = true ↔ AllValid n v := by
    cases val <;> simpa [checkMotion3] using linear_verdict n v
  exact ⟨by rw [← forms_agree_validators]; exact h3, h3⟩

/-! ### counters -/

/-- "exactly one of the two counters advanced by one, the valid one iff the verdict is true". -/
def CountsOnce (r : Result) : Prop :=
  (r.verdict = true ∧ r.dValid = 1 ∧ r.dInvalid = 0) ∨ (r.verdict = false ∧ r.dValid = 0 ∧ r.dInvalid = 1)

theorem countsOnce_linear (n : Nat) (v : Nat → Bool) : CountsOnce (checkLinear n v) := by
  rcases checkLinear_spec n v with ⟨_, e⟩ | ⟨j, _, _, _, _, e⟩ <;> rw [e] <;> simp [CountsOnce]

theorem countsOnce_bisect (n : Nat) (v : Nat → Bool) : CountsOnce (checkBisectGen true n v) := by
  rw [checkBisectGen_eq]
  by_cases hv : v n = true
  · simp only [hv, Bool.not_true, Bool.false_eq_true, if_false]
    cases (bisPart n v).1 <;> simp [CountsOnce]
  · simp [hv, CountsOnce]

/-- [AF] each call of either form of every validator (code after the F7 fix) advances exactly one
of the valid/invalid counters by one. -/
theorem counters_exactly_one (val : Validator) (n : Nat) (v : Nat → Bool) :
    CountsOnce (checkMotion2 val true n v) ∧ CountsOnce (checkMotion3 val true n v) := by
  refine ⟨?_, ?_⟩
  · cases val <;> simp only [checkMotion2] <;> try exact countsOnce_bisect n v
    by_cases hv : v n = true
    · simpa [hv] using countsOnce_bisect n v
    · simp [hv, CountsOnce]
  · cases val <;> simpa [checkMotion3] using countsOnce_linear n v

example : (checkMotion2 .dubins true 1 (fun _ => false)).dInvalid = 1 := by
  simp [checkMotion2, checkBisectGen]

/-- F7 on the code BEFORE the fix: the Dubins (likewise Reeds-Shepp, Dubins3D) two-argument check
with an invalid end state returns false and advances neither counter. -/
theorem counters_old_fails :
    ¬ ∀ (val : Validator) (n : Nat) (v : Nat → Bool), CountsOnce (checkMotion2Old val true n v) := by
  intro h
  have := h .dubins 1 (fun _ => false)
  simp [checkMotion2Old, checkBisectGen, CountsOnce] at this

/-- what did hold before the fix: calls whose end state is valid count exactly once. -/
theorem counters_old_partial (val : Validator) (n : Nat) (v : Nat → Bool) (hv : v n = true) :
    CountsOnce (checkMotion2Old val true n v) := by
  have key : ∀ c, CountsOnce (checkBisectGen c n v) := by
    intro c
    rw [checkBisectGen_eq]
    simp only [hv, Bool.not_true, Bool.false_eq_true, if_false]
    cases (bisPart n v).1 <;> simp [CountsOnce]
  cases val <;> simp only [checkMotion2Old, hv, Bool.not_true, Bool.false_eq_true, if_false] <;> exact key _

/-- [AF] after the F75 fix the statement needs no side condition: each call of either form of every
validator advances exactly one counter by one, whether or not Dubins3D's `getPath` finds a path. -/
theorem counters_exactly_one_all (val : Validator) (pathOk : Bool) (n : Nat) (v : Nat → Bool) :
    CountsOnce (checkMotion2 val pathOk n v) ∧ CountsOnce (checkMotion3 val pathOk n v) := by
  cases pathOk
  · cases val
    · exact counters_exactly_one .discrete n v
    · exact counters_exactly_one .dubins n v
    · exact counters_exactly_one .reedsShepp n v
    · refine ⟨?_, ?_⟩
      · by_cases hv : v n = true <;> simp [checkMotion2, hv, noPath, CountsOnce]
      · simp [checkMotion3, noPath, CountsOnce]
  · exact counters_exactly_one val n v

/-- F75 on the code BEFORE that fix: when `getPath` finds no path both forms of the Dubins3D
validator return false and advance neither counter (all states valid, any `n`). -/
theorem counters_nopath_old_fails :
    ¬ ∀ (val : Validator) (pathOk : Bool) (n : Nat) (v : Nat → Bool),
        CountsOnce (checkMotion2PreF75 val pathOk n v) ∧ CountsOnce (checkMotion3PreF75 val pathOk n v) := by
  intro h
  have := (h .dubins3D false 3 (fun _ => true)).2
  simp [checkMotion3PreF75, noPath, CountsOnce] at this

/-- what did hold before the F75 fix: exactly one counter whenever a path exists. -/
theorem counters_nopath_old_partial (val : Validator) (n : Nat) (v : Nat → Bool) :
    CountsOnce (checkMotion2PreF75 val true n v) ∧ CountsOnce (checkMotion3PreF75 val true n v) := by
  have h := counters_exactly_one val n v
  cases val <;> simpa [checkMotion2PreF75, checkMotion3PreF75, checkMotion2, checkMotion3] using h

/-- what stays open after F75 (modelled, outside the property's lastValid clause: there is no curve):
without a path the three-argument form reports failure but leaves `lastValid` unset, and neither
form asks about any interior point. -/
theorem dubins3D_nopath_lastValid_unset (n : Nat) (v : Nat → Bool) :
    (checkMotion3 .dubins3D false n v) = noPath true [] ∧
    (v n = true → checkMotion2 .dubins3D false n v = noPath true [n]) := by
  refine ⟨by simp [checkMotion3], ?_⟩
  intro hv
  simp [checkMotion2, hv]

/-! ### the state-list helper -/

/-- [AF] `checkMotion(states,count,firstInvalidStateIndex)`: true iff all `count` states are valid;
on failure the index written is the LEAST invalid one; on success it is not written. -/
theorem stateListFirst_verdict (count : Nat) (v : Nat → Bool) :
    ((checkStateListFirst count v).verdict = true ↔ ∀ i, i < count → v i = true) ∧
    ((checkStateListFirst count v).verdict = true → (checkStateListFirst count v).firstInvalid = none ∧
      (checkStateListFirst count v).queries = List.range' 0 count) ∧
    (∀ i, (checkStateListFirst count v).firstInvalid = some i →
      (checkStateListFirst count v).verdict = false ∧ i < count ∧ v i = false ∧
      (∀ k, k < i → v k = true) ∧ (checkStateListFirst count v).queries = List.range' 0 (i + 1)) := by
  have e : checkStateListFirst count v =
      ⟨(linScan v 0 count).2.isNone, (linScan v 0 count).2, (linScan v 0 count).1⟩ := rfl
  rw [e]
  cases hr : (linScan v 0 count).2 with
  | none =>
    obtain ⟨h1, h2⟩ := linScan_none hr
    refine ⟨⟨fun _ i hi => h1 i (Nat.zero_le _) (by omega), fun _ => rfl⟩, fun _ => ⟨rfl, h2⟩, ?_⟩
    intro i hi; simp at hi
  | some m =>
    obtain ⟨_, h2, h3, h4, h5⟩ := linScan_some hr
    refine ⟨⟨fun h => by simp at h, ?_⟩, fun h => by simp at h, ?_⟩
    · intro hall
      have := hall m (by omega)
      simp [h3] at this
    · intro i hi
      simp only [Option.some.injEq] at hi
      subst hi
      exact ⟨rfl, by omega, h3, fun k hk => h4 k (Nat.zero_le _) hk, by simpa using h5⟩

/-- [AF] the subdivision form `checkMotion(states,count)`: true iff all `count` states are valid. -/
theorem stateList_verdict (count : Nat) (v : Nat → Bool) :
    (checkStateList count v).verdict = true ↔ ∀ i, i < count → v i = true := by
  unfold checkStateList
  by_cases h0 : count = 0
  · subst h0; simp
  by_cases h1 : count = 1
  · subst h1; simp
  simp only [h0, h1, if_false]
  by_cases hv0 : v 0 = true
  · by_cases hvl : v (count - 1) = true
    · simp only [hv0, hvl, Bool.not_true, Bool.false_eq_true, if_false]
      by_cases h2 : 2 < count
      · simp only [h2, if_true]
        have hl : LWF [(0, count - 1)] := by intro p hp; simp at hp; subst hp; simp; omega
        rw [listLoop_eq_bisectLoop v _ hl, bisectLoop_verdict v _ (WF_map_shrink hl)]
        simp only [List.map_cons, List.map_nil, shrink, ivs_single]
        constructor
        · intro h i hi
          by_cases hi0 : i = 0
          · subst hi0; exact hv0
          by_cases hil : i = count - 1
          · subst hil; exact hvl
          exact h i (List.mem_range'_1.2 (by omega))
        · intro h i hi
          have := List.mem_range'_1.1 hi
          exact h i (by omega)
      · simp only [h2, if_false, true_iff]
        intro i hi
        have : i = 0 ∨ i = count - 1 := by omega
        rcases this with rfl | rfl
        · exact hv0
        · exact hvl
    · simp only [hv0, hvl, Bool.not_true, Bool.false_eq_true, if_false, Bool.not_false, if_true, false_iff]
      intro h; exact hvl (h _ (by omega))
  · simp only [hv0, Bool.not_false, if_true, Bool.false_eq_true, false_iff]
    intro h; exact hv0 (h 0 (by omega))

example : (checkStateList 6 (fun _ => true)).queries = [0, 5, 2, 1, 3, 4] ∧
    (checkStateList 6 (fun i => i != 4)).verdict = false ∧
    (checkStateListFirst 6 (fun i => i != 4 && i != 5)).firstInvalid = some 4 := by
  refine ⟨by simp [checkStateList, listLoop, listPush], by simp [checkStateList, listLoop, listPush], by decide⟩

/-- [AF] the two list forms agree. -/
theorem stateList_forms_agree (count : Nat) (v : Nat → Bool) :
    (checkStateList count v).verdict = (checkStateListFirst count v).verdict := by
  exact Bool.eq_iff_iff.2 ((stateList_verdict count v).trans (stateListFirst_verdict count v).1.symm)

/-- [AF] absent a failure the subdivision form asks about each of the `count` states exactly once. -/
theorem stateList_visits_each_once (count : Nat) (v : Nat → Bool) (h : ∀ i, i < count → v i = true) :
    (checkStateList count v).queries.Perm (List.range' 0 count) := by
  unfold checkStateList
  by_cases h0 : count = 0
  · subst h0; simp
  by_cases h1 : count = 1
  · subst h1; simp
  have hv0 : v 0 = true := h 0 (by omega)
  have hvl : v (count - 1) = true := h _ (by omega)
  simp only [h0, h1, if_false, hv0, hvl, Bool.not_true, Bool.false_eq_true]
  by_cases h2 : 2 < count
  · simp only [h2, if_true]
    have hl : LWF [(0, count - 1)] := by intro p hp; simp at hp; subst hp; simp; omega
    rw [listLoop_eq_bisectLoop v _ hl]
    have hw := WF_map_shrink hl
    have hall : ∀ i ∈ ivs ([(0, count - 1)].map shrink), v i = true := by
      intro i hi
      simp only [List.map_cons, List.map_nil, shrink, ivs_single] at hi
      have := List.mem_range'_1.1 hi
      exact h i (by omega)
    have hp := (bisectLoop_spec v _ hw).1 ((bisectLoop_verdict v _ hw).2 hall)
    simp only [List.map_cons, List.map_nil, shrink, ivs_single] at hp
    have e : List.range' 0 count = 0 :: (List.range' 1 (count - 2) ++ [count - 1]) := by
      have : count = ((count - 2) + 1) + 1 := by omega
      rw [this, List.range'_succ, List.range'_concat]
      simp; omega
    rw [e]
    refine List.Perm.cons _ ?_
    have hp' : (bisectLoop v [(0 + 1, count - 1 - 1)]).2.Perm (List.range' 1 (count - 2)) := by
      have : count - 1 - 1 + 1 - (0 + 1) = count - 2 := by omega
      simpa [this] using hp
    exact (hp'.cons _).trans (List.perm_append_singleton _ _).symm
  · have : count = 2 := by omega
    subst this
    simp only [h2, if_false]
    exact List.Perm.refl _

/-! ### ConstrainedMotionValidator -/

/-- the property's right-hand side for a constrained motion: the end state satisfies the constraint,
the traversal arrives, and every state it visits as well as the end state itself is valid. -/
def CAllValid (sat : Bool) (m : Nat) (geom : Bool) (v : Nat → Bool) : Prop :=
  sat = true ∧ geom = true ∧ ∀ j, 1 ≤ j → j ≤ m + 1 → v j = true

def CCountsOnce (r : CResult) : Prop :=
  (r.verdict = true ∧ r.dValid = 1 ∧ r.dInvalid = 0) ∨ (r.verdict = false ∧ r.dValid = 0 ∧ r.dInvalid = 1)

theorem cAllValid_iff (sat : Bool) (m : Nat) (geom : Bool) (v : Nat → Bool) :
    CAllValid sat m geom v ↔ (v (m + 1) = true ∧ sat = true ∧ (traverse m geom v).1 = true) := by
  rw [(traverse_spec m geom v).1]
  unfold CAllValid
  constructor
  · rintro ⟨h1, h2, h3⟩
    exact ⟨h3 _ (by omega) (Nat.le_refl _), h1, h2, fun j a b => h3 j a (by omega)⟩
  · rintro ⟨h1, h2, h3, h4⟩
    refine ⟨h2, h3, ?_⟩
    intro j a b
    by_cases hj : j = m + 1
    · subst hj; exact h1
    · exact h4 j a (by omega)

/-- [AF] since the fixes F120–F122 (894715569, a7ee00eca) both forms of the constrained validator answer valid
exactly when the end state satisfies the constraint, the traversal arrives and every visited state
and the end state are valid. -/
theorem constrained_verdict (hasFirst sat : Bool) (m : Nat) (geom : Bool) (v : Nat → Bool) :
    ((constrained2 sat m geom v).verdict = true ↔ CAllValid sat m geom v) ∧
    ((constrained3 hasFirst sat m geom v).verdict = true ↔ CAllValid sat m geom v) := by
  rw [cAllValid_iff]
  refine ⟨?_, ?_⟩
  · unfold constrained2
    cases hv : v (m + 1) <;> cases sat <;> cases ht : (traverse m geom v).1 <;> simp
  · unfold constrained3
    cases hv : v (m + 1) <;> cases sat <;> cases ht : (traverse m geom v).1 <;> simp

example : (constrained2 true 3 true (fun _ => true)).verdict = true ∧
    (constrained3 true true 3 true (fun j => j != 4)).verdict = false := by decide

/-- [AF] both forms agree (fixed code). -/
theorem constrained_forms_agree (hasFirst sat : Bool) (m : Nat) (geom : Bool) (v : Nat → Bool) :
    (constrained2 sat m geom v).verdict = (constrained3 hasFirst sat m geom v).verdict := by
  have h := constrained_verdict hasFirst sat m geom v
  exact Bool.eq_iff_iff.2 (h.1.trans h.2.symm)

/-- [AF] each call advances exactly one counter (fixed code). -/
theorem constrained_counters (hasFirst sat : Bool) (m : Nat) (geom : Bool) (v : Nat → Bool) :
    CCountsOnce (constrained2 sat m geom v) ∧ CCountsOnce (constrained3 hasFirst sat m geom v) := by
  refine ⟨?_, ?_⟩
  · unfold constrained2 CCountsOnce
    cases hv : v (m + 1) <;> cases sat <;> cases ht : (traverse m geom v).1 <;> simp
  · unfold constrained3 CCountsOnce
    cases hv : v (m + 1) <;> cases sat <;> cases ht : (traverse m geom v).1 <;> simp

/-- [AF] `lastValid` (fixed code): untouched on success; on every failure the fraction is written and
the state handed back (when asked for) is `g_k` with `k` the LARGEST index whose prefix
`g_1..g_k` is valid among the states the traversal visits (`k ≤ m`, and `g_{k+1}` is invalid when
`k < m`). -/
theorem constrained_lastValid (hasFirst sat : Bool) (m : Nat) (geom : Bool) (v : Nat → Bool) :
    ((constrained3 hasFirst sat m geom v).verdict = true →
        (constrained3 hasFirst sat m geom v).back = none ∧
        (constrained3 hasFirst sat m geom v).wroteSecond = false) ∧
    ((constrained3 hasFirst sat m geom v).verdict = false →
        (constrained3 hasFirst sat m geom v).wroteSecond = true ∧
        (hasFirst = true → ∃ k, (constrained3 hasFirst sat m geom v).back = some k ∧ k ≤ m ∧
          (∀ j, 1 ≤ j → j ≤ k → v j = true) ∧ (k < m → v (k + 1) = false))) := by
  obtain ⟨_, h2, h3, h4, _⟩ := traverse_spec m geom v
  simp only [constrained3]
  by_cases hc : ((traverse m geom v).1 && sat && v (m + 1)) = true
  · rw [if_pos hc]
    exact ⟨fun _ => ⟨rfl, rfl⟩, fun h => by simp at h⟩
  · rw [if_neg hc]
    refine ⟨fun h => by simp at h, fun _ => ⟨rfl, ?_⟩⟩
    intro hf
    subst hf
    exact ⟨_, rfl, h2, h3, h4⟩

example : (constrained3 true true 5 true (fun j => j != 3)).back = some 2 := by decide

/-- [AF] what held of the former code (before F120–F122): both forms agree and answer valid exactly when
the end state satisfies the constraint, the traversal arrives and every VISITED state is valid —
the end state's own validity does not enter. -/
theorem constrained_old_partial (hasFirst sat : Bool) (m : Nat) (geom : Bool) (v : Nat → Bool) :
    ((constrained2Old sat m geom v).verdict = true ↔
        sat = true ∧ geom = true ∧ ∀ j, 1 ≤ j → j ≤ m → v j = true) ∧
    (constrained2Old sat m geom v).verdict = (constrained3Old hasFirst sat m geom v).verdict := by
  have ht := (traverse_spec m geom v).1
  refine ⟨?_, ?_⟩
  · rw [← ht]
    unfold constrained2Old
    cases sat <;> simp
  · unfold constrained2Old constrained3Old
    cases sat <;> cases hasFirst <;> cases (traverse m geom v).1 <;> simp

/-- F121 on the former code (before a7ee00eca): a motion whose end state is invalid is accepted (every visited state
valid, the constraint satisfied, the traversal arrives) — by both forms. -/
theorem constrained_old_endstate_fails :
    ¬ ∀ (sat : Bool) (m : Nat) (geom : Bool) (v : Nat → Bool),
        (constrained2Old sat m geom v).verdict = true → v (m + 1) = true := by
  intro h
  have := h true 2 true (fun j => j != 3) (by decide)
  simp at this

/-- F120 on the former code (before 894715569): no call of either form moves a counter. -/
theorem constrained_old_counters_fails :
    ¬ ∀ (hasFirst sat : Bool) (m : Nat) (geom : Bool) (v : Nat → Bool),
        CCountsOnce (constrained2Old sat m geom v) ∧ CCountsOnce (constrained3Old hasFirst sat m geom v) := by
  intro h
  have := (h true true 1 true (fun _ => true)).1
  simp [constrained2Old, CCountsOnce] at this

/-- F122 on the former code (before a7ee00eca): an invalid motion checked with `lastValid.first == nullptr` (or
rejected only because the end state violates the constraint) leaves `lastValid.second` unwritten. -/
theorem constrained_old_second_unwritten_fails :
    ¬ ∀ (hasFirst sat : Bool) (m : Nat) (geom : Bool) (v : Nat → Bool),
        (constrained3Old hasFirst sat m geom v).verdict = false →
          (constrained3Old hasFirst sat m geom v).wroteSecond = true := by
  intro h
  have := h false true 2 true (fun j => j != 1) (by decide)
  revert this
  decide

/-- [AF] with the start state valid (the validator's precondition) the traversal of every constrained
space reaches exactly when the projected one does, stores the same states, and asks the same
indices after at most one look at the start state. -/
theorem traverseG_valid_start (mode : TMode) (m : Nat) (geom : Bool) (v : Nat → Bool) (h0 : v 0 = true) :
    (traverseG mode m geom v).1 = (traverse m geom v).1 ∧
    (traverseG mode m geom v).2.2.1 = (traverse m geom v).2.2 ∧
    (traverseG mode m geom v).2.2.2 = false ∧
    ((traverseG mode m geom v).2.1 = (traverse m geom v).2.1 ∨
      (traverseG mode m geom v).2.1 = 0 :: (traverse m geom v).2.1) := by
  cases mode <;> simp only [traverseG, h0, Bool.not_true, Bool.false_eq_true, if_false]
  · simp
  · simp
  · split <;> simp

/-- [AF] for every constrained space (Projected, Atlas, TangentBundle), with the start state valid: both
forms answer valid exactly when the end state satisfies the constraint, the traversal arrives and
every visited state and the end state are valid; they agree; each call advances exactly one counter. -/
theorem constrainedG_verdict (mode : TMode) (hasFirst sat : Bool) (m : Nat) (geom : Bool) (v : Nat → Bool)
    (h0 : v 0 = true) :
    ((constrained2G mode sat m geom v).verdict = true ↔ CAllValid sat m geom v) ∧
    ((constrained3G mode hasFirst sat m geom v).verdict = true ↔ CAllValid sat m geom v) ∧
    CCountsOnce (constrained2G mode sat m geom v) ∧ CCountsOnce (constrained3G mode hasFirst sat m geom v) := by
  obtain ⟨h1, _, h3, _⟩ := traverseG_valid_start mode m geom v h0
  rw [cAllValid_iff]
  refine ⟨?_, ?_, ?_, ?_⟩
  · unfold constrained2G
    rw [h1]
    cases hv : v (m + 1) <;> cases sat <;> cases ht : (traverse m geom v).1 <;> simp
  · simp only [constrained3G, h3, h1, Bool.false_eq_true, if_false]
    cases hv : v (m + 1) <;> cases sat <;> cases ht : (traverse m geom v).1 <;> simp
  · unfold constrained2G CCountsOnce
    rw [h1]
    cases hv : v (m + 1) <;> cases sat <;> cases ht : (traverse m geom v).1 <;> simp
  · simp only [constrained3G, h3, h1, Bool.false_eq_true, if_false, CCountsOnce]
    cases hv : v (m + 1) <;> cases sat <;> cases ht : (traverse m geom v).1 <;> simp

example : (constrained3G .atlas true true 3 true (fun j => j != 2)).queries = [0, 1, 2] ∧
    (constrained3G .atlas true true 3 true (fun j => j != 0)).back = some 0 ∧
    (constrained2G .tb true 0 true (fun j => j != 0)).verdict = true := by decide

/-- [AF] an invalid START state (outside the precondition, but coded for): Atlas and TangentBundle reject
the motion, count it, and hand back `(s1, ·)`; every call still advances exactly one counter. -/
theorem constrainedG_invalid_start (mode : TMode) (hasFirst sat : Bool) (m : Nat) (geom : Bool) (v : Nat → Bool) :
    CCountsOnce (constrained2G mode sat m geom v) ∧ CCountsOnce (constrained3G mode hasFirst sat m geom v) ∧
    (mode = .atlas → v 0 = false → (constrained3G mode true sat m geom v).verdict = false ∧
      (constrained3G mode true sat m geom v).back = some 0 ∧ (constrained3G mode true sat m geom v).queries = [0]) := by
  refine ⟨?_, ?_, ?_⟩
  · unfold constrained2G CCountsOnce
    cases hv : v (m + 1) <;> cases sat <;> cases ht : (traverseG mode m geom v).1 <;> simp
  · simp only [constrained3G, CCountsOnce]
    cases he : (traverseG mode m geom v).2.2.2 <;> cases hv : v (m + 1) <;> cases sat <;>
      cases ht : (traverseG mode m geom v).1 <;> simp
  · rintro rfl hv
    simp [constrained3G, traverseG, hv]

/-- [AF] since fix F123 (03f44d7d7) the tangent-bundle wrapper keeps the validator's verdict and leaves
the caller's `lastValid.first` alone after a valid motion, whatever it held. -/
theorem tbWrap_preserves (hasFirst projOk : Bool) (r : CResult) :
    (tbWrap hasFirst projOk r).1 = r.verdict ∧ (r.verdict = true → (tbWrap hasFirst projOk r).2 = false) := by
  unfold tbWrap
  cases hv : r.verdict <;> cases hasFirst <;> simp

/-- F123 on the former code (before 03f44d7d7): a valid motion checked with a non-null `lastValid.first` has that storage
modified, and comes back invalid when its re-projection fails. -/
theorem tbWrap_old_fails :
    ¬ ∀ (hasFirst projOk : Bool) (r : CResult),
        (tbWrapOld hasFirst projOk r).1 = r.verdict ∧ (r.verdict = true → (tbWrapOld hasFirst projOk r).2 = false) := by
  intro h
  have := (h true false ⟨true, none, false, [], 1, 0⟩).1
  simp [tbWrapOld] at this

/-! ### getMotionStates -/

/-- how many states the call is asked for: the interior points plus the two end points if wanted. -/
def msWanted (count : Nat) (e : Bool) : Nat := (msFull (segmentsOf count) e).length

/-- [AF] the returned number of states: everything asked for when the function allocates, otherwise as
much of it as the provided vector holds; never more than the vector holds; a provided vector is not
resized; and "everything" is `count` (+2 with end points), except that `count = UINT_MAX` wraps to
no interior point at all. -/
theorem getMotionStates_count (count size : Nat) (e a : Bool) :
    (getMotionStates count e a size).returned =
        (if a then msWanted count e else min size (msWanted count e)) ∧
      (getMotionStates count e a size).returned ≤ (getMotionStates count e a size).newSize ∧
      (a = false → (getMotionStates count e a size).newSize = size) ∧
      (count + 1 < 4294967296 → msWanted count e = count + (if e then 2 else 0)) ∧
      (count = 4294967295 → msWanted count e = (if e then 2 else 0)) := by
  obtain ⟨h1, h2⟩ := getMotionStatesC_eq_take (segmentsOf count) e a size
  unfold getMotionStates MSResult.returned msWanted
  rw [h1, h2]
  refine ⟨?_, ?_, ?_, ?_, ?_⟩
  · cases a <;> simp [List.length_take]
  · cases a <;> simp [List.length_take]
  · intro ha; simp [ha]
  · intro hc
    have : segmentsOf count = count + 1 := by unfold segmentsOf; omega
    rw [this, msFull_length]
    cases e <;> by_cases h0 : count + 1 < 2 <;> simp [h0] <;> omega
  · intro hc
    have : segmentsOf count = 0 := by subst hc; rfl
    rw [this, msFull_length]
    cases e <;> simp

example : (getMotionStates 3 true false 4).returned = 4 ∧ (getMotionStates 3 true true 0).returned = 5 ∧
    (getMotionStates 4294967295 false true 7).returned = 0 := by decide

/-- [AF] position `p` of `states` receives exactly the `p`-th element of `[s1]? ++ interior ++ [s2]?`
(`getMotionStates_full` says what those are); positions from `returned` on are not written. -/
theorem getMotionStates_points (count size : Nat) (e a : Bool) (p : Nat)
    (hp : p < (getMotionStates count e a size).returned) :
    (getMotionStates count e a size).written[p]? = (msFull (segmentsOf count) e)[p]? := by
  obtain ⟨h1, _⟩ := getMotionStatesC_eq_take (segmentsOf count) e a size
  unfold getMotionStates at hp ⊢
  unfold MSResult.returned at hp
  rw [h1] at hp ⊢
  generalize (if a = true then (msFull (segmentsOf count) e).length else size) = k at hp ⊢
  simp only [List.length_take] at hp
  rw [List.getElem?_take]
  have : p < k := by omega
  simp [this]

/-- [AF] the full list: without end points position `p` holds `interpolate(s1,s2,(p+1)/c)`; with end
points position 0 is `s1`, positions `1..c-1` are `interpolate(s1,s2,p/c)` and position `c` is `s2`
itself (a copy, not `interpolate(…,1.0)`), where `c = count + 1` is the number of segments. -/
theorem getMotionStates_full (c : Nat) (p : Nat) :
    (p + 1 < c → (msFull c false)[p]? = some (Slot.frac (p + 1) c)) ∧
    (2 ≤ c → (msFull c true)[0]? = some Slot.start ∧
      (1 ≤ p → p < c → (msFull c true)[p]? = some (Slot.frac p c)) ∧
      (msFull c true)[c]? = some Slot.goal) ∧
    (c < 2 → msFull c true = [Slot.start, Slot.goal] ∧ msFull c false = []) :=
  ⟨msFull_get_noEndpoints c p, msFull_get_endpoints c p, fun h => by simp [msFull, h]⟩

example : (getMotionStates 2 true true 0).written = [.start, .frac 1 3, .frac 2 3, .goal] ∧
    (getMotionStates 5 false false 2).written = [.frac 1 6, .frac 2 6] := by decide

/-- [AF] end points: when asked for, `s1` is what is written first (if anything fits) and `s2` is the last
state exactly when everything fitted; when not asked for, neither is ever written. -/
theorem getMotionStates_endpoints (count size : Nat) (a : Bool) :
    (0 < (getMotionStates count true a size).returned →
        (getMotionStates count true a size).written.head? = some Slot.start) ∧
      ((getMotionStates count true a size).returned = msWanted count true →
        (getMotionStates count true a size).written.getLast? = some Slot.goal) ∧
      ((getMotionStates count true a size).returned < msWanted count true →
        Slot.goal ∉ (getMotionStates count true a size).written) ∧
      (Slot.start ∉ (getMotionStates count false a size).written ∧
        Slot.goal ∉ (getMotionStates count false a size).written) := by
  obtain ⟨h1, _⟩ := getMotionStatesC_eq_take (segmentsOf count) true a size
  obtain ⟨h3, _⟩ := getMotionStatesC_eq_take (segmentsOf count) false a size
  unfold getMotionStates MSResult.returned msWanted
  rw [h1, h3]
  generalize segmentsOf count = c
  have hint : ∀ s ∈ msInterior c, s ≠ Slot.start ∧ s ≠ Slot.goal := by
    intro s hs
    simp only [msInterior, List.mem_map] at hs
    obtain ⟨j, _, rfl⟩ := hs
    exact ⟨by simp, by simp⟩
  have hf : msFull c true = Slot.start :: ((if c < 2 then [] else msInterior c) ++ [Slot.goal]) := by
    simp [msFull, msInterior]
  have hn : msFull c false = (if c < 2 then [] else msInterior c) := by
    simp [msFull, msInterior]
  have hmid : ∀ s ∈ (if c < 2 then [] else msInterior c), s ≠ Slot.start ∧ s ≠ Slot.goal := by
    intro s hs
    split at hs
    · simp at hs
    · exact hint s hs
  generalize (if c < 2 then [] else msInterior c) = mid at hf hn hmid
  generalize (if a = true then (msFull c true).length else size) = k
  generalize (if a = true then (msFull c false).length else size) = k'
  rw [hf, hn]
  refine ⟨?_, ?_, ?_, ?_, ?_⟩
  · intro h
    cases k with
    | zero => simp at h
    | succ k => simp
  · intro h
    have hk : (Slot.start :: (mid ++ [Slot.goal])).length ≤ k := by
      simp only [List.length_take] at h; omega
    rw [List.take_of_length_le hk]
    exact List.getLast?_concat (l := Slot.start :: mid)
  · intro h hg
    have hk : k < (Slot.start :: (mid ++ [Slot.goal])).length := by
      simp only [List.length_take] at h; omega
    cases k with
    | zero => simp at hg
    | succ k =>
      simp only [List.take_succ_cons, List.mem_cons] at hg
      rcases hg with hg | hg
      · cases hg
      · have hk' : k ≤ mid.length := by simp at hk; omega
        rw [List.take_append_of_le_length hk'] at hg
        exact (hmid _ (List.mem_of_mem_take hg)).2 rfl
  · intro hs
    exact (hmid _ (List.mem_of_mem_take hs)).1 rfl
  · intro hs
    exact (hmid _ (List.mem_of_mem_take hs)).2 rfl

/-- [AF] the recipe of `PathGeometric::interpolate()` — `getMotionStates(s1, s2, block, n - 1, false,
true)` with `n = validSegmentCount(s1,s2)` and 32-bit unsigned `n - 1` — yields exactly the interior
subdivision points `j/n`, `j = 1..n-1`, that `checkMotion` validates (none for `n ≤ 1`, thanks to the
`UINT_MAX + 1 = 0` wrap at `n = 0`). -/
theorem getMotionStates_matches_subdivision (n size : Nat) (hn : n < 4294967296) :
    (getMotionStates ((n + 4294967295) % 4294967296) false true size).written =
      (List.range' 1 (n - 1)).map (fun j => Slot.frac j n) := by
  obtain ⟨h1, _⟩ := getMotionStatesC_eq_take (segmentsOf ((n + 4294967295) % 4294967296)) false true size
  unfold getMotionStates
  rw [h1]
  have hc : segmentsOf ((n + 4294967295) % 4294967296) = n := by unfold segmentsOf; omega
  rw [hc]
  simp only [if_true, List.take_length]
  unfold msFull
  by_cases h2 : n < 2
  · have : n - 1 = 0 := by omega
    simp [h2, this]
  · simp [h2]

example : (getMotionStates 4294967295 false true 0).written = [] ∧
    (getMotionStates 3 false true 0).written = [.frac 1 4, .frac 2 4, .frac 3 4] := by decide

/-! ### segment count -/

/-- [AF] `CompoundStateSpace::validSegmentCount` is the maximum of the components' counts. -/
theorem compoundSegCount_max (cs : List Nat) :
    (∀ c ∈ cs, c ≤ compoundSegCount cs) ∧ (cs ≠ [] → compoundSegCount cs ∈ cs) ∧
      (cs = [] → compoundSegCount cs = 0) := by
  unfold compoundSegCount
  refine ⟨(foldl_max_ge cs 0).2, ?_, by rintro rfl; rfl⟩
  intro hne
  rcases foldl_max_mem cs 0 with h | h
  · cases cs with
    | nil => exact absurd rfl hne
    | cons c r =>
      have := (foldl_max_ge (c :: r) 0).2 c (List.mem_cons_self)
      rw [h] at this ⊢
      have : c = 0 := by omega
      subst this; exact List.mem_cons_self
  · exact h

example : compoundSegCount [3, 7, 5] = 7 := by decide

/-- [EX] distinct states get at least one segment: `dist > 0 → n ≥ 1` (for `L > 0`, factor ≥ 1). -/
theorem segCount_pos (factor : Nat) (dist L : ℚ) (hf : 1 ≤ factor) (hd : 0 < dist) (hL : 0 < L) :
    1 ≤ segCount factor dist L := segCount_pos_rat factor dist L hf hd hL

/-- [EX] the segments cover the motion: `n · L ≥ dist`, i.e. each of the `n` steps is at most `L`
long (and `n = 0` only for `dist ≤ 0`). -/
theorem segCount_covers (factor : Nat) (dist L : ℚ) (hf : 1 ≤ factor) (hL : 0 < L) :
    dist ≤ (segCount factor dist L : ℚ) * L := segCount_covers_rat factor dist L hf hL

/-- [EX] the count is tight and the factor is a plain multiplier: with factor 1 the count `k` satisfies
`(k - 1)·L < dist ≤ k·L` (one segment fewer would leave a step longer than the longest valid segment — `segCount_pos`
and `segCount_covers` alone would also hold of `⌈·⌉ + 1`), and `segCount f = f · segCount 1`. -/
theorem segCount_tight (factor : Nat) (dist L : ℚ) (hd : 0 < dist) (hL : 0 < L) :
    ((segCount 1 dist L : Nat) : ℚ) * L < dist + L ∧ dist ≤ ((segCount 1 dist L : Nat) : ℚ) * L ∧
    segCount factor dist L = factor * segCount 1 dist L :=
  ⟨segCount_tight_rat dist L hd hL, segCount_covers_rat 1 dist L (Nat.le_refl 1) hL, by simp [segCount]⟩

/-- [AF] a zero-length motion (`n = 0`; the hypotheses `1 ≤ n` of the query-discipline theorems leave it out): both
forms ask exactly one question, about the end state, and answer what it says. -/
theorem zero_length_motion (val : Validator) (v : Nat → Bool) :
    (checkMotion3 val true 0 v).queries = [0] ∧ (checkMotion2 val true 0 v).queries = [0] ∧
    (checkMotion3 val true 0 v).verdict = v 0 ∧ (checkMotion2 val true 0 v).verdict = v 0 := by
  rw [checkMotion3_path, checkMotion2_path]
  cases hv : v 0 <;> simp [checkLinear, checkBisect, checkBisectGen, hv]

example : (checkBisect 0 (fun _ => false)).queries = [0] ∧ (checkLinear 0 (fun _ => true)).verdict = true := by decide

example : segCount 2 (7 : ℚ) 2 = 8 := by
  simp only [segCount, SegNum.ceilDiv]
  have : ⌈(7 : ℚ) / 2⌉₊ = 4 := by
    rw [Nat.ceil_eq_iff (by norm_num)]; norm_num
  rw [this]


/-! ### round 10: a motion check depends on the two states, the CURRENT segment count and the CURRENT validity predicate
only — not on earlier calls, not on a configuration that has been replaced, not on calls interleaved at query points -/

section history
variable {ρ φ δ : Type}

/-- [AF] after ANY history of reconfigurations and checks, a motion check is the pure check under the validator installed
last, the checker object installed last, the factors set last and the resolution that was pending when `setup()` last
ran (a resolution set after it is not in force yet) — "last write wins", read off the history without running it. -/
theorem history_current_config (E : Env ρ φ δ) (c0 : Config ρ φ) (h : List (Op ρ φ δ)) (three : Bool) (d : δ) :
    ((c0.after E h).step E (.check three d)).2 =
      some (checkWith E (lastValidator c0.val h) (lastChecker c0.checker h) (lastFactor c0.factor h)
        (effectiveResolution c0.pending c0.effective h) three d) := by
  simp [Config.step, Config.checkNow, after_checker, after_factor, after_val, after_effective]

/-- [AF] no dependence on earlier calls: deleting every earlier motion check from the history changes nothing about
the result of the next one (only the counters it adds to). -/
theorem history_checks_irrelevant (E : Env ρ φ δ) (c0 : Config ρ φ) (h : List (Op ρ φ δ)) (three : Bool) (d : δ) :
    ((c0.after E h).step E (.check three d)).2 = ((c0.after E (dropChecks h)).step E (.check three d)).2 := by
  rw [history_current_config, history_current_config, lastValidator_dropChecks, lastChecker_dropChecks,
    lastFactor_dropChecks, effectiveResolution_dropChecks]

/-- [AF] so the verdict after a history is valid exactly when every subdivision point — under the segment count of the
resolution and factors in force — is valid for the checker installed last (Dubins3D: given a path). -/
theorem history_verdict (E : Env ρ φ δ) (c0 : Config ρ φ) (h : List (Op ρ φ δ)) (three : Bool) (d : δ)
    (hp : E.pathOk d = true) :
    ∃ r, ((c0.after E h).step E (.check three d)).2 = some r ∧
      (r.verdict = true ↔
        AllValid (E.seg (lastFactor c0.factor h) (effectiveResolution c0.pending c0.effective h) d)
          (E.valid (lastChecker c0.checker h) d)) := by
  refine ⟨_, history_current_config E c0 h three d, ?_⟩
  unfold checkWith
  rw [hp]
  cases three
  · exact (validators_verdict _ _ _).1
  · exact (validators_verdict _ _ _).2

/-- [AF] every check adds exactly one to the counters of the validator that is installed, and a replaced validator
or a reset starts from zero. -/
theorem history_counters_step (E : Env ρ φ δ) (c : Config ρ φ) (three : Bool) (d : δ) :
    ((c.step E (.check three d)).1.cv + (c.step E (.check three d)).1.ci = c.cv + c.ci + 1) ∧
    (∀ v s, (c.step E (.setValidator v s)).1.cv = 0 ∧ (c.step E (.setValidator v s)).1.ci = 0) ∧
    ((c.step E (Op.resetCounters : Op ρ φ δ)).1.cv = 0 ∧ (c.step E (Op.resetCounters : Op ρ φ δ)).1.ci = 0) := by
  refine ⟨?_, fun _ _ => ⟨rfl, rfl⟩, rfl, rfl⟩
  have h := counters_exactly_one_all c.val (E.pathOk d) (E.seg c.factor c.effective d) (E.valid c.checker d)
  simp only [Config.step, Config.checkNow, checkWith]
  cases three
  · have := h.1; unfold CountsOnce at this; simp only [Bool.false_eq_true, if_false]; omega
  · have := h.2; unfold CountsOnce at this; simp only [if_true]; omega

end history

/-- a concrete world for the examples: segment count = the pair itself, checker `0` rejects point `2`, checker `1`
accepts everything. -/
def exEnv : Env Nat Nat Nat := ⟨fun _ _ d => d, fun _ => true, fun k _ j => !(k == 0 && j == 2)⟩
def exCfg : Config Nat Nat := ⟨0, 0, 0, 1, .discrete, 0, 0⟩

/-- check (invalid under checker 0), install checker 1, check again: valid — and the counters say 1/1. -/
example : ((exCfg.after exEnv [.setChecker 1, .check true 3]).step exEnv (.check true 3)).2.map (·.verdict) = some true ∧
    ((exCfg.after exEnv [.check true 3]).step exEnv (.check true 3)).2.map (·.verdict) = some false ∧
    (exCfg.after exEnv [.check true 3, .setChecker 1, .check true 3]).cv = 1 ∧
    (exCfg.after exEnv [.check true 3, .setChecker 1, .check true 3]).ci = 1 := by decide

/-- the configuration after a history for the latched variant (most recent operation first). -/
def latchedAfter {ρ φ δ : Type} (E : Env ρ φ δ) (c0 : LatchedConfig ρ φ) : List (Op ρ φ δ) → LatchedConfig ρ φ
  | [] => c0
  | op :: earlier => ((latchedAfter E c0 earlier).step E op).1

/-- the defect class of seeded change C05-s6 is a violation: a validator that keeps the checker it saw at its first
call does NOT answer "valid exactly when every subdivision point is valid" (for the checker that is installed) —
witness: check, install a checker that accepts everything, check again: still `false`. -/
theorem latched_checker_fails :
    ¬ ∀ (E : Env Nat Nat Nat) (c0 : Config Nat Nat) (h : List (Op Nat Nat Nat)) (d : Nat),
      (((latchedAfter E ⟨c0, none⟩ h).step E (.check true d)).2.map (·.verdict) = some true ↔
        AllValid (E.seg (lastFactor c0.factor h) (effectiveResolution c0.pending c0.effective h) d)
          (E.valid (lastChecker c0.checker h) d)) := by
  intro h
  have := (h exEnv exCfg [.setChecker 1, .check true 3] 3).2 ⟨by decide, fun j _ _ => by simp [exEnv, lastChecker]⟩
  exact absurd this (by decide)

/-- [AF] calls interleaved at query points: with a scratch state per call (as coded: `si_->allocState()` inside
`checkMotion`), whatever the validity checker does before it answers — `hook` is ANY transformation of the state shared
between calls, e.g. any number of complete nested `checkMotion` calls on the same validator — the call returns the pure
check's verdict, `lastValid` report, question order and counter increment for ITS motion and ITS predicate. -/
theorem reentrant_result_alone (three : Bool) (n : Nat) (v : Nat × Nat → Bool) (hook : World → World) (w : World) :
    (checkW three (askVia false 0 n v hook) n w).1 = checkPure three n (fun j => v (0, j)) := by
  rw [checkW_spec three _ (fun j => v (0, j)) (fun j w => askVia_own_fst 0 n v hook j w)]

/-- [AF] the same for every validator (given a path): the result is `checkMotion3` / `checkMotion2` of the outer
motion alone. -/
theorem reentrant_validators (val : Validator) (n : Nat) (v : Nat × Nat → Bool) (hook : World → World) (w : World) :
    (checkW true (askVia false 0 n v hook) n w).1 = checkMotion3 val true n (fun j => v (0, j)) ∧
    (checkW false (askVia false 0 n v hook) n w).1 = checkMotion2 val true n (fun j => v (0, j)) := by
  rw [reentrant_result_alone, reentrant_result_alone, checkMotion3_path, checkMotion2_path]
  exact ⟨rfl, rfl⟩

/-- [AF] the scripted scenario in full: the checker, at the `k`-th question of the outer call, runs a complete check
(either form) of another motion.  The outer call returns what it returns alone; the nested call runs iff the outer call
asks at least `k` questions and returns what IT returns alone; the counters end up advanced by exactly the two calls'
own increments; the shared scratch is never written. -/
theorem reentrant_nested_alone (three : Bool) (n k : Nat) (three' : Bool) (n' : Nat) (v : Nat × Nat → Bool)
    (cv ci : Nat) (s : Nat × Nat) :
    let P := checkPure three n (fun j => v (0, j))
    let R := checkPure three' n' (fun j => v (1, j))
    let ran := 0 < k ∧ k ≤ P.queries.length
    outerCall false three n k three' n' v ⟨cv, ci, s, 0, none⟩ =
      (P, ⟨cv + (if ran then R.dValid else 0) + P.dValid, ci + (if ran then R.dInvalid else 0) + P.dInvalid, s,
        P.queries.length, if ran then some R else none⟩) := by
  intro P R ran
  unfold outerCall
  rw [checkW_spec three _ (fun j => v (0, j)) (fun j w => askVia_own_fst 0 n v _ j w)]
  have hf : ∀ (l : List Nat) (w : World),
      l.foldl (fun w j => (askVia false 0 n v (hookAt false k three' n' v) j w).2) w =
        iter (hookAt false k three' n' v) l.length w := by
    intro l
    induction l with
    | nil => intro w; rfl
    | cons a l ih => intro w; rw [List.foldl_cons, askVia_own_snd, ih]; rfl
  rw [hf, iter_hookAt]
  show (P, (afterQuestions k R P.queries.length ⟨cv, ci, s, 0, none⟩).bump P.dValid P.dInvalid) = _
  by_cases hr : ran
  · have h2 : (0 : Nat) < k ∧ k ≤ 0 + P.queries.length := by simpa [ran] using hr
    simp only [afterQuestions, h2, hr, if_true, World.bump]
    simp
  · have h2 : ¬ ((0 : Nat) < k ∧ k ≤ 0 + P.queries.length) := by simpa [ran] using hr
    simp only [afterQuestions, h2, hr, if_false, World.bump]
    simp

/-- [AF] the constrained validator (Projected, Atlas, TangentBundle traversals; index `0` = the start state, `m + 1` =
the end state, both handed over as themselves): whatever happens inside its validity questions, both forms return what
`constrained2G` / `constrained3G` return for the motion alone — verdict, which traversal state is handed back, whether
`lastValid.second` is written, question order, counter increment. -/
theorem reentrant_constrained (mode : TMode) (hasFirst sat : Bool) (m : Nat) (geom : Bool) (v : Nat × Nat → Bool)
    (hook : World → World) (w : World) :
    (constrained2GW (askVia false 0 (m + 1) v hook) mode sat m geom w).1 =
      constrained2G mode sat m geom (fun j => v (0, j)) ∧
    (constrained3GW (askVia false 0 (m + 1) v hook) mode hasFirst sat m geom w).1 =
      constrained3G mode hasFirst sat m geom (fun j => v (0, j)) :=
  ⟨constrained2GW_fst _ _ (fun j w => askVia_own_fst 0 (m + 1) v hook j w) mode sat m geom w,
    constrained3GW_fst _ _ (fun j w => askVia_own_fst 0 (m + 1) v hook j w) mode hasFirst sat m geom w⟩

example : (constrained3GW (askVia false 0 4 (fun p => p.2 != 2) (fun w => w.bump 5 5)) .atlas true true 3 true
    ⟨0, 0, (9, 9), 0, none⟩).1.back = some 1 := by decide

/-- outer motion: 3 segments, all valid; nested motion: 3 segments, point 2 invalid; the nested call is made at the
outer call's first question.  With per-call scratch both calls return what they return alone. -/
def exV : Nat × Nat → Bool := fun p => !(p.1 == 1 && p.2 == 2)

example : (outerCall false true 3 1 true 3 exV ⟨0, 0, (9, 9), 0, none⟩).1.verdict = true ∧
    ((outerCall false true 3 1 true 3 exV ⟨0, 0, (9, 9), 0, none⟩).2.nested.map (·.failAt)) = some (some 2) ∧
    (outerCall false true 3 1 true 3 exV ⟨0, 0, (9, 9), 0, none⟩).2.cv = 1 ∧
    (outerCall false true 3 1 true 3 exV ⟨0, 0, (9, 9), 0, none⟩).2.ci = 1 := by decide

/-- the defect class of seeded change C05-s7 is a violation: with ONE scratch state shared by all calls the outer call
is handed the nested motion's last point — a motion whose every subdivision point is valid is reported invalid and
`lastValid` is written (here: fraction `0/3`). -/
theorem shared_scratch_fails :
    ¬ ∀ (three : Bool) (n k : Nat) (three' : Bool) (n' : Nat) (v : Nat × Nat → Bool) (w : World),
      (outerCall true three n k three' n' v w).1 = checkPure three n (fun j => v (0, j)) := by
  intro h
  have := h true 3 1 true 3 exV ⟨0, 0, (9, 9), 0, none⟩
  exact absurd this (by decide)

example : (outerCall true true 3 1 true 3 exV ⟨0, 0, (9, 9), 0, none⟩).1.verdict = false ∧
    (outerCall true true 3 1 true 3 exV ⟨0, 0, (9, 9), 0, none⟩).1.failAt = some 1 ∧
    AllValid 3 (fun j => exV (0, j)) := by
  refine ⟨by decide, by decide, by decide, fun j _ _ => by simp [exV]⟩

end OmplModel.Props.C05
