import OmplModel.Model.LBKPIECE1
import OmplModel.Model.Rng
import OmplModel.Driver.Common
/-!
Line-protocol driver for the `LBKPIECE1` model at `Float`, states as lists of IEEE bit patterns.  The script is built
by checks/c13.py from the event lines of a run of the real planner (harness/lbkpiece.cpp): every oracle answer
(projection coordinate, three-argument `checkMotion` answer, sampled state, input filter of start and goal states) is
replayed; the three random streams (`dStart_.rng_`, `dGoal_.rng_`: `uniform01` + `halfNormalInt` per `selectMotion`;
the planner's `rng_`: `uniformInt` per connection attempt) are recomputed from their seeds with the RNG model of C20.

  `lbkpiece pdim=<k> bf=<b> mvf=<b> seeds=<s>,<g>,<p>`                      header
  `start <state> <ok>` | `goal <state> <ok>`      -> `ok`    problem starts / goal states (GoalStates cycles through them)
  `proj <state> <coord>` | `cm <a> <b> <r> <frac> <lv>`   -> `ok`    oracle answers (accumulated)
  `begin`                 -> `st <dump>` | `invalid-start st <dump>` | `invalid-goal st <dump>`
  `it <nearSample>`       -> `st <dump>`            one loop iteration
  `fin`                   -> `final status=<S> same=<0|1> path=<states|-> | st <dump>`
-/
namespace OmplModel.Driver.LbkDrv
open OmplModel OmplModel.Grid OmplModel.Disc OmplModel.LBKPIECE1 OmplModel.PlannerReport OmplModel.Driver

abbrev S := List Nat

def fenc (x : Float) : Int := Int.ofNat x.toBits.toNat
def fdec (i : Int) : Float := Float.ofBits i.toNat.toUInt64
def fb (n : Nat) : Float := Float.ofBits n.toUInt64

structure DSt where
  pdim : Nat
  bf : Float
  mvf : Float
  starts : List (S × Bool) := []
  goals : List (S × Bool) := []
  coords : List (S × Coord) := []
  cms : List ((S × S) × (Bool × S × Float)) := []
  st : Option (St S Float) := none
  early : Option Status := none
  rs : Rng.Rng
  rg : Rng.Rng
  rp : Rng.Rng
  draws : List (Draw S Float) := []

def kv (pre : String) (s : String) : Option String :=
  if s.startsWith pre then some (s.drop pre.length).toString else none
def nats? (s : String) : Option (List Nat) := (s.splitOn ",").mapM (·.toNat?)
def ints? (s : String) : Option (List Int) := (s.splitOn ",").mapM (·.toInt?)

def init (ts : List String) : Option DSt :=
  match ts with
  | ["lbkpiece", a, b, c, d] => do
    let pdim ← (← kv "pdim=" a).toNat?
    let bf ← (← kv "bf=" b).toNat?
    let mvf ← (← kv "mvf=" c).toNat?
    let sd ← nats? (← kv "seeds=" d)
    match sd with
    | [s, g, p] =>
      pure { pdim, bf := fb bf, mvf := fb mvf, rs := Rng.Rng.create s.toUInt64, rg := Rng.Rng.create g.toUInt64,
             rp := Rng.Rng.create p.toUInt64 }
    | _ => none
  | _ => none

def mkCfg (ds : DSt) : Cfg S Float :=
  let okOf (s : S) : Bool :=
    match (ds.starts ++ ds.goals).find? (fun e => e.1 == s) with
    | some e => e.2
    | none => false
  { P := { dim := ds.pdim, enc := fenc, dec := fdec, eps := Float.ofBits 0x3CB0000000000000 },
    borderFraction := ds.bf, bounds := okOf, valid := fun _ => true,
    coord := fun s => ((ds.coords.find? (fun e => e.1 == s)).map (·.2)).getD [],
    minValidFrac := ds.mvf,
    checkMotion := fun a b =>
      match ds.cms.find? (fun e => e.1.1 == a && e.1.2 == b) with
      | some e => e.2
      | none => (false, a, -1.0),
    pairValid := fun _ _ => true,
    goalSample := fun k => ((ds.goals[k % (max ds.goals.length 1)]?).map (·.1)).getD [],
    maxGoalSamples := ds.goals.length }

def joinC (xs : List String) : String := if xs.isEmpty then "-" else ",".intercalate xs
def sstr (s : S) : String := joinC (s.map toString)
def ckey (c : Coord) : String := ".".intercalate (c.map toString)

def coordLe : Coord → Coord → Bool
  | [], _ => true
  | _ :: _, [] => false
  | a :: r, b :: r' => if a < b then true else if b < a then false else coordLe r r'

def dumpDisc (d : Disc Float) : String :=
  let cells := d.grid.cells.mergeSort (fun a b => coordLe a.coord b.coord)
  let cellStr (c : Cell) : String :=
    let base := ckey c.coord ++ ":" ++ toString c.nbrs ++ ":" ++ (if c.border then "1" else "0") ++ ":"
    match lookup d.cdata c.coord with
    | some cd =>
      base ++ joinC (cd.motions.map toString) ++ ":" ++ floatBits cd.coverage ++ ":" ++ toString cd.selections ++ ":" ++
        floatBits cd.score ++ ":" ++ toString cd.iteration ++ ":" ++ toString c.data
    | none => base ++ "nodata"
  let coordOfId (i : Nat) : String :=
    match d.grid.cells.find? (fun c => c.id == i) with
    | some c => ckey c.coord
    | none => "?"
  "size=" ++ toString d.size ++ " iter=" ++ toString d.iteration ++ " bf=" ++ floatBits d.bf ++
    " tbl=" ++ toString d.cdata.length ++
    " | n=" ++ toString cells.length ++ cells.foldl (fun acc c => acc ++ " " ++ cellStr c) "" ++
    " | I=" ++ joinC (d.grid.internal.arr.toList.map (fun e => coordOfId e.key.2)) ++
    " E=" ++ joinC (d.grid.external.arr.toList.map (fun e => coordOfId e.key.2))

def dump (st : St S Float) : String :=
  let ms := (List.range st.ar.size).map fun i =>
    match st.ar[i]? with
    | some m =>
      if m.alive then
        toString i ++ ":" ++ (if m.inStart then "S" else "G") ++ ":" ++
          (match m.parent with | some p => toString p | none => "-1") ++ ":" ++ (if m.valid then "1" else "0") ++ ":" ++
          sstr m.state ++ ":" ++ joinC (m.children.map toString)
      else toString i ++ ":x"
    | none => "?"
  "st goals=" ++ toString st.sampledGoals ++ " || S " ++ dumpDisc st.dS ++ " || G " ++ dumpDisc st.dG ++
    " || motions n=" ++ toString st.ar.size ++ ms.foldl (fun acc s => acc ++ " " ++ s) "" ++
    " || freed=" ++ joinC (st.freed.map toString)

def step (ds : DSt) (ts : List String) : DSt × String :=
  match ts with
  | ["start", s, ok] =>
    match nats? s, ok.toNat? with
    | some s, some ok => ({ ds with starts := ds.starts ++ [(s, ok == 1)] }, "ok")
    | _, _ => (ds, "bad-op")
  | ["goal", s, ok] =>
    match nats? s, ok.toNat? with
    | some s, some ok => ({ ds with goals := ds.goals ++ [(s, ok == 1)] }, "ok")
    | _, _ => (ds, "bad-op")
  | ["proj", s, c] =>
    match nats? s, ints? c with
    | some s, some c => ({ ds with coords := (s, c) :: ds.coords }, "ok")
    | _, _ => (ds, "bad-op")
  | ["cm", a, b, r, frac, lv] =>
    match nats? a, nats? b, r.toNat?, frac.toNat?, nats? lv with
    | some a, some b, some r, some frac, some lv =>
      ({ ds with cms := ((a, b), (r == 1, lv, fb frac)) :: ds.cms }, "ok")
    | _, _, _, _, _ => (ds, "bad-op")
  | ["begin"] =>
    let cfg := mkCfg ds
    let init := initState cfg (ds.starts.map (·.1)).toArray
    if init.1.dS.size = 0 then ({ ds with early := some .invalidStart, st := some init.1 }, "invalid-start " ++ dump init.1)
    else if cfg.maxGoalSamples = 0 then
      ({ ds with early := some .invalidGoal, st := some init.1 }, "invalid-goal " ++ dump init.1)
    else ({ ds with st := some init.1 }, dump init.1)
  | ["it", x] =>
    match ds.st, nats? x with
    | some st, some x =>
      if st.solved.isSome || st.invalidGoal || ds.early.isSome then (ds, "already-finished") else
      let cfg := mkCfg ds
      let useStart := st.startTree
      let rt := if useStart then ds.rs else ds.rg
      let (u, r1) := rt.uniform01
      let pick (n : Nat) : Nat :=
        match (r1.halfNormalInt 0 ((n : Int) - 1) 3.0).1 with
        | some v => v.toNat
        | none => n
      let rt' := (r1.halfNormalInt 0 0 3.0).2
      let connPick (n : Nat) : Nat := (ds.rp.uniformInt 0 ((n : Int) - 1)).1.toNat
      let dr : Draw S Float := { u := u, pick := pick, nearSample := x, connPick := connPick }
      let r := LBKPIECE1.step cfg st dr
      let selCalled := r.2.sel.isSome
      let ds1 := { ds with st := some r.1, draws := ds.draws ++ [dr] }
      let ds2 := if selCalled then (if useStart then { ds1 with rs := rt' } else { ds1 with rg := rt' }) else ds1
      let ds3 := if r.2.connTried then { ds2 with rp := (ds.rp.uniformInt 0 0).2 } else ds2
      (ds3, dump r.1)
    | _, _ => (ds, "bad-op")
  | ["fin"] =>
    let cfg := mkCfg ds
    let r := solve cfg (ds.starts.map (·.1)).toArray ds.draws
    let same := match ds.st with
      | some st => dump st == dump r.final
      | none => false
    (ds, s!"final status={r.status.name} same={if same then 1 else 0} " ++
      s!"path={match r.added with | some p => ";".intercalate (p.map sstr) | none => "-"} | " ++ dump r.final)
  | _ => (ds, "bad-op")

end OmplModel.Driver.LbkDrv
