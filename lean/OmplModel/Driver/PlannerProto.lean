import OmplModel.Model.PlannerProto
import OmplModel.Driver.Common
/-! Line-protocol driver for the planner protocol machine with the RRT-like core (`proto core=rrt`).

States are lists of doubles (u64 bit patterns on the wire); distances are `Float`; the path length is computed as
`PathGeometric::length()` over `RealVectorStateSpace::distance` does (same operation order, bit-identical). -/
namespace OmplModel.Driver.PlannerProtoDrv
open OmplModel.PlannerProto OmplModel.Driver

abbrev S := List Float

def rvDist (a b : S) : Float :=
  Float.sqrt ((a.zip b).foldl (fun acc p => acc + (p.1 - p.2) * (p.1 - p.2)) 0.0)

def pathLen : List S → Float
  | [] => 0.0
  | s :: r => (r.foldl (fun (acc : Float × S) x => (acc.1 + rvDist acc.2 x, x)) (0.0, s)).1

def params : Params S Float :=
  { ltD := fun a b => decide (a < b), inf := 1.0 / 0.0, zero := 0.0, pathLen := pathLen }

abbrev St := M S Float (Tree S)

def core : CoreSpec S Float (Draw S Float) (Tree S) := rrtCore

def init (ts : List String) : Option St :=
  match ts with
  | ["proto", "core=rrt"] => some (M.init core)
  | _ => none

def showLog (evs : List Ev) : String :=
  if evs.isEmpty then "-"
  else ",".intercalate (evs.map fun e => match e with
    | .alloc i => s!"A{i}"
    | .free i => s!"F{i}")

def showState (s : S) : String := joinSp (s.map floatBits)

def statusName : Status → String
  | .noPdef => "no-pdef"
  | .invalidStart => "INVALID_START"
  | .timeout => "TIMEOUT"
  | .approximate => "APPROXIMATE_SOLUTION"
  | .exact => "EXACT_SOLUTION"
  | .starved => "STARVED"

def b01 (b : Bool) : String := if b then "1" else "0"

/-- `<valid> <dim> <bits>*dim` -/
def pStart? (ts : List String) : Option ((S × Bool) × List String) :=
  match ts with
  | v :: rest =>
    match takeCounted rest with
    | some (xs, rest') =>
      match xs.mapM parseFloatBits?, v with
      | some s, "1" => some ((s, true), rest')
      | some s, "0" => some ((s, false), rest')
      | _, _ => none
    | none => none
  | [] => none

def pStarts? : Nat → List String → Option (List (S × Bool) × List String)
  | 0, ts => some ([], ts)
  | n + 1, ts => do
    let (s, r) ← pStart? ts
    let (ss, r') ← pStarts? n r
    pure (s :: ss, r')

/-- `<near> <valid> <sat> <distbits> <dim> <bits>*dim` -/
def pDraw? (ts : List String) : Option (Draw S Float × List String) :=
  match ts with
  | near :: valid :: sat :: dist :: rest =>
    match parseNat? near, parseFloatBits? dist, takeCounted rest with
    | some near, some dist, some (xs, rest') =>
      match xs.mapM parseFloatBits? with
      | some st =>
        if (valid = "0" || valid = "1") && (sat = "0" || sat = "1") then
          some (⟨near, valid = "1", st, sat = "1", dist⟩, rest')
        else none
      | none => none
    | _, _, _ => none
  | _ => none

def pDraws? : Nat → List String → Option (List (Draw S Float) × List String)
  | 0, ts => some ([], ts)
  | n + 1, ts => do
    let (d, r) ← pDraw? ts
    let (ds, r') ← pDraws? n r
    pure (d :: ds, r')

def newEvents (before after : St) : List Ev := after.log.drop before.log.length

def step (m : St) (ts : List String) : St × String :=
  let fin (op : Op S (Draw S Float)) (name : String) (extra : String) : St × String :=
    let m' := OmplModel.PlannerProto.step core params m op
    (m', name ++ extra ++ " log=" ++ showLog (newEvents m m'))
  match ts with
  | "setpd" :: id :: n :: rest =>
    match parseNat? id, parseNat? n with
    | some id, some n =>
      match pStarts? n rest with
      | some (ss, []) => fin (.setProblemDefinition id ss) "setpd" ""
      | _ => (m, "bad-op")
    | _, _ => (m, "bad-op")
  | "setsg" :: n :: rest =>
    match parseNat? n with
    | some n =>
      match pStarts? n rest with
      | some (ss, []) => if m.pdef.isSome then fin (.setStartGoal ss) "setsg" "" else (m, "bad-op")
      | _ => (m, "bad-op")
    | none => (m, "bad-op")
  | "addstart" :: rest =>
    match pStart? rest with
    | some ((s, v), []) => if m.pdef.isSome then fin (.addStart s v) "addstart" "" else (m, "bad-op")
    | _ => (m, "bad-op")
  | ["clearsol"] => if m.pdef.isSome then fin .clearSolutionPaths "clearsol" "" else (m, "bad-op")
  | ["clear"] => fin .clear "clear" " tree=0"
  | ["clearQuery"] => fin .clearQuery "clearQuery" " tree=0"
  | ["destroy"] => fin .destroy "destroy" ""
  | ["getpd"] =>
    let (v, g, dangling) := plannerData core m
    (m, s!"getpd v={v} goals={b01 g}" ++ (if dangling then " dangling-lastGoalMotion" else ""))
  | "solve" :: k :: n :: rest =>
    match parseNat? k, parseNat? n with
    | some k, some n =>
      match pDraws? n rest with
      | some (ds, []) =>
        let r := solve core params m k ds
        let m' := r.m
        match m'.pdef with
        | none => (m', "solve st=" ++ statusName r.status)
        | some pd =>
          let top := match pd.sols with
            | [] => "-"
            | s :: _ => s!"{b01 s.approx}:{floatBits s.diff}:{floatBits s.len}"
          let path := match pd.sols with
            | [] => "-"
            | s :: _ => joinSp (toString s.path.length :: s.path.map showState)
          (m', s!"solve st={statusName r.status} nsol={pd.sols.length} added={r.added.length} exact={b01 pd.hasExactSolution} approx={b01 pd.hasApproximateSolution} top={top} evals={r.evals} tree={core.size m'.core} path={path} log={showLog r.evs}")
      | _ => (m, "bad-op")
    | _, _ => (m, "bad-op")
  | _ => (m, "bad-op")

end OmplModel.Driver.PlannerProtoDrv
