import OmplModel.Model.PlannerProto
import OmplModel.Model.PlannerProtoPrm
import OmplModel.Model.PlannerProtoInterm
import OmplModel.Model.PlannerProtoConnect
import OmplModel.Driver.Common
/-! Line-protocol driver for the planner protocol machine with the RRT-like core (`proto core=rrt`).

States are lists of doubles (u64 bit patterns on the wire); distances are `Float`; the path length is computed as
`PathGeometric::length()` over `RealVectorStateSpace::distance` does (same operation order, bit-identical). -/
namespace OmplModel.Driver.PlannerProtoDrv
open OmplModel.PlannerProto OmplModel.Driver

abbrev S := List Float

def rvDist (a b : S) : Float :=
  Float.sqrt ((a.zip b).foldl (fun acc p => acc + (p.1 - p.2) * (p.1 - p.2)) 0.0)

def pathLen : List S → Float
  | [] => 0.0
  | s :: r => (r.foldl (fun (acc : Float × S) x => (acc.1 + rvDist acc.2 x, x)) (0.0, s)).1

def params : Params S Float :=
  { ltD := fun a b => decide (a < b), inf := 1.0 / 0.0, zero := 0.0, pathLen := pathLen }

abbrev Mach := M S Float (Tree S)

/-- which core the script runs: the geometric RRT-like core, control RRT with intermediate states (with its
propagation step size: `PathControl::length()` is the sum of the control durations), or PRM's query bookkeeping -/
inductive St where
  | tree (ctl : Bool) (dt : Float) (m : Mach)
  | prm (p : Prm.Prm)
  /-- geometric::RRTConnect (two trees) -/
  | bi (m : M S Float (BiTree S))
  /-- geometric RRT with the goal test computed by the model (`goal` op: goal state and threshold of the current problem
  definition); `interm`: the intermediate-states core, `lvs` = `longestValidSegment_` of the state space -/
  | geo (interm : Bool) (lvs : Float) (goal : Option (S × Float)) (m : Mach)

/-- `RealVectorStateSpace::interpolate(from, to, (double)j / (double)count, ·)` -/
def rvInterp (a b : S) (j count : Nat) : S :=
  let t : Float := Float.ofNat j / Float.ofNat count
  (a.zip b).map fun p => p.1 + (p.2 - p.1) * t

/-- `StateSpace::validSegmentCount`: `longestValidSegmentCountFactor_ (= 1) * (unsigned int)ceil(distance / longestValidSegment_)` -/
def rvSegs (lvs : Float) (a b : S) : Nat := (Float.ceil (rvDist a b / lvs)).toUInt32.toNat

def rvGeom (lvs : Float) : Geom S := { segs := rvSegs lvs, interp := rvInterp }

/-- `GoalState` with threshold over `RealVectorStateSpace::distance` -/
def rvGoal (goal : S) (thr : Float) : S → Bool × Float :=
  goalRegion rvDist (fun a b => decide (a < b)) goal thr

/-- control core: every non-root motion has `steps = 1`, so each path segment lasts one propagation step;
`std::accumulate(durations, 0.0)` -/
def paramsCtl (dt : Float) : Params S Float :=
  { params with pathLen := fun p => (p.drop 1).foldl (fun acc _ => acc + dt) 0.0 }

def init (ts : List String) : Option St :=
  match ts with
  | ["proto", "core=prm"] => some (.prm {})
  | ["proto", "core=rrt"] => some (.tree false 0.0 (M.init (rrtCore : CoreSpec S Float (Draw S Float) (Tree S))))
  | ["proto", "core=rrtc"] => some (.bi (M.init (rrtConnectCore : CoreSpec S Float (BDraw S Float) (BiTree S))))
  | ["proto", "core=rrtg"] => some (.geo false 0.0 none (M.init (rrtCore : CoreSpec S Float (Draw S Float) (Tree S))))
  | ["proto", "core=rrti", lvs] =>
    match parseFloatBits? lvs with
    | some lvs =>
      if lvs > 0.0 then some (.geo true lvs none (M.init (rrtiCore (rvGeom lvs) : CoreSpec S Float (Draw S Float) (Tree S))))
      else none
    | none => none
  | ["proto", "core=crrt", dt] =>
    match parseFloatBits? dt with
    | some dt => some (.tree true dt (M.init (crrtCore : CoreSpec S Float (CDraw S Float) (Tree S))))
    | none => none
  | _ => none

def showLog (evs : List Ev) : String :=
  if evs.isEmpty then "-"
  else ",".intercalate (evs.map fun e => match e with
    | .alloc i => s!"A{i}"
    | .free i => s!"F{i}")

def showState (s : S) : String := joinSp (s.map floatBits)

def statusName : Status → String
  | .noPdef => "no-pdef"
  | .invalidStart => "INVALID_START"
  | .timeout => "TIMEOUT"
  | .approximate => "APPROXIMATE_SOLUTION"
  | .exact => "EXACT_SOLUTION"
  | .starved => "STARVED"

def b01 (b : Bool) : String := if b then "1" else "0"

/-- `<valid> <dim> <bits>*dim` -/
def pStart? (ts : List String) : Option ((S × Bool) × List String) :=
  match ts with
  | v :: rest =>
    match takeCounted rest with
    | some (xs, rest') =>
      match xs.mapM parseFloatBits?, v with
      | some s, "1" => some ((s, true), rest')
      | some s, "0" => some ((s, false), rest')
      | _, _ => none
    | none => none
  | [] => none

def pStarts? : Nat → List String → Option (List (S × Bool) × List String)
  | 0, ts => some ([], ts)
  | n + 1, ts => do
    let (s, r) ← pStart? ts
    let (ss, r') ← pStarts? n r
    pure (s :: ss, r')

/-- `<near> <valid> <sat> <distbits> <dim> <bits>*dim` -/
def pDraw? (ts : List String) : Option (Draw S Float × List String) :=
  match ts with
  | near :: valid :: sat :: dist :: rest =>
    match parseNat? near, parseFloatBits? dist, takeCounted rest with
    | some near, some dist, some (xs, rest') =>
      match xs.mapM parseFloatBits? with
      | some st =>
        if (valid = "0" || valid = "1") && (sat = "0" || sat = "1") then
          some (⟨near, valid = "1", st, sat = "1", dist⟩, rest')
        else none
      | none => none
    | _, _, _ => none
  | _ => none

def pDraws? : Nat → List String → Option (List (Draw S Float) × List String)
  | 0, ts => some ([], ts)
  | n + 1, ts => do
    let (d, r) ← pDraw? ts
    let (ds, r') ← pDraws? n r
    pure (d :: ds, r')

/-- `<near> <valid> <dim> <bits>*dim`: the goal test is NOT on the wire, the model computes it -/
def pRawDraw? (ts : List String) : Option (RawDraw S × List String) :=
  match ts with
  | near :: valid :: rest =>
    match parseNat? near, takeCounted rest with
    | some near, some (xs, rest') =>
      match xs.mapM parseFloatBits? with
      | some st => if valid = "0" || valid = "1" then some (⟨near, valid = "1", st⟩, rest') else none
      | none => none
    | _, _ => none
  | _ => none

def pGoalDraws? (g : S → Bool × Float) : Nat → List String → Option (List (Draw S Float) × List String)
  | 0, ts => some ([], ts)
  | n + 1, ts => do
    let (d, r) ← pRawDraw? ts
    let (ds, r') ← pGoalDraws? g n r
    pure (goalDraw g d :: ds, r')

/-- `<sat> <distbits> <dim> <bits>*dim` -/
def pPState? (ts : List String) : Option ((S × Bool × Float) × List String) :=
  match ts with
  | sat :: dist :: rest =>
    match parseFloatBits? dist, takeCounted rest with
    | some dist, some (xs, rest') =>
      match xs.mapM parseFloatBits? with
      | some st => if sat = "0" || sat = "1" then some ((st, sat = "1", dist), rest') else none
      | none => none
    | _, _ => none
  | _ => none

def pPStates? : Nat → List String → Option (List (S × Bool × Float) × List String)
  | 0, ts => some ([], ts)
  | n + 1, ts => do
    let (d, r) ← pPState? ts
    let (ds, r') ← pPStates? n r
    pure (d :: ds, r')

/-- `<near> <ok> <tail> <nps> (<sat> <distbits> <dim> <bits>*dim)*nps` -/
def pCDraw? (ts : List String) : Option (CDraw S Float × List String) :=
  match ts with
  | near :: ok :: tail :: nps :: rest =>
    match parseNat? near, parseNat? nps with
    | some near, some nps =>
      if (ok = "0" || ok = "1") && (tail = "0" || tail = "1") then
        match pPStates? nps rest with
        | some (ps, rest') => some (⟨near, ps, tail = "1", ok = "1"⟩, rest')
        | none => none
      else none
    | _, _ => none
  | _ => none

def pCDraws? : Nat → List String → Option (List (CDraw S Float) × List String)
  | 0, ts => some ([], ts)
  | n + 1, ts => do
    let (d, r) ← pCDraw? ts
    let (ds, r') ← pCDraws? n r
    pure (d :: ds, r')

/-- one `growTree` outcome: `T` (TRAPPED) or `A <near> <reached> <dim> <bits>*dim` -/
def pGrow? (ts : List String) : Option (Grow S × List String) :=
  match ts with
  | "T" :: rest => some (.trapped, rest)
  | "A" :: near :: reached :: rest =>
    match parseNat? near, takeCounted rest with
    | some near, some (xs, rest') =>
      match xs.mapM parseFloatBits? with
      | some st => if reached = "0" || reached = "1" then some (.added near st (reached = "1"), rest') else none
      | none => none
    | _, _ => none
  | _ => none

def pGrows? : Nat → List String → Option (List (Grow S) × List String)
  | 0, ts => some ([], ts)
  | n + 1, ts => do
    let (d, r) ← pGrow? ts
    let (ds, r') ← pGrows? n r
    pure (d :: ds, r')

/-- `(0 | 1 <dim> <bits>*dim) <grow> <nconnect> <grow>*nconnect <pairValid> <distbits>` -/
def pBDraw? (ts : List String) : Option (BDraw S Float × List String) := do
  let (goal, r0) ← match ts with
    | "0" :: rest => some (none, rest)
    | "1" :: rest =>
      match takeCounted rest with
      | some (xs, rest') => (xs.mapM parseFloatBits?).map fun g => (some g, rest')
      | none => none
    | _ => none
  let (first, r1) ← pGrow? r0
  match r1 with
  | n :: r2 =>
    let n ← parseNat? n
    let (cn, r3) ← pGrows? n r2
    match r3 with
    | pv :: dist :: r4 =>
      let dist ← parseFloatBits? dist
      if pv = "0" || pv = "1" then some (⟨goal, first, cn, pv = "1", dist⟩, r4) else none
    | _ => none
  | [] => none

def pBDraws? : Nat → List String → Option (List (BDraw S Float) × List String)
  | 0, ts => some ([], ts)
  | n + 1, ts => do
    let (d, r) ← pBDraw? ts
    let (ds, r') ← pBDraws? n r
    pure (d :: ds, r')

def newEvents {C : Type} (before after : M S Float C) : List Ev := after.log.drop before.log.length

def stepG {D C : Type} (cs : CoreSpec S Float D C) (params : Params S Float) (pDs : Nat → List String → Option (List D × List String))
    (m : M S Float C) (ts : List String) : M S Float C × String :=
  let fin (op : Op S D) (name : String) (extra : String) : M S Float C × String :=
    let m' := OmplModel.PlannerProto.step cs params m op
    (m', name ++ extra ++ " log=" ++ showLog (newEvents m m'))
  match ts with
  | "setpd" :: id :: n :: rest =>
    match parseNat? id, parseNat? n with
    | some id, some n =>
      match pStarts? n rest with
      | some (ss, []) => fin (.setProblemDefinition id ss) "setpd" ""
      | _ => (m, "bad-op")
    | _, _ => (m, "bad-op")
  | "setsg" :: n :: rest =>
    match parseNat? n with
    | some n =>
      match pStarts? n rest with
      | some (ss, []) => if m.pdef.isSome then fin (.setStartGoal ss) "setsg" "" else (m, "bad-op")
      | _ => (m, "bad-op")
    | none => (m, "bad-op")
  | "addstart" :: rest =>
    match pStart? rest with
    | some ((s, v), []) => if m.pdef.isSome then fin (.addStart s v) "addstart" "" else (m, "bad-op")
    | _ => (m, "bad-op")
  | ["clearsol"] => if m.pdef.isSome then fin .clearSolutionPaths "clearsol" "" else (m, "bad-op")
  | ["clear"] => fin .clear "clear" " tree=0"
  | ["clearQuery"] => fin .clearQuery "clearQuery" " tree=0"
  | ["destroy"] => fin .destroy "destroy" ""
  | ["getpd"] =>
    let (v, g, dangling) := plannerData cs m
    (m, s!"getpd v={v} goals={b01 g}" ++ (if dangling then " dangling-lastGoalMotion" else ""))
  | "solve" :: k :: n :: rest =>
    match parseNat? k, parseNat? n with
    | some k, some n =>
      match pDs n rest with
      | some (ds, []) =>
        let r := solve cs params m k ds
        let m' := r.m
        match m'.pdef with
        | none => (m', "solve st=" ++ statusName r.status)
        | some pd =>
          let top := match pd.sols with
            | [] => "-"
            | s :: _ => s!"{b01 s.approx}:{floatBits s.diff}:{floatBits s.len}"
          let path := match pd.sols with
            | [] => "-"
            | s :: _ => joinSp (toString s.path.length :: s.path.map showState)
          (m', s!"solve st={statusName r.status} nsol={pd.sols.length} added={r.added.length} exact={b01 pd.hasExactSolution} approx={b01 pd.hasApproximateSolution} top={top} evals={r.evals} tree={cs.size m'.core} path={path} log={showLog r.evs}")
      | _ => (m, "bad-op")
    | _, _ => (m, "bad-op")
  | _ => (m, "bad-op")

def pBool? (t : String) : Option Bool := if t = "1" then some true else if t = "0" then some false else none

/-- `<nstarts> <valid>*nstarts <gvalid>` -/
def pQuery? (ts : List String) : Option (List Bool × Bool) :=
  match takeCounted ts with
  | some (vs, [g]) =>
    match vs.mapM pBool?, pBool? g with
    | some ss, some g => some (ss, g)
    | _, _ => none
  | _ => none

def stepPrm (p : Prm.Prm) (ts : List String) : Prm.Prm × String :=
  let show_ (name : String) (q : Prm.Prm) : Prm.Prm × String :=
    (q, s!"{name} starts={q.startM.length} goals={q.goalM.length}")
  match ts with
  | "setpd" :: id :: rest =>
    match parseNat? id, pQuery? rest with
    | some id, some (ss, g) => show_ "setpd" (Prm.step p (.setProblemDefinition ⟨id, ss, g⟩))
    | _, _ => (p, "bad-op")
  | "mutpd" :: rest =>
    match pQuery? rest, p.pdef with
    | some (ss, g), some pd =>
      show_ "mutpd" (Prm.step (Prm.step p (.mutate ss g)) (.setProblemDefinition ⟨pd.id, ss, g⟩))
    | _, _ => (p, "bad-op")
  | "setsg" :: rest =>
    match pQuery? rest with
    | some (ss, g) => if p.pdef.isSome then show_ "setsg" (Prm.step p (.mutate ss g)) else (p, "bad-op")
    | none => (p, "bad-op")
  | ["addstart", v] =>
    match pBool? v with
    | some v => if p.pdef.isSome then show_ "addstart" (Prm.step p (.addStart v)) else (p, "bad-op")
    | none => (p, "bad-op")
  | ["solve", g] =>
    match parseNat? g with
    | some g =>
      let r := Prm.solve p g
      let st := match r.2 with
        | .noPdef => "no-pdef"
        | .invalidStart => "INVALID_START"
        | .invalidGoal => "INVALID_GOAL"
        | .ran => "ran"
      (r.1, s!"solve st={st} starts={r.1.startM.length} goals={r.1.goalM.length}")
    | none => (p, "bad-op")
  | ["clear"] => show_ "clear" (Prm.step p .clear)
  | ["clearQuery"] => show_ "clearQuery" (Prm.step p .clearQuery)
  | ["getpd"] => show_ "getpd" p
  | _ => (p, "bad-op")

def step (st : St) (ts : List String) : St × String :=
  match st with
  | .prm p =>
    let (p', out) := stepPrm p ts
    (.prm p', out)
  | .tree true dt m =>
    let (m', out) := stepG (crrtCore : CoreSpec S Float (CDraw S Float) (Tree S)) (paramsCtl dt) pCDraws? m ts
    (.tree true dt m', out)
  | .tree false dt m =>
    let (m', out) := stepG (rrtCore : CoreSpec S Float (Draw S Float) (Tree S)) params pDraws? m ts
    (.tree false dt m', out)
  | .bi m =>
    match ts with
    | ["turn", b] =>
      -- `startTree_` as the real planner has it (RRTConnect::clear() does not reset it: F333)
      if b = "0" || b = "1" then (.bi { m with core := { m.core with turn := b = "1" } }, "turn") else (st, "bad-op")
    | _ =>
      let (m', out) := stepG (rrtConnectCore : CoreSpec S Float (BDraw S Float) (BiTree S)) params pBDraws? m ts
      (.bi m', out ++ (if ts.head? = some "solve" || ts.head? = some "getpd" then s!" ts={m'.core.ts.size} tg={m'.core.tg.size}" else ""))
  | .geo interm lvs goal m =>
    match ts with
    | "goal" :: thr :: rest =>
      -- goal state and threshold of the problem definition the planner now holds (driver state only)
      match parseFloatBits? thr, takeCounted rest with
      | some thr, some (xs, []) =>
        match xs.mapM parseFloatBits? with
        | some g => (.geo interm lvs (some (g, thr)) m, "goal")
        | none => (st, "bad-op")
      | _, _ => (st, "bad-op")
    | _ =>
      -- without a goal no draw can be completed: only `solve k 0` parses
      let pDs : Nat → List String → Option (List (Draw S Float) × List String) :=
        match goal with
        | some (g, thr) => pGoalDraws? (rvGoal g thr)
        | none => fun n ts => if n = 0 then some ([], ts) else none
      let (m', out) :=
        if interm then stepG (rrtiCore (rvGeom lvs) : CoreSpec S Float (Draw S Float) (Tree S)) params pDs m ts
        else stepG (rrtCore : CoreSpec S Float (Draw S Float) (Tree S)) params pDs m ts
      (.geo interm lvs goal m', out)

end OmplModel.Driver.PlannerProtoDrv
