import OmplModel.Model.ConstrainedAtlas
import OmplModel.Model.ConstrainedSI
import OmplModel.Model.AtlasChart
import OmplModel.Driver.Constrained
/-!
Driver ops for the atlas-based spaces (`ageo`, `tgeo`, `tinterp`, `asu`, `asn`); every other op is
handed to `ConstrainedDrv.step`.  The oracle answers are the chart-level calls recorded from the
real code by symbol interposition (harness/constrained.cpp):

  S x b | V x b | GC x force cid created | PI cid x u | PSI cid u b x | PHI cid u x | IP cid u b
  CD x d | SC cid origin | BC cid | OC x cid

Each oracle call pops the next event, which must be of the expected kind, about the same chart and
(bit for bit) the same argument, else `miss=1`.  The two pieces of Eigen arithmetic in chart
coordinates are not calls; their answers are *inferred* from the trace: `advance` is the argument
of the next `psi`/`phi`, `uClose` is `false` iff the next event is `inPolytope` or `phi` (what the
code does next after a `false`), the random draws are the argument of the next `inPolytope`/`psi`.

extra header fields: `k=<manifold dim> eps=<bits> cosa=<bits> backoff=<bits> maxc=<n>`
-/
namespace OmplModel.Driver.ConstrainedDrv
open OmplModel.Constrained OmplModel.Driver

inductive AEv where
  | S (x : Vec) (b : Bool)
  | V (x : Vec) (b : Bool)
  | GC (x : Vec) (force : Bool) (cid : Int) (created : Bool)
  | PI (cid : Int) (x u : Vec)
  | PSI (cid : Int) (u : Vec) (b : Bool) (x : Vec)
  | PHI (cid : Int) (u x : Vec)
  | IP (cid : Int) (u : Vec) (b : Bool)
  | CD (x : Vec) (d : Float)
  | SC (cid : Int) (origin : Vec)
  | BC (cid : Int)
  | OC (x : Vec) (cid : Int)

structure ASt where
  evs : List AEv
  miss : Bool := false

abbrev Chart := Int × Vec

def bad (α : Type) [Inhabited α] : α × ASt := (default, { evs := [], miss := true })

def chartOf (cid : Int) : Option Chart := if cid < 0 then none else some (cid, #[])

/-- Eigen's `redux` of a sum over a dynamic-size expression (SSE2 packets of 2 doubles, two packet
accumulators, `alignedStart = 0` for the coefficient-wise product / `abs2` expressions that `dot`
and `squaredNorm` reduce): the order in which `v.dot(u)` adds its terms. -/
def eigenSum (t : Array Float) : Float := Id.run do
  let n := t.size
  if n == 0 then return 0.0
  let alignedSize := (n / 2) * 2
  let alignedSize2 := (n / 4) * 4
  if alignedSize == 0 then
    let mut res := t[0]!
    for i in [1:n] do res := res + t[i]!
    return res
  let mut p00 := t[0]!
  let mut p01 := t[1]!
  if alignedSize > 2 then
    let mut p10 := t[2]!
    let mut p11 := t[3]!
    let mut idx := 4
    while idx < alignedSize2 do
      p00 := p00 + t[idx]!
      p01 := p01 + t[idx + 1]!
      p10 := p10 + t[idx + 2]!
      p11 := p11 + t[idx + 3]!
      idx := idx + 4
    p00 := p00 + p10
    p01 := p01 + p11
    if alignedSize > alignedSize2 then
      p00 := p00 + t[alignedSize2]!
      p01 := p01 + t[alignedSize2 + 1]!
  let mut res := p00 + p01
  for i in [alignedSize:n] do res := res + t[i]!
  return res

def vecOpsF : VecOps Float Vec where
  dot a b := eigenSum ((Array.range a.size).map (fun i => a[i]! * b[i]!))
  smul c u := u.map (fun x => c * x)

def chartArithF : ChartArith Float :=
  { arithF with sqrt := Float.sqrt, neg := fun x => -x, c105 := 1.05, half := 0.5, twentieth := 1.0 / 20, two := 2.0 }

/-- `u_j += s * (u_b - u_j).normalized()` as Eigen evaluates it: `n = u_b - u_j`, `z = n.squaredNorm()`,
`n / sqrt(z)` (or `n` itself when `z` is not positive), then `u_j[i] + s * n[i]`. -/
def advanceF (uj ub : Vec) (s : Float) : Vec :=
  let nv := (Array.range uj.size).map (fun i => ub[i]! - uj[i]!)
  let z := vecOpsF.dot nv nv
  let nrm := if z > 0 then nv.map (fun x => x / Float.sqrt z) else nv
  (Array.range uj.size).map (fun i => uj[i]! + s * nrm[i]!)

/-- `(u_b - u_j).squaredNorm() <= delta_ * delta_` -/
def uCloseF (ub uj : Vec) (delta : Float) : Bool :=
  let nv := (Array.range uj.size).map (fun i => ub[i]! - uj[i]!)
  decide (vecOpsF.dot nv nv ≤ delta * delta)

def atlasOracle (n : Nat) (delta : Float) : AtlasOracle ASt Vec Vec Chart Float where
  isSat s x :=
    match s.evs with
    | .S x' b :: r => (b, { evs := r, miss := s.miss || !vecEq x x' })
    | _ => (false, { evs := [], miss := true })
  valid s x :=
    match s.evs with
    | .V x' b :: r => (b, { evs := r, miss := s.miss || !vecEq x x' })
    | _ => (false, { evs := [], miss := true })
  getChart s x force :=
    match s.evs with
    | .GC x' f cid cr :: r => ((chartOf cid, cr), { evs := r, miss := s.miss || !vecEq x x' || f != force })
    | _ => ((none, false), { evs := [], miss := true })
  psiInv s c x :=
    match s.evs with
    | .PI cid x' u :: r => (u, { evs := r, miss := s.miss || !vecEq x x' || cid != c.1 })
    | _ => (#[], { evs := [], miss := true })
  psi s c u :=
    match s.evs with
    | .PSI cid u' b x :: r => ((b, x), { evs := r, miss := s.miss || !vecEq u u' || cid != c.1 })
    | _ => ((false, Array.replicate n nan), { evs := [], miss := true })
  phi s c u :=
    match s.evs with
    | .PHI cid u' x :: r => (x, { evs := r, miss := s.miss || !vecEq u u' || cid != c.1 })
    | _ => (Array.replicate n nan, { evs := [], miss := true })
  inPoly s c u :=
    match s.evs with
    | .IP cid u' b :: r => (b, { evs := r, miss := s.miss || !vecEq u u' || cid != c.1 })
    | _ => (false, { evs := [], miss := true })
  conDist s x :=
    match s.evs with
    | .CD x' d :: r => (d, { evs := r, miss := s.miss || !vecEq x x' })
    | _ => (nan, { evs := [], miss := true })
  -- the two pieces of inline Eigen arithmetic: the answer is inferred from the trace (what the code did next) AND
  -- recomputed here in Eigen's evaluation order; the two must agree bit for bit, else `miss`
  advance s uj ub d :=
    match s.evs with
    | .PSI _ u _ _ :: _ => (u, { s with miss := s.miss || !vecEq u (advanceF uj ub d) })
    | .PHI _ u _ :: _ => (u, { s with miss := s.miss || !vecEq u (advanceF uj ub d) })
    | _ => (uj, { s with miss := true })
  uClose s ub uj :=
    match s.evs with
    | .IP .. :: _ => (false, { s with miss := s.miss || uCloseF ub uj delta })
    | .PHI .. :: _ => (false, { s with miss := s.miss || uCloseF ub uj delta })
    | _ => (true, { s with miss := s.miss || !uCloseF ub uj delta })
  sampleChart s :=
    match s.evs with
    | .SC cid o :: r => ((cid, o), { evs := r, miss := s.miss })
    | _ => ((-1, #[]), { evs := [], miss := true })
  drawBall s :=
    match s.evs with
    | .IP _ u _ :: _ => (u, s)
    | .PSI _ u _ _ :: _ => (u, s)
    | _ => (#[], s)
  drawNear s _ _ :=
    match s.evs with
    | .PSI _ u _ _ :: _ => (u, s)
    | _ => (#[], s)
  owning s x :=
    match s.evs with
    | .OC x' cid :: r => (chartOf cid, { evs := r, miss := s.miss || !vecEq x x' })
    | _ => (none, { evs := [], miss := true })
  border s c _ :=
    match s.evs with
    | .BC cid :: r => { evs := r, miss := s.miss || cid != c.1 }
    | _ => { evs := [], miss := true }
  origin c := c.2

structure StA where
  base : St
  k : Nat
  AP : AtlasParams Float
  M : AtlasM Float Vec := {}
  /-- header `tbfix=1`: the TangentBundle traversal under test has the F175 repair (validates the state it
  is about to store); `tbfix=0`: the traversal before the repair (`tbGeodesicOld`) -/
  tbFixed : Bool := true
  /-- header `sifix=1`: `TangentBundleSpaceInformation::checkMotion` has the F460 repair (falls back to `s1`, fraction 0,
  when the projection of `lastValid.first` fails) -/
  siFixed : Bool := false

def initA (ts : List String) : Option StA := do
  let b ← init ts
  match ts with
  | _ :: rest =>
    let k := ((kvGet rest "k").bind String.toNat?).getD 0
    let g (key : String) (d : Float) : Float := ((kvGet rest key).bind parseFloatBits?).getD d
    let maxc := ((kvGet rest "maxc").bind String.toNat?).getD 200
    some ⟨b, k, ⟨b.P.delta, b.P.lambda, g "eps" 0.05, g "cosa" 0.0, g "backoff" 0.75, maxc⟩, {}, (kvGet rest "tbfix") != some "0", (kvGet rest "sifix") == some "1"⟩
  | [] => none

partial def parseAEvs (n k : Nat) (ts : List String) (acc : Array AEv) : Option (List AEv) :=
  match ts with
  | [] => some acc.toList
  | "S" :: r => do
    let (x, r) ← takeVec n r
    match r with
    | b :: r => parseAEvs n k r (acc.push (.S x (← parseBool? b)))
    | [] => none
  | "V" :: r => do
    let (x, r) ← takeVec n r
    match r with
    | b :: r => parseAEvs n k r (acc.push (.V x (← parseBool? b)))
    | [] => none
  | "GC" :: r => do
    let (x, r) ← takeVec n r
    match r with
    | f :: cid :: cr :: r => parseAEvs n k r (acc.push (.GC x (← parseBool? f) (← cid.toInt?) (← parseBool? cr)))
    | _ => none
  | "PI" :: cid :: r => do
    let (x, r) ← takeVec n r
    let (u, r) ← takeVec k r
    parseAEvs n k r (acc.push (.PI (← cid.toInt?) x u))
  | "PSI" :: cid :: r => do
    let (u, r) ← takeVec k r
    match r with
    | b :: r => do
      let (x, r) ← takeVec n r
      parseAEvs n k r (acc.push (.PSI (← cid.toInt?) u (← parseBool? b) x))
    | [] => none
  | "PHI" :: cid :: r => do
    let (u, r) ← takeVec k r
    let (x, r) ← takeVec n r
    parseAEvs n k r (acc.push (.PHI (← cid.toInt?) u x))
  | "IP" :: cid :: r => do
    let (u, r) ← takeVec k r
    match r with
    | b :: r => parseAEvs n k r (acc.push (.IP (← cid.toInt?) u (← parseBool? b)))
    | [] => none
  | "CD" :: r => do
    let (x, r) ← takeVec n r
    match r with
    | d :: r => parseAEvs n k r (acc.push (.CD x (← parseFloatBits? d)))
    | [] => none
  | "SC" :: cid :: r => do
    let (o, r) ← takeVec n r
    parseAEvs n k r (acc.push (.SC (← cid.toInt?) o))
  | "BC" :: cid :: r => do
    let c ← cid.toInt?
    parseAEvs n k r (acc.push (.BC c))
  | "OC" :: r => do
    let (x, r) ← takeVec n r
    match r with
    | cid :: r => parseAEvs n k r (acc.push (.OC x (← cid.toInt?)))
    | [] => none
  | _ => none

def tailA (s : ASt) : String := s!" left={s.evs.length} miss={b01 s.miss}"

def Via.name : Via → String
  | .psi => "psi" | .fallback => "fallback" | .garbage => "garbage"

def showGeo (r : AGeoOut ASt Vec) : String :=
  let body := match r.states with
    | none => "n=none"
    | some l => s!"n={l.length} " ++ joinSp (l.map showVec)
  s!"ok={b01 r.ok} exit={r.exit.name} " ++ body ++ tailA r.st

def tries : Nat := 50   -- ompl::magic::ATLAS_STATE_SPACE_SAMPLES

def stepA (st : StA) (ts : List String) : StA × String :=
  let A := arithF
  let Am := ambF st.base.lo st.base.hi
  let n := st.base.n
  let O := atlasOracle n st.AP.delta
  let r : Option String :=
    match ts with
    | "ageo" :: i :: rest => do
      let i ← parseBool? i
      let (a, rest) ← takeVec n rest
      let (b, rest) ← takeVec n rest
      let evs ← parseAEvs n st.k rest #[]
      pure (showGeo (atlasGeodesic A Am O st.AP fuel ⟨evs, false⟩ a b i))
    | "tgeo" :: i :: rest => do
      let i ← parseBool? i
      let (a, rest) ← takeVec n rest
      let (b, rest) ← takeVec n rest
      let evs ← parseAEvs n st.k rest #[]
      if st.tbFixed then pure (showGeo (tbGeodesic A Am O st.AP Float.isFinite fuel ⟨evs, false⟩ a b i))
      else pure (showGeo (tbGeodesicOld A Am O st.AP Float.isFinite fuel ⟨evs, false⟩ a b i))
    | "tinterp" :: rest => do
      let (a, rest) ← takeVec n rest
      let (b, rest) ← takeVec n rest
      match rest with
      | t :: rest => do
        let t ← parseFloatBits? t
        let evs ← parseAEvs n st.k rest #[]
        let geo : Geo ASt Vec := if st.tbFixed then tbGeo A Am O st.AP Float.isFinite fuel else tbGeoOld A Am O st.AP Float.isFinite fuel
        match tbInterpolateG A Am O geo ⟨evs, false⟩ a b t with
        | some (x, s) => pure ("r= " ++ showVec x ++ tailA s)
        | none => pure "r= none"
      | [] => none
    | "asu" :: rest => do
      let evs ← parseAEvs n st.k rest #[]
      match atlasSampleUniform Am O tries fuel ⟨evs, false⟩ (Array.replicate n 0.0) with
      | some r => pure (s!"s= {showVec r.state} via={Via.name r.via} psi={r.psiCalls}" ++ tailA r.st)
      | none => pure "s= none"
    | "asn" :: rest => do
      let (near, rest) ← takeVec n rest
      match rest with
      | d :: rest => do
        let d ← parseFloatBits? d
        let evs ← parseAEvs n st.k rest #[]
        match atlasSampleNear Am O tries fuel ⟨evs, false⟩ (Array.replicate n 0.0) near d with
        | some r => pure (s!"s= {showVec r.state} via={Via.name r.via} psi={r.psiCalls}" ++ tailA r.st)
        | none => pure "s= none"
      | [] => none
    | "gms" :: e :: rest => do
      -- ConstrainedSpaceInformation::getMotionStates (Projected / Atlas), geodesic = recorded
      let e ← parseBool? e
      let (a, rest) ← takeVec n rest
      let (b, rest) ← takeVec n rest
      match rest with
      | gret :: k :: rest => do
        let gret ← parseBool? gret
        let k ← k.toNat?
        let (g, rest) ← takeVecs n k rest
        if !rest.isEmpty then none
        let geo : Geo Unit Vec := fun _ _ _ _ => (gret, g, ())
        let r := getMotionStates geo () a b e
        pure (s!"n={r.1.length} " ++ joinSp (r.1.map showVec))
      | _ => none
    | "tgms" :: rest => do
      -- TangentBundleSpaceInformation::getMotionStates: the whole traversal and every projection are replayed
      let (a, rest) ← takeVec n rest
      let (b, rest) ← takeVec n rest
      let evs ← parseAEvs n st.k rest #[]
      let geo : Geo ASt Vec := tbGeo A Am O st.AP Float.isFinite fuel
      match tbGetMotionStates geo (tbProject O) ⟨evs, false⟩ a b with
      | some (l, s) => pure (s!"n={l.length} " ++ joinSp (l.map showVec) ++ tailA s)
      | none => pure "n=none"
    | "tsicm" :: hf :: rest => do
      -- TangentBundleSpaceInformation::checkMotion(s1, s2, lastValid): validator (geodesic recorded) + in-place projection
      let hf ← parseBool? hf
      let (a, rest) ← takeVec n rest
      let (b, rest) ← takeVec n rest
      match rest with
      | gret :: k :: rest => do
        let gret ← parseBool? gret
        let k ← k.toNat?
        let (g, rest) ← takeVecs n k rest
        let evs ← parseAEvs n st.k rest #[]
        let geo : Geo ASt Vec := fun s _ _ _ => (gret, g, s)
        let cm := checkMotion2 A Am O.isSat O.valid geo hf ⟨evs, false⟩ a b
        let cur : Option Vec := if hf then some (Array.replicate n 12345.678) else none
        match (if st.siFixed then tbSiCheckMotionFixed (tbProject O) A.zero cur a cm else tbSiCheckMotion (tbProject O) cur cm) with
        | some r => pure (s!"v={b01 r.verdict} first= {showOptVec r.first} second={showOptF r.second}" ++ tailA r.st)
        | none => pure "v=none"
      | _ => none
    | "vs" :: att :: rest => do
      -- ConstrainedValidStateSampler::sample / sampleNear: the draw is the state the next isValid call is asked about
      let att ← att.toNat?
      let evs ← parseAEvs n st.k rest #[]
      let draw : ASt → Vec × ASt := fun s =>
        match s.evs with
        | .V x _ :: _ => (x, s)
        | _ => (#[], { s with miss := true })
      let r := validSample draw O.valid O.isSat att ⟨evs, false⟩
      pure (s!"ret={b01 r.1} s= {showVec r.2.1} draws={r.2.2.1}" ++ tailA r.2.2.2)
    | _ => none
  let showH (h : Halfspace Float Vec) : String := showVec h.u ++ " " ++ floatBits h.usq ++ " " ++ floatBits h.rhs
  let chartOp : Option (StA × String) :=
    match ts with
    | ["nch", cid, radius] => do
      let cid ← cid.toNat?
      let radius ← parseFloatBits? radius
      pure ({ st with M := st.M.newChart cid radius }, "ok")
    | "gh" :: c1 :: c2 :: rest => do
      let c1 ← c1.toNat?
      let c2 ← c2.toNat?
      let (w12, rest) ← takeVec st.k rest
      let (w21, rest) ← takeVec st.k rest
      if !rest.isEmpty then none
      let M := st.M.generateHalfspace chartArithF vecOpsF c1 c2 w12 w21
      let n1 := ((M.chart? c1).map (·.polytope.length)).getD 0
      let n2 := ((M.chart? c2).map (·.polytope.length)).getD 0
      match M.hs[M.hs.size - 2]?, M.hs[M.hs.size - 1]? with
      | some h1, some h2 =>
        let cp := h1.compl == M.hs.size - 1 && h2.compl == M.hs.size - 2 && h1.owner == c1 && h2.owner == c2
        pure ({ st with M := M }, s!"cp={b01 cp} n1={n1} n2={n2} " ++ showH h1 ++ " " ++ showH h2)
      | _, _ => none
    | "ipk" :: cid :: rest => do
      let cid ← cid.toNat?
      let (u, rest) ← takeVec st.k rest
      if !rest.isEmpty then none
      match st.M.inPolytope chartArithF vecOpsF cid u with
      | some b => pure (st, s!"ret={b01 b}")
      | none => pure (st, "ret=none")
    | "bck" :: cid :: rest => do
      let cid ← cid.toNat?
      let (v, rest) ← takeVec st.k rest
      match rest with
      | nh :: rest => do
        let nh ← nh.toNat?
        let (vps, rest) ← takeVecs st.k nh rest
        if !rest.isEmpty then none
        let M := st.M.borderCheck chartArithF vecOpsF cid v vps
        let out := match M.polytope? cid with
          | some hs => joinSp (hs.map (fun h => match M.hs[h.compl]? with | some c => showH c | none => "none"))
          | none => "none"
        let changed := (List.range M.hs.size).filter (fun i =>
          match st.M.hs[i]?, M.hs[i]? with
          | some a, some b => a.usq.toBits != b.usq.toBits
          | _, _ => true)
        pure ({ st with M := M }, s!"x={changed.length} nh={((M.chart? cid).map (·.polytope.length)).getD 0} " ++ out)
      | [] => none
    | "own" :: rest => do
      -- AtlasStateSpace::owningChart: candidates in the library's nearestR order; far = distance(state, phi(psiInverse(state)))
      -- is recomputed here, the selection is the model's
      let (x, rest) ← takeVec n rest
      match rest with
      | eps :: nc :: rest => do
        let eps ← parseFloatBits? eps
        let nc ← nc.toNat?
        let rec go (k : Nat) (ts : List String) (acc : List (Nat × Bool × Float)) : Option (List (Nat × Bool × Float)) :=
          match k with
          | 0 => if ts.isEmpty then some acc.reverse else none
          | k + 1 =>
            match ts with
            | cid :: inP :: ts => do
              let cid ← cid.toNat?
              let inP ← parseBool? inP
              let (t, ts) ← takeVec n ts
              go k ts ((cid, inP, distF x t) :: acc)
            | _ => none
        let cands ← go nc rest []
        match owningChartSelect A eps cands with
        | some c => pure (st, s!"own={c}")
        | none => pure (st, "own=-1")
      | _ => none
    | ["gck", cached, force, own, fresh] => do
      let toOpt (t : String) : Option (Option Nat) := if t == "-1" then some none else t.toNat?.map some
      let cached ← toOpt cached
      let force ← parseBool? force
      let own ← toOpt own
      let fresh ← toOpt fresh
      let r := getChartSelect cached force own fresh
      let sh : Option Nat → String := fun o => match o with | some c => toString c | none => "-1"
      pure (st, s!"ret={sh r.1} created={b01 r.2} consulted={b01 (cached.isNone || force)}")
    | _ => none
  -- ConstrainedStateSpace::setDelta / setLambda mid-script: read at call time by every traversal that follows
  let setOp : Option (StA × String) :=
    match ts with
    | ["setdelta", d] => (parseFloatBits? d).map (fun d =>
        ({ st with base := { st.base with P := { st.base.P with delta := d } }, AP := { st.AP with delta := d } }, "ok"))
    | ["setlambda", l] => (parseFloatBits? l).map (fun l =>
        ({ st with base := { st.base with P := { st.base.P with lambda := l } }, AP := { st.AP with lambda := l } }, "ok"))
    | _ => none
  match setOp with
  | some r => r
  | none =>
  match chartOp with
  | some r => r
  | none =>
  match r with
  | some out => (st, out)
  | none =>
    match ts with
    | "nch" :: _ | "gh" :: _ | "ipk" :: _ | "bck" :: _ | "own" :: _ | "gck" :: _ => (st, "bad-op")
    | "ageo" :: _ | "tgeo" :: _ | "tinterp" :: _ | "asu" :: _ | "asn" :: _ => (st, "bad-op")
    | "gms" :: _ | "tgms" :: _ | "tsicm" :: _ | "vs" :: _ => (st, "bad-op")
    | _ =>
      let r := step st.base ts
      ({ st with base := r.1 }, r.2)

end OmplModel.Driver.ConstrainedDrv
