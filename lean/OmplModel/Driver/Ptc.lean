import OmplModel.Model.Ptc
import OmplModel.Driver.Common
/-!
Line-protocol driver for the termination-condition model (`ptc clock=<fake|real>`).

`clock=fake`: the harness interposes `clock_gettime(CLOCK_REALTIME)` for its own process, so
`time::now()` inside libompl reads the script's clock (`clock <ns>` ops): timed conditions are then
compared exactly.  `clock=real`: the real clock; the driver's clock advances by the `wait` ops only
and every result that depends on timing closer than the margin (0.5 s) is printed as `r=?`.

Results that depend on *when* a poller thread ran are also `r=?` until a `wait` of at least
`period + margin` has passed since the last operation that could change what the poller computes.
-/
namespace OmplModel.Driver.PtcDrv
open OmplModel.Ptc OmplModel.Driver

def marginNs : Int := 500000000

/-- absolute value (ns) of the script clock's origin in the harness (`FAKE_BASE`) -/
def fakeBase : Int := 1000000000000000

structure DSt where
  fake : Bool
  swapNeg : Bool := false           -- header `neg=1`: the tree under test has the F481 repair (thresholds swapped for a negative average)
  sat : Bool := true                -- header `sat=0`: the tree under test lacks the F195 repair (f29ac4e4e): wrapping arithmetic
  env : Env := { pred := fun _ _ => false, clock := fun _ => 0 }
  w : World Float := {}
  names : List (String × Cond) := []
  itcs : List (String × Itc) := []
  nextImpl : Nat := 0
  leafIds : List Nat := []          -- scripted predicates seen so far (ascending)
  async : List Nat := []            -- predicates read by a poller thread: counts not reported
  periods : List (Nat × Int) := []  -- impl ↦ poll period in ns (polled impls only)
  periodF : List (Nat × Float) := [] -- impl ↦ the period handed to the two-argument constructor (else -1)
  clk : Int := 0                    -- current clock (ns since the start of the script)
  waited : Int := 0                 -- total of the `wait` ops (ns)
  dirty : Int := 0                  -- `waited` at the last op that may change a poller's result
  synced : Bool := false            -- a `sync` handshake has happened since the last such op
  flags : List (Nat × Bool) := []   -- predicates whose current script is a bare flag (empty queue) ↦ value
  polledLeaves : List Nat := []     -- predicates some periodic condition has been built on so far
  gates : List (Nat × Option Nat) := []  -- armed gate per predicate: `some k` = the poller's k-th call (the poller
                                    -- is created after the gate was armed), `none` = a later call of a running poller
  held : List (Nat × Option Nat) := []   -- predicates whose poller is inside the gated call (after `await`)
  inflight : List (Nat × Option Nat) := [] -- … and got `terminate()` while it was there

def init (ts : List String) : Option DSt :=
  match ts with
  | "ptc" :: clk :: opts =>
    let fake? := if clk == "clock=fake" then some true else if clk == "clock=real" then some false else none
    match fake? with
    | none => none
    | some fake =>
      if opts.all (fun o => o == "sat=0" || o == "sat=1" || o == "neg=0" || o == "neg=1") then
        some { fake := fake, sat := !opts.contains "sat=0", swapNeg := opts.contains "neg=1" }
      else none
  | _ => none

def lookup {β} (xs : List (String × β)) (n : String) : Option β :=
  (xs.find? (fun p => p.1 == n)).map (·.2)

def insertSorted (x : Nat) : List Nat → List Nat
  | [] => [x]
  | y :: ys => if x < y then x :: y :: ys else if x = y then y :: ys else y :: insertSorted x ys

def parseBit? (s : String) : Option Bool :=
  if s == "0" then some false else if s == "1" then some true else none

def setClock (d : DSt) (t : Int) : DSt :=
  let r0 := d.w.st.reads
  let old := d.env.clock
  { d with clk := t, env := { d.env with clock := fun r => if r ≥ r0 then t else old r } }

def periodOf (d : DSt) (i : Nat) : Int :=
  match d.periods.find? (fun p => p.1 == i) with
  | some p => p.2
  | none => 0

/-- does the printed result depend on scheduling closer than the margin? -/
def unc (d : DSt) : Cond → Bool
  | .leaf i p k =>
    if d.w.st.term i then false
    else
      let per := if p then periodOf d i else 0
      let stale := p && !d.synced && decide (d.waited - d.dirty < per + marginNs)
      let tl := match k with
        | .timed e => !d.fake && decide (e - marginNs ≤ d.clk) && decide (d.clk ≤ e + marginNs + per)
        | .iter _ => p          -- how often the poller has called the counter is the scheduler's business
        | _ => false
      stale || tl
  | .or i a b => if d.w.st.term i then false else unc d a || unc d b
  | .and i a b => if d.w.st.term i then false else unc d a || unc d b

def invString (d : DSt) (before after : Nat → Nat) : String :=
  let parts := d.leafIds.filterMap (fun id =>
    if d.async.contains id then none
    else if after id > before id then some s!"{id}:{after id - before id}" else none)
  if parts.isEmpty then "-" else ",".intercalate parts

def touch (d : DSt) : DSt := { d with dirty := d.waited, synced := false }

/-- the trees of all live names, one per polled impl, not yet terminated -/
def livePolled (d : DSt) : List Cond :=
  let rec collect : Cond → List Cond
    | .leaf i p k => if p then [.leaf i p k] else []
    | .or _ a b => collect a ++ collect b
    | .and _ a b => collect a ++ collect b
  let all := d.names.flatMap (fun p => collect p.2)
  all.foldl (fun acc c => if acc.any (fun c' => c'.impl == c.impl) then acc else acc ++ [c]) []

def pollAll (d : DSt) : DSt :=
  (livePolled d).foldl (fun d c => { d with w := { d.w with st := poll d.env c d.w.st } }) d

inductive LeafSpec where
  | pred (id : Nat) | always | never | exact | itc (obj : String) | timed (dur : Float)
  | timedNs (ns : Int)     -- the time::duration overload

inductive DefSpec where
  | leaf (period : Option Float) (l : LeafSpec)
  | or (a b : String)
  | and (a b : String)
  | costconv (window : Nat) (eps : Float)

def parseLeaf : List String → Option LeafSpec
  | ["pred", id] => (parseNat? id).map .pred
  | ["always"] => some .always
  | ["never"] => some .never
  | ["exact"] => some .exact
  | ["itc", obj] => some (.itc obj)
  | ["timed", bits] => (parseFloatBits? bits).map .timed
  | _ => none

def int64? (s : String) : Option Int :=
  match parseInt? s with
  | some n => if -9223372036854775808 ≤ n ∧ n ≤ 9223372036854775807 then some n else none
  | none => none

def parseDef : List String → Option DefSpec
  | ["or", a, b] => some (.or a b)
  | ["and", a, b] => some (.and a b)
  | "poll" :: bits :: fn => do
    let p ← parseFloatBits? bits
    let l ← parseLeaf fn
    pure (.leaf (some p) l)
  | ["timedp", dbits, ibits] => do
    let dur ← parseFloatBits? dbits
    let itv ← parseFloatBits? ibits
    pure (.leaf (some (timedInterval dur itv)) (.timed dur))
  | ["timedd", ns] => (int64? ns).map (fun n => .leaf none (.timedNs n))
  | ["costconv", win, ebits] => do
    let w ← parseNat? win
    let e ← parseFloatBits? ebits
    pure (.costconv w e)
  | fn => (parseLeaf fn).map (.leaf none)

/-- builds a leaf condition; `none` = an operand does not exist -/
def mkLeaf (d : DSt) (period : Option Float) (l : LeafSpec) : Option (Cond × DSt) :=
  let polled := match period with
    | some p => decide (0.0 < p)
    | none => false
  let i := d.nextImpl
  let d1 : DSt := { d with nextImpl := i + 1,
                           periodF := match period with
                             | some p => (i, p) :: d.periodF
                             | none => d.periodF,
                           periods := if polled then (i, ((period.getD 0.0) * 1000000000.0).toInt64.toInt) :: d.periods
                                      else d.periods }
  match l with
  | .pred id =>
    some (.leaf i polled (.pred id),
      { d1 with leafIds := insertSorted id d1.leafIds,
                async := if polled && !d1.async.contains id then id :: d1.async else d1.async,
                polledLeaves := if polled && !d1.polledLeaves.contains id then id :: d1.polledLeaves else d1.polledLeaves })
  | .always => some (.leaf i polled .always, d1)
  | .never => some (.leaf i polled .never, d1)
  | .exact => some (.leaf i polled .exact, d1)
  | .itc obj =>
    match lookup d.itcs obj with
    | some o =>
      let r := o.cast i polled d1.w.st
      some (r.1, { d1 with w := { d1.w with st := r.2 } })
    | none => none
  | .timed dur =>
    let r := if d.sat then mkTimedCoded d1.env fakeBase i polled (secondsToNsSat dur) d1.w.st
      else mkTimedOld d1.env fakeBase i polled (secondsToNs dur) d1.w.st
    some (r.1, { d1 with w := { d1.w with st := r.2 } })
  | .timedNs ns =>
    let r := if d.sat then mkTimedCoded d1.env fakeBase i polled ns d1.w.st
      else mkTimedOld d1.env fakeBase i polled ns d1.w.st
    some (r.1, { d1 with w := { d1.w with st := r.2 } })

def applyDef (d : DSt) : DefSpec → Option (Cond × DSt)
  | .or a b =>
    match lookup d.names a, lookup d.names b with
    | some ca, some cb => some (.or d.nextImpl ca cb, { d with nextImpl := d.nextImpl + 1 })
    | _, _ => none
  | .and a b =>
    match lookup d.names a, lookup d.names b with
    | some ca, some cb => some (.and d.nextImpl ca cb, { d with nextImpl := d.nextImpl + 1 })
    | _, _ => none
  | .leaf period l => mkLeaf d period l
  | .costconv win eps =>
    let r := newCostConv d.nextImpl win eps d.w
    some (r.1, { d with nextImpl := d.nextImpl + 1, w := r.2 })

def b01 (b : Bool) : String := if b then "1" else "0"

/-- the periodic condition built on scripted predicate `id` (generator contract: at most one per predicate in
scripts that ask for `naps`), with the period its impl was handed -/
def pollerOn (d : DSt) (id : Nat) : Option Float :=
  let rec find : Cond → Option Nat
    | .leaf i p k => if p && k == .pred id then some i else none
    | .or _ a b => (find a).orElse (fun _ => find b)
    | .and _ a b => (find a).orElse (fun _ => find b)
  match d.names.findSome? (fun p => find p.2) with
  | some i => (d.periodF.find? (fun q => q.1 == i)).map (·.2)
  | none => none

/-- `n=… ns=…` of the `naps` / `napsexit` answers: the step machine of the poller loop (`TState`) runs alone up
to the gated call (`exit = false`: the sleeps between the previous call and this one), then - `exit = true` -
sees `terminate()` while inside that call and runs until it has left its loop (the sleeps after the call).
Beyond 10^6 sleeps per round the machine is not run step by step; `poller_sleeps_count_times_between_calls`
is used as the closed form. -/
def napAnswer (period : Float) (k : Option Nat) (exit : Bool) : String :=
  let plan := napPlan period
  let nap := plan.nap.toNat
  let coded := if (milli : Float) < period then secondsToNs (period / Nat.toFloat plan.count) else secondsToNs period
  let kk := k.getD 2
  let n :=
    if plan.count > 1000000 then
      (if exit then 0 else if kk ≤ 1 then 0 else (if 0 < nap then plan.count else 0))
    else
      let s0 := TState.untilCall plan.count nap (fun _ => false) kk ((2 * plan.count + 8) * kk + 8) {}
      if exit then
        (TState.untilDone plan.count nap (fun _ => false) (2 * plan.count + 8)
          (s0.step plan.count nap (fun _ => false) .terminate)).naps
      else s0.lastGap
  let ns := if coded != plan.nap then "split" else if n = 0 then "-" else toString plan.nap
  s!"n={n} ns={ns}"

def step (d : DSt) (ts : List String) : DSt × String :=
  match ts with
  | "script" :: id :: tail :: vals =>
    match parseNat? id, parseBit? tail, vals.mapM parseBit? with
    | some id, some tail, some vals =>
      let base := d.w.st.calls id
      let old := d.env.pred
      let arr := vals.toArray
      let pred := fun id' k =>
        if id' = id ∧ k ≥ base then (arr[k - base]?).getD tail else old id' k
      let fl := (d.flags.filter (fun p => p.1 != id)) ++ (if vals.isEmpty then [(id, tail)] else [])
      (touch { d with env := { d.env with pred := pred }, leafIds := insertSorted id d.leafIds, flags := fl }, "ok")
    | _, _, _ => (d, "bad-op")
  | "def" :: name :: rest =>
    match parseDef rest with
    | none => (d, "bad-op")
    | some spec =>
      if (lookup d.names name).isSome then (d, "dup")
      else match applyDef d spec with
        | none => (d, "unknown")
        | some (c, d') => (touch { d' with names := d'.names ++ [(name, c)] }, "ok")
  | ["copy", a, b] =>
    if (lookup d.names b).isSome then (d, "dup")
    else match lookup d.names a with
      | some c => (touch { d with names := d.names ++ [(b, c)] }, "ok")
      | none => (d, "unknown")
  | ["drop", a] =>
    if (lookup d.names a).isSome then
      (touch { d with names := d.names.filter (fun p => p.1 != a) }, "ok")
    else (d, "unknown")
  | [op, a] =>
    if op == "ev" || op == "evb" || op == "eve" then
      match lookup d.names a with
      | some c =>
        let u := unc d c
        let r := eval d.env c d.w.st
        let inv := invString d d.w.st.calls r.2.calls
        ({ d with w := { d.w with st := r.2 } }, s!"r={if u then "?" else b01 r.1} inv={inv}")
      | none => (d, "unknown")
    else if op == "term" then
      match lookup d.names a with
      | some c =>
        let hit := match c with
          | .leaf _ true (.pred id) => d.held.filter (fun p => p.1 == id)
          | _ => []
        (touch { d with w := { d.w with st := terminate c d.w.st }, inflight := hit ++ d.inflight }, "ok")
      | none => (d, "unknown")
    else if op == "itcev" then
      match lookup d.itcs a with
      | some o =>
        let r := o.eval d.env.ctrMod
        (touch { d with itcs := d.itcs.map (fun p => if p.1 == a then (a, r.2) else p) },
          s!"r={b01 r.1} tc={r.2.called}")
      | none => (d, "unknown")
    else if op == "itcreset" then
      match lookup d.itcs a with
      | some o => (touch { d with itcs := d.itcs.map (fun p => if p.1 == a then (a, o.reset) else p) }, "ok")
      | none => (d, "unknown")
    else if op == "clock" then
      match parseInt? a with
      | some t => if d.fake then (touch (setClock d t), "ok") else (d, "bad-op")
      | none => (d, "bad-op")
    else if op == "wait" then
      match parseNat? a with
      | some ms =>
        let ns : Int := (ms : Int) * 1000000
        let d1 := { d with waited := d.waited + ns }
        let d2 := if d.fake then d1 else setClock d1 (d1.clk + ns)
        (pollAll d2, "ok")
      | none => (d, "bad-op")
    else if op == "period" then
      match lookup d.names a with
      | some c =>
        let p := match d.periodF.find? (fun q => q.1 == c.impl) with
          | some q => q.2
          | none => -1.0
        (d, s!"period={floatBits p}")
      | none => (d, "unknown")
    else if op == "await" || op == "release" then
      -- handshake with a poller thread blocked inside a gated predicate invocation (harness side);
      -- the model's answer after `term` does not depend on where the poller is
      -- (`polled_terminate_sticky_all_interleavings`)
      match parseNat? a with
      | some id =>
        if op == "await" then
          let g := d.gates.filter (fun p => p.1 == id)
          (touch { d with held := g ++ d.held.filter (fun p => p.1 != id) }, "ok")
        else
          (touch { d with held := d.held.filter (fun p => p.1 != id), gates := d.gates.filter (fun p => p.1 != id) }, "ok")
      | none => (d, "bad-op")
    else if op == "fastnap" then
      -- harness side only: the interposed `nanosleep` of poller threads returns at once
      if a == "0" || a == "1" then (d, "ok") else (d, "bad-op")
    else if op == "naps" || op == "napsexit" then
      match parseNat? a with
      | some id =>
        let src := if op == "naps" then d.held else d.inflight
        match src.find? (fun p => p.1 == id), pollerOn d id with
        | some h, some per => (d, napAnswer per h.2 (op == "napsexit"))
        | _, _ => (d, "n=? ns=?")
      | none => (d, "bad-op")
    else if op == "cost" then
      match parseFloatBits? a with
      | some c =>
        if d.w.cb.isSome then (touch { d with w := reportCostWith d.swapNeg d.w c }, "ok") else (d, "none")
      | none => (d, "bad-op")
    else if op == "solve" then
      match parseFloatBits? a with
      | some t =>
        match solveDouble t with
        | .direct dur =>
          let dn := if d.sat then secondsToNsSat dur else secondsToNs dur
          let u := !d.fake && decide (-marginNs ≤ dn) && decide (dn ≤ marginNs)
          (d, s!"polled=0 period={floatBits (-1.0)} v={if u then "?" else b01 (decide (d.clk > (if d.sat then endPointSat fakeBase d.clk dn else endPointOld fakeBase d.clk dn)))}")
        | .polled dur itv =>
          let p := timedInterval dur itv
          (d, s!"polled={b01 (decide (0.0 < p))} period={floatBits p} v=0")
      | none => (d, "bad-op")
    else (d, "bad-op")
  | ["itc", obj, n] =>
    match parseNat? n with
    | some n =>
      if n < uintMod then
        if (lookup d.itcs obj).isSome then (d, "dup")
        else (touch { d with itcs := d.itcs ++ [(obj, { max := n })] }, "ok")
      else (d, "bad-op")
    | none => (d, "bad-op")
  | ["itcset", obj, c] =>
    match parseNat? c with
    | some c =>
      if c < counterMod then
        match lookup d.itcs obj with
        | some o => (touch { d with itcs := d.itcs.map (fun p => if p.1 == obj then (obj, { o with called := c }) else p) }, "ok")
        | none => (d, "unknown")
      else (d, "bad-op")
    | none => (d, "bad-op")
  | ["itcspin", obj, k] =>
    match parseNat? k with
    | some k =>
      match lookup d.itcs obj with
      | some o =>
        let o' := o.spin d.env.ctrMod k
        (touch { d with itcs := d.itcs.map (fun p => if p.1 == obj then (obj, o') else p) }, s!"ok tc={o'.called}")
      | none => (d, "unknown")
    | none => (d, "bad-op")
  | ["soln", approx, diff] =>
    match parseBit? approx, parseFloatBits? diff with
    | some a, some _ =>
      let st := addSoln a d.w.st
      (touch { d with w := { d.w with st := st } }, s!"exact={b01 (hasExact st.solns)}")
    | _, _ => (d, "bad-op")
  | ["gate", id, k, v] =>
    match parseNat? id, parseNat? k, parseBit? v with
    | some id, some k, some _ =>
      if 1 ≤ k ∧ k ≤ 1000000 then
        let g : Nat × Option Nat := (id, if d.polledLeaves.contains id then none else some k)
        (touch { d with gates := g :: d.gates.filter (fun p => p.1 != id),
                        inflight := d.inflight.filter (fun p => p.1 != id) }, "ok")
      else (d, "bad-op")
    | _, _, _ => (d, "bad-op")
  | ["settle"] => (touch d, "ok")
  | ["sync"] =>
    -- handshake: the (single) clock-reading poller has polled and stored since the last change
    if d.fake then ({ pollAll d with synced := true }, "ok") else (d, "bad-op")
  | ["solvefn", id, bits] =>
    -- Planner::solve(fn, checkInterval) = solve(PlannerTerminationCondition(fn, checkInterval)); the probe
    -- planner evaluates what it is handed three times
    match parseNat? id, parseFloatBits? bits with
    | some id, some itv =>
      let i := d.nextImpl
      let d0 := { d with nextImpl := i + 1, leafIds := insertSorted id d.leafIds }
      if 0.0 < itv then
        let v := match d0.flags.find? (fun p => p.1 == id) with
          | some p => let c := b01 p.2; c ++ c ++ c
          | none => "?"
        (touch { d0 with async := if d0.async.contains id then d0.async else id :: d0.async },
          s!"polled=1 period={floatBits itv} vals={v} inv=-")
      else
        let c : Cond := .leaf i false (.pred id)
        let r1 := eval d0.env c d0.w.st
        let r2 := eval d0.env c r1.2
        let r3 := eval d0.env c r2.2
        (touch { d0 with w := { d0.w with st := r3.2 } },
          s!"polled=0 period={floatBits itv} vals={b01 r1.1}{b01 r2.1}{b01 r3.1} inv={id}:3")
    | _, _ => (d, "bad-op")
  | ["cbclear"] =>
    -- pdef->setIntermediateSolutionCallback({}): the condition stays alive, nothing feeds it any more
    (touch { d with w := { d.w with cb := none } }, "ok")
  | ["solnclear"] =>
    let st := clearSolns d.w.st
    (touch { d with w := { d.w with st := st } }, s!"exact={b01 (hasExact st.solns)}")
  | _ => (d, "bad-op")

end OmplModel.Driver.PtcDrv
