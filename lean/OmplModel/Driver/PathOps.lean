import OmplModel.Model.PathOps
import OmplModel.Model.PathOpsRepair
import OmplModel.Model.PathOpsWhole
import OmplModel.Model.PathOpsGeom
import OmplModel.Model.PathOpsShortcutObj
import OmplModel.Model.SpaceDist
import OmplModel.Model.SpaceInterp
import OmplModel.Driver.SpaceIO
import Std.Data.HashMap
/-!
Line-protocol driver of the C17 path post-processing model (header `pathops`).

  env <space> boxes … res <f>        -> ok w=<leaf count>       (only the space is used by the model)
  path <n> <state>*n                 -> ok
  collapse <ms> <me> cm <m> (<a> <b> <ans>)*m
  ropeo <obj> <delta> <eqTol> cm …   -> as rope, the simplifier's objective = <obj> (len / work / lin / wreg / toll / step / checker)
  rope <delta> <eqTol> cm …          -> r <ret> out … oob <0/1> fo <0/1> (tree) | old <code before fix F9> | chord <code before fix F173: end-point pricing>
  subdivide | interpn <count>
  interp vsc <k> <n>*k
  reduce <ms> <me> <rangeRatio> <k> <raw>*k cm …
  goals <m> <state>*m                -> ok
  pg reverse | prepend <s> | append <s> | keepafter <s> | keepbefore <s> | closest <s>   -> pg <ret> out …   (PathGeometric, lock-step)
  bsplines <maxSteps> <minChange> iv <m> (<state> <0/1>)*m cm …      (smoothBSpline; iv = the routine's own isValid calls)
  bgoal <obj> <attempts> <rangeRatio> <snap> <k> <u>*k cm …          (findBetterGoal, scripted draws, goals cycle)
  perturbs <obj> <step> <ms> <me> <snap> <kh> <h>*kh <ks> <state>*ks cm …   (perturbPath, scripted draws + scripted sampler)
  repair <attempts> <k> <sample>*k iv <m> (<state> <0/1>)*m cm …   -> r <2*originalValid + result> out …
  pshorto <obj> <ms> <me> <rangeRatio> <snap> <k> <u>*k cm …   -> <result (tree)> | dbl <alongPath started at posTemp = pos0: double-counted segment>
                                         (partialShortcutPath under an objective: Model/PathOpsShortcutObj.lean)
  pshort <ms> <me> <rangeRatio> <snap> <k> <u>*k cm …   -> <result (tree: checkMotion in path order, fix F170)> | old <code before fix F55> | sampling <code before fix F170>
answers `r <ret> out <k> <state>*k` (`r -1` for the void routines), `idx-error` if the model's checked
indexing fails.  `cm` is the checkMotion transcript recorded by the harness on the real code: the
model's `checkMotion` oracle is that table keyed by the pair of states (bit patterns); a pair that
is not in the table answers false (the output then differs from the real one wherever it matters).
Distances and interpolation are computed by the shared space models (Model/SpaceDist, SpaceInterp).
-/
namespace OmplModel.Driver.PathOpsDrv
open OmplModel OmplModel.Driver OmplModel.PathOps

structure DSt where
  sp : Option (Space Float) := none
  path : List (St Float) := []
  goals : List (St Float) := []

def init (ts : List String) : Option DSt :=
  match ts with
  | ["pathops"] => some {}
  | _ => none

def key (s : St Float) : String := joinSp (showState s)

abbrev CmTab := Std.HashMap String Bool

/-- parse `n` states -/
def pStates (sp : Space Float) : Nat → P (List (St Float))
  | 0, r => some ([], r)
  | n + 1, r => do
    let (s, r) ← pState sp r
    let (ss, r) ← pStates sp n r
    pure (s :: ss, r)

def pCm (sp : Space Float) : Nat → CmTab → P CmTab
  | 0, tab, r => some (tab, r)
  | n + 1, tab, r => do
    let (a, r) ← pState sp r
    let (b, r) ← pState sp r
    match r with
    | "0" :: r => pCm sp n (tab.insert (key a ++ "|" ++ key b) false) r
    | "1" :: r => pCm sp n (tab.insert (key a ++ "|" ++ key b) true) r
    | _ => none

/-- `m` entries `<state> <0/1>` (isValid answers), nothing may follow -/
def pCm1 (sp : Space Float) : Nat → CmTab → List String → Option CmTab
  | 0, tab, r => if r.isEmpty then some tab else none
  | n + 1, tab, r => do
    let (a, r) ← pState sp r
    match r with
    | "0" :: r => pCm1 sp n (tab.insert (key a) false) r
    | "1" :: r => pCm1 sp n (tab.insert (key a) true) r
    | _ => none

/-- split the token list at the first occurrence of `w` -/
def splitAt (w : String) (ts : List String) : List String × Option (List String) :=
  match ts.span (· ≠ w) with
  | (a, _ :: b) => (a, some b)
  | (a, []) => (a, none)

def pCmSection (sp : Space Float) (ts : Option (List String)) : Option CmTab :=
  match ts with
  | none => some {}
  | some (m :: rest) => do
    let m ← parseNat? m
    let (tab, r) ← pCm sp m {} rest
    if r.isEmpty then pure tab else none
  | some [] => none

def showPath (ps : List (St Float)) : String :=
  joinSp (("out" :: toString ps.length :: []) ++ (ps.map showState).flatten)

/-- `(int)x` for a double on x86-64 (`cvttsd2si`: NaN and out-of-range give INT_MIN) -/
def cvtInt (x : Float) : Int :=
  if x.isNaN || x >= 2147483648.0 || x <= -2147483649.0 then -2147483648
  else if x < 0.0 then -((-x).floor.toUInt64.toNat : Int) else (x.floor.toUInt64.toNat : Int)

def dist (sp : Space Float) (a b : St Float) : Float := SpaceDist.dist sp a b
def interp (sp : Space Float) (a b : St Float) (t : Float) : St Float := SpaceInterp.interpolate sp a b t

/-- `PathGeometric::length()` -/
def pathLength (sp : Space Float) : Float → List (St Float) → Float
  | acc, a :: b :: r => pathLength sp (acc + dist sp a b) (b :: r)
  | acc, _ => acc

structure PSt where
  id : Nat
  st : St Float
instance : BEq PSt := ⟨fun a b => a.id == b.id⟩

def retStr (b : Bool) : String := if b then "1" else "0"

/-- the double operations of the whole-routine models at `Float` -/
def fops : NumOps Float :=
  { add := fun a b => a + b, sub := fun a b => a - b, mul := fun a b => a * b, div := fun a b => a / b,
    lt := fun a b => a < b, le := fun a b => a <= b, zero := 0.0, two := 2.0, negOne := -1.0,
    eps := Float.ofBits 0x3CB0000000000000 }

/-- the first two reals of a state (the harness's cost fields read `copyToReals`) -/
def xy : St Float → Float × Float
  | .rv (x :: y :: _) => (x, y)
  | .rv [x] => (x, 0.0)
  | .ccons (.rv (x :: y :: _)) _ => (x, y)
  | _ => (0.0, 0.0)

/-- harness objectives: `len` (path length) and the `StateCostIntegralObjective` fields `toll`, `step`, `checker`
(end-point trapezoid rule, no motion-cost interpolation) -/
def objOf (sp : Space Float) (name : String) : Option (Obj (St Float) Float) :=
  let mk (sc : St Float → Float) : Obj (St Float) Float :=
    { identity := 0.0, combine := fun a b => a + b, better := fun a b => a < b,
      motion := fun a b => 0.5 * dist sp a b * (sc a + sc b) }
  match name with
  | "len" => some { identity := 0.0, combine := fun a b => a + b, better := fun a b => a < b, motion := dist sp }
  | "toll" => some (mk fun s => let (x, y) := xy s
      1.0 + (if x > 3.0 && x < 4.5 then 24.0 else 0.0) + (if y > 6.0 && y < 7.0 then 11.0 else 0.0))
  | "step" => some (mk fun s => if (xy s).1 < 5.0 then 1.0 else 12.0)
  | "checker" => some (mk fun s => let (x, y) := xy s
      if x.isNaN || y.isNaN || x.abs > 1e9 || y.abs > 1e9 then 1.0
      else if (x.floor.toInt64.toInt + y.floor.toInt64.toInt) % 2 != 0 then 9.0 else 1.0)
  | "work" =>
    -- MechanicalWork over the height field h = y, path-length weight 0.05: std::max(h(b) - h(a), 0.0) + 0.05 * distance
    let workMotion (a b : St Float) : Float :=
      let d := (xy b).2 - (xy a).2
      (if d < 0.0 then 0.0 else d) + 0.05 * dist sp a b
    some { identity := 0.0, combine := fun a b => a + b, better := fun a b => a < b, motion := workMotion }
  | _ => none

/-- `ropeShortcutPath` under the objective whose motion cost is `motion` (additive combine, `<`): the tree (fix F173: the chord is priced
by the pieces it is densified into), then the code before fix F9 (stale index, end-point pricing), then the code before fix F173 -/
def ropeLine (sp : Space Float) (cmq : St Float → St Float → Bool) (motion : St Float → St Float → Float)
    (delta tol : Float) (path : List (St Float)) : String :=
  let E : RopeEnv (St Float) Float := {
    cm := cmq
    nInter := fun a b => let d := dist sp a b; if d > delta then (d / delta).floor.toUInt64.toNat else 0
    interpK := fun a b n k => interp sp a b ((1.0 / (n + 1).toFloat) * (k + 1).toFloat)
    identity := 0.0
    combine := fun x y => x + y
    motion := motion
    subtract := fun x y => x - y
    better := fun x y => x < y
    eqCost := tol * delta }
  let fuel := 100000
  let Efix : RopeEnv (St Float) Float := { E with
    chord := fun a b =>
      let n := E.nInter a b
      if n = 0 then E.motion a b
      else ((a :: (inters E a b n ++ [b])).zip ((inters E a b n ++ [b]))).foldl (fun acc p => acc + E.motion p.1 p.2) 0.0 }
  let showE (Ex : RopeEnv (St Float) Float) (fixed : Bool) : String :=
    match ropeShortcutPathG Ex fixed fuel path with
    | some (out, r, oob, fo) =>
      "r " ++ retStr r ++ " " ++ showPath out ++ " oob " ++ retStr oob ++ " fo " ++ retStr fo
    | none => "idx-error"
  showE Efix true ++ " | old " ++ showE E false ++ " | chord " ++ showE E true

/-- harness `wregFraction`: the fraction of the motion whose (x, y) lies in the box [3.5, 6.5]^2 (Liang-Barsky, same operations in
the same order as the C++) -/
def wregFraction (ax ay bx byy : Float) : Float :=
  let clip (a d : Float) (t : Float × Float) : Option (Float × Float) :=
    if d == 0.0 then (if a < 3.5 || a > 6.5 then none else some t)
    else
      let u0 := (3.5 - a) / d
      let u1 := (6.5 - a) / d
      let (u0, u1) := if u0 > u1 then (u1, u0) else (u0, u1)
      let t0 := if u0 > t.1 then u0 else t.1
      let t1 := if u1 < t.2 then u1 else t.2
      if t0 > t1 then none else some (t0, t1)
  match clip ax (bx - ax) (0.0, 1.0) with
  | none => 0.0
  | some t =>
    match clip ay (byy - ay) t with
    | none => 0.0
    | some (t0, t1) => t1 - t0

/-- the EXACTLY ADDITIVE harness objectives: `lin` (StateCostIntegral over c = 0.25 + x, end-point trapezoid) and `wreg`
(distance * (1 + 4 * fraction inside the region)) -/
def objOf2 (sp : Space Float) (name : String) : Option (Obj (St Float) Float) :=
  match name with
  | "lin" => some { identity := 0.0, combine := fun a b => a + b, better := fun a b => a < b,
                    motion := fun a b => 0.5 * dist sp a b * ((0.25 + (xy a).1) + (0.25 + (xy b).1)) }
  | "wreg" => some { identity := 0.0, combine := fun a b => a + b, better := fun a b => a < b,
                     motion := fun a b =>
                       let (ax, ay) := xy a
                       let (bx, byy) := xy b
                       dist sp a b * (1.0 + 4.0 * wregFraction ax ay bx byy) }
  | _ => objOf sp name

def step (st : DSt) (ts : List String) : DSt × String :=
  match ts with
  | "env" :: rest =>
    match pSpace rest with
    | some (sp, "boxes" :: _) =>
      -- leaf count of a state: parse is not needed, count via a default state is not available; echo like the harness
      ({ st with sp := some sp, path := [] }, "ok")
    | _ => (st, "bad-op")
  | op :: rest =>
    match st.sp with
    | none => (st, "bad-op")
    | some sp =>
      let (args, cmToks) := splitAt "cm" rest
      match pCmSection sp cmToks with
      | none => (st, "bad-op")
      | some tab =>
        let cmq (a b : St Float) : Bool := (tab.get? (key a ++ "|" ++ key b)).getD false
        let frac (a b : St Float) (j count : Nat) : St Float := interp sp a b (j.toFloat / count.toFloat)
        match op, args with
        | "path", n :: r =>
          match (do let n ← parseNat? n; pStates sp n r) with
          | some (ps, []) => ({ st with path := ps }, "ok")
          | _ => (st, "bad-op")
        | "collapse", [ms, me] =>
          match parseNat? ms, parseNat? me with
          | some ms, some me =>
            let ids : List PSt := (st.path.zip (List.range st.path.length)).map fun (s, i) => ⟨i, s⟩
            match collapseCloseVertices (fun a b => cmq a.st b.st) (fun a b => dist sp a.st b.st)
                (fun (x y : Float) => x < y) (1.0 / 0.0) ms me ids with
            | some (out, r) => (st, "r " ++ retStr r ++ " " ++ showPath (out.map (·.st)))
            | none => (st, "idx-error")
          | _, _ => (st, "bad-op")
        | "rope", [delta, tol] =>
          match parseFloatBits? delta, parseFloatBits? tol with
          | some delta, some tol => (st, ropeLine sp cmq (dist sp) delta tol st.path)
          | _, _ => (st, "bad-op")
        | "ropeo", [obj, delta, tol] =>
          match objOf2 sp obj, parseFloatBits? delta, parseFloatBits? tol with
          | some O, some delta, some tol => (st, ropeLine sp cmq O.motion delta tol st.path)
          | _, _, _ => (st, "bad-op")
        | "subdivide", [] =>
          (st, "r -1 " ++ showPath (subdivide (fun a b => interp sp a b 0.5) st.path))
        | "interp", "vsc" :: k :: ns =>
          match parseNat? k, parseNats? ns with
          | some k, some ns =>
            if k ≠ ns.length ∨ k ≠ st.path.length - 1 then (st, "bad-op") else
            let tab : Std.HashMap String Nat :=
              ((adj st.path).zip ns).foldl (fun t (p, n) => t.insert (key p.1 ++ "|" ++ key p.2) n) {}
            let vsc (a b : St Float) : Nat := (tab.get? (key a ++ "|" ++ key b)).getD 0
            (st, "r -1 " ++ showPath (interpolateAll vsc frac st.path))
          | _, _ => (st, "bad-op")
        | "interpn", [n] =>
          match parseNat? n with
          | some n =>
            let approx (count : Int) (seg rem : Float) : Int :=
              cvtInt (Float.floor (0.5 + (Float.ofInt count) * seg / rem))
            (st, "r -1 " ++ showPath (interpolateCount (dist sp) (fun x y => x - y) approx frac
              (pathLength sp 0.0 st.path) n st.path))
          | none => (st, "bad-op")
        | "reduce", ms :: me :: rr :: k :: raws =>
          match parseNat? ms, parseNat? me, parseFloatBits? rr, parseNat? k, parseNats? raws with
          | some ms, some me, some rr, some k, some raws =>
            if k ≠ raws.length then (st, "bad-op") else
            let rawsA := raws.toArray
            let draw (i : Nat) : Nat := rawsA.getD i 0
            let rangeOf (count : Nat) : Nat := (1 + cvtInt (Float.floor (0.5 + count.toFloat * rr))).toNat
            match reduceVertices cmq rangeOf draw ms me st.path with
            | some (out, r) => (st, "r " ++ retStr r ++ " " ++ showPath out)
            | none => (st, "idx-error")
          | _, _, _, _, _ => (st, "bad-op")
        | "pshort", ms :: me :: rr :: snap :: k :: us =>
          match parseNat? ms, parseNat? me, parseFloatBits? rr, parseFloatBits? snap, parseNat? k,
              us.mapM parseFloatBits? with
          | some ms, some me, some rr, some snap, some k, some us =>
            if k ≠ us.length then (st, "bad-op") else
            let usA := us.toArray
            let E : PsEnv (St Float) := { cm := cmq, dist := dist sp, interp := interp sp }
            let show1 (fixed : Bool) : String :=
              match partialShortcutPathG E fixed (fun i => usA.getD i 0.0) ms me rr snap st.path with
              | some (out, r) => "r " ++ retStr r ++ " " ++ showPath out
              | none => "idx-error"
            let showOrd : String :=
              match partialShortcutPathOrd E (fun i => usA.getD i 0.0) ms me rr snap st.path with
              | some (out, r) => "r " ++ retStr r ++ " " ++ showPath out
              | none => "idx-error"
            -- the tree's code (since fix 7afd3abe1, F170: checkMotion in path order) first, then the code before fix F55, then
            -- the code between the two fixes (checkMotion in sampling order)
            (st, showOrd ++ " | old " ++ show1 false ++ " | sampling " ++ show1 true)
          | _, _, _, _, _, _ => (st, "bad-op")
        | "pshorto", obj :: ms :: me :: rr :: snap :: k :: us =>
          match objOf2 sp obj, parseNat? ms, parseNat? me, parseFloatBits? rr, parseFloatBits? snap, parseNat? k,
              us.mapM parseFloatBits? with
          | some O, some ms, some me, some rr, some snap, some k, some us =>
            if k ≠ us.length then (st, "bad-op") else
            let usA := us.toArray
            let E : PsEnvO (St Float) Float := { cm := cmq, dist := dist sp, interp := interp sp, O := O }
            let show1 (start : AlongStart) : String :=
              match partialShortcutPathObj E start (fun i => usA.getD i 0.0) ms me rr snap st.path with
              | some (out, r) => "r " ++ retStr r ++ " " ++ showPath out
              | none => "idx-error"
            (st, show1 .afterPos0 ++ " | dbl " ++ show1 .atPos0)
          | _, _, _, _, _, _, _ => (st, "bad-op")
        | "pg", meth :: r =>
          -- PathGeometric::reverse / prepend / append / keepAfter / keepBefore / getClosestIndex in lock-step
          let flt : Float → Float → Bool := fun a b => a < b
          let show1 (ret : Int) (l : List (St Float)) : String := "pg " ++ toString ret ++ " " ++ showPath l
          match meth, r with
          | "reverse", [] => (st, show1 (-1) st.path.reverse)
          | _, _ =>
            match pState sp r with
            | some (q, []) =>
              match meth with
              | "prepend" => (st, show1 (-1) (q :: st.path))
              | "append" => (st, show1 (-1) (st.path ++ [q]))
              | "keepafter" => (st, show1 (-1) (keepAfter flt (dist sp) q st.path))
              | "keepbefore" => (st, show1 (-1) (keepBefore flt (dist sp) q st.path))
              | "closest" =>
                (st, show1 (match closestIndex flt (dist sp) q st.path with | some i => (i : Int) | none => -1) st.path)
              | _ => (st, "bad-op")
            | _ => (st, "bad-op")
        | "goals", n :: r =>
          match (do let n ← parseNat? n; pStates sp n r) with
          | some (gs, []) => ({ st with goals := gs }, "ok")
          | _ => (st, "bad-op")
        | "bsplines", ms :: mc :: "iv" :: m :: ivs =>
          match parseNat? ms, parseFloatBits? mc, (do let m ← parseNat? m; pCm1 sp m {} ivs) with
          | some ms, some mc, some vtab =>
            let E : BsEnv (St Float) := {
              valid := fun a => (vtab.get? (key a)).getD false
              cm := cmq
              mid := fun a b => interp sp a b 0.5
              moved := fun c t => dist sp c t > mc }
            (st, "r -1 " ++ showPath (smoothBSpline E ms st.path))
          | _, _, _ => (st, "bad-op")
        | "bgoal", obj :: attempts :: rr :: snap :: k :: us =>
          match objOf2 sp obj, parseNat? attempts, parseFloatBits? rr, parseFloatBits? snap, parseNat? k, us.mapM parseFloatBits? with
          | some O, some attempts, some rr, some snap, some k, some us =>
            if k ≠ us.length ∨ st.goals.isEmpty then (st, "bad-op") else
            let usA := us.toArray
            let gA := st.goals.toArray
            let E : BgEnv (St Float) Float Float := {
              N := fops, O := O, cm := cmq, dist := dist sp, interp := interp sp
              goalAt := fun g => gA.getD (g % gA.size) (gA.getD 0 (.rv []))
              pairValid := fun _ _ => true
              u := fun i => usA.getD i 0.0
              maxGoals := min 10 gA.size
              samplingAttempts := attempts
              rangeRatio := rr
              snap := snap }
            match findBetterGoal E st.path with
            | some (out, r) => (st, "r " ++ retStr r ++ " " ++ showPath out)
            | none => (st, "idx-error")
          | _, _, _, _, _, _ => (st, "bad-op")
        | "perturbs", obj :: step :: ms :: me :: snap :: kh :: rest2 =>
          match objOf2 sp obj, parseFloatBits? step, parseNat? ms, parseNat? me, parseFloatBits? snap, parseNat? kh with
          | some O, some step, some ms, some me, some snap, some kh =>
            match (rest2.take kh).mapM parseFloatBits?, rest2.drop kh with
            | some hs, ks :: rest3 =>
              match (do let ks ← parseNat? ks; pStates sp ks rest3), st.path with
              | some (samples, []), first :: _ =>
                if hs.length ≠ kh then (st, "bad-op") else
                let hA := hs.toArray
                let sA := samples.toArray
                let E : PpEnv (St Float) Float Float := {
                  N := fops, O := O, cm := cmq, dist := dist sp, interp := interp sp
                  hn := fun i => hA.getD i 0.0
                  samp := fun i => sA.getD i first
                  stepSize := step
                  snap := snap }
                match perturbPathGuarded E ms me st.path with
                | some (out, r) => (st, "r " ++ retStr r ++ " " ++ showPath out)
                | none => (st, "idx-error")
              | _, _ => (st, "bad-op")
            | _, _ => (st, "bad-op")
          | _, _, _, _, _, _ => (st, "bad-op")
        | "repair", attempts :: k :: rest2 =>
          -- repair <attempts> <k> <sample>*k iv <m> (<state> <0/1>)*m   (+ cm section): checkAndRepair with scripted raw samples
          match parseNat? attempts, parseNat? k with
          | some attempts, some k =>
            match pStates sp k rest2 with
            | some (samples, "iv" :: m :: ivs) =>
              match (do let m ← parseNat? m; pCm1 sp m {} ivs) with
              | some vtab =>
                match st.path with
                | [] => (st, "bad-op")
                | first :: _ =>
                  let sampA := samples.toArray
                  let E : RepairEnv (St Float) := {
                    valid := fun a => (vtab.get? (key a)).getD false
                    cm := cmq
                    samp := fun i => sampA.getD i first
                    attempts := attempts }
                  match checkAndRepair E st.path with
                  | some (out, orig, res) =>
                    (st, "r " ++ toString ((if orig then 2 else 0) + (if res then 1 else 0)) ++ " " ++ showPath out)
                  | none => (st, "idx-error")
              | none => (st, "bad-op")
            | _ => (st, "bad-op")
          | _, _ => (st, "bad-op")
        | _, _ => (st, "bad-op")
  | [] => (st, "bad-op")

end OmplModel.Driver.PathOpsDrv
