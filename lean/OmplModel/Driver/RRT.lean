import OmplModel.Model.RRT
import OmplModel.Model.RRTHistory
import OmplModel.Model.RRTConnectHistory
import OmplModel.Model.GoalStates
import OmplModel.Model.RRTConnect
import OmplModel.Driver.Common
/-!
Line-protocol driver for the RRT model at `Float` over R^n with axis-aligned box obstacles
(lock-step twin of `harness/planners.cpp`, mode `lockstep`).

    rrt <dim>                          header
    bounds <lo>*dim <hi>*dim           RealVectorBounds
    boxes <pdim> <k> (<lo>*pdim <hi>*pdim)*k
    res <frac>                         setStateValidityCheckingResolution
    range <r>                          setRange (before setup; < epsilon means "auto": 0.2 * extent)
    interm <0|1>                       setIntermediateStates
    goal <state>   thr <t>             GoalState + threshold; further `goal` lines make it a GoalStates (Model/GoalStates.lean)
    start <state>                      addStartState (repeatable)
    draw <g|u> <state>                 what ended up in rstate in one loop iteration (recorded by the harness)
    solve                              -> status line
    tree / path / pdef                 -> the tree in insertion order, the reported path, the problem definition
    ptc <n>                            RRTConnect: the termination condition answers false n times, then true
    solvec                             RRTConnect::solve on the `u` draws (goal samples come from the goal itself)
    trees / treeg                      RRTConnect: start tree / goal tree (parent:state:root)

histories of one RRT object (Model/RRTHistory.lean; lock-step twin of the harness's mode `history`):
    hinit                              fresh planner after setup() (range configured), problem definition = the starts so far
    hsolve                             Op.solve on the draws given since the last hsolve -> status line
    hclear | haddstart <state> | hrange <r> | hthr <t> | hinterm <0|1> | hsetup | hclearsol      the other Ops -> ok
    hcinit | hcsolve <ptc> | hcclear | hcaddstart <state> | hcrange <r> | hcclearsol | hctrees | hctreeg | hcpath | hcpdef
                                       the same for one RRTConnect object (Model/RRTConnectHistory.lean)
    htree / hpath / hpdef              tree, path registered by the last hsolve, problem definition (count, flag,
                                       difference of the top solution, flag:difference of every solution in insertion order)

Everything numeric is computed here with the operations and operation order of the C++ code
(RealVectorStateSpace::distance / interpolate / getMaximumExtent / satisfiesBounds,
StateSpace::validSegmentCount, DiscreteMotionValidator::checkMotion's verdict, GoalState), so the
state bits must agree with the real planner's.
-/
namespace OmplModel.Driver.RRTDrv
open OmplModel.RRT OmplModel.PlannerReport OmplModel.Driver

abbrev State := Array Float

def eps : Float := Float.ofBits 0x3CB0000000000000  -- std::numeric_limits<double>::epsilon()
def inf : Float := Float.ofBits 0x7FF0000000000000

structure Box where
  lo : Array Float
  hi : Array Float

structure Env where
  dim : Nat
  lo : Array Float := #[]
  hi : Array Float := #[]
  pdim : Nat := 0
  boxes : List Box := []
  res : Float := 0.01
  range : Float := 0.0
  interm : Bool := false
  goal : State := #[]
  moreGoals : Array State := #[]
  /-- `boundsblind 1`: the validity checker does collision checking only -/
  blind : Bool := false
  thr : Float := eps
  starts : Array State := #[]
  draws : Array (Draw State) := #[]
  report : Option (Report State Float) := none
  ptc : Nat := 0
  reportC : Option (OmplModel.RRTConnect.Report State Float) := none
  added : Option (List State × Bool × Float) := none
  world : Option (World State Float) := none
  worldC : Option (OmplModel.RRTConnect.World State Float) := none
  hrepC : Option (OmplModel.RRTConnect.Report State Float) := none
  hrep : Option (Report State Float) := none

/-- `RealVectorStateSpace::distance` -/
def rvDist (a b : State) : Float := Id.run do
  let mut dist : Float := 0.0
  for i in [0:a.size] do
    let diff := a[i]! - b[i]!
    dist := dist + diff * diff
  return Float.sqrt dist

/-- `RealVectorStateSpace::interpolate` -/
def rvInterp (a b : State) (t : Float) : State :=
  (Array.range a.size).map (fun i => a[i]! + (b[i]! - a[i]!) * t)

/-- `RealVectorStateSpace::getMaximumExtent` -/
def extent (e : Env) : Float := Id.run do
  let mut s : Float := 0.0
  for i in [0:e.dim] do
    let d := e.hi[i]! - e.lo[i]!
    s := s + d * d
  return Float.sqrt s

/-- `RealVectorStateSpace::satisfiesBounds` -/
def inBounds (e : Env) (s : State) : Bool :=
  (List.range e.dim).all (fun i => !(s[i]! - eps > e.hi[i]! || s[i]! + eps < e.lo[i]!))

/-- `Env::collides` of harness/common/planning.h (closed boxes over the first `pdim` reals) -/
def collides (e : Env) (s : State) : Bool :=
  e.boxes.any (fun b => (List.range e.pdim).all (fun d => !(s[d]! < b.lo[d]! || s[d]! > b.hi[d]!)))

/-- `RecordingValidityChecker::isValid` -/
def isValid (e : Env) (s : State) : Bool := (e.blind || inBounds e s) && !collides e s

def lvs (e : Env) : Float := extent e * e.res

/-- `StateSpace::validSegmentCount` (factor 1) -/
def segCount (e : Env) (a b : State) : Nat := (Float.ceil (rvDist a b / lvs e)).toUInt32.toNat

/-- verdict of `DiscreteMotionValidator::checkMotion(s1, s2)` -/
def checkMotion (e : Env) (a b : State) : Bool :=
  if !isValid e b then false
  else
    let nd := segCount e a b
    (List.range (nd - 1)).all (fun k => isValid e (rvInterp a b ((k + 1).toFloat / nd.toFloat)))

def effRange (e : Env) : Float :=
  if e.range < eps then extent e * 0.2 else e.range

/-- all goal states in the order given -/
def allGoals (e : Env) : Array State := #[e.goal] ++ e.moreGoals

/-- `GoalState::distanceGoal` for one goal state, `GoalStates::distanceGoal` for several -/
def goalDist (e : Env) (s : State) : Float :=
  if e.moreGoals.isEmpty then rvDist s e.goal
  else OmplModel.GoalStates.distanceGoal rvDist (fun a b => a < b) inf (allGoals e) s

def cfgOf (e : Env) : Cfg State Float where
  dist := rvDist
  interp := rvInterp
  lt a b := a < b
  div a b := a / b
  frac j n := j.toFloat / n.toFloat
  inf := inf
  zero := 0.0
  maxDistance := effRange e
  bounds := inBounds e
  valid := isValid e
  checkMotion := checkMotion e
  segCount := segCount e
  goalDist := goalDist e
  threshold := e.thr
  addIntermediate := e.interm

/-- `RealVectorStateSpace::equalStates` -/
def rvEqual (a b : State) : Bool :=
  (List.range a.size).all (fun i => !(Float.abs (a[i]! - b[i]!) > eps * 2.0))

def cfgC (e : Env) : OmplModel.RRTConnect.Cfg State Float where
  dist := rvDist
  interp := rvInterp
  lt a b := a < b
  div a b := a / b
  frac j n := j.toFloat / n.toFloat
  inf := inf
  zero := 0.0
  maxDistance := effRange e
  bounds := inBounds e
  valid := isValid e
  checkMotion := checkMotion e
  segCount := segCount e
  equalStates := rvEqual
  goalDist := goalDist e
  goalSample := OmplModel.GoalStates.kth (allGoals e) e.goal
  maxGoalSamples := (allGoals e).size
  pairValid _ _ := true
  addIntermediate := e.interm
  connectFuel := 1000000

def floats? (ts : List String) : Option (Array Float) := (ts.mapM parseFloatBits?).map (·.toArray)

def showState (s : State) : String := ",".intercalate (s.toList.map floatBits)

def showNodeC (nd : OmplModel.RRTConnect.Node State) : String :=
  (match nd.parent with | some p => toString p | none => "-1") ++ ":" ++ showState nd.state ++ ":" ++ showState nd.root

def init (ts : List String) : Option Env :=
  match ts with
  | ["rrt", d] => (parseNat? d).bind (fun d => if 0 < d then some { dim := d } else none)
  | _ => none

def parseBoxes (pdim : Nat) : Nat → List String → Option (List Box)
  | 0, [] => some []
  | 0, _ => none
  | k + 1, ts =>
    if ts.length < 2 * pdim then none
    else do
      let lo ← floats? (ts.take pdim)
      let hi ← floats? ((ts.drop pdim).take pdim)
      let rest ← parseBoxes pdim k (ts.drop (2 * pdim))
      pure (⟨lo, hi⟩ :: rest)

def step (e : Env) (ts : List String) : Env × String :=
  match ts with
  | "bounds" :: rest =>
    if rest.length = 2 * e.dim then
      match floats? (rest.take e.dim), floats? (rest.drop e.dim) with
      | some lo, some hi => ({ e with lo := lo, hi := hi }, "ok")
      | _, _ => (e, "bad-op")
    else (e, "bad-op")
  | "boxes" :: p :: k :: rest =>
    match parseNat? p, parseNat? k with
    | some p, some k =>
      if p ≤ e.dim then
        match parseBoxes p k rest with
        | some bs => ({ e with pdim := p, boxes := bs }, "ok")
        | none => (e, "bad-op")
      else (e, "bad-op")
    | _, _ => (e, "bad-op")
  | ["res", x] => match parseFloatBits? x with | some x => ({ e with res := x }, "ok") | none => (e, "bad-op")
  | ["range", x] => match parseFloatBits? x with | some x => ({ e with range := x }, "ok") | none => (e, "bad-op")
  | ["thr", x] => match parseFloatBits? x with | some x => ({ e with thr := x }, "ok") | none => (e, "bad-op")
  | ["boundsblind", "0"] => ({ e with blind := false }, "ok")
  | ["boundsblind", "1"] => ({ e with blind := true }, "ok")
  | ["interm", "0"] => ({ e with interm := false }, "ok")
  | ["interm", "1"] => ({ e with interm := true }, "ok")
  | "goal" :: rest =>
    match floats? rest with
    | some s =>
      if s.size = e.dim then
        (if e.goal.size = 0 then { e with goal := s } else { e with moreGoals := e.moreGoals.push s }, "ok")
      else (e, "bad-op")
    | none => (e, "bad-op")
  | "start" :: rest =>
    match floats? rest with
    | some s => if s.size = e.dim then ({ e with starts := e.starts.push s }, "ok") else (e, "bad-op")
    | none => (e, "bad-op")
  | "draw" :: k :: rest =>
    match floats? rest with
    | some s =>
      if s.size = e.dim ∧ (k = "g" ∨ k = "u") then
        ({ e with draws := e.draws.push ⟨k = "g", s⟩ }, "ok")
      else (e, "bad-op")
    | none => (e, "bad-op")
  | ["solve"] =>
    if e.lo.size = e.dim ∧ e.hi.size = e.dim ∧ e.goal.size = e.dim then
      let r := solve (cfgOf e) e.starts e.draws.toList
      let (a, ap, df) := match r.added with
        | some (_, ap, df) => ("1", (if ap then "1" else "0"), floatBits df)
        | none => ("0", "-", "-")
      ({ e with report := some r, added := r.added },
        s!"status={r.status.name} bool={if r.status.toBool then 1 else 0} added={a} approx={ap} diff={df} " ++
        s!"unused={r.unusedDraws} lvs={floatBits (lvs e)} range={floatBits (effRange e)} " ++
        s!"nstart={r.pis.addedStartStates} ntree={r.tree.size}")
    else (e, "bad-op")
  | ["ptc", n] => match parseNat? n with | some n => ({ e with ptc := n }, "ok") | none => (e, "bad-op")
  | ["solvec"] =>
    if e.lo.size = e.dim ∧ e.hi.size = e.dim ∧ e.goal.size = e.dim then
      let us := (e.draws.toList.filter (fun d => !d.fromGoal)).map (·.state)
      let r := OmplModel.RRTConnect.solve (cfgC e) e.starts e.ptc true us
      let a := match r.added with | some _ => "1" | none => "0"
      ({ e with reportC := some r, added := r.added },
        s!"status={r.status.name} bool={if r.status.toBool then 1 else 0} added={a} " ++
        s!"unused={r.unusedDraws} short={if r.scriptShort then 1 else 0} fuelout={if r.fuelOut then 1 else 0} " ++
        s!"lvs={floatBits (lvs e)} range={floatBits (effRange e)} " ++
        s!"nstart={r.pis.addedStartStates} ngoal={r.pis.sampledGoalsCount} starttree={if r.startTree then 1 else 0}")
    else (e, "bad-op")
  | ["trees"] =>
    match e.reportC with
    | some r => (e, joinSp (s!"treeS n={r.tStart.size}" :: r.tStart.toList.map showNodeC))
    | none => (e, "bad-op")
  | ["treeg"] =>
    match e.reportC with
    | some r => (e, joinSp (s!"treeG n={r.tGoal.size}" :: r.tGoal.toList.map showNodeC))
    | none => (e, "bad-op")
  | ["tree"] =>
    match e.report with
    | some r =>
      (e, joinSp (s!"tree n={r.tree.size}" :: r.tree.toList.map (fun nd =>
        (match nd.parent with | some p => toString p | none => "-1") ++ ":" ++ showState nd.state)))
    | none => (e, "bad-op")
  | ["path"] =>
    if e.report.isSome || e.reportC.isSome then
      match e.added with
      | some (p, _, _) => (e, joinSp (s!"path n={p.length}" :: p.map showState))
      | none => (e, "path none")
    else (e, "bad-op")
  | ["pdef"] =>
    if e.report.isSome || e.reportC.isSome then
      -- the problem definition (fresh: no solutions) after the run, through the L0 model
      let pd : Pdef State (List State) Float := { starts := e.starts }
      let pd' := match e.added with
        | some (p, ap, df) => addSolutionPath 0.0 pd p ap df
        | none => pd
      let lt : Float → Float → Bool := fun a b => decide (a < b)
      let better : List State → List State → Bool := fun _ _ => false
      (e, s!"pdef count={getSolutionCount pd'} approx={if hasApproximateSolution lt better pd' then 1 else 0} " ++
        s!"diff={floatBits (getSolutionDifference lt better (-1.0) pd')}")
    else (e, "bad-op")
  | ["hcinit"] =>
    if e.lo.size = e.dim ∧ e.hi.size = e.dim ∧ e.goal.size = e.dim then
      ({ e with worldC := some (OmplModel.RRTConnect.World.fresh e.starts (effRange e)), draws := #[], hrepC := none }, "ok")
    else (e, "bad-op")
  | "hcaddstart" :: rest =>
    match e.worldC, floats? rest with
    | some w, some s =>
      if s.size = e.dim then ({ e with worldC := some (OmplModel.RRTConnect.applyOp (cfgC e) w (.addStart s)).1 }, "ok")
      else (e, "bad-op")
    | _, _ => (e, "bad-op")
  | ["hcrange", x] =>
    match e.worldC, parseFloatBits? x with
    | some w, some r => ({ e with worldC := some (OmplModel.RRTConnect.applyOp (cfgC e) w (.setRange r)).1 }, "ok")
    | _, _ => (e, "bad-op")
  | ["hcclear"] =>
    match e.worldC with
    | some w => ({ e with worldC := some (OmplModel.RRTConnect.applyOp (cfgC e) w .clear).1 }, "ok")
    | none => (e, "bad-op")
  | ["hcclearsol"] =>
    match e.worldC with
    | some w => ({ e with worldC := some (OmplModel.RRTConnect.applyOp (cfgC e) w .clearSolutions).1 }, "ok")
    | none => (e, "bad-op")
  | ["hcsolve", n] =>
    match e.worldC, parseNat? n with
    | some w, some n =>
      let us := (e.draws.toList.filter (fun d => !d.fromGoal)).map (·.state)
      match OmplModel.RRTConnect.applyOp (cfgC e) w (.solve n us) with
      | (w', some r) =>
        let a := match r.added with | some _ => "1" | none => "0"
        ({ e with worldC := some w', hrepC := some r, draws := #[] },
          s!"status={r.status.name} bool={if r.status.toBool then 1 else 0} added={a} unused={r.unusedDraws} " ++
          s!"short={if r.scriptShort then 1 else 0} fuelout={if r.fuelOut then 1 else 0} " ++
          s!"nstart={r.pis.addedStartStates} ngoal={r.pis.sampledGoalsCount} starttree={if r.startTree then 1 else 0} " ++
          s!"range={floatBits w.range}")
      | _ => (e, "bad-op")
    | _, _ => (e, "bad-op")
  | ["hctrees"] =>
    match e.worldC with
    | some w => (e, joinSp (s!"treeS n={w.planner.tStart.size}" :: w.planner.tStart.toList.map showNodeC))
    | none => (e, "bad-op")
  | ["hctreeg"] =>
    match e.worldC with
    | some w => (e, joinSp (s!"treeG n={w.planner.tGoal.size}" :: w.planner.tGoal.toList.map showNodeC))
    | none => (e, "bad-op")
  | ["hcpath"] =>
    match e.hrepC with
    | some r =>
      match r.added with
      | some (p, _, _) => (e, joinSp (s!"path n={p.length}" :: p.map showState))
      | none => (e, "path none")
    | none => (e, "bad-op")
  | ["hcpdef"] =>
    match e.worldC with
    | some w =>
      let lt : Float → Float → Bool := fun a b => decide (a < b)
      let better : List State → List State → Bool := fun _ _ => false
      let sols := w.pd.solutions.map (fun s => (if s.approximate then "1" else "0") ++ ":" ++ floatBits s.difference)
      (e, s!"pdef count={getSolutionCount w.pd} approx={if hasApproximateSolution lt better w.pd then 1 else 0} " ++
        s!"diff={floatBits (getSolutionDifference lt better (-1.0) w.pd)} " ++
        s!"sols={if sols.isEmpty then "-" else ",".intercalate sols}")
    | none => (e, "bad-op")
  | ["hinit"] =>
    if e.lo.size = e.dim ∧ e.hi.size = e.dim ∧ e.goal.size = e.dim then
      ({ e with world := some (World.fresh e.starts ⟨effRange e, e.thr, e.interm⟩), draws := #[], hrep := none }, "ok")
    else (e, "bad-op")
  | "haddstart" :: rest =>
    match e.world, floats? rest with
    | some w, some s =>
      if s.size = e.dim then ({ e with world := some (applyOp (cfgOf e) eps (extent e * 0.2) w (.addStart s)).1 }, "ok")
      else (e, "bad-op")
    | _, _ => (e, "bad-op")
  | [h, x] =>
    match e.world with
    | none => (e, "bad-op")
    | some w =>
      let op? : Option (Op State Float) :=
        if h = "hrange" then (parseFloatBits? x).map .setRange
        else if h = "hthr" then (parseFloatBits? x).map .setThreshold
        else if h = "hinterm" ∧ x = "0" then some (.setIntermediate false)
        else if h = "hinterm" ∧ x = "1" then some (.setIntermediate true)
        else none
      match op? with
      | some op => ({ e with world := some (applyOp (cfgOf e) eps (extent e * 0.2) w op).1 }, "ok")
      | none => (e, "bad-op")
  | [h] =>
    match e.world with
    | none => (e, "bad-op")
    | some w =>
      let cfg := cfgOf e
      if h = "hclear" then ({ e with world := some (applyOp cfg eps (extent e * 0.2) w .clear).1 }, "ok")
      else if h = "hsetup" then ({ e with world := some (applyOp cfg eps (extent e * 0.2) w .setup).1 }, "ok")
      else if h = "hclearsol" then ({ e with world := some (applyOp cfg eps (extent e * 0.2) w .clearSolutions).1 }, "ok")
      else if h = "hsolve" then
        match applyOp cfg eps (extent e * 0.2) w (.solve e.draws.toList) with
        | (w', some r) =>
          let a := match r.added with | some _ => "1" | none => "0"
          ({ e with world := some w', hrep := some r, draws := #[] },
            s!"status={r.status.name} bool={if r.status.toBool then 1 else 0} added={a} unused={r.unusedDraws} " ++
            s!"nstart={r.pis.addedStartStates} lgm={match r.lastGoalMotion with | some i => toString i | none => "-1"} " ++
            s!"range={floatBits w.params.maxDistance} interm={if w.params.addIntermediate then 1 else 0} " ++
            s!"thr={floatBits w.params.threshold} ntree={r.tree.size}")
        | _ => (e, "bad-op")
      else if h = "htree" then
        (e, joinSp (s!"tree n={w.planner.tree.size}" :: w.planner.tree.toList.map (fun nd =>
          (match nd.parent with | some p => toString p | none => "-1") ++ ":" ++ showState nd.state)))
      else if h = "hpath" then
        match e.hrep with
        | some r =>
          match r.added with
          | some (p, _, _) => (e, joinSp (s!"path n={p.length}" :: p.map showState))
          | none => (e, "path none")
        | none => (e, "bad-op")
      else if h = "hpdef" then
        let lt : Float → Float → Bool := fun a b => decide (a < b)
        let better : List State → List State → Bool := fun _ _ => false
        let sols := w.pd.solutions.map (fun s => (if s.approximate then "1" else "0") ++ ":" ++ floatBits s.difference)
        (e, s!"pdef count={getSolutionCount w.pd} approx={if hasApproximateSolution lt better w.pd then 1 else 0} " ++
          s!"diff={floatBits (getSolutionDifference lt better (-1.0) w.pd)} " ++
          s!"sols={if sols.isEmpty then "-" else ",".intercalate sols}")
      else (e, "bad-op")
  | _ => (e, "bad-op")

end OmplModel.Driver.RRTDrv
