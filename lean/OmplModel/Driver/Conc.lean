import OmplModel.Model.InterleavePrrtRun
import OmplModel.Driver.Common
/-!
Line-protocol driver of the C19 engine (`drv_conc`): replays, on the interleaving model, the event log of a REAL
pRRT run recorded by `harness/conc_trace.cpp` at lock granularity (the nearest-neighbour structure is called under
`nnLock_`, so its calls are recorded in the order the lock was taken; `checkMotion` and the goal test are recorded on
the calling worker thread).  One `PStep` per event; after each step the driver prints the event *as the model's
state has it*, in the very format of the log, so "the run is an execution of the model" is `output == input`.

  header  prrt <dim> <maxDistance> <threshold> <goal…> <root…>          (doubles as u64 bit patterns everywhere)
  N t x… r…          worker t sampled x, `nn_->nearest` answered r          → `.nearest t x`   prints N t x… near…
  C t a… b… v        `checkMotion(a, b)` answered v on worker t             → `.check t`       prints C t near… cand… ok
  A t c… p…          `nn_->add(motion)` with state c, parent state p         → `.add t`         prints A t cand… near… | A t noop
  G t c… d s         `goal->isSatisfied(c, &d)` answered s                   → `.upd t`         prints G t cand… dist goal
  E a d n path…      what `solve()` reported (approximate, difference, path) → `report`         prints E a d n path… | E none

The validity oracle is the one parameter taken from the log (the answer `v` of each `C` line, entered into the table
before the step); an answer that contradicts an earlier answer for the same pair is printed as `C-not-a-function`.
-/
namespace OmplModel.Driver.ConcDrv
open OmplModel.Interleave OmplModel.Driver

structure St where
  dim : Nat
  p : RvParams
  tab : ValidTable
  s : PStore Vec Float

def parseBits? (s : String) : Option UInt64 :=
  match s.toNat? with
  | some n => if n < 2^64 then some n.toUInt64 else none
  | none => none

def parseVec? (ts : List String) : Option Vec := ts.mapM parseBits?

def showVec (v : Vec) : String := joinSp (v.map (fun b => toString b.toNat))

def showBool (b : Bool) : String := if b then "1" else "0"

def init (ts : List String) : Option St :=
  match ts with
  | "prrt" :: dim :: maxd :: thr :: rest => do
    let dim ← parseNat? dim
    let maxd ← parseFloatBits? maxd
    let thr ← parseFloatBits? thr
    if rest.length ≠ 2 * dim then none
    let goal ← parseVec? (rest.take dim)
    let root ← parseVec? (rest.drop dim)
    let p : RvParams := ⟨maxd, thr, goal, root⟩
    pure ⟨dim, p, [], PStore.init (rvEnv p [])⟩
  | _ => none

def step (st : St) (ts : List String) : St × String :=
  let e := rvEnv st.p st.tab
  match ts with
  | "N" :: t :: rest =>
    match parseNat? t, parseVec? (rest.take st.dim), rest.length == 2 * st.dim with
    | some t, some x, true =>
      -- the real answer enters only as a validated hint (ties between equidistant nodes), see `nearestHinted`
      let s' := PStep.apply (rvEnv st.p st.tab (parseVec? (rest.drop st.dim))) (.nearest t x) st.s
      ({ st with s := s' }, s!"N {t} {showVec x} {showVec (s'.loc t).near}")
    | _, _, _ => (st, "bad-op")
  | "C" :: t :: rest =>
    match parseNat? t, parseVec? (rest.take st.dim), parseVec? ((rest.drop st.dim).take st.dim), rest.drop (2 * st.dim) with
    | some t, some a, some b, [v] =>
      if v ≠ "0" ∧ v ≠ "1" then (st, "bad-op") else
      let v := v == "1"
      let l := st.s.loc t
      if l.near ≠ a ∨ l.cand ≠ b then
        -- the real code asked about another motion than the model's worker would: print the model's
        (st, s!"C {t} {showVec l.near} {showVec l.cand} ?")
      else
        match st.tab.lookup a b with
        | some v' =>
          if v' ≠ v then (st, s!"C-not-a-function {t}") else
          let s' := PStep.apply e (.check t) st.s
          ({ st with s := s' }, s!"C {t} {showVec l.near} {showVec l.cand} {showBool (s'.loc t).ok}")
        | none =>
          let tab := (a, b, v) :: st.tab
          let s' := PStep.apply (rvEnv st.p tab) (.check t) st.s
          ({ st with tab := tab, s := s' }, s!"C {t} {showVec l.near} {showVec l.cand} {showBool (s'.loc t).ok}")
    | _, _, _, _ => (st, "bad-op")
  | "A" :: t :: rest =>
    match parseNat? t, rest.length == 2 * st.dim with
    | some t, true =>
      let s' := PStep.apply e (.add t) st.s
      if s'.tree.length = st.s.tree.length + 1 then
        let l := st.s.loc t
        ({ st with s := s' }, s!"A {t} {showVec l.cand} {showVec l.near}")
      else (st, s!"A {t} noop")
    | _, _ => (st, "bad-op")
  | "G" :: t :: rest =>
    match parseNat? t, rest.length == st.dim + 2 with
    | some t, true =>
      let l := st.s.loc t
      if !l.added then (st, s!"G {t} not-added") else
      let s' := PStep.apply e (.upd t) st.s
      ({ st with s := s' }, s!"G {t} {showVec l.cand} {floatBits (e.dist l.cand)} {showBool (e.goal l.cand)}")
    | _, _ => (st, "bad-op")
  | "E" :: _ =>
    match report st.s with
    | none => (st, "E none")
    | some r =>
      let d := match r.difference with
        | some d => floatBits d
        | none => "0"       -- nothing recorded: `PlannerSolution::difference_` keeps its default 0.0 (bit pattern 0)
      (st, s!"E {showBool r.approximate} {d} {r.path.length}" ++ r.path.foldl (fun acc v => acc ++ " " ++ showVec v) "")
  | _ => (st, "bad-op")

end OmplModel.Driver.ConcDrv
