/-
Shared pieces of the line-protocol drivers (core Lean only).
One operation per input line, one result line per operation; an unknown or ill-formed line
prints `bad-op` (never defaulted).  The first line of a script is the engine header.
-/
namespace OmplModel.Driver

def tokens (line : String) : List String :=
  (line.trimAscii.toString.splitOn " ").filter (· ≠ "")

def parseInt? (s : String) : Option Int := s.toInt?
def parseNat? (s : String) : Option Nat := s.toNat?

def parseInts? (ts : List String) : Option (List Int) := ts.mapM parseInt?
def parseNats? (ts : List String) : Option (List Nat) := ts.mapM parseNat?

/-- `k x₁ … x_k rest…` → `(xs, rest)` -/
def takeCounted (ts : List String) : Option (List String × List String) :=
  match ts with
  | [] => none
  | k :: rest =>
    match k.toNat? with
    | some n => if n ≤ rest.length then some (rest.take n, rest.drop n) else none
    | none => none

/-- doubles cross the protocol as decimal u64 bit patterns -/
def parseFloatBits? (s : String) : Option Float :=
  match s.toNat? with
  | some n => if n < 2^64 then some (Float.ofBits n.toUInt64) else none
  | none => none

def floatBits (x : Float) : String := toString x.toBits.toNat

def joinSp (xs : List String) : String := " ".intercalate xs

partial def loop {σ : Type} (hin : IO.FS.Stream) (step : σ → List String → σ × String) (s : σ) :
    IO Unit := do
  let line ← hin.getLine
  if line.isEmpty then return ()
  let ts := tokens line
  if ts.isEmpty then
    loop hin step s
  else
    let (s', out) := step s ts
    IO.println out
    loop hin step s'

/-- read the header line, build the initial state, run the loop. -/
def runEngine {σ : Type} (init : List String → Option σ) (step : σ → List String → σ × String) :
    IO UInt32 := do
  let hin ← IO.getStdin
  let hdr ← hin.getLine
  match init (tokens hdr) with
  | none => IO.println "bad-header"; return 2
  | some s => loop hin step s; return 0

end OmplModel.Driver
