import OmplModel.Model.Copy
import OmplModel.Model.CopyKeyed
import OmplModel.Model.CopyEvolve
import OmplModel.Driver.Common
/-! Line-protocol driver for the copy / serialization / storage model (header line `copy`).
The part of an output line after ` # ` (implementation-only facts) is never produced here. -/
namespace OmplModel.Driver.CopyDrv
open OmplModel.Copy OmplModel.Driver

structure PD where
  space : Nat
  cdim : Option Nat
  kg : KGraph := {}          -- the graph with its state → index map (`Model/CopyKeyed.lean`)

structure S where
  /-- the code under test shows the repaired behaviour of F32 (wrapper = opaque leaf): header `copy wc=fixed` -/
  fixed : Bool := false
  spaces : List (Nat × Sp) := []
  states : List (Nat × Nat × St) := []     -- sid ↦ (space id, state)
  pd : Option PD := none
  locks : List (Nat × List Nat) := []      -- space id ↦ names of its locked compounds

def lookup {α} (l : List (Nat × α)) (k : Nat) : Option α :=
  match l.find? (fun e => e.1 == k) with
  | some e => some e.2
  | none => none

def insert {α} (l : List (Nat × α)) (k : Nat) (v : α) : List (Nat × α) :=
  (k, v) :: l.filter (fun e => e.1 != k)

/-! parsing -/

partial def parseSp : List String → Option (Sp × List String)
  | "R" :: nm :: n :: rest => do pure (.real (← nm.toNat?) (← n.toNat?), rest)
  | "S2" :: nm :: rest => do pure (.so2 (← nm.toNat?), rest)
  | "S3" :: nm :: rest => do pure (.so3 (← nm.toNat?), rest)
  | "T" :: nm :: rest => do pure (.time (← nm.toNat?), rest)
  | "D" :: nm :: rest => do pure (.discrete (← nm.toNat?), rest)
  | "W" :: nm :: rest => do
    let nm ← nm.toNat?
    let (s, rest) ← parseSp rest
    pure (.wrapper nm s, rest)
  | "C" :: nm :: k :: rest => do
    let nm ← nm.toNat?
    let k ← k.toNat?
    let rec go : Nat → List String → List Sp → Option (List Sp × List String)
      | 0, rest, acc => some (acc.reverse, rest)
      | k + 1, rest, acc => do
        let (c, rest) ← parseSp rest
        go k rest (c :: acc)
    let (cs, rest) ← go k rest []
    pure (.compound nm cs, rest)
  | _ => none

def parseAtom (s : String) : Option Atom :=
  if s.startsWith "f" then (s.drop 1).toNat?.map .f64
  else if s.startsWith "i" then (s.drop 1).toInt?.map .i32
  else none

/-- distribute a flat atom list over the shape of the space -/
partial def buildSt : Sp → List Atom → Option (St × List Atom)
  | .real _ n, as => if as.length ≥ n then some (.leaf (as.take n), as.drop n) else none
  | .so2 _, a :: as => some (.leaf [a], as)
  | .so3 _, a :: b :: c :: d :: as => some (.leaf [a, b, c, d], as)
  | .time _, a :: as => some (.leaf [a], as)
  | .discrete _, a :: as => some (.leaf [a], as)
  | .wrapper _ s, as => do
    let (st, rest) ← buildSt s as
    pure (.wrap st, rest)
  | .compound _ cs, as => do
    let rec go : List Sp → List Atom → List St → Option (List St × List Atom)
      | [], as, acc => some (acc.reverse, as)
      | c :: cs, as, acc => do
        let (st, rest) ← buildSt c as
        go cs rest (st :: acc)
    let (sts, rest) ← go cs as []
    pure (.comp sts, rest)
  | _, _ => none

/-! printing -/

def hexDigit (n : Nat) : Char := "0123456789abcdef".toList.getD n '?'
def hex (bs : List Nat) : String :=
  if bs.isEmpty then "-" else String.ofList (bs.flatMap (fun b => [hexDigit (b / 16), hexDigit (b % 16)]))

def joinOr (sep : String) (xs : List String) : String := if xs.isEmpty then "-" else sep.intercalate xs

def atomStr : Atom → String
  | .f64 b => "f" ++ toString b
  | .i32 v => "i" ++ toString v

def atomsStr (sp : Sp) (st : St) : String := joinOr "," ((atoms sp st).map atomStr)
def natsStr (xs : List Nat) : String := joinOr "," (xs.map toString)
def intsStr (xs : List Int) : String := joinOr "," (xs.map toString)
def chainStr (c : List Nat) : String := if c.isEmpty then "e" else ".".intercalate (c.map toString)

def insertNat (x : Nat) : List Nat → List Nat
  | [] => [x]
  | y :: ys => if x ≤ y then x :: y :: ys else y :: insertNat x ys

def insertByName (e : Nat × List Nat) : List (Nat × List Nat) → List (Nat × List Nat)
  | [] => [e]
  | x :: xs => if e.1 < x.1 then e :: x :: xs else if e.1 = x.1 then e :: xs else x :: insertByName e xs

/-- the `std::map` after all insertions: last entry per name, sorted by name -/
def subsMap (sp : Sp) : List (Nat × List Nat) := (substateLocs sp).foldl (fun m e => insertByName e m) []

/-- a wrapper around a compound space anywhere in the tree (undefined behaviour in copyStateData) -/
partial def hasWC : Sp → Bool
  | .wrapper _ s => s.isComp || hasWC s
  | .compound _ cs => cs.any hasWC
  | _ => false

/-- `setup()` throws for a zero-extent component (needed only for a top-level wrapper) -/
partial def zeroExt : Sp → Bool
  | .real _ n => n == 0
  | .wrapper _ s => zeroExt s
  | .compound _ cs => cs.isEmpty || cs.any zeroExt
  | _ => false

/-- rename the first node (pre-order) carrying the name -/
partial def renameSp (old new : Nat) : Sp → Sp × Bool
  | .real nm n => if nm = old then (.real new n, true) else (.real nm n, false)
  | .so2 nm => if nm = old then (.so2 new, true) else (.so2 nm, false)
  | .so3 nm => if nm = old then (.so3 new, true) else (.so3 nm, false)
  | .time nm => if nm = old then (.time new, true) else (.time nm, false)
  | .discrete nm => if nm = old then (.discrete new, true) else (.discrete nm, false)
  | .wrapper nm s =>
    if nm = old then (.wrapper new s, true)
    else let r := renameSp old new s; (.wrapper nm r.1, r.2)
  | .compound nm cs =>
    if nm = old then (.compound new cs, true)
    else
      let rec go : List Sp → List Sp × Bool
        | [] => ([], false)
        | c :: rest =>
          let r := renameSp old new c
          if r.2 then (r.1 :: rest, true) else let q := go rest; (c :: q.1, q.2)
      let r := go cs
      (.compound nm r.1, r.2)

def isWrapper : Sp → Bool
  | .wrapper _ _ => true
  | _ => false

def spaceLine (fixed : Bool) (sp : Sp) : String :=
  let vl := if fixed then valueLocationsF sp else valueLocations sp
  let n := nReals sp
  let vas := (List.range (n + 1)).map (fun i => match addrAtIndex sp i with
    | some a => chainStr a
    | none => "null")
  s!"ok sig={intsStr (signature sp)} len={serLen sp} dim={dim sp} nreals={vl.length} " ++
  s!"locs={joinOr ";" (vl.map (fun l => chainStr l.chain ++ ":" ++ toString l.index))} " ++
  s!"subs={joinOr ";" ((subsMap sp).map (fun e => toString e.1 ++ ":" ++ chainStr e.2))} " ++
  s!"va={";".intercalate vas}"

def vertStr (g : Graph) (i : Nat) (v : Vertex) : String :=
  s!"{v.tag},{if g.isStart i then 1 else 0},{if g.isGoal i then 1 else 0},{hex v.img}"

def edgeStr (e : ERec) : String :=
  match e.ctrl with
  | none => s!"{e.src},{e.dst},{e.weight}"
  | some (d, img) => s!"{e.src},{e.dst},{e.weight},{d},{hex img}"

def dumpGraph (g : Graph) : String :=
  let vs := (List.range g.verts.length).zipWith (vertStr g) g.verts
  s!"nv={g.verts.length} ne={g.edges.length} V={joinOr ";" vs} E={joinOr ";" (g.edges.map edgeStr)} " ++
  s!"starts={natsStr g.starts} goals={natsStr g.goals}"

def verdict {α} : Except LoadErr α → String
  | .ok _ => "acc"
  | .error _ => "rej"

/-- signature of `RealVectorControlSpace(dim)`: [2, CONTROL_SPACE_REAL_VECTOR = 1, dim] -/
def ctrlSig : Option Nat → List Int
  | some d => ctrlSignature (.real d)
  | none => []

/-- control-space token of the protocol: `["c:"] comp ("+" comp)*`, comp = `r<d>` | `d`; a compound iff prefixed or several -/
def parseCs (tok : String) : Option Cs :=
  let forced := tok.startsWith "c:"
  let body := if forced then (tok.drop 2).toString else tok
  let comps := (body.splitOn "+").mapM (fun c =>
    if c = "d" then some Cs.discrete
    else if c.startsWith "r" then ((c.drop 1).toString.toNat?).map Cs.real
    else none)
  match comps with
  | some [c] => if forced then some (.compound [c]) else some c
  | some [] => none
  | some cs => some (.compound cs)
  | none => none

def pdMarker (pd : PD) : Nat := if pd.cdim.isSome then markerPDC else markerPD

/-- what the caller's state objects hold now (byte images), for the vertices that still point to them -/
def stateTbl (s : S) (sid : Nat) : Option (List Nat) :=
  match lookup s.states sid with
  | some (p, st) => (lookup s.spaces p).map (fun sp => image sp st)
  | none => none

def PD.g (pd : PD) : Graph := pd.kg.g

/-- `X=` of `pdextract`: per vertex (in index order) the state image and the out-neighbours, read back from the
`GraphStateStorage` that `extractStorage` builds -/
def extractDump (g : Graph) (order : List Nat) : String :=
  let st := extractStorage g order
  let inv := (List.range g.verts.length).map (fun v => posIn order v 0)
  joinOr ";" (inv.map (fun j =>
    hex (st.states.getD j []) ++ ":" ++ joinOr "." ((st.nbrsOf order j).map toString)))

/-- the edit list of `evolve`: dim <nm> | dimn <nm> <dimension name> | sub <nm> <space> | name <old> <new> | lock <nm> |
w <nm> <i> | setup | compute -/
partial def parseSteps : List String → Option (List Step)
  | [] => some []
  | "setup" :: r => (parseSteps r).map (Step.setup :: ·)
  | "compute" :: r => (parseSteps r).map (Step.setup :: ·)
  | "dim" :: a :: r =>
    match a.toNat?, parseSteps r with
    | some a, some rest => some (.edit (.addDim a) :: rest)
    | _, _ => none
  | "dimn" :: a :: d :: r =>
    match a.toNat?, d.toNat?, parseSteps r with
    | some a, some _, some rest => some (.edit (.addDim a) :: rest)
    | _, _, _ => none
  | "sub" :: a :: r =>
    match a.toNat?, parseSp r with
    | some a, some (c, r') => (parseSteps r').map (.edit (.addSub a c) :: ·)
    | _, _ => none
  | "name" :: a :: b :: r =>
    match a.toNat?, b.toNat?, parseSteps r with
    | some a, some b, some rest => some (.edit (.rename a b) :: rest)
    | _, _, _ => none
  | "lock" :: a :: r =>
    match a.toNat?, parseSteps r with
    | some a, some rest => some (.edit (.lock a) :: rest)
    | _, _ => none
  | "w" :: a :: i :: r =>
    match a.toNat?, i.toNat?, parseSteps r with
    | some a, some _, some rest => some (.edit (.weight a) :: rest)
    | _, _, _ => none
  | _ => none

mutual
partial def findNode (nm : Nat) : Sp → Option Sp
  | .compound n cs => if n = nm then some (.compound n cs) else findNodeL nm cs
  | .wrapper n x => if n = nm then some (.wrapper n x) else findNode nm x
  | sp => if sp.name = nm then some sp else none
partial def findNodeL (nm : Nat) : List Sp → Option Sp
  | [] => none
  | c :: cs => match findNode nm c with
    | some x => some x
    | none => findNodeL nm cs
end

/-- the harness refuses an edit whose node does not exist or has the wrong kind -/
def stepLegal (sp : Sp) : Step → Bool
  | .setup => true
  | .edit (.addDim nm) => match findNode nm sp with
    | some (.real _ _) => true
    | _ => false
  | .edit (.addSub nm _) => match findNode nm sp with
    | some (.compound _ _) => true
    | _ => false
  | .edit (.rename old _) => (findNode old sp).isSome
  | .edit (.lock nm) => match findNode nm sp with
    | some (.compound _ _) => true
    | _ => false
  | .edit (.weight nm) => match findNode nm sp with
    | some (.compound _ _) => true
    | _ => false

def stepCore (s : S) (ts : List String) : S × String :=
  let bad : S × String := (s, "bad-op")
  match ts with
  | "space" :: id :: rest =>
    match id.toNat?, parseSp rest with
    | some id, some (sp, []) =>
      if isWrapper sp && zeroExt sp then bad
      else ({ s with spaces := insert s.spaces id sp }, spaceLine s.fixed sp)
    | _, _ => bad
  | ["rename", id, old, new] =>
    match id.toNat?, old.toNat?, new.toNat? with
    | some id, some old, some new =>
      match lookup s.spaces id with
      | some sp =>
        let r := renameSp old new sp
        if r.2 then ({ s with spaces := insert s.spaces id r.1 }, spaceLine s.fixed r.1) else bad
      | none => bad
    | _, _, _ => bad
  | "state" :: sid :: spid :: rest =>
    match sid.toNat?, spid.toNat?, takeCounted rest with
    | some sid, some spid, some (xs, []) =>
      match lookup s.spaces spid, xs.mapM parseAtom with
      | some sp, some as =>
        match buildSt sp as with
        | some (st, []) =>
          if fits sp st then
            let img := image sp st
            ({ s with states := insert s.states sid (spid, st) },
              s!"ok img={hex img} reals={natsStr (if s.fixed then copyToRealsF sp st else copyToReals sp st)} clone={hex (image sp (cloneState sp st))} " ++
              s!"copy={hex (image sp (copyState sp (allocState sp) st))} deser={atomsStr sp (deserialize sp img)}")
          else bad
        | _ => bad
      | _, _ => bad
    | _, _, _ => bad
  | "fromreals" :: sid :: rest =>
    match sid.toNat?, takeCounted rest with
    | some sid, some (xs, []) =>
      match lookup s.states sid, xs.mapM String.toNat? with
      | some (spid, st), some rs =>
        match lookup s.spaces spid with
        | some sp =>
          let nloc := if s.fixed then (valueLocationsF sp).length else (valueLocations sp).length
          if rs.length = nloc && rs.all (· < 18446744073709551616) then
            let st' := if s.fixed then copyFromRealsF sp st rs else copyFromReals sp st rs
            ({ s with states := insert s.states sid (spid, st') },
              s!"ok atoms={atomsStr sp st'} reals={natsStr (if s.fixed then copyToRealsF sp st' else copyToReals sp st')}")
          else bad
        | none => bad
      | _, _ => bad
    | _, _ => bad
  | ["csd", d, x] =>
    match d.toNat?, x.toNat? with
    | some d, some x =>
      match lookup s.states d, lookup s.states x with
      | some (dsp, dst), some (ssp, sst) =>
        match lookup s.spaces dsp, lookup s.spaces ssp with
        | some dS, some sS =>
          if !s.fixed && (hasWC dS || hasWC sS) then bad
          else
            let r := csd dS dst sS sst
            ({ s with states := insert s.states d (dsp, r.1) }, s!"ok res={r.2.code} atoms={atomsStr dS r.1}")
        | _, _ => bad
      | _, _ => bad
    | _, _ => bad
  | ["sop", d, x, which] =>
    -- ScopedState `dest << src` / `src >> dest`: copyStateData(destS, dest, srcS, src), result code dropped
    match d.toNat?, x.toNat? with
    | some d, some x =>
      match lookup s.states d, lookup s.states x with
      | some (dsp, dst), some (ssp, sst) =>
        match lookup s.spaces dsp, lookup s.spaces ssp with
        | some dS, some sS =>
          if (!s.fixed && (hasWC dS || hasWC sS)) || !(which = "shl" || which = "shr") then bad
          else
            let r := csd dS dst sS sst
            ({ s with states := insert s.states d (dsp, r.1) }, s!"ok atoms={atomsStr dS r.1}")
        | _, _ => bad
      | _, _ => bad
    | _, _ => bad
  | ["sreals", sid] =>
    match sid.toNat? with
    | some sid =>
      match lookup s.states sid with
      | some (spid, st) =>
        match lookup s.spaces spid with
        | some sp => (s, s!"reals={natsStr (scopedReals sp st)}")
        | none => bad
      | none => bad
    | none => bad
  | "sfrom" :: sid :: rest =>
    match sid.toNat?, takeCounted rest with
    | some sid, some (xs, []) =>
      match lookup s.states sid, xs.mapM String.toNat? with
      | some (spid, st), some rs =>
        match lookup s.spaces spid with
        | some sp =>
          if rs.all (· < 18446744073709551616) then
            let st' := scopedAssign sp st 0 rs
            ({ s with states := insert s.states sid (spid, st') }, s!"ok atoms={atomsStr sp st'}")
          else bad
        | none => bad
      | _, _ => bad
    | _, _ => bad
  | "evolve" :: spid :: rest =>
    -- a space that was set up changes and is set up again; its states are released
    match spid.toNat?, parseSteps rest with
    | some spid, some steps =>
      match lookup s.spaces spid with
      | some sp =>
        if (match s.pd with | some pd => pd.space == spid | none => false) then bad
        else
          let o0 : SpObj := { cur := sp, snap := some sp, locked := (lookup s.locks spid).getD [] }
          -- run step by step; an illegal edit makes the whole line ill-formed
          let r := steps.foldl (fun (acc : Option SpObj) st =>
            match acc with
            | some o => if stepLegal o.cur st then some (o.step st) else none
            | none => none) (some o0)
          match r with
          | some o =>
            match o.snap with
            | some tab =>
              -- the tables printed are the cached ones (`snap`); after a final setup they are those of `cur`
              ({ s with spaces := insert s.spaces spid o.cur, locks := insert s.locks spid o.locked,
                        states := s.states.filter (fun e => e.2.1 != spid) },
               if tab.name = o.cur.name && o.valueLocations = valueLocationsF o.cur && o.substates = substateLocs o.cur
               then spaceLine s.fixed o.cur else "stale-tables")
            | none => bad
          | none => bad
      | none => bad
    | _, _ => bad
  | "ssm" :: spid :: _seed :: rest =>
    -- GraphStateStorage (StateStorageWithMetadata<vector<size_t>>): states + one metadata vector per state
    match spid.toNat?, takeCounted rest with
    | some spid, some (xs, []) =>
      match lookup s.spaces spid, xs.mapM String.toNat? with
      | some sp, some sids =>
        match sids.mapM (fun i => match lookup s.states i with
            | some (p, st) => if p = spid then some (image sp st) else none
            | none => none) with
        | some imgs =>
          if serLen sp = 0 then bad
          else
            let orig : MStore := (List.range imgs.length).zip imgs |>.foldl (fun acc (i, img) =>
              acc.addState img ((List.range (i % 3)).map (fun j => (i * 7 + j * 3) % 11))) {}
            let recs := storeStatesM (signature sp) orig
            let (loaded, err) := loadStatesM (signature sp) recs
            let mdStr := fun (m : List Nat) => joinOr "." (m.map toString)
            -- the object after loading each proper record prefix that ends at a state boundary or just before the
            -- metadata block: states/metadata entries
            let rbm := (List.range (imgs.length + 1)).map (fun k =>
              let r := (loadStatesM (signature sp) (recs.take (k + 1))).1
              s!"{r.states.length}/{r.md.length}")
            (s, s!"ok n={loaded.states.length} imgs={joinOr ";" (loaded.states.map hex)} md={joinOr ";" (loaded.md.map mdStr)}" ++
                s!" rbm={joinOr "," rbm}" ++ (if err.isSome then " ERR" else ""))
        | none => bad
      | _, _ => bad
    | _, _ => bad
  | ["common", d, x] =>
    match d.toNat?, x.toNat? with
    | some d, some x =>
      match lookup s.states d, lookup s.states x with
      | some (dsp, dst), some (ssp, sst) =>
        match lookup s.spaces dsp, lookup s.spaces ssp with
        | some dS, some sS =>
          if (!s.fixed && (hasWC dS || hasWC sS)) || isWrapper dS || isWrapper sS then bad
          else
            let names := (commonSubspaces dS sS).map Sp.name
            let r := csdNames dS dst sS sst names
            let sorted := names.foldl (fun acc n => insertNat n acc) []
            ({ s with states := insert s.states d (dsp, r.1) },
              s!"ok names={natsStr sorted} res={r.2.code} atoms={atomsStr dS r.1}")
        | _, _ => bad
      | _, _ => bad
    | _, _ => bad
  | "csdnu" :: d :: x :: rest =>
    -- the names overload on top-level wrappers as it behaves once `getSubstateAtLocation` unwraps the wrapper's state
    -- (proposed repair of F105): the copy happens between the wrapped states
    match d.toNat?, x.toNat?, takeCounted rest with
    | some d, some x, some (ns, []) =>
      match lookup s.states d, lookup s.states x, ns.mapM String.toNat? with
      | some (dsp, dst), some (ssp, sst), some names =>
        match lookup s.spaces dsp, lookup s.spaces ssp with
        | some dS, some sS =>
          let r := csdNamesW dS dst sS sst names
          let st' := r.1
          ({ s with states := insert s.states d (dsp, st') }, s!"ok res={r.2.code} atoms={atomsStr dS st'}")
        | _, _ => bad
      | _, _, _ => bad
    | _, _, _ => bad
  | "csdn" :: d :: x :: rest =>
    match d.toNat?, x.toNat?, takeCounted rest with
    | some d, some x, some (ns, []) =>
      match lookup s.states d, lookup s.states x, ns.mapM String.toNat? with
      | some (dsp, dst), some (ssp, sst), some names =>
        match lookup s.spaces dsp, lookup s.spaces ssp with
        | some dS, some sS =>
          if (!s.fixed && (hasWC dS || hasWC sS)) || isWrapper dS || isWrapper sS then bad
          else
            let r := csdNames dS dst sS sst names
            ({ s with states := insert s.states d (dsp, r.1) }, s!"ok res={r.2.code} atoms={atomsStr dS r.1}")
        | _, _ => bad
      | _, _, _ => bad
    | _, _, _ => bad
  | "ss" :: spid :: spid2 :: _seed :: rest =>
    match spid.toNat?, spid2.toNat?, takeCounted rest with
    | some spid, some spid2, some (xs, []) =>
      match lookup s.spaces spid, lookup s.spaces spid2, xs.mapM String.toNat? with
      | some sp, some sp2, some sids =>
        match sids.mapM (fun i => match lookup s.states i with
            | some (p, st) => if p = spid then some (image sp st) else none
            | none => none) with
        | some imgs =>
            let sig := signature sp
            let recs := storeStates sig imgs
            let loaded := match loadStates sig recs with
              | .ok xs => xs
              | .error _ => []
            let flipped := match recs with
              | .header h :: rest => Rec.header { h with marker := h.marker + 1 } :: rest
              | r => r
            let sigv := if signature sp2 = sig then "same" else verdict (loadStates (signature sp2) recs)
            let rb := if serLen sp = 0 then [] else (List.range imgs.length).map (fun i => (readPrefix ((recs.take (i + 1)).drop 1)).length)
            (s, s!"ok n={loaded.length} imgs={joinOr ";" (loaded.map hex)} marker={verdict (loadStates sig flipped)} " ++
                s!"sig={sigv} rb={natsStr rb} hist=ok")
        | none => bad
      | _, _, _ => bad
    | _, _, _ => bad
  | ["pdnew", spid, cd] =>
    match spid.toNat?, lookup s.spaces (spid.toNat?.getD 0) with
    | some spid, some sp =>
      if serLen sp = 0 then bad
      else if cd = "-" then ({ s with pd := some { space := spid, cdim := none } }, "ok")
      else match cd.toNat? with
        | some c => if c ≥ 1 then ({ s with pd := some { space := spid, cdim := some c } }, "ok") else bad
        | none => bad
    | _, _ => bad
  | ["pdv", sid, tag, ty] =>
    match s.pd, sid.toNat?, tag.toInt? with
    | some pd, some sid, some tag =>
      match lookup s.states sid, lookup s.spaces pd.space with
      | some (p, st), some sp =>
        if p ≠ pd.space || !(ty = "p" || ty = "s" || ty = "g") || tag < -2147483648 || tag ≥ 2147483648 then bad
        else
          let v : Vertex := { tag := tag, img := image sp st }
          let r := if ty = "s" then pd.kg.addStartVertex sid v else if ty = "g" then pd.kg.addGoalVertex sid v
                   else pd.kg.addVertex sid v
          ({ s with pd := some { pd with kg := r.1 } }, s!"idx={r.2}")
      | _, _ => bad
    | _, _, _ => bad
  | ["pdmark", idx, ty] =>
    match s.pd, idx.toNat? with
    | some pd, some idx =>
      if ty = "s" then
        ({ s with pd := some { pd with kg := { pd.kg with g := pd.g.markStart idx } } }, s!"ok={if idx < pd.g.verts.length then 1 else 0}")
      else if ty = "g" then
        ({ s with pd := some { pd with kg := { pd.kg with g := pd.g.markGoal idx } } }, s!"ok={if idx < pd.g.verts.length then 1 else 0}")
      else bad
    | _, _ => bad
  | ["pdtag", idx, tag] =>
    match s.pd, idx.toNat?, tag.toInt? with
    | some pd, some idx, some tag =>
      if tag < -2147483648 || tag ≥ 2147483648 then bad
      else ({ s with pd := some { pd with kg := { pd.kg with g := pd.g.setTag idx tag } } }, s!"ok={if idx < pd.g.verts.length then 1 else 0}")
    | _, _, _ => bad
  | "pde" :: a :: b :: w :: rest =>
    match s.pd, a.toNat?, b.toNat?, w.toNat? with
    | some pd, some a, some b, some w =>
      let ctrl : Option (Option (Nat × List Nat)) :=
        match pd.cdim, rest with
        | none, [] => some none
        | some c, d :: more =>
          match d.toNat?, takeCounted more with
          | some d, some (xs, []) =>
            match xs.mapM String.toNat? with
            | some bits =>
              if bits.length = c && bits.all (· < 18446744073709551616) && d < 18446744073709551616 then
                some (some (d, bits.flatMap (leBytes 8)))
              else none
            | none => none
          | _, _ => none
        | _, _ => none
      match ctrl with
      | some c =>
        if w ≥ 18446744073709551616 then bad
        else
          let r := pd.kg.addEdgeI { src := a, dst := b, weight := w, ctrl := c }
          ({ s with pd := some { pd with kg := r.1 } }, s!"ok={if r.2 then 1 else 0}")
      | none => bad
    | _, _, _, _ => bad
  | ["pdrmv", idx] =>
    match s.pd, idx.toNat? with
    | some pd, some idx =>
      let r := pd.kg.removeVertexI idx
      ({ s with pd := some { pd with kg := r.1 } }, s!"ok={if r.2 then 1 else 0}")
    | _, _ => bad
  | ["pdrme", a, b] =>
    match s.pd, a.toNat?, b.toNat? with
    | some pd, some a, some b =>
      let r := pd.kg.removeEdgeI a b
      ({ s with pd := some { pd with kg := r.1 } }, s!"ok={if r.2 then 1 else 0}")
    | _, _, _ => bad
  | ["pdmarks", sid, ty] =>
    -- markStartState / markGoalState with the caller's state pointer
    match s.pd, sid.toNat? with
    | some pd, some sid =>
      if ty = "s" then
        let r := pd.kg.markStart sid
        ({ s with pd := some { pd with kg := r.1 } }, s!"ok={if r.2 then 1 else 0}")
      else if ty = "g" then
        let r := pd.kg.markGoal sid
        ({ s with pd := some { pd with kg := r.1 } }, s!"ok={if r.2 then 1 else 0}")
      else bad
    | _, _ => bad
  | ["pdtags", sid, tag] =>
    match s.pd, sid.toNat?, tag.toInt? with
    | some pd, some sid, some tag =>
      if tag < -2147483648 || tag ≥ 2147483648 then bad
      else
        let r := pd.kg.tagState sid tag
        ({ s with pd := some { pd with kg := r.1 } }, s!"ok={if r.2 then 1 else 0}")
    | _, _, _ => bad
  | ["pdidx", sid] =>
    match s.pd, sid.toNat? with
    | some pd, some sid =>
      (s, match pd.kg.vertexIndex sid with
          | some i => s!"idx={i}"
          | none => "idx=none")
    | _, _ => bad
  | "pdes" :: s1 :: t1 :: s2 :: t2 :: w :: rest =>
    -- addEdge(const PlannerDataVertex&, const PlannerDataVertex&, edge, weight)
    match s.pd, s1.toNat?, t1.toInt?, s2.toNat?, t2.toInt?, w.toNat? with
    | some pd, some s1, some t1, some s2, some t2, some w =>
      let ctrl : Option (Option (Nat × List Nat)) :=
        match pd.cdim, rest with
        | none, [] => some none
        | some c, d :: more =>
          match d.toNat?, takeCounted more with
          | some d, some (xs, []) =>
            match xs.mapM String.toNat? with
            | some bits =>
              if bits.length = c && bits.all (· < 18446744073709551616) && d < 18446744073709551616 then
                some (some (d, bits.flatMap (leBytes 8)))
              else none
            | none => none
          | _, _ => none
        | _, _ => none
      match ctrl, lookup s.states s1, lookup s.states s2, lookup s.spaces pd.space with
      | some c, some (p1, st1), some (p2, st2), some sp =>
        if p1 ≠ pd.space || p2 ≠ pd.space || w ≥ 18446744073709551616 || t1 < -2147483648 || t1 ≥ 2147483648
            || t2 < -2147483648 || t2 ≥ 2147483648 then bad
        else
          let r := pd.kg.addEdgeV s1 { tag := t1, img := image sp st1 } s2 { tag := t2, img := image sp st2 } w c
          ({ s with pd := some { pd with kg := r.1 } }, s!"ok={if r.2 then 1 else 0} nv={r.1.g.verts.length}")
      | _, _, _, _ => bad
    | _, _, _, _, _, _ => bad
  | ["pdrmvs", sid] =>
    match s.pd, sid.toNat? with
    | some pd, some sid =>
      let r := pd.kg.removeVertexV sid
      ({ s with pd := some { pd with kg := r.1 } }, s!"ok={if r.2 then 1 else 0}")
    | _, _ => bad
  | ["pdrmes", a, b] =>
    match s.pd, a.toNat?, b.toNat? with
    | some pd, some a, some b =>
      let r := pd.kg.removeEdgeV a b
      ({ s with pd := some { pd with kg := r.1 } }, s!"ok={if r.2 then 1 else 0}")
    | _, _, _ => bad
  | ["pdclear"] =>
    match s.pd with
    | some pd => ({ s with pd := some { pd with kg := pd.kg.clear } }, "ok")
    | none => bad
  | ["pddecouple"] =>
    match s.pd with
    | some pd => ({ s with pd := some { pd with kg := pd.kg.decouple } }, "ok")
    | none => bad
  | ["pdextract", _seed] =>
    -- extractStateStorage: the pointer order of stateIndexMap_ is not observable; by `extractStateStorage_isomorphic` the
    -- dump does not depend on it — computed here for two orders, which must (and do) agree
    match s.pd with
    | some pd =>
      let n := pd.g.verts.length
      let a := extractDump pd.g (List.range n)
      let b := extractDump pd.g (List.range n).reverse
      let st := extractStorage pd.g (List.range n)
      let sig := match lookup s.spaces pd.space with
        | some sp => signature sp
        | none => []
      let rt := if loadStatesM sig (storeStatesM sig st) = (st, none) then "same" else "differs"
      if a = b then (s, s!"n={n} X={a} rt={rt}") else (s, "order-dependent")
    | none => bad
  | ["pddump"] =>
    match s.pd with
    | some pd => (s, dumpGraph pd.g)
    | none => bad
  | ["pdstore", spid2, _seed] =>
    match s.pd, spid2.toNat? with
    | some pd, some spid2 =>
      match lookup s.spaces pd.space, lookup s.spaces spid2 with
      | some sp, some sp2 =>
        let sig := signature sp
        let csig := ctrlSig pd.cdim
        let m := pdMarker pd
        let recs := storeGraph m sig csig pd.g
        let flipped := match recs with
          | .header h :: rest => Rec.header { h with marker := h.marker + 1 } :: rest
          | r => r
        let sigv := if signature sp2 = sig then "same" else verdict (loadGraph m (signature sp2) csig recs)
        match loadGraph m sig csig recs with
        | .ok g' =>
          (s, s!"ok=1 {dumpGraph g'} marker={verdict (loadGraph m sig csig flipped)} sig={sigv} restore=same")
        | .error _ => (s, "ok=0")
      | _, _ => bad
    | _, _ => bad
  | "pdctl" :: spid2 :: rest =>
    -- load the stored control archive into PlannerData objects over (same | other state space) × (listed control spaces):
    -- accepted exactly when both signatures match
    match s.pd, spid2.toNat?, takeCounted rest with
    | some pd, some spid2, some (toks, []) =>
      match lookup s.spaces pd.space, lookup s.spaces spid2, pd.cdim, toks.mapM parseCs with
      | some sp, some sp2, some _, some css =>
        let recs := storeGraph markerPDC (signature sp) (ctrlSig pd.cdim) pd.g
        let one := fun (tag : String) (sig : List Int) (tok : String) (c : Cs) =>
          tag ++ tok ++ ":" ++ verdict (loadGraph markerPDC sig (ctrlSignature c) recs)
        let out := (toks.zip css).flatMap (fun tc => [one "s" (signature sp) tc.1 tc.2, one "o" (signature sp2) tc.1 tc.2])
        (s, "t=" ++ joinOr "," out)
      | _, _, _, _ => bad
    | _, _, _ => bad
  | ["pdreload"] =>
    match s.pd with
    | some pd =>
      match lookup s.spaces pd.space with
      | some sp =>
        match loadGraph (pdMarker pd) (signature sp) (ctrlSig pd.cdim)
            (storeGraph (pdMarker pd) (signature sp) (ctrlSig pd.cdim) pd.g) with
        | .ok g' => (s, s!"ok=1 {dumpGraph g'}")
        | .error _ => (s, "ok=0")
      | none => bad
    | none => bad
  | ["pdcross"] =>
    match s.pd with
    | some pd =>
      match lookup s.spaces pd.space with
      | some sp =>
        let recs := storeGraph (pdMarker pd) (signature sp) (ctrlSig pd.cdim) pd.g
        let otherM := if pd.cdim.isSome then markerPD else markerPDC
        let otherC : List Int := if pd.cdim.isSome then [] else [2, 1, 1]
        (s, s!"cross={verdict (loadGraph otherM (signature sp) otherC recs)}")
      | none => bad
    | none => bad
  | _ => bad

/-- a coupled vertex shows what the caller's state object holds *now*: before every `pd…` operation the graph is
refreshed from the state table (`KGraph.refresh`); decoupled vertices keep their image -/
def step (s : S) (ts : List String) : S × String :=
  match ts, s.pd with
  | op :: _, some pd =>
    if op.startsWith "pd" then stepCore { s with pd := some { pd with kg := pd.kg.refresh (stateTbl s) } } ts
    else stepCore s ts
  | _, _ => stepCore s ts

def init (ts : List String) : Option S :=
  match ts with
  | "copy" :: opts =>
    -- `wc=ub|fixed` selects the value-location variant; `names=spaced` only changes how the harness spells names
    if opts.all (fun o => o = "wc=ub" || o = "wc=fixed" || o = "names=spaced") && opts.length ≤ 2 then
      some { fixed := opts.contains "wc=fixed" }
    else none
  | _ => none

end OmplModel.Driver.CopyDrv
