import OmplModel.Model.RRTstar
import OmplModel.Model.Soln
import OmplModel.Driver.Common
/-! Line-protocol driver for the RRT* model.

```
rrtstar dim=<d> obj=<len|work> maxdist=<f> krrt=<f> gbias=<f> gthr=<f> thr=<f> goal=<f,f,..>
start <d> <f>*d          -> ok n=<k>
u01 <k> <f>*k            -> ok        (planner rng_.uniform01() draws, from the twin RNG)
smp <k> <f>*k            -> ok        (sampleUniform results, k = count*dim coordinates)
ans <k> <0|1>*k          -> ok        (checkMotion answers, in call order)
begin                    -> ok        (start of a solve() call)
it                       -> it=<iterations> n=<motions> par=<idx|-> cost=<f|-> ng=<k> bg=<idx|-> best=<f>
                            q=<queries> qh=<hash> th=<tree hash> brk=<0|1> tie=<0|1> starved=<0|1> fuel=<0|1>
rep                      -> rep none | rep approx=<0|1> diff=<f> stored=<f> opt=<0|1> plen=<k> ph=<hash> true=<f>
tree                     -> n=<k> <idx:parent:cost:inc:children:inGoal:state>*k
```
-/
namespace OmplModel.Driver.RRTstarDrv
open OmplModel.RRTstar OmplModel.Driver

abbrev Pt := List Float

/-- the environment the harness plans in, for RECOMPUTING the `checkMotion` answers the script carries:
`DiscreteMotionValidator::checkMotion(s1, s2)` on a RealVector space with box obstacles is
`isValid(s2) && all j in 1..nd-1: isValid(interpolate(s1, s2, j/nd))`, `nd = validSegmentCount(s1, s2) =
ceil(distance / longestValidSegment)` (count factor 1; the bisection order of the real code does not matter for
the answer); a state is invalid iff it lies in a closed box. -/
structure Val where
  lvs : Float
  boxes : List (List (Float × Float))

def validPt (v : Val) (p : Pt) : Bool :=
  !(v.boxes.any (fun b => (b.zip p).all (fun q => !(q.2 < q.1.1 || q.2 > q.1.2))))

def dmvCheck (v : Val) (a b : Pt) : Bool :=
  if !validPt v b then false
  else
    let nd := (Float.ceil (OmplModel.Soln.rvDist a b / v.lvs)).toUInt32.toNat
    (List.range (nd - 1)).all (fun k => validPt v (OmplModel.Soln.rvInterp a b (Float.ofNat (k + 1) / Float.ofNat nd)))

structure DSt where
  obj : Obj Pt Float
  sp : Space Pt Float
  dim : Nat
  st : St Pt Float Float
  prevN : Nat := 0
  val : Option Val := none

def kv (pre : String) (t : String) : Option String :=
  if t.startsWith pre then some (t.drop pre.length).toString else none

def fLt (a b : Float) : Bool := a < b

def mkObj (kind : String) (thr : Float) : Option (Obj Pt Float) :=
  match kind with
  | "len" => some { identity := 0.0, infinite := 1.0 / 0.0, combine := (· + ·), better := fLt,
                    motionCost := OmplModel.Soln.rvDist, symmetric := true, threshold := thr }
  | "work" => some { identity := 0.0, infinite := 1.0 / 0.0, combine := (· + ·), better := fLt,
                     motionCost := OmplModel.Soln.mcWork 0.5 (OmplModel.Soln.field 1), symmetric := false, threshold := thr }
  | _ => none

def pairsOf : List Float → List (Float × Float)
  | a :: b :: rest => (a, b) :: pairsOf rest
  | _ => []

def parseBoxes? (spec : String) : Option (List (List (Float × Float))) :=
  if spec == "-" then some []
  else (spec.splitOn "|").mapM (fun b => do
    let xs ← (b.splitOn ",").mapM parseFloatBits?
    pure (pairsOf xs))

def initCore (ts : List String) : Option DSt :=
  match ts with
  | ["rrtstar", d, o, md, kr, gb, gt, th, g] => do
    let d ← (kv "dim=" d) >>= parseNat?
    let o ← kv "obj=" o
    let md ← (kv "maxdist=" md) >>= parseFloatBits?
    let kr ← (kv "krrt=" kr) >>= parseFloatBits?
    let gb ← (kv "gbias=" gb) >>= parseFloatBits?
    let gt ← (kv "gthr=" gt) >>= parseFloatBits?
    let th ← (kv "thr=" th) >>= parseFloatBits?
    let g ← (kv "goal=" g)
    let goal ← (g.splitOn ",").mapM parseFloatBits?
    if d = 0 ∨ goal.length ≠ d then none
    else
      let obj ← mkObj o th
      let sp : Space Pt Float :=
        { dist := OmplModel.Soln.rvDist, dlt := fLt,
          steer := fun a b dd => OmplModel.Soln.rvInterp a b (md / dd),
          maxDistance := md, goalDist := fun s => OmplModel.Soln.rvDist s goal, goalThr := gt, goalState := goal,
          maxGoalSamples := 1, goalBias := gb,
          kNearest := fun n => (Float.ceil (kr * Float.log (Float.ofNat (n + 1)))).toUInt32.toNat,
          dinf := 1.0 / 0.0 }
      pure { obj := obj, sp := sp, dim := d, st := St.init obj sp }
  | _ => none

/-- header with (11 tokens) or without (9 tokens) the environment for the `checkMotion` recomputation. -/
def initEnv (ts : List String) : Option DSt :=
  match ts with
  | [a, d, o, md, kr, gb, gt, th, g, lv, bx] => do
    let core ← initCore [a, d, o, md, kr, gb, gt, th, g]
    let lvs ← (kv "lvs=" lv) >>= parseFloatBits?
    let boxes ← (kv "boxes=" bx) >>= parseBoxes?
    pure { core with val := some { lvs := lvs, boxes := boxes } }
  | _ => initCore ts

/-- an optional last token `dcc=0|0old|1` selects the choose-parent loop (`delayCC_`; absent = 1, the default). -/
def init (ts : List String) : Option DSt :=
  match ts.getLast? >>= kv "dcc=" with
  | some "1" => initEnv ts.dropLast
  | some "0" => (initEnv ts.dropLast).map (fun d =>
      let sp := { d.sp with delayCC := false }
      { d with sp := sp, st := St.init d.obj sp })
  | some "0old" => (initEnv ts.dropLast).map (fun d =>
      -- the classic loop as coded before fix e1b5ec649 (trees that do not have it)
      let sp := { d.sp with delayCC := false, classicOld := true }
      { d with sp := sp, st := St.init d.obj sp })
  | some _ => none
  | none => initEnv ts

def C1 : UInt64 := 0x9E3779B97F4A7C15
def C2 : UInt64 := 0xBF58476D1CE4E5B9
def C3 : UInt64 := 0x94D049BB133111EB
def C4 : UInt64 := 0xD6E8FEB86659FD93
def C5 : UInt64 := 0xA24BAED4963EE407
def FNV : UInt64 := 0x100000001B3

def parentCode (p : Option Nat) : UInt64 :=
  match p with
  | none => 1
  | some i => i.toUInt64 + 2

def motionHash (i : Nat) (m : Motion Pt Float) : UInt64 :=
  let ch := m.children.foldl (fun (h : UInt64) c => h * 31 + (c.toUInt64 + 1)) 7
  ((i.toUInt64 + 1) * C1) ^^^ (parentCode m.parent * C2) ^^^ (m.cost.toBits * C3) ^^^ (m.incCost.toBits * C4) ^^^
    (ch * C5) ^^^ (if m.inGoal then 0x5555 else 0)

def treeHash (ms : Array (Motion Pt Float)) : UInt64 :=
  ((List.range ms.size).zip ms.toList).foldl (fun h p => h + motionHash p.1 p.2) 0

def ptHash (h : UInt64) (p : Pt) : UInt64 := p.foldl (fun h x => (h ^^^ x.toBits) * FNV) h

def queryHash (qs : List (Pt × Pt)) : UInt64 :=
  qs.foldl (fun h q => ptHash (ptHash h q.1) q.2) 0xCBF29CE484222325

def bit (b : Bool) : String := if b then "1" else "0"

def optIdx (o : Option Nat) : String :=
  match o with
  | some i => toString i
  | none => "-"

def digest (d : DSt) (s : St Pt Float Float) : String :=
  let added := s.motions.size > d.prevN
  let last := if added then s.motions[s.motions.size - 1]? else none
  let par := match last with
    | some m => optIdx m.parent
    | none => "-"
  let cost := match last with
    | some m => floatBits m.cost
    | none => "-"
  s!"it={s.iterations} n={s.motions.size} par={par} cost={cost} ng={s.goalMotions.length} bg={optIdx s.bestGoal} " ++
  s!"best={floatBits s.bestCost} q={s.queries.length} qh={queryHash s.queries} th={treeHash s.motions} " ++
  s!"brk={bit (shouldBreak d.obj s)} tie={bit s.tie} starved={bit s.starved} fuel={bit s.fuelOut}"

def showMotion (i : Nat) (m : Motion Pt Float) : String :=
  let ch := if m.children.isEmpty then "-" else ",".intercalate (m.children.map toString)
  s!"{i}:{optIdx m.parent}:{floatBits m.cost}:{floatBits m.incCost}:{ch}:{bit m.inGoal}:" ++
    ",".intercalate (m.state.map floatBits)

def parseFloats? (ts : List String) : Option (List Float) := ts.mapM parseFloatBits?

def chunk (n : Nat) : Nat → List Float → List Pt
  | 0, _ => []
  | k + 1, xs => xs.take n :: chunk n k (xs.drop n)

def pathTrueCost (o : Obj Pt Float) (p : List Pt) : Float :=
  let A : OmplModel.Soln.CostAlg Float := ⟨o.identity, o.combine, o.better⟩
  OmplModel.Soln.pathCost A o.motionCost (fun _ => o.identity) (fun _ => o.identity) p

def step (d : DSt) (ts : List String) : DSt × String :=
  match ts with
  | "start" :: rest =>
    match takeCounted rest with
    | some (xs, []) =>
      match parseFloats? xs with
      | some p =>
        if p.length = d.dim then
          let st := d.st.addStart d.obj p
          ({ d with st := st, prevN := st.motions.size }, s!"ok n={st.motions.size}")
        else (d, "bad-op")
      | none => (d, "bad-op")
    | _ => (d, "bad-op")
  | "u01" :: rest =>
    match takeCounted rest with
    | some (xs, []) =>
      match parseFloats? xs with
      | some us => ({ d with st := { d.st with u01s := d.st.u01s ++ us } }, "ok")
      | none => (d, "bad-op")
    | _ => (d, "bad-op")
  | "smp" :: rest =>
    match takeCounted rest with
    | some (xs, []) =>
      match parseFloats? xs with
      | some cs =>
        if cs.length % d.dim = 0 then
          ({ d with st := { d.st with samples := d.st.samples ++ chunk d.dim (cs.length / d.dim) cs } }, "ok")
        else (d, "bad-op")
      | none => (d, "bad-op")
    | _ => (d, "bad-op")
  | "ans" :: rest =>
    match takeCounted rest with
    | some (xs, []) =>
      if xs.all (fun x => x == "0" || x == "1") then
        ({ d with st := { d.st with answers := d.st.answers ++ xs.map (fun x => x == "1") } }, "ok")
      else (d, "bad-op")
    | _ => (d, "bad-op")
  | ["begin"] => ({ d with st := beginSolve d.sp d.st }, "ok")
  | ["it"] =>
    let d0 := { d with prevN := d.st.motions.size }
    let st := iterate d.obj d.sp d.st
    -- the answers this pass consumed, checked against the model's own DiscreteMotionValidator
    let cmx := match d.val with
      | none => 0
      | some v => ((st.queries.zip d.st.answers).filter (fun (qa : (Pt × Pt) × Bool) => dmvCheck v qa.1.1 qa.1.2 != qa.2)).length
    ({ d0 with st := st }, digest d0 st ++ s!" cmx={cmx} stl={bit st.staleInc}")
  | ["rep"] =>
    match report d.obj d.st with
    | none => (d, "rep none")
    | some r =>
      (d, s!"rep approx={bit r.approximate} diff={if r.approximate then floatBits r.difference else "-"} stored={floatBits r.storedCost} " ++
          s!"opt={bit r.optimized} plen={r.path.length} ph={r.path.foldl ptHash 0xCBF29CE484222325} " ++
          s!"true={floatBits (pathTrueCost d.obj r.path)}")
  | ["tree"] =>
    (d, joinSp (s!"n={d.st.motions.size}" :: ((List.range d.st.motions.size).zip d.st.motions.toList).map
      (fun p => showMotion p.1 p.2)))
  | "sorttest" :: rest =>
    -- self-test of the std::sort port: sort the indices 0..k-1 by integer key with `<`
    match takeCounted rest with
    | some (xs, []) =>
      match parseInts? xs with
      | some ks =>
        let ka := ks.toArray
        let (r, h) := stdSort (fun i j => match ka[i]?, ka[j]? with
          | some a, some b => decide (a < b)
          | _, _ => false) (Array.range ks.length)
        (d, joinSp ((if h then "heap" else "sorted") :: r.toList.map toString))
      | none => (d, "bad-op")
    | _ => (d, "bad-op")
  | _ => (d, "bad-op")

end OmplModel.Driver.RRTstarDrv
