import OmplModel.Model.SpaceBounds
import OmplModel.Driver.SpaceIO
import OmplModel.Model.Rng
/-!
Line-protocol driver of the C08 model (header `spacebounds …`; the header's `seed=` is for the harness's RNG only).

  enf <space> <state>
      -> `sat=<b> sat2=<b> | <enforced state> | <twice enforced state>`
  psamp <space> <projection result>
      -> `sat=<b> | <returned state>`   (ProjectedStateSampler: the recorded projection result, then enforceBounds)
  msamp <u|n|g> <dist> <nu> <u>*nu <ng> <g>*ng <space> <centre>          (model only: raw draws are inputs)
      -> `sat=<b> ui=<n> gi=<n> | <sampled state>`
  subs <u|n|g> <plen> <k>*plen <dist> <space> <state> <near> <scripted substate>
      -> `out=<full state> | call=<U|N|G> d=<distance given to the inner sampler> near=<substate given to it>`
  det <so2|rv|se2> <halton|list|file> <n> <m> <value>*m <space>
      -> `<state> ; <state> ; …`  (n calls of sampleUniform of the deterministic samplers; Halton as coded)
  hn <int|real> <rmin> <rmax> <focus> <s0> <s1> <s2> <s3>
      -> `r=<int or double bits> g=<gaussian01 draw>` (the draw through C20's OmplModel.Rng: MT state words -> polar method)
  uint <h|s|c> <lo> <hi> <s0> <s1>
      `RNG::uniformInt(lo, hi)` on the draw that `std::mt19937` + `uniform_real_distribution` (C20's model:
      OmplModel.Rng.MT / uni01) produce from the state words s0, s1 (index 0, no twist)
      -> `r=<int> u=<draw> nc=<result without the final clamp>`
  cmps <u|n|g> <dist> <compound space> <near>
      -> `calls=<U|N:<distance>|G:<sigma>>,…`  (what CompoundStateSampler asks of each direct component: `nearBranch`,
         `sd * importance` of the model)
  rsamp <u|n|g> <dist> <nu> <u>*nu <ng> <g>*ng <space> <centre>     (raw draws replicated by the harness's `rawu`)
      -> `<found:j|threw:j|exhausted|direct> | <sampled state>`   (Torus / Klein uniform through their rejection loops)
  vs <uniform|gaussian|obstacle|bridge|maxclear|minclear> <s|n> <attempts> <improve> <clearance> <nd> <dim>
     <ns> <sample>*ns <na> (<valid:0|1> <clearance>)*na
      -> `ret=<b> st=<x,…> ns=<sampler calls> na=<isValid calls> calls=<U|N|G…> log=<x,…:v;…>` (oldest first)
  vsa <name> <s|n> <via:d|p> <attempts> <improve> <clearance> <nd> <dim> <lo>*dim <hi>*dim <stddev|-> <dist> <near>*dim
      <ns> <sample>*ns <na> (<valid:0|1> <clearance>)*na
      the same on R^dim with the given bounds, with the ARGUMENTS of every inner-sampler call: `-` = the constructor's
      default `stddev_ = getMaximumExtent() * 0.1` (`defaultStdDev`); `via` is for the harness only (direct setters or ParamSet)
      -> `ret= st= ns= na= calls=<U|N:<near>@<distance>|G:<mean>@<sigma>>;… log=…`
  svn <1|2> <name> <via> <attempts> <improve> <clearance> <nd> <alias:0|1> <dim> <lo>*dim <hi>*dim <stddev|-> <dist>
      <near>*dim <ns> <sample>*ns <na> (<valid> <clearance>)*na
      SpaceInformation::searchValidNearby: overload 1 `(sampler, state, near, distance)` with the named valid-state sampler,
      overload 2 `(state, near, distance, attempts)` (name must be `uniform`); `near` may be out of bounds (enforced);
      `alias` (state == near) is for the harness only
      -> as `vsa`
-/
namespace OmplModel.Driver.SpaceBoundsDrv
open OmplModel OmplModel.Driver OmplModel.SpaceBounds

abbrev St := Unit

def init (ts : List String) : Option St :=
  match ts with
  | "spacebounds" :: _ => some ()
  | _ => none

/-- a wrapper around a compound-type space somewhere in the space (the harness refuses to build location tables for
those: OMPL's computeLocationsHelper static_casts such a wrapper to CompoundStateSpace) -/
def isCompoundKind : Space Float → Bool
  | .cnil | .ccons .. | .torus .. | .mobius .. | .klein | .sphere _ => true
  | .wrap s => isCompoundKind s
  | _ => false

def hasWrappedCompound : Space Float → Bool
  | .wrap s => isCompoundKind s || hasWrappedCompound s
  | .ccons _ h t => hasWrappedCompound h || hasWrappedCompound t
  | _ => false

def b01 (b : Bool) : String := if b then "1" else "0"

def showSt (s : OmplModel.St Float) : String := joinSp (showState s)

def pCounted (r : List String) : Option (List Float × List String) := do
  let (n, r) ← pNat r
  pFloats n r

def getD (xs : Array Float) (k : Nat) : Float := xs.getD k 0.0

/-- R^n interpolate as coded (the model's `rvInterp`: `from + (to - from) * t`), `t = (double)j / (double)nd` -/
def rnInterp (a b : List Float) (j nd : Nat) : List Float := rvInterp (Float.ofNat j / Float.ofNat nd) a b

/-- `interpolate(endpoint, state, 0.5, state)` -/
def rnMid (e x : List Float) : List Float := rvInterp 0.5 e x

def showVec (xs : List Float) : String := ",".intercalate (xs.map floatBits)

abbrev VCall := Call (List Float) Float

def showCall : VCall → String
  | .uniform => "U" | .near _ _ => "N" | .gauss _ _ => "G"

/-- a call with its arguments: `U`, `N:<near>@<distance>`, `G:<mean>@<sigma>` -/
def showCallA : VCall → String
  | .uniform => "U"
  | .near c d => s!"N:{showVec c}@{floatBits d}"
  | .gauss m sd => s!"G:{showVec m}@{floatBits sd}"

def pStates (dim : Nat) : Nat → P (List (List Float))
  | 0, r => some ([], r)
  | n + 1, r => do
    let (x, r) ← pFloats dim r
    let (xs, r) ← pStates dim n r
    pure (x :: xs, r)

def pAnswers : Nat → P (List (Bool × Float))
  | 0, r => some ([], r)
  | n + 1, r => do
    let (v, r) ← pNat r
    let (c, r) ← pFloat r
    let (xs, r) ← pAnswers n r
    if v > 1 then none else pure ((v == 1, c) :: xs, r)

abbrev VR := VRes (List Float) Float Float
abbrev VOS := OS (List Float) Float Float

/-- one valid-state sampler call: `c` = the first-loop call, `sd` = sigma of the Gaussian / BridgeTest inner draw -/
def vssCall (o : Orc (List Float) Float Float) (name : String) (attempts improve : Nat) (clr : Float) (nd : Nat)
    (c : VCall) (sd : Float) (s : VOS) : Option VR :=
  let n := attempts - 1
  let lt : Float → Float → Bool := fun a b => a < b
  match name with
  | "uniform" => some (uniformV o c n s)
  | "gaussian" => some (gaussV o c sd n s)
  | "obstacle" => some (obstacleV o (fun _ _ => nd) rnInterp c n s)
  | "bridge" => some (bridgeV o rnMid c sd n s)
  | "maxclear" => some (maxClearV o lt c n improve s)
  | "minclear" => some (minClearV o lt clr c n s)
  | _ => none

def mkOrc (samples : Array (List Float)) (answers : Array (Bool × Float)) : Orc (List Float) Float Float :=
  ⟨fun k _ => samples.getD k [], fun k => answers.getD k (false, 0.0)⟩

/-- `sample` (`sd` = stddev_) or `sampleNear(state, near, dist)` (`sd` = dist, as coded) -/
def runVs (name mode : String) (attempts improve : Nat) (clr : Float) (nd : Nat) (stddev dist : Float) (near : List Float)
    (samples : Array (List Float)) (answers : Array (Bool × Float)) : Option VR :=
  let o := mkOrc samples answers
  match mode with
  | "s" => vssCall o name attempts improve clr nd .uniform stddev {}
  | "n" => vssCall o name attempts improve clr nd (.near near dist) dist {}
  | _ => none

def knownVss (name : String) : Bool :=
  name == "uniform" || name == "gaussian" || name == "obstacle" || name == "bridge" || name == "maxclear" ||
    name == "minclear"

/-- SpaceInformation::searchValidNearby on R^dim with bounds `lo`, `hi` -/
def runSvn (overload : Nat) (name : String) (attempts improve : Nat) (clr : Float) (nd : Nat) (lo hi : List Float)
    (dist : Float) (near : List Float) (samples : Array (List Float)) (answers : Array (Bool × Float)) : Option VR :=
  let o := mkOrc samples answers
  let sat : List Float → Bool := rvSat lo hi
  let enf : List Float → List Float := rvEnforce lo hi
  match overload with
  | 1 =>
    if !knownVss name then none else
    -- `sampler->sampleNear(state, temp, distance)`: the Gaussian / BridgeTest inner sigma is the distance
    let vss := fun (c : List Float) (d : Float) (s : VOS) =>
      (vssCall o name attempts improve clr nd (.near c d) d s).getD ⟨false, c, s⟩
    some (searchNearbyV o sat enf vss near dist {})
  | 2 => if name != "uniform" then none else some (searchNearbyAttempts o sat enf near dist attempts {})
  | _ => none

def showVR (res : VR) (withArgs : Bool) : String :=
  let calls :=
    if withArgs then ";".intercalate (res.os.calls.reverse.map showCallA)
    else String.join (res.os.calls.reverse.map showCall)
  let log := ";".intercalate (res.os.log.reverse.map (fun e => showVec e.1 ++ ":" ++ b01 e.2.1))
  s!"ret={b01 res.ok} st={showVec res.st} ns={res.os.si} na={res.os.ai} calls={calls} log={log}"

/-- the common tail of `vsa` / `svn`: `<dim> <lo>*dim <hi>*dim <stddev|-> <dist> <near>*dim <ns> … <na> …` -/
def pVTail (r : List String) :
    Option (List Float × List Float × Float × Float × List Float × Array (List Float) × Array (Bool × Float)) := do
  let (dim, r) ← pNat r
  let (lo, r) ← pFloats dim r
  let (hi, r) ← pFloats dim r
  let (sd, r) ← match r with
    | "-" :: r => some (defaultStdDev lo hi, r)
    | r => pFloat r
  let (dist, r) ← pFloat r
  let (near, r) ← pFloats dim r
  let (ns, r) ← pNat r
  let (samples, r) ← pStates dim ns r
  let (na, r) ← pNat r
  let (answers, r) ← pAnswers na r
  if r.isEmpty && dim ≥ 1 then pure (lo, hi, sd, dist, near, samples.toArray, answers.toArray) else none

def step (st : St) (ts : List String) : St × String :=
  match ts with
  | "enf" :: r =>
    match pSpace r with
    | some (sp, r) =>
      match pState sp r with
      | some (s, []) =>
        if !sp.wellTyped s then (st, "bad-op") else
        let e1 := enforceBounds sp s
        let e2 := enforceBounds sp e1
        (st, s!"sat={b01 (satisfiesBounds sp s)} sat2={b01 (satisfiesBounds sp e1)} | {showSt e1} | {showSt e2}")
      | _ => (st, "bad-op")
    | none => (st, "bad-op")
  | "psamp" :: r =>
    -- ProjectedStateSampler / AtlasStateSampler: the recorded projection result, then the clamp (`projectedSample`)
    match pSpace r with
    | some (sp, r) =>
      match pState sp r with
      | some (proj, []) =>
        if !sp.wellTyped proj then (st, "bad-op") else
        let out := projectedSample sp (fun _ => proj) proj
        (st, s!"sat={b01 (satisfiesBounds sp out)} | {showSt out}")
      | _ => (st, "bad-op")
    | none => (st, "bad-op")
  | "msamp" :: kind :: r =>
    match (do
      let (d, r) ← pFloat r
      let (us, r) ← pCounted r
      let (gs, r) ← pCounted r
      let (sp, r) ← pSpace r
      let (c, r) ← pState sp r
      if r.isEmpty then pure (d, us.toArray, gs.toArray, sp, c) else none) with
    | some (d, us, gs, sp, c) =>
      let R : Rng Float := ⟨getD us, getD gs⟩
      let res : Option (OmplModel.St Float × Pos) :=
        match kind with
        | "u" => some (sampleUniform R sp {})
        | "n" => some (sampleNear R none sp c d {})
        | "g" => some (sampleGauss R none sp c d {})
        | _ => none
      match res with
      | some (s, p) =>
        if p.ui > us.size || p.gi > gs.size then (st, "short")
        else (st, s!"sat={b01 (satisfiesBounds sp s)} ui={p.ui} gi={p.gi} | {showSt s}")
      | none => (st, "bad-op")
    | none => (st, "bad-op")
  | "subs" :: kind :: r =>
    match (do
      let (plen, r) ← pNat r
      let rec pPath : Nat → List String → Option (List Nat × List String)
        | 0, r => some ([], r)
        | n + 1, r => do
          let (k, r) ← pNat r
          let (ks, r) ← pPath n r
          pure (k :: ks, r)
      let (path, r) ← pPath plen r
      let (d, r) ← pFloat r
      let (sp0, r) ← pSpace r
      -- a TOP-LEVEL wrapper is transparent for a non-empty path: WrapperStateSpace::allocSubspaceStateSampler forwards to
      -- the wrapped space (same weight convention) and, as proposed for finding F168, must hand the wrapped STATES to it
      let rec strip : Space Float → Space Float
        | .wrap s => strip s
        | s => s
      let wrappedTop := false
      let sp := if (match sp0 with | .wrap _ => true | _ => false) && !path.isEmpty then strip sp0 else sp0
      if !validPath sp path then none else
      -- a wrapper as the sampled subspace has no common substate names with its parent (OMPL: "Sampling will have
      -- no effect"); not modelled, rejected on both sides
      if (match subAt sp path with | .wrap _ => true | _ => false) then none else
      let (s0, r) ← pState sp r
      let (near, r) ← pState sp r
      let (w, r) ← pState (subAt sp path) r
      if r.isEmpty then pure (path, (if wrappedTop then d else d * subWeight sp path), sp, s0, near, w) else none) with
    | some (path, dw, sp, s0, near, w) =>
      let out := showSt (setAt s0 path w)
      match kind with
      | "u" => (st, s!"out={out} | call=U d=- near=-")
      | "n" => (st, s!"out={out} | call=N d={floatBits dw} near={showSt (getAt near path)}")
      | "g" => (st, s!"out={out} | call=G d={floatBits dw} near={showSt (getAt near path)}")
      | _ => (st, "bad-op")
    | none => (st, "bad-op")
  | "det" :: which :: seq :: r =>
    match (do
      let (n, r) ← pNat r
      let (m, r) ← pNat r
      let (vals, r) ← pFloats m r
      let (sp, r) ← pSpace r
      if r.isEmpty then pure (n, vals.toArray, sp) else none) with
    | some (n, vals, sp) =>
      let dimOk : Option (Nat × (List Float → OmplModel.St Float)) :=
        match which, sp with
        | "so2", .so2 => some (1, fun p => .so2 (detSO2 (p.headD 0.0)))
        | "rv", .rv lo hi => if lo.length ≥ 1 then some (lo.length, fun p => .rv (detRv lo hi p)) else none
        | "se2", .ccons _ (.rv lo hi) (.ccons _ .so2 .cnil) =>
          if lo.length == 2 then
            some (3, fun p => .ccons (.rv (detRv lo hi (p.take 2))) (.ccons (.so2 (detSO2 (p.getD 2 0.0))) .cnil))
          else none
        | _, _ => none
      match dimOk with
      | none => (st, "bad-op")
      | some (dim, mk) =>
        if (seq != "halton" && seq != "list" && seq != "file") || (seq != "halton" && vals.size < 1) ||
            (seq == "file" && vals.size % dim != 0) then (st, "bad-op")
        else
          let point (q : Nat) : List Float :=
            if seq == "halton" then haltonPoint dim q
            else if seq == "list" then (List.range dim).map (fun j => vals.getD ((q * dim + j) % vals.size) 0.0)
            else
              -- PrecomputedSequence: rows of the file, wrapping around to the first row when exhausted
              let rows := vals.size / dim
              (List.range dim).map (fun j => vals.getD ((q % rows) * dim + j) 0.0)
          (st, " ; ".intercalate ((List.range n).map (fun q => showSt (mk (point q)))))
    | none => (st, "bad-op")
  | ["hn", kind, lo, hi, focus, s0, s1, s2, s3] =>
    match parseInt? lo, parseInt? hi, parseFloatBits? focus, [s0, s1, s2, s3].mapM parseNat? with
    | some lo, some hi, some focus, some ws =>
      if (kind != "int" && kind != "real") || ws.any (· ≥ 4294967296) || lo < -2147483648 || hi > 2147483647 || hi < lo
      then (st, "bad-op")
      else
        let rng : OmplModel.Rng.Rng :=
          { localSeed := 0, gen := { x := (ws.map Nat.toUInt32).toArray, p := 0 }, savedAvail := false, saved := 0.0 }
        match rng.normal.1 with
        | none => (st, "short")
        | some g =>
          if kind == "int" then (st, s!"r={halfNormalInt lo hi focus g} g={floatBits g}")
          else (st, s!"r={floatBits (halfNormalReal (Float.ofInt lo) (Float.ofInt hi) focus g)} g={floatBits g}")
    | _, _, _, _ => (st, "bad-op")
  | ["uint", mode, lo, hi, s0, s1] =>
    match parseInt? lo, parseInt? hi, parseNat? s0, parseNat? s1 with
    | some lo, some hi, some s0, some s1 =>
      if (mode != "h" && mode != "s" && mode != "c") || s0 ≥ 4294967296 || s1 ≥ 4294967296 ||
          lo < -2147483648 || hi > 2147483647 || hi < lo then (st, "bad-op")
      else
        let g : OmplModel.Rng.MT := { x := #[s0.toUInt32, s1.toUInt32], p := 0 }
        let u := (OmplModel.Rng.uni01 g).1
        (st, s!"r={uniformInt lo hi u} u={floatBits u} nc={uniformIntNoClamp lo hi u}")
    | _, _, _, _ => (st, "bad-op")
  | "cmps" :: kind :: r =>
    match (do
      let (d, r) ← pFloat r
      let (sp, r) ← pSpace r
      let (_, r) ← pState sp r
      if r.isEmpty then pure (d, sp) else none) with
    | some (d, sp) =>
      let ws := weightSum sp (Num.ofNat 0)
      let rec comps : Space Float → Option (List Float)
        | .cnil => some []
        | .ccons w _ t => (comps t).map (w :: ·)
        | _ => none
      match comps sp, kind with
      | some wl, "u" => (st, "calls=" ++ ",".intercalate (wl.map (fun _ => "U")))
      | some wl, "n" =>
        (st, "calls=" ++ ",".intercalate (wl.map (fun w =>
          match nearBranch ws w d with
          | some d' => "N:" ++ floatBits d'
          | none => "U")))
      | some wl, "g" => (st, "calls=" ++ ",".intercalate (wl.map (fun w => "G:" ++ floatBits (d * importance ws w))))
      | _, _ => (st, "bad-op")
    | none => (st, "bad-op")
  | "rsamp" :: kind :: r =>
    match (do
      let (d, r) ← pFloat r
      let (us, r) ← pCounted r
      let (gs, r) ← pCounted r
      let (sp, r) ← pSpace r
      let (c, r) ← pState sp r
      if r.isEmpty then pure (d, us.toArray, gs.toArray, sp, c) else none) with
    | some (d, us, gs, sp, c) =>
      let R : Rng Float := ⟨getD us, getD gs⟩
      let showRes : RejRes → String
        | .found j => s!"found:{j}"
        | .threw j => s!"threw:{j}"
        | .exhausted => "exhausted"
      match kind, sp with
      | "u", .torus Rr rr =>
        let res := torusUniformRej R Rr rr (us.size / 3) {}
        (st, s!"{showRes res.1} | {match res.2 with | some x => showSt x.1 | none => "-"}")
      | "u", .klein =>
        let res := kleinUniformRej R (us.size / 3) {}
        (st, s!"{showRes res.1} | {match res.2 with | some x => showSt x.1 | none => "-"}")
      | "u", _ => (st, s!"direct | {showSt (sampleUniform R sp {}).1}")
      | "n", _ => (st, s!"direct | {showSt (sampleNear R none sp c d {}).1}")
      | "g", _ => (st, s!"direct | {showSt (sampleGauss R none sp c d {}).1}")
      | _, _ => (st, "bad-op")
    | none => (st, "bad-op")
  | ["vs"] => (st, "bad-op")
  | "vs" :: name :: mode :: r =>
    match (do
      let (attempts, r) ← pNat r
      let (improve, r) ← pNat r
      let (clr, r) ← pFloat r
      let (nd, r) ← pNat r
      let (dim, r) ← pNat r
      let (ns, r) ← pNat r
      let (samples, r) ← pStates dim ns r
      let (na, r) ← pNat r
      let (answers, r) ← pAnswers na r
      if r.isEmpty && nd ≥ 1 then pure (attempts, improve, clr, nd, dim, samples.toArray, answers.toArray) else none) with
    | some (attempts, improve, clr, nd, dim, samples, answers) =>
      -- legacy form: bounds ±1e6, default stddev_, `sampleNear(state, 0, 1.0)`; the arguments are not printed
      let lo := List.replicate dim (-1000000.0)
      let hi := List.replicate dim 1000000.0
      match runVs name mode attempts improve clr nd (defaultStdDev lo hi) 1.0 (List.replicate dim 0.0) samples answers with
      | some res =>
        if res.os.si > samples.size || res.os.ai > answers.size then (st, "short") else (st, showVR res false)
      | none => (st, "bad-op")
    | none => (st, "bad-op")
  | "vsa" :: name :: mode :: via :: r =>
    match (do
      let (attempts, r) ← pNat r
      let (improve, r) ← pNat r
      let (clr, r) ← pFloat r
      let (nd, r) ← pNat r
      let t ← pVTail r
      if nd ≥ 1 && (via == "d" || via == "p") then pure (attempts, improve, clr, nd, t) else none) with
    | some (attempts, improve, clr, nd, (_, _, sd, dist, near, samples, answers)) =>
      match runVs name mode attempts improve clr nd sd dist near samples answers with
      | some res =>
        if res.os.si > samples.size || res.os.ai > answers.size then (st, "short") else (st, showVR res true)
      | none => (st, "bad-op")
    | none => (st, "bad-op")
  | "svn" :: ov :: name :: via :: r =>
    match (do
      let (attempts, r) ← pNat r
      let (improve, r) ← pNat r
      let (clr, r) ← pFloat r
      let (nd, r) ← pNat r
      let (alias, r) ← pNat r
      let t ← pVTail r
      let ov ← parseNat? ov
      if nd ≥ 1 && alias ≤ 1 && (via == "d" || via == "p") then pure (ov, attempts, improve, clr, nd, t) else none) with
    | some (ov, attempts, improve, clr, nd, (lo, hi, _, dist, near, samples, answers)) =>
      -- inverted bounds: RealVectorStateSpace::setBounds refuses them (the harness prints `skip ompl-exception`)
      if (List.zip lo hi).any (fun p => p.2 < p.1) then (st, "skip ompl-exception") else
      match runSvn ov name attempts improve clr nd lo hi dist near samples answers with
      | some res =>
        if res.os.si > samples.size || res.os.ai > answers.size then (st, "short") else (st, showVR res true)
      | none => (st, "bad-op")
    | none => (st, "bad-op")
  | _ => (st, "bad-op")

end OmplModel.Driver.SpaceBoundsDrv
