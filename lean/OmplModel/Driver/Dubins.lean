import OmplModel.Model.Dubins
import OmplModel.Model.ReedsShepp
import OmplModel.Driver.Common
/-! Line-protocol driver for the Dubins model.
Header `dubins rho=<bits> sym=<0|1> lo=<bits> hi=<bits>` (the bounds are set on the real space only;
distance and interpolation never read them).  Poses are `x y yaw` as u64 bit patterns.

    path <s1> <s2>      -> `<W> <t> <p> <q> len=<l>` | `nopath` | `unclassified`      dubins(s1, s2)
    dab <d> <a> <b>     -> same                                                      ::dubins(d, alpha, beta)
    dist <s1> <s2>      -> `d=<bits>` | `d=none`                                      distance(s1, s2)
    interp <s1> <s2> <t>-> `<x> <y> <yaw>` | `none`                                   interpolate(s1, s2, t)
    endp <s1> <s2>      -> `rev=<b> <W> <t> <p> <q> | <x> <y> <yaw>`                  the path interpolate() stores and
                                                                                     interpolate(from, path, 1.0)

Header `rs rho=<bits> lo=<bits> hi=<bits>` (Reeds-Shepp model, `Model/ReedsShepp.lean`):

    rspath <s1> <s2>       -> `<5 letters> <l0> .. <l4> len=<l>` | `nopath`             reedsShepp(s1, s2)
    rsinterp <s1> <s2> <t> -> `<x> <y> <yaw>` | `none`                                 interpolate(s1, s2, t)
    rsend <s1> <s2>        -> `<x> <y> <yaw>` | `nopath`                               interpolate(from, reedsShepp(s1,s2), 1.0)
    both <s1> <s2>         -> `rs=<d> rsrev=<d> dub=<d> dubrev=<d>`                    RS and (plain) Dubins distance both ways
-/
namespace OmplModel.Driver.DubinsDrv
open OmplModel.Dubins OmplModel.Driver

structure St where
  rho : Float
  sym : Bool
  rs : Bool := false

def kv? (key : String) (tok : String) : Option String :=
  if tok.startsWith (key ++ "=") then some (tok.drop (key.length + 1)).toString else none

def init (ts : List String) : Option St :=
  match ts with
  | ["dubins", r, s, lo, hi] => do
    let r ← (kv? "rho" r) >>= parseFloatBits?
    let s ← kv? "sym" s
    let _ ← (kv? "lo" lo) >>= parseFloatBits?
    let _ ← (kv? "hi" hi) >>= parseFloatBits?
    if s == "0" then pure ⟨r, false, false⟩ else if s == "1" then pure ⟨r, true, false⟩ else none
  | ["rs", r, lo, hi] => do
    let r ← (kv? "rho" r) >>= parseFloatBits?
    let _ ← (kv? "lo" lo) >>= parseFloatBits?
    let _ ← (kv? "hi" hi) >>= parseFloatBits?
    pure ⟨r, false, true⟩
  | _ => none

def pose? : List String → Option (Pose Float)
  | [x, y, th] => do
    let x ← parseFloatBits? x
    let y ← parseFloatBits? y
    let th ← parseFloatBits? th
    pure ⟨x, y, th⟩
  | _ => none

def showPath (P : Path Float) : String :=
  joinSp [P.w.name, floatBits P.t, floatBits P.p, floatBits P.q]

def showRes : Res Float → String
  | .path P => showPath P ++ " len=" ++ floatBits P.len
  | .nopath => "nopath"
  | .unclassified => "unclassified"

def showPose (P : Pose Float) : String := joinSp [floatBits P.x, floatBits P.y, floatBits P.th]

def showRS (p : OmplModel.RS.RSPath Float) : String :=
  String.join ((OmplModel.RS.rsType p.ty).map OmplModel.RS.RSeg.letter) ++ " " ++
    joinSp (p.lens.map floatBits) ++ " len=" ++ floatBits p.len

def optBits : Option Float → String
  | some x => floatBits x
  | none => "none"

def stepRS (st : St) (ts : List String) : St × String :=
  match ts with
  | ["rspath", a, b, c, d, e, f] =>
    match pose? [a, b, c], pose? [d, e, f] with
    | some s1, some s2 =>
      match OmplModel.RS.reedsSheppStates st.rho s1 s2 with
      | some p => (st, showRS p)
      | none => (st, "nopath")
    | _, _ => (st, "bad-op")
  | ["rsinterp", a, b, c, d, e, f, t] =>
    match pose? [a, b, c], pose? [d, e, f], parseFloatBits? t with
    | some s1, some s2, some t =>
      match OmplModel.RS.rsInterpolate st.rho s1 s2 t with
      | some P => (st, showPose P)
      | none => (st, "none")
    | _, _, _ => (st, "bad-op")
  | ["rsend", a, b, c, d, e, f] =>
    match pose? [a, b, c], pose? [d, e, f] with
    | some s1, some s2 =>
      match OmplModel.RS.reedsSheppStates st.rho s1 s2 with
      | some p => (st, showPose (OmplModel.RS.rsInterpPath st.rho s1 p 1))
      | none => (st, "nopath")
    | _, _ => (st, "bad-op")
  | ["both", a, b, c, d, e, f] =>
    match pose? [a, b, c], pose? [d, e, f] with
    | some s1, some s2 =>
      (st, "rs=" ++ optBits (OmplModel.RS.rsDistance st.rho s1 s2) ++ " rsrev=" ++ optBits (OmplModel.RS.rsDistance st.rho s2 s1) ++
        " dub=" ++ optBits (distance st.rho false s1 s2) ++ " dubrev=" ++ optBits (distance st.rho false s2 s1))
    | _, _ => (st, "bad-op")
  | _ => (st, "bad-op")

def stepD (st : St) (ts : List String) : St × String :=
  match ts with
  | ["path", a, b, c, d, e, f] =>
    match pose? [a, b, c], pose? [d, e, f] with
    | some s1, some s2 => (st, showRes (dubinsStates st.rho s1 s2))
    | _, _ => (st, "bad-op")
  | ["dab", d, a, b] =>
    match parseFloatBits? d, parseFloatBits? a, parseFloatBits? b with
    | some d, some a, some b => (st, showRes (dubins d a b))
    | _, _, _ => (st, "bad-op")
  | ["dist", a, b, c, d, e, f] =>
    match pose? [a, b, c], pose? [d, e, f] with
    | some s1, some s2 =>
      match distance st.rho st.sym s1 s2 with
      | some x => (st, "d=" ++ floatBits x)
      | none => (st, "d=none")
    | _, _ => (st, "bad-op")
  | ["interp", a, b, c, d, e, f, t] =>
    match pose? [a, b, c], pose? [d, e, f], parseFloatBits? t with
    | some s1, some s2, some t =>
      match interpolate st.rho st.sym s1 s2 t with
      | some P => (st, showPose P)
      | none => (st, "none")
    | _, _, _ => (st, "bad-op")
  | ["endp", a, b, c, d, e, f] =>
    match pose? [a, b, c], pose? [d, e, f] with
    | some s1, some s2 =>
      match choosePath st.rho st.sym s1 s2 with
      | .path P =>
        (st, "rev=" ++ (if P.rev then "1 " else "0 ") ++ showPath P ++ " | " ++ showPose (interpPath st.rho s1 P 1))
      | .nopath => (st, "nopath")
      | .unclassified => (st, "unclassified")
    | _, _ => (st, "bad-op")
  | _ => (st, "bad-op")

def step (st : St) (ts : List String) : St × String :=
  if st.rs then stepRS st ts else stepD st ts

end OmplModel.Driver.DubinsDrv
