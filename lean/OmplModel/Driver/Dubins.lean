import OmplModel.Model.Dubins
import OmplModel.Model.ReedsShepp
import OmplModel.Model.Owen
import OmplModel.Model.Vana
import OmplModel.Model.VanaOwen
import OmplModel.Model.Motion
import OmplModel.Model.CarAlias
import OmplModel.Model.RSOrbit
import OmplModel.Driver.Common
/-! Line-protocol driver for the Dubins model.
Header `dubins rho=<bits> sym=<0|1> lo=<bits> hi=<bits>` (the bounds are set on the real space only;
distance and interpolation never read them).  Poses are `x y yaw` as u64 bit patterns.

    path <s1> <s2>      -> `<W> <t> <p> <q> len=<l>` | `nopath` | `unclassified`      dubins(s1, s2)
    dab <d> <a> <b>     -> same                                                      ::dubins(d, alpha, beta)
    dist <s1> <s2>      -> `d=<bits>` | `d=none`                                      distance(s1, s2)
    interp <s1> <s2> <t>-> `<x> <y> <yaw>` | `none`                                   interpolate(s1, s2, t)
    endp <s1> <s2>      -> `rev=<b> <W> <t> <p> <q> | <x> <y> <yaw>`                  the path interpolate() stores and
                                                                                     interpolate(from, path, 1.0)

Header `rs rho=<bits> lo=<bits> hi=<bits>` (Reeds-Shepp model, `Model/ReedsShepp.lean`):

    rspath <s1> <s2>       -> `<5 letters> <l0> .. <l4> len=<l>` | `nopath`             reedsShepp(s1, s2)
    rsinterp <s1> <s2> <t> -> `<x> <y> <yaw>` | `none`                                 interpolate(s1, s2, t)
    rsend <s1> <s2>        -> `<x> <y> <yaw>` | `nopath`                               interpolate(from, reedsShepp(s1,s2), 1.0)
    both <s1> <s2>         -> `rs=<d> rsrev=<d> dub=<d> dubrev=<d>`                    RS and (plain) Dubins distance both ways
-/
namespace OmplModel.Driver.DubinsDrv
open OmplModel.Dubins OmplModel.Driver
open OmplModel.CarAlias (Alias callMem)

structure St where
  rho : Float
  sym : Bool
  rs : Bool := false
  dint : Bool := false
  owen : Bool := false
  tanp : Float := 0.0
  vana : Bool := false
  pitch : Float := 0.0
  lastArc : Bool := false
  vo : Bool := false
  absPhi : Bool := false
  alias : Char := 'n'
  /-- `ZERO` of ReedsSheppStateSpace.cpp as extracted from the source under test (header token `zero=<bits>`); default: as coded at HEAD -/
  rsZero : Option Float := none

/-- `op@f` / `op@t`: the aliasing mode of the current op (`none`: a separate output object, answered by the pure functions; otherwise
the store-semantics model of `Model/CarAlias.lean` is run with the output pointer designating the `from` / `to` object) -/
def St.al (st : St) : Option Alias := if st.alias == 'f' then some .frm else if st.alias == 't' then some .to else none

def zeroPose : Pose Float := ⟨0, 0, 0⟩

def kv? (key : String) (tok : String) : Option String :=
  if tok.startsWith (key ++ "=") then some (tok.drop (key.length + 1)).toString else none

def init (ts : List String) : Option St :=
  match ts with
  | ["dubins", r, s, lo, hi] => do
    let r ← (kv? "rho" r) >>= parseFloatBits?
    let s ← kv? "sym" s
    let _ ← (kv? "lo" lo) >>= parseFloatBits?
    let _ ← (kv? "hi" hi) >>= parseFloatBits?
    if s == "0" then pure { rho := r, sym := false } else if s == "1" then pure { rho := r, sym := true } else none
  | ["rs", r, lo, hi] => do
    let r ← (kv? "rho" r) >>= parseFloatBits?
    let _ ← (kv? "lo" lo) >>= parseFloatBits?
    let _ ← (kv? "hi" hi) >>= parseFloatBits?
    pure { rho := r, sym := false, rs := true }
  | ["rs", r, lo, hi, z] => do
    let r ← (kv? "rho" r) >>= parseFloatBits?
    let _ ← (kv? "lo" lo) >>= parseFloatBits?
    let _ ← (kv? "hi" hi) >>= parseFloatBits?
    let z ← (kv? "zero" z) >>= parseFloatBits?
    pure { rho := r, sym := false, rs := true, rsZero := some z }
  | ["dint"] => some { rho := 1.0, sym := false, dint := true }
  | ["vana", r, p, lo, hi] => do
    let r ← (kv? "rho" r) >>= parseFloatBits?
    let p ← (kv? "pitch" p) >>= parseFloatBits?
    let _ ← (kv? "lo" lo) >>= parseFloatBits?
    let _ ← (kv? "hi" hi) >>= parseFloatBits?
    pure { rho := r, sym := false, vana := true, pitch := p }
  | ["vana", r, p, lo, hi, la] => do
    let r ← (kv? "rho" r) >>= parseFloatBits?
    let p ← (kv? "pitch" p) >>= parseFloatBits?
    let _ ← (kv? "lo" lo) >>= parseFloatBits?
    let _ ← (kv? "hi" hi) >>= parseFloatBits?
    let la ← kv? "lastarc" la
    pure { rho := r, sym := false, vana := true, pitch := p, lastArc := la == "1" }
  | ["vanaowen", r, p, lo, hi] => do
    let r ← (kv? "rho" r) >>= parseFloatBits?
    let p ← (kv? "pitch" p) >>= parseFloatBits?
    let _ ← (kv? "lo" lo) >>= parseFloatBits?
    let _ ← (kv? "hi" hi) >>= parseFloatBits?
    pure { rho := r, sym := false, vo := true, pitch := p }
  | ["owen", r, p, lo, hi] => do
    let r ← (kv? "rho" r) >>= parseFloatBits?
    let p ← (kv? "pitch" p) >>= parseFloatBits?
    let _ ← (kv? "lo" lo) >>= parseFloatBits?
    let _ ← (kv? "hi" hi) >>= parseFloatBits?
    pure { rho := r, sym := false, owen := true, tanp := Float.tan p }
  | ["owen", r, p, lo, hi, ap] => do
    let r ← (kv? "rho" r) >>= parseFloatBits?
    let p ← (kv? "pitch" p) >>= parseFloatBits?
    let _ ← (kv? "lo" lo) >>= parseFloatBits?
    let _ ← (kv? "hi" hi) >>= parseFloatBits?
    let ap ← kv? "absphi" ap
    pure { rho := r, sym := false, owen := true, tanp := Float.tan p, absPhi := ap == "1" }
  | _ => none

def pose? : List String → Option (Pose Float)
  | [x, y, th] => do
    let x ← parseFloatBits? x
    let y ← parseFloatBits? y
    let th ← parseFloatBits? th
    pure ⟨x, y, th⟩
  | _ => none

def showPath (P : Path Float) : String :=
  joinSp [P.w.name, floatBits P.t, floatBits P.p, floatBits P.q]

def showRes : Res Float → String
  | .path P => showPath P ++ " len=" ++ floatBits P.len
  | .nopath => "nopath"
  | .unclassified => "unclassified"

def showPose (P : Pose Float) : String := joinSp [floatBits P.x, floatBits P.y, floatBits P.th]

def showRS (p : OmplModel.RS.RSPath Float) : String :=
  String.join ((OmplModel.RS.rsType p.ty).map OmplModel.RS.RSeg.letter) ++ " " ++
    joinSp (p.lens.map floatBits) ++ " len=" ++ floatBits p.len

def optBits : Option Float → String
  | some x => floatBits x
  | none => "none"

/-! real motion validators: C05's `Motion.checkMotion2/3` (which indices are asked, counters, failAt) composed with this engine's
interpolation on the cached path; `L` (longest valid segment length) is a recorded answer -/

def showMV (r : OmplModel.Motion.Result) (n : Nat) (havePath : Bool) (lseg : Float) (showAt : Nat → String) (lvState : Float → String) : String :=
  let qs := r.queries.map showAt
  -- `lastValid.second` as C05's model gives it: `(j - 1)/nd`, and `0` for `nd = 0` (since fix e0f5863f3)
  let lv := match r.lastValid n with
    | some (num, den) => if havePath then
        let t := Float.ofInt num / Float.ofNat den
        floatBits t ++ ":" ++ lvState t
      else "none"
    | none => "none"
  "res=" ++ (if r.verdict then "1" else "0") ++ " nd=" ++ (if havePath then toString n else "-") ++ " L=" ++ floatBits lseg ++
    " q=" ++ toString qs.length ++ " " ++ (if qs.isEmpty then "-" else ";".intercalate qs) ++ " lv=" ++ lv ++
    " dv=" ++ toString r.dValid ++ " di=" ++ toString r.dInvalid

def show3 (P : Pose Float) : String := ",".intercalate [floatBits P.x, floatBits P.y, floatBits P.th]

/-- the Reeds-Shepp model at the `ZERO` of the source under test -/
@[instance_reducible] def rsInst (z : Float) : OmplModel.RS.RSNum Float where
  asin := Float.asin
  zeroTol := z

def stepRSWith (inst : OmplModel.RS.RSNum Float) (st : St) (ts : List String) : St × String :=
  match ts with
  | ["rspath", a, b, c, d, e, f] =>
    match pose? [a, b, c], pose? [d, e, f] with
    | some s1, some s2 =>
      match OmplModel.RS.reedsSheppStates st.rho s1 s2 with
      | some p => (st, showRS p)
      | none => (st, "nopath")
    | _, _ => (st, "bad-op")
  | ["rsinterp", a, b, c, d, e, f, t] =>
    match pose? [a, b, c], pose? [d, e, f], parseFloatBits? t with
    | some s1, some s2, some t =>
      match st.al with
      | some al =>
        match OmplModel.CarAlias.rsCachedOverload st.rho t none al.ptr (callMem s1 s2 zeroPose) with
        | some (m, _) => (st, showPose (m.get al.ptr))
        | none => (st, "none")
      | none =>
      match OmplModel.RS.rsInterpolate st.rho s1 s2 t with
      | some P => (st, showPose P)
      | none => (st, "none")
    | _, _, _ => (st, "bad-op")
  | ["rsmvr", which, a, b, c, d, e, f, bound, lseg] =>
    match pose? [a, b, c], pose? [d, e, f], parseFloatBits? bound, parseFloatBits? lseg with
    | some s1, some s2, some bound, some lseg =>
      match OmplModel.RS.reedsSheppStates st.rho s1 s2 with
      | none => (st, "nopath")
      | some P =>
        let n := OmplModel.Motion.segCount 1 (st.rho * P.len) lseg
        -- every index asked by the validator is interior, so the first call stores the path; all states come from it
        let stateAt (j : Nat) : Pose Float := if j == n then s2 else OmplModel.RS.rsInterpPath st.rho s1 P (Float.ofNat j / Float.ofNat n)
        let v (j : Nat) : Bool := decide ((stateAt j).x ≤ bound)
        let r := if which == "2" then OmplModel.Motion.checkMotion2 .reedsShepp true n v else OmplModel.Motion.checkMotion3 .reedsShepp true n v
        -- lastValid: through the cached path once an interior call happened (n > 1), else the uncached endpoint shortcut
        let lvS (t : Float) : String := show3 (if n > 1 then OmplModel.RS.rsInterpPath st.rho s1 P t else (if 1 ≤ t then s2 else if t ≤ 0 then s1 else
          OmplModel.RS.rsInterpPath st.rho s1 P t))
        (st, showMV r n true lseg (fun j => show3 (stateAt j)) lvS)
    | _, _, _, _ => (st, "bad-op")
  | "rscache" :: a :: b :: c :: d :: e :: f :: rest =>
    match pose? [a, b, c], pose? [d, e, f], takeCounted rest with
    | some s1, some s2, some (xs, []) =>
      match xs.mapM parseFloatBits? with
      | some ts =>
        (st, " | ".intercalate ((match st.al with
            | some al => OmplModel.CarAlias.rsCachedSeq st.rho s1 s2 al none zeroPose ts
            | none => OmplModel.RS.rsInterpCached st.rho s1 s2 none ts).map
          (fun o => match o with | some P => showPose P | none => "nopath")))
      | none => (st, "bad-op")
    | _, _, _ => (st, "bad-op")
  | ["rsipath", a, b, c, d, e, f, t] =>
    match pose? [a, b, c], pose? [d, e, f], parseFloatBits? t with
    | some s1, some s2, some t =>
      match OmplModel.RS.reedsSheppStates st.rho s1 s2 with
      | some p =>
        match st.al with
        | some al => (st, showPose ((OmplModel.CarAlias.rsPathOverload st.rho p t (.ptr .frm) al.ptr (callMem s1 s2 zeroPose)).get al.ptr))
        | none => (st, showPose (OmplModel.RS.rsInterpPath st.rho s1 p t))
      | none => (st, "nopath")
    | _, _, _ => (st, "bad-op")
  | ["rsend", a, b, c, d, e, f] =>
    match pose? [a, b, c], pose? [d, e, f] with
    | some s1, some s2 =>
      match OmplModel.RS.reedsSheppStates st.rho s1 s2 with
      | some p =>
        match st.al with
        | some al => (st, showPose ((OmplModel.CarAlias.rsPathOverload st.rho p 1 (.ptr .frm) al.ptr (callMem s1 s2 zeroPose)).get al.ptr))
        | none => (st, showPose (OmplModel.RS.rsInterpPath st.rho s1 p 1))
      | none => (st, "nopath")
    | _, _ => (st, "bad-op")
  | ["bothfix", a, b, c, d, e, f] =>
    -- Reeds-Shepp distances both ways as the code repaired as in notes/C14-fix-F67.diff (ZERO = 1e-12) would return them (model only)
    match pose? [a, b, c], pose? [d, e, f] with
    | some s1, some s2 =>
      (st, "rs=" ++ optBits (@OmplModel.RS.rsDistance Float OmplModel.RS.rsFix67 st.rho s1 s2) ++ " rsrev=" ++
        optBits (@OmplModel.RS.rsDistance Float OmplModel.RS.rsFix67 st.rho s2 s1))
    | _, _ => (st, "bad-op")
  | ["bothfixw", a, b, c, d, e, f] =>
    -- as `bothfix` with ZERO = 1e-9 (short-range form of the same defect, finding F440; model only)
    match pose? [a, b, c], pose? [d, e, f] with
    | some s1, some s2 =>
      (st, "rs=" ++ optBits (@OmplModel.RS.rsDistance Float OmplModel.RS.rsFix67w st.rho s1 s2) ++ " rsrev=" ++
        optBits (@OmplModel.RS.rsDistance Float OmplModel.RS.rsFix67w st.rho s2 s1))
    | _, _ => (st, "bad-op")
  | ["both", a, b, c, d, e, f] =>
    match pose? [a, b, c], pose? [d, e, f] with
    | some s1, some s2 =>
      (st, "rs=" ++ optBits (OmplModel.RS.rsDistance st.rho s1 s2) ++ " rsrev=" ++ optBits (OmplModel.RS.rsDistance st.rho s2 s1) ++
        " dub=" ++ optBits (distance st.rho false s1 s2) ++ " dubrev=" ++ optBits (distance st.rho false s2 s1))
    | _, _ => (st, "bad-op")
  | _ => (st, "bad-op")

def stepRS (st : St) (ts : List String) : St × String :=
  match st.rsZero with
  | some z => stepRSWith (rsInst z) st ts
  | none => stepRSWith inferInstance st ts

def stepD (st : St) (ts : List String) : St × String :=
  match ts with
  | ["path", a, b, c, d, e, f] =>
    match pose? [a, b, c], pose? [d, e, f] with
    | some s1, some s2 => (st, showRes (dubinsStates st.rho s1 s2))
    | _, _ => (st, "bad-op")
  | ["dab", d, a, b] =>
    match parseFloatBits? d, parseFloatBits? a, parseFloatBits? b with
    | some d, some a, some b => (st, showRes (dubins d a b))
    | _, _, _ => (st, "bad-op")
  | ["dist", a, b, c, d, e, f] =>
    match pose? [a, b, c], pose? [d, e, f] with
    | some s1, some s2 =>
      match distance st.rho st.sym s1 s2 with
      | some x => (st, "d=" ++ floatBits x)
      | none => (st, "d=none")
    | _, _ => (st, "bad-op")
  | ["distfix", a, b, c, d, e, f] =>
    -- what the code repaired as in notes/C14-fix-F66.diff would return (model only; the harness answers `bad-op`)
    match pose? [a, b, c], pose? [d, e, f] with
    | some s1, some s2 =>
      match distanceFix66 st.rho st.sym s1 s2 with
      | some x => (st, "d=" ++ floatBits x)
      | none => (st, "d=none")
    | _, _ => (st, "bad-op")
  | ["interp", a, b, c, d, e, f, t] =>
    match pose? [a, b, c], pose? [d, e, f], parseFloatBits? t with
    | some s1, some s2, some t =>
      match st.al with
      | some al =>
        match OmplModel.CarAlias.dubinsCachedOverload st.rho st.sym t none al.ptr (callMem s1 s2 zeroPose) with
        | some (m, _) => (st, showPose (m.get al.ptr))
        | none => (st, "none")
      | none =>
      match interpolate st.rho st.sym s1 s2 t with
      | some P => (st, showPose P)
      | none => (st, "none")
    | _, _, _ => (st, "bad-op")
  | ["dmvr", which, a, b, c, d, e, f, bound, lseg] =>
    match pose? [a, b, c], pose? [d, e, f], parseFloatBits? bound, parseFloatBits? lseg with
    | some s1, some s2, some bound, some lseg =>
      match choosePath st.rho st.sym s1 s2, distance st.rho st.sym s1 s2 with
      | .path P, some dist =>
        let n := OmplModel.Motion.segCount 1 dist lseg
        let stateAt (j : Nat) : Pose Float := if j == n then s2 else interpPath st.rho s1 P (Float.ofNat j / Float.ofNat n)
        let v (j : Nat) : Bool := decide ((stateAt j).x ≤ bound)
        let r := if which == "2" then OmplModel.Motion.checkMotion2 .dubins true n v else OmplModel.Motion.checkMotion3 .dubins true n v
        let lvS (t : Float) : String := show3 (if n > 1 then interpPath st.rho s1 P t else (if 1 ≤ t then s2 else if t ≤ 0 then s1 else
          interpPath st.rho s1 P t))
        (st, showMV r n true lseg (fun j => show3 (stateAt j)) lvS)
      | _, _ => (st, "nopath")
    | _, _, _, _ => (st, "bad-op")
  | "icache" :: a :: b :: c :: d :: e :: f :: rest =>
    match pose? [a, b, c], pose? [d, e, f], takeCounted rest with
    | some s1, some s2, some (xs, []) =>
      match xs.mapM parseFloatBits? with
      | some ts =>
        (st, " | ".intercalate ((match st.al with
            | some al => OmplModel.CarAlias.dubinsCachedSeq st.rho st.sym s1 s2 al none zeroPose ts
            | none => interpCached st.rho st.sym s1 s2 none ts).map (fun o => match o with | some P => showPose P | none => "nopath")))
      | none => (st, "bad-op")
    | _, _, _ => (st, "bad-op")
  | ["ipath", a, b, c, d, e, f, t] =>
    match pose? [a, b, c], pose? [d, e, f], parseFloatBits? t with
    | some s1, some s2, some t =>
      match choosePath st.rho st.sym s1 s2 with
      | .path P =>
        match st.al with
        | some al => (st, showPose ((OmplModel.CarAlias.dubinsPathOverload OmplModel.CarAlias.poseView st.rho P t (.ptr .frm) al.ptr (callMem s1 s2 zeroPose)).get al.ptr))
        | none => (st, showPose (interpPath st.rho s1 P t))
      | _ => (st, "nopath")
    | _, _, _ => (st, "bad-op")
  | ["endp", a, b, c, d, e, f] =>
    match pose? [a, b, c], pose? [d, e, f] with
    | some s1, some s2 =>
      match choosePath st.rho st.sym s1 s2 with
      | .path P =>
        (st, "rev=" ++ (if P.rev then "1 " else "0 ") ++ showPath P ++ " | " ++ showPose (match st.al with
          | some al => (OmplModel.CarAlias.dubinsPathOverload OmplModel.CarAlias.poseView st.rho P 1 (.ptr .frm) al.ptr (callMem s1 s2 zeroPose)).get al.ptr
          | none => interpPath st.rho s1 P 1))
      | .nopath => (st, "nopath")
      | .unclassified => (st, "unclassified")
    | _, _ => (st, "bad-op")
  | _ => (st, "bad-op")

/-! per-formula lock step (header `dint`, see harness/dubins_int.cpp) -/

def word? : String → Option Word
  | "LSL" => some .LSL | "RSR" => some .RSR | "RSL" => some .RSL | "LSR" => some .LSR
  | "RLR" => some .RLR | "LRL" => some .LRL | _ => none

def rsBase? : String → Option (Float → Float → Float → OmplModel.RS.Sol Float)
  | "LpSpLp" => some OmplModel.RS.LpSpLp | "LpSpRp" => some OmplModel.RS.LpSpRp | "LpRmL" => some OmplModel.RS.LpRmL
  | "LpRupLumRm" => some OmplModel.RS.LpRupLumRm | "LpRumLumRp" => some OmplModel.RS.LpRumLumRp
  | "LpRmSmLm" => some OmplModel.RS.LpRmSmLm | "LpRmSmRm" => some OmplModel.RS.LpRmSmRm
  | "LpRmSLmRp" => some OmplModel.RS.LpRmSLmRp | _ => none

def rsFam? : String → Option (Float → Float → Float → Option (OmplModel.RS.RSPath Float))
  | "CSC" => some (fun x y p => OmplModel.RS.runFamily none (OmplModel.RS.candsCSC x y p) none)
  | "CCC" => some (fun x y p => OmplModel.RS.runFamily none (OmplModel.RS.candsCCC x y p) none)
  | "CCCC" => some (fun x y p => OmplModel.RS.runFamily none (OmplModel.RS.candsCCCC x y p) none)
  | "CCSC" => some (fun x y p => OmplModel.RS.runFamily (some OmplModel.RS.hpi) (OmplModel.RS.candsCCSC x y p) none)
  | "CCSCC" => some (fun x y p => OmplModel.RS.runFamily (some OmplModel.RS.rpi) (OmplModel.RS.candsCCSCC x y p) none)
  | _ => none

def f3? (a b c : String) : Option (Float × Float × Float) := do
  let a ← parseFloatBits? a
  let b ← parseFloatBits? b
  let c ← parseFloatBits? c
  pure (a, b, c)

def showOpt (P : Option (Path Float)) : String := showRes (Res.ofOpt P)

def stepDint (st : St) (ts : List String) : St × String :=
  match ts with
  | ["rsbase", n, x, y, p] =>
    match rsBase? n, f3? x y p with
    | some S, some (x, y, p) =>
      match S x y p with
      | some (t, u, v) => (st, joinSp [floatBits t, floatBits u, floatBits v])
      | none => (st, "none")
    | _, _ => (st, "bad-op")
  | ["rsfam", n, x, y, p] =>
    match rsFam? n, f3? x y p with
    | some F, some (x, y, p) =>
      match F x y p with
      | some q => (st, showRS q)
      | none => (st, "nopath")
    | _, _ => (st, "bad-op")
  | ["tauomega", u, v, xi, eta, phi] =>
    match f3? u v xi, parseFloatBits? eta, parseFloatBits? phi with
    | some (u, v, xi), some eta, some phi =>
      let (tau, om) := OmplModel.RS.tauOmega u v xi eta phi
      (st, joinSp [floatBits tau, floatBits om])
    | _, _, _ => (st, "bad-op")
  | ["rsclos", x, y, p] =>
    -- model only: the shortest of the 20 closure images the C++ omits (`Model/RSOrbit.lean : missing`) against `reedsShepp`, at the coded
    -- ZERO and at the tolerant ZERO = 1e-9 (`rsFix67w`), so that acceptance-threshold events (F67 family) can be told from incompleteness
    match f3? x y p with
    | some (x, y, p) =>
      let minLen (l : List (OmplModel.RS.Cand Float)) : Option Float :=
        l.foldl (fun acc c => match c with
          | some (_, q) => (match acc with | none => some q.len | some m => if q.len < m then some q.len else some m)
          | none => acc) none
      (st, "miss=" ++ optBits (minLen (OmplModel.RS.missing x y p)) ++
        " rs=" ++ optBits ((OmplModel.RS.reedsShepp x y p).map (·.len)) ++
        " missw=" ++ optBits (minLen (@OmplModel.RS.missing Float OmplModel.RS.rsFix67w x y p)) ++
        " rsw=" ++ optBits ((@OmplModel.RS.reedsShepp Float OmplModel.RS.rsFix67w x y p).map (·.len)))
    | none => (st, "bad-op")
  | ["dword", w, d, a, b] =>
    match word? w, f3? d a b with
    | some w, some (d, a, b) => (st, showOpt (solve mod2pi w d a b))
    | _, _ => (st, "bad-op")
  | ["dexh", d, a, b] =>
    match f3? d a b with
    | some (d, a, b) => (st, showOpt (dubinsExhaustive mod2pi d a b))
    | none => (st, "bad-op")
  | ["dcls", d, a, b] =>
    match f3? d a b with
    | some (d, a, b) =>
      if 0 ≤ a ∧ a ≤ (twopi : Float) ∧ 0 ≤ b ∧ b ≤ (twopi : Float) then (st, showRes (dubinsClassification d a b))
      else (st, "unclassified")
    | none => (st, "bad-op")
  | ["dlong", d, a, b] =>
    match f3? d a b with
    | some (d, a, b) => (st, if isLongPath d a b then "1" else "0")
    | none => (st, "bad-op")
  | ["dquad", a] =>
    match parseFloatBits? a with
    | some a => (st, toString (quadrant a))
    | none => (st, "bad-op")
  | ["dsw", d, a, b] =>
    match f3? d a b with
    | some (d, a, b) =>
      (st, joinSp ([s_12 d a b, s_13 d a b, s_14_1 d a b, s_21 d a b, s_22_1 d a b, s_22_2 d a b, s_24 d a b, s_31 d a b,
        s_33_1 d a b, s_33_2 d a b, s_34 d a b, s_41_1 d a b, s_41_2 d a b, s_42 d a b, s_43 d a b].map floatBits))
    | none => (st, "bad-op")
  | ["dm2p", x] =>
    match parseFloatBits? x with
    | some x => (st, floatBits (mod2pi x))
    | none => (st, "bad-op")
  | ["rsm2p", x] =>
    match parseFloatBits? x with
    | some x => (st, floatBits (OmplModel.RS.rmod2pi x))
    | none => (st, "bad-op")
  | _ => (st, "bad-op")

/-! Owen space (header `owen`, see harness/dubins.cpp): the root of the bracketing search is a recorded answer -/

def st4? : List String → Option (OmplModel.Owen.St4 Float)
  | [x, y, z, w] => do
    let x ← parseFloatBits? x
    let y ← parseFloatBits? y
    let z ← parseFloatBits? z
    let w ← parseFloatBits? w
    pure ⟨x, y, z, w⟩
  | _ => none

def stepOwen (st : St) (ts : List String) : St × String :=
  match ts with
  | ["owpathr", a, b, c, d, e, f, g, h, root] =>
    match st4? [a, b, c, d], st4? [e, f, g, h], parseFloatBits? root with
    | some s1, some s2, some root =>
      match OmplModel.Owen.getPathWith st.rho st.tanp root s1 s2 with
      | some p =>
        (st, "cat=" ++ p.category ++ " " ++ showPath p.path ++ " r=" ++ floatBits p.r ++ " dz=" ++ floatBits p.dz ++
          " phi=" ++ floatBits p.phi ++ " k=" ++ toString p.k.toUInt64 ++ " len=" ++ floatBits (if st.absPhi then p.lenAbs else p.len))
      | none => (st, "nopath")
    | _, _, _ => (st, "bad-op")
  | ["owmvr", which, a, b, c, d, e, f, g, h, zmax, root, lseg] =>
    -- the real Dubins3DMotionValidator<OwenStateSpace>: C05's `Motion.checkMotion2/3 .dubins3D` decides which subdivision
    -- indices are asked in which order; the state asked at index j is this model's interpolate(s1, s2, j/nd, cached path);
    -- validity = `z <= zmax` on that state.  `root` (`none` = getPath failed) and `L` are recorded answers.
    match st4? [a, b, c, d], st4? [e, f, g, h], parseFloatBits? zmax, parseFloatBits? lseg with
    | some s1, some s2, some zmax, some lseg =>
      let path := if root == "none" then none else
        match parseFloatBits? root with
        | some r => OmplModel.Owen.getPathWith st.rho st.tanp r s1 s2
        | none => none
      let n := match path with
        | some p => OmplModel.Motion.segCount 1 (if st.absPhi then p.lenAbs else p.len) lseg
        | none => 0
      let stateAt (j : Nat) : OmplModel.Owen.St4 Float :=
        match path with
        | some p => if j == n && which == "2" then s2 else
            (if j == n then s2 else OmplModel.Owen.interpWith s1 s2 (Float.ofNat j / Float.ofNat n) p)
        | none => s2
      let v (j : Nat) : Bool := decide ((stateAt j).z ≤ zmax)
      let r := if which == "2" then OmplModel.Motion.checkMotion2 .dubins3D path.isSome n v
               else OmplModel.Motion.checkMotion3 .dubins3D path.isSome n v
      let show4 (q : OmplModel.Owen.St4 Float) : String := ",".intercalate [floatBits q.x, floatBits q.y, floatBits q.z, floatBits q.yaw]
      let qs := r.queries.map (fun j => show4 (stateAt j))
      let lv := match r.lastValid n, path with
        | some (num, den), some p =>
          let t := Float.ofInt num / Float.ofNat den   -- `(j - 1)/nd`, `0` for `nd = 0` (fix e0f5863f3), as in C05's `Motion.Result.lastValid`
          floatBits t ++ ":" ++ show4 (OmplModel.Owen.interpWith s1 s2 t p)
        | _, _ => "none"
      (st, "res=" ++ (if r.verdict then "1" else "0") ++ " nd=" ++ (if path.isSome then toString n else "-") ++ " L=" ++ floatBits lseg ++
        " q=" ++ toString qs.length ++ " " ++ (if qs.isEmpty then "-" else ";".intercalate qs) ++ " lv=" ++ lv ++
        " dv=" ++ toString r.dValid ++ " di=" ++ toString r.dInvalid)
    | _, _, _, _ => (st, "bad-op")
  | ["owbranch", a, b, c, d, e, f, g, h] =>
    -- which branch of getPath the pair takes (model only): low / medium / high
    match st4? [a, b, c, d], st4? [e, f, g, h] with
    | some s1, some s2 =>
      match OmplModel.Owen.dlen st.rho s1.pose s2.pose with
      | none => (st, "nodubins")
      | some P =>
        let dz := s2.z - s1.z
        let len := st.rho * P.len
        if dz.abs ≤ len * st.tanp then (st, "low")
        else if (len + (twopi : Float) * st.rho) * st.tanp < dz.abs then (st, "high")
        else (st, "medium")
    | _, _ => (st, "bad-op")
  | ["owinterpr", a, b, c, d, e, f, g, h, t, root] =>
    match st4? [a, b, c, d], st4? [e, f, g, h], parseFloatBits? t, parseFloatBits? root with
    | some s1, some s2, some t, some root =>
      let q := match OmplModel.Owen.getPathWith st.rho st.tanp root s1 s2 with
        | some p =>
          match st.al with
          | some al => (OmplModel.CarAlias.owenInterpOverload t p al.ptr (callMem s1 s2 ⟨0, 0, 0, 0⟩)).get al.ptr
          | none => OmplModel.Owen.interpWith s1 s2 t p
        | none => s1
      (st, joinSp [floatBits q.x, floatBits q.y, floatBits q.z, floatBits q.yaw])
    | _, _, _, _ => (st, "bad-op")
  | _ => (st, "bad-op")

/-! Vana space (header `vana`, see harness/dubins.cpp): fully recomputed -/

def st5? : List String → Option (OmplModel.Vana.St5 Float)
  | [x, y, z, p, w] => do
    let x ← parseFloatBits? x
    let y ← parseFloatBits? y
    let z ← parseFloatBits? z
    let p ← parseFloatBits? p
    let w ← parseFloatBits? w
    pure ⟨x, y, z, p, w⟩
  | _ => none

def vtol : Float := 1e-8

def stepVana (st : St) (ts : List String) : St × String :=
  match ts with
  | ["vpath", a, b, c, d, e, f, g, h, i, j] =>
    match st5? [a, b, c, d, e], st5? [f, g, h, i, j] with
    | some s1, some s2 =>
      match OmplModel.Vana.getPath st.lastArc st.rho (-st.pitch) st.pitch vtol s1 s2 with
      | some p =>
        (st, "rh=" ++ floatBits p.rh ++ " rv=" ++ floatBits p.rv ++ " XY " ++ showPath p.xy ++ " SZ " ++ showPath p.sz ++
          " len=" ++ floatBits p.len)
      | none => (st, "nopath")
    | _, _ => (st, "bad-op")
  | ["vmvr", which, a, b, c, d, e, f, g, h, i, j, bound, lseg] =>
    match st5? [a, b, c, d, e], st5? [f, g, h, i, j], parseFloatBits? bound, parseFloatBits? lseg with
    | some s1, some s2, some bound, some lseg =>
      let path := OmplModel.Vana.getPath st.lastArc st.rho (-st.pitch) st.pitch vtol s1 s2
      let n := match path with | some p => OmplModel.Motion.segCount 1 p.len lseg | none => 0
      let at_ (t : Float) : OmplModel.Vana.St5 Float :=
        match path with
        | some p => if 1 ≤ t then s2 else if t ≤ 0 then s1 else OmplModel.Vana.interpPathV s1 p t
        | none => s1
      let stateAt (j : Nat) : OmplModel.Vana.St5 Float := if j == n then s2 else at_ (Float.ofNat j / Float.ofNat n)
      let v (j : Nat) : Bool := decide ((stateAt j).z ≤ bound)
      let r := if which == "2" then OmplModel.Motion.checkMotion2 .dubins3D path.isSome n v else OmplModel.Motion.checkMotion3 .dubins3D path.isSome n v
      let sh (q : OmplModel.Vana.St5 Float) : String := ",".intercalate [floatBits q.x, floatBits q.y, floatBits q.z, floatBits q.pitch, floatBits q.yaw]
      (st, showMV r n path.isSome lseg (fun j => sh (stateAt j)) (fun t => sh (at_ t)))
    | _, _, _, _ => (st, "bad-op")
  | ["vinterp", a, b, c, d, e, f, g, h, i, j, t] =>
    match st5? [a, b, c, d, e], st5? [f, g, h, i, j], parseFloatBits? t with
    | some s1, some s2, some t =>
      let q := match st.al with
        | some al =>
          match OmplModel.Vana.getPath st.lastArc st.rho (-st.pitch) st.pitch vtol s1 s2 with
          | some p => (OmplModel.CarAlias.vanaInterpOverload t p al.ptr (callMem s1 s2 ⟨0, 0, 0, 0, 0⟩)).get al.ptr
          | none => s1
        | none => OmplModel.Vana.interpolateV st.lastArc st.rho (-st.pitch) st.pitch vtol s1 s2 t
      (st, joinSp [floatBits q.x, floatBits q.y, floatBits q.z, floatBits q.pitch, floatBits q.yaw])
    | _, _, _ => (st, "bad-op")
  | _ => (st, "bad-op")

/-! VanaOwen (header `vanaowen`): the whole path is a recorded answer; `interpolate` is recomputed from it -/

def path3? (w t p q : String) : Option (Path Float) := do
  let w ← word? w
  let t ← parseFloatBits? t
  let p ← parseFloatBits? p
  let q ← parseFloatBits? q
  pure ⟨w, t, p, q, false⟩

def voPath? : List String → Option (OmplModel.VanaOwen.VOPath Float)
  | [_cat, rh, rv, dz, phi, k, "XY", w1, t1, p1, q1, "SZ", w2, t2, p2, q2, sz0, _len] => do
    let rh ← (kv? "rh" rh) >>= parseFloatBits?
    let rv ← (kv? "rv" rv) >>= parseFloatBits?
    let dz ← (kv? "dz" dz) >>= parseFloatBits?
    let phi ← (kv? "phi" phi) >>= parseFloatBits?
    let k ← (kv? "k" k) >>= String.toNat?
    let xy ← path3? w1 t1 p1 q1
    let sz ← path3? w2 t2 p2 q2
    let s0 ← kv? "sz0" sz0
    match s0.splitOn "," with
    | [a, b, c] =>
      let a ← parseFloatBits? a
      let b ← parseFloatBits? b
      let c ← parseFloatBits? c
      pure ⟨xy, sz, rh, rv, dz, phi, Float.ofNat k, ⟨a, b, c⟩⟩
    | _ => none
  | _ => none

def stepVO (st : St) (ts : List String) : St × String :=
  match ts with
  | "vomvr" :: which :: a :: b :: c :: d :: e :: f :: g :: h :: i :: j :: bound :: lseg :: rest =>
    match st5? [a, b, c, d, e], st5? [f, g, h, i, j], parseFloatBits? bound, parseFloatBits? lseg with
    | some s1, some s2, some bound, some lseg =>
      let path := if rest == ["none"] then none else voPath? rest
      let n := match path with | some p => OmplModel.Motion.segCount 1 p.len lseg | none => 0
      let at_ (t : Float) : OmplModel.Vana.St5 Float :=
        match path with
        | some p => OmplModel.VanaOwen.voInterp s1 s2 t p
        | none => s1
      let stateAt (j : Nat) : OmplModel.Vana.St5 Float := if j == n then s2 else at_ (Float.ofNat j / Float.ofNat n)
      let v (j : Nat) : Bool := decide ((stateAt j).z ≤ bound)
      let r := if which == "2" then OmplModel.Motion.checkMotion2 .dubins3D path.isSome n v else OmplModel.Motion.checkMotion3 .dubins3D path.isSome n v
      let sh (q : OmplModel.Vana.St5 Float) : String := ",".intercalate [floatBits q.x, floatBits q.y, floatBits q.z, floatBits q.pitch, floatBits q.yaw]
      (st, showMV r n path.isSome lseg (fun j => sh (stateAt j)) (fun t => sh (at_ t)))
    | _, _, _, _ => (st, "bad-op")
  | "vointerpr" :: a :: b :: c :: d :: e :: f :: g :: h :: i :: j :: t :: rest =>
    match st5? [a, b, c, d, e], st5? [f, g, h, i, j], parseFloatBits? t, voPath? rest with
    | some s1, some s2, some t, some p =>
      let q := match st.al with
        | some al => (OmplModel.CarAlias.voInterpOverload t p al.ptr (callMem s1 s2 ⟨0, 0, 0, 0, 0⟩)).get al.ptr
        | none => OmplModel.VanaOwen.voInterp s1 s2 t p
      (st, joinSp [floatBits q.x, floatBits q.y, floatBits q.z, floatBits q.pitch, floatBits q.yaw])
    | _, _, _, _ => (st, "bad-op")
  | ["volen", _cat, rh, rv, dz, phi, k, xy, w1, t1, p1, q1, szt, w2, t2, p2, q2, sz0, len] =>
    match voPath? [_cat, rh, rv, dz, phi, k, xy, w1, t1, p1, q1, szt, w2, t2, p2, q2, sz0, len] with
    | some p => (st, "cat=" ++ p.category ++ " len=" ++ floatBits p.len)
    | none => (st, "bad-op")
  | _ => (st, "bad-op")

/-- ops whose output state may alias `from` (`op@f`) or `to` (`op@t`), see harness/dubins.cpp -/
def aliasable : List String :=
  ["interp", "icache", "endp", "ipath", "rsinterp", "rscache", "rsend", "rsipath", "owinterp", "owinterpr", "vinterp", "vointerp", "vointerpr"]

def stepA (st : St) (ts : List String) : St × String :=
  if st.vo then stepVO st ts else if st.vana then stepVana st ts else if st.owen then stepOwen st ts else if st.dint then stepDint st ts else if st.rs then stepRS st ts else stepD st ts

/-- splits the alias suffix off the op token (`interp@f`): the model is functional, so the aliasing mode selects the
store-semantics variant of the op (`Model/CarAlias.lean`), whose result is proved equal to the pure function -/
def step (st : St) (ts : List String) : St × String :=
  match ts with
  | op :: rest =>
    match op.splitOn "@" with
    | [_] => let (_, o) := stepA { st with alias := 'n' } ts; (st, o)
    | [b, a] =>
      if (a == "f" || a == "t") && aliasable.contains b then
        let (_, o) := stepA { st with alias := if a == "f" then 'f' else 't' } (b :: rest); (st, o)
      else (st, "bad-op")
    | _ => (st, "bad-op")
  | [] => stepA st ts

end OmplModel.Driver.DubinsDrv
