import OmplModel.Model.Dubins
import OmplModel.Driver.Common
/-! Line-protocol driver for the Dubins model.
Header `dubins rho=<bits> sym=<0|1> lo=<bits> hi=<bits>` (the bounds are set on the real space only;
distance and interpolation never read them).  Poses are `x y yaw` as u64 bit patterns.

    path <s1> <s2>      -> `<W> <t> <p> <q> len=<l>` | `nopath` | `unclassified`      dubins(s1, s2)
    dab <d> <a> <b>     -> same                                                      ::dubins(d, alpha, beta)
    dist <s1> <s2>      -> `d=<bits>` | `d=none`                                      distance(s1, s2)
    interp <s1> <s2> <t>-> `<x> <y> <yaw>` | `none`                                   interpolate(s1, s2, t)
    endp <s1> <s2>      -> `rev=<b> <W> <t> <p> <q> | <x> <y> <yaw>`                  the path interpolate() stores and
                                                                                     interpolate(from, path, 1.0)
-/
namespace OmplModel.Driver.DubinsDrv
open OmplModel.Dubins OmplModel.Driver

structure St where
  rho : Float
  sym : Bool

def kv? (key : String) (tok : String) : Option String :=
  if tok.startsWith (key ++ "=") then some (tok.drop (key.length + 1)).toString else none

def init (ts : List String) : Option St :=
  match ts with
  | ["dubins", r, s, lo, hi] => do
    let r ← (kv? "rho" r) >>= parseFloatBits?
    let s ← kv? "sym" s
    let _ ← (kv? "lo" lo) >>= parseFloatBits?
    let _ ← (kv? "hi" hi) >>= parseFloatBits?
    if s == "0" then pure ⟨r, false⟩ else if s == "1" then pure ⟨r, true⟩ else none
  | _ => none

def pose? : List String → Option (Pose Float)
  | [x, y, th] => do
    let x ← parseFloatBits? x
    let y ← parseFloatBits? y
    let th ← parseFloatBits? th
    pure ⟨x, y, th⟩
  | _ => none

def showPath (P : Path Float) : String :=
  joinSp [P.w.name, floatBits P.t, floatBits P.p, floatBits P.q]

def showRes : Res Float → String
  | .path P => showPath P ++ " len=" ++ floatBits P.len
  | .nopath => "nopath"
  | .unclassified => "unclassified"

def showPose (P : Pose Float) : String := joinSp [floatBits P.x, floatBits P.y, floatBits P.th]

def step (st : St) (ts : List String) : St × String :=
  match ts with
  | ["path", a, b, c, d, e, f] =>
    match pose? [a, b, c], pose? [d, e, f] with
    | some s1, some s2 => (st, showRes (dubinsStates st.rho s1 s2))
    | _, _ => (st, "bad-op")
  | ["dab", d, a, b] =>
    match parseFloatBits? d, parseFloatBits? a, parseFloatBits? b with
    | some d, some a, some b => (st, showRes (dubins d a b))
    | _, _, _ => (st, "bad-op")
  | ["dist", a, b, c, d, e, f] =>
    match pose? [a, b, c], pose? [d, e, f] with
    | some s1, some s2 =>
      match distance st.rho st.sym s1 s2 with
      | some x => (st, "d=" ++ floatBits x)
      | none => (st, "d=none")
    | _, _ => (st, "bad-op")
  | ["interp", a, b, c, d, e, f, t] =>
    match pose? [a, b, c], pose? [d, e, f], parseFloatBits? t with
    | some s1, some s2, some t =>
      match interpolate st.rho st.sym s1 s2 t with
      | some P => (st, showPose P)
      | none => (st, "none")
    | _, _, _ => (st, "bad-op")
  | ["endp", a, b, c, d, e, f] =>
    match pose? [a, b, c], pose? [d, e, f] with
    | some s1, some s2 =>
      match choosePath st.rho st.sym s1 s2 with
      | .path P =>
        (st, "rev=" ++ (if P.rev then "1 " else "0 ") ++ showPath P ++ " | " ++ showPose (interpPath st.rho s1 P 1))
      | .nopath => (st, "nopath")
      | .unclassified => (st, "unclassified")
    | _, _ => (st, "bad-op")
  | _ => (st, "bad-op")

end OmplModel.Driver.DubinsDrv
