import OmplModel.Model.Constrained
import OmplModel.Driver.Common
/-!
Line-protocol driver for the constrained-space model.  The script is built by `checks/c16.py` from
what `harness/constrained.cpp` recorded on the real code: every op carries the oracle answers
(`F x f` = `Constraint::function`, `J x` = entry of `jacobian`, `V x b` = `isValid`) in call order,
or — for the layer shared by all three spaces — the recorded result of `discreteGeodesic`.
The model replays the control flow; each oracle call pops the next recorded event and checks that
it is of the expected kind *and* was asked about the very state (bit for bit) the model computed
(`miss=1` otherwise); `left=` is the number of recorded events the model did not consume.

header: `constrained n=<n> m=<m> delta=<bits> lambda=<bits> tol=<bits> maxit=<k> lo=<bits> hi=<bits>`

States are `Array Float`; distance / interpolation / clamping mirror `RealVectorStateSpace`
(`dist += diff*diff` left to right then `sqrt`; `from + (to - from) * t`; `enforceBounds`).
`squaredNorm` is `f₀² (+ f₁²)` (co-dimension ≤ 2, where Eigen's reduction order is immaterial).
-/
namespace OmplModel.Driver.ConstrainedDrv
open OmplModel.Constrained OmplModel.Driver

abbrev Vec := Array Float

inductive Ev where
  | F (x f : Vec)
  | J (x : Vec)
  | V (x : Vec) (b : Bool)

structure OSt where
  evs : List Ev
  miss : Bool := false

def vecEq (a b : Vec) : Bool :=
  a.size == b.size && (List.range a.size).all (fun i => a[i]!.toBits == b[i]!.toBits)

def nan : Float := 0.0 / 0.0

def arithF : Arith Float where
  zero := 0.0
  one := 1.0
  eps := Float.ofBits 0x3CB0000000000000
  add := (· + ·)
  sub := (· - ·)
  mul := (· * ·)
  div := (· / ·)
  abs := Float.abs
  lt a b := decide (a < b)
  le a b := decide (a ≤ b)

def distF (a b : Vec) : Float :=
  Float.sqrt ((List.range a.size).foldl (fun acc i => let d := a[i]! - b[i]!; acc + d * d) 0.0)

def interpF (a b : Vec) (t : Float) : Vec :=
  (Array.range a.size).map (fun i => a[i]! + (b[i]! - a[i]!) * t)

def clampF (lo hi : Float) (x : Vec) : Vec :=
  x.map (fun v => if v > hi then hi else if v < lo then lo else v)

def ambF (lo hi : Float) : Ambient Vec Float := ⟨distF, interpF, clampF lo hi⟩

def residF : Resid Vec Float where
  nsq f := (List.range f.size).foldl (fun acc i => if i == 0 then f[i]! * f[i]! else acc + f[i]! * f[i]!) 0.0
  finite f := f.all Float.isFinite

/-- oracles that replay the recorded calls -/
def oracleF (m : Nat) : Oracle OSt Vec Vec where
  fn s x :=
    match s.evs with
    | .F x' f :: rest => (f, { evs := rest, miss := s.miss || !vecEq x x' })
    | _ => (Array.replicate m nan, { evs := [], miss := true })
  newton s x _ :=
    match s.evs with
    | .J x' :: rest =>
      match rest with
      | .F y _ :: _ => (y, { evs := rest, miss := s.miss || !vecEq x x' })
      | _ => (x, { evs := [], miss := true })
    | _ => (x, { evs := [], miss := true })
  valid s x :=
    match s.evs with
    | .V x' b :: rest => (b, { evs := rest, miss := s.miss || !vecEq x x' })
    | _ => (false, { evs := [], miss := true })

structure St where
  n : Nat
  m : Nat
  P : GeoParams Float
  lo : Float
  hi : Float

def kvGet (ts : List String) (k : String) : Option String :=
  ts.findSome? (fun t => if t.startsWith (k ++ "=") then some ((t.drop (k.length + 1)).toString) else none)

def init (ts : List String) : Option St :=
  match ts with
  | "constrained" :: rest => do
    let n ← (← kvGet rest "n").toNat?
    let m ← (← kvGet rest "m").toNat?
    let delta ← parseFloatBits? (← kvGet rest "delta")
    let lambda ← parseFloatBits? (← kvGet rest "lambda")
    let tol ← parseFloatBits? (← kvGet rest "tol")
    let maxit ← (← kvGet rest "maxit").toNat?
    let lo ← parseFloatBits? (← kvGet rest "lo")
    let hi ← parseFloatBits? (← kvGet rest "hi")
    if n = 0 || m = 0 || m > 2 then none
    else some ⟨n, m, ⟨delta, lambda, tol * tol, maxit⟩, lo, hi⟩
  | _ => none

/-- take `k` doubles -/
def takeVec (k : Nat) (ts : List String) : Option (Vec × List String) :=
  if ts.length < k then none
  else (ts.take k).mapM parseFloatBits? |>.map (fun xs => (xs.toArray, ts.drop k))

def takeVecs (n : Nat) : Nat → List String → Option (List Vec × List String)
  | 0, ts => some ([], ts)
  | k + 1, ts => do
    let (v, r) ← takeVec n ts
    let (vs, r') ← takeVecs n k r
    pure (v :: vs, r')

def parseBool? : String → Option Bool
  | "0" => some false
  | "1" => some true
  | _ => none

/-- `<count> ev…` up to the end of the line -/
partial def parseEvs (n m : Nat) (ts : List String) (acc : Array Ev) : Option (List Ev) :=
  match ts with
  | [] => some acc.toList
  | "F" :: r => do
    let (x, r) ← takeVec n r
    let (f, r) ← takeVec m r
    parseEvs n m r (acc.push (.F x f))
  | "J" :: r => do
    let (x, r) ← takeVec n r
    parseEvs n m r (acc.push (.J x))
  | "V" :: r => do
    let (x, r) ← takeVec n r
    match r with
    | b :: r => do
      let b ← parseBool? b
      parseEvs n m r (acc.push (.V x b))
    | [] => none
  | _ => none

def showVec (x : Vec) : String := joinSp (x.toList.map floatBits)
def b01 (b : Bool) : String := if b then "1" else "0"
def tail (s : OSt) : String := s!" left={s.evs.length} miss={b01 s.miss}"

def fuel : Nat := 10000000

def showOptVec : Option Vec → String
  | some x => showVec x
  | none => "none"

def showOptF : Option Float → String
  | some x => floatBits x
  | none => "none"

def step (st : St) (ts : List String) : St × String :=
  let A := arithF
  let Am := ambF st.lo st.hi
  let O := oracleF st.m
  let n := st.n
  let isSat := isSatisfied A residF O st.P.tolSq
  let pgeo : Geo OSt Vec := projectedGeo A Am residF O st.P fuel
  let bad : St × String := (st, "bad-op")
  let r : Option String :=
    match ts with
    | "project" :: rest => do
      let (x, rest) ← takeVec n rest
      let evs ← parseEvs n st.m rest #[]
      let r := project A residF O st.P.tolSq st.P.maxIter ⟨evs, false⟩ x
      pure (s!"ret={b01 r.1} x= {showVec r.2.1}" ++ tail r.2.2)
    | "sat" :: rest => do
      let (x, rest) ← takeVec n rest
      let evs ← parseEvs n st.m rest #[]
      let r := isSat ⟨evs, false⟩ x
      pure (s!"sat={b01 r.1}" ++ tail r.2)
    | "sample" :: rest => do
      let (x, rest) ← takeVec n rest
      let evs ← parseEvs n st.m rest #[]
      let r := sampleProjected A Am residF O st.P.tolSq st.P.maxIter ⟨evs, false⟩ x
      pure (s!"s= {showVec r.1} ok={b01 r.2.1}" ++ tail r.2.2)
    | "geo" :: i :: rest => do
      let i ← parseBool? i
      let (a, rest) ← takeVec n rest
      let (b, rest) ← takeVec n rest
      let evs ← parseEvs n st.m rest #[]
      let r := discreteGeodesic A Am residF O st.P fuel ⟨evs, false⟩ a b i
      pure (s!"ok={b01 r.ok} exit={r.exit.name} n={r.states.length} " ++
        joinSp (r.states.map showVec) ++ tail r.st)
    | "gi" :: t :: k :: rest => do
      let t ← parseFloatBits? t
      let k ← k.toNat?
      let (g, rest) ← takeVecs n k rest
      if !rest.isEmpty then none
      match geodesicInterpolateIdx A Am g t with
      | some i => pure s!"idx={i}"
      | none => pure "idx=none"
    | "interp" :: rest => do
      let (a, rest) ← takeVec n rest
      let (b, rest) ← takeVec n rest
      match rest with
      | t :: gret :: k :: rest => do
        let t ← parseFloatBits? t
        let gret ← parseBool? gret
        let k ← k.toNat?
        let (g, rest) ← takeVecs n k rest
        if !rest.isEmpty then none
        let geo : Geo Unit Vec := fun _ _ _ _ => (gret, g, ())
        pure ("r= " ++ showOptVec (interpolate A Am geo () a b t).1)
      | _ => none
    | ["cm1", valid, sat, hasG, gret] => do
      -- σ = number of geodesic calls made; the answers are the recorded ones
      let valid ← parseBool? valid
      let sat ← parseBool? sat
      let _hasG ← parseBool? hasG
      let gret ← parseBool? gret
      let geo : Geo Nat Unit := fun c _ _ _ => (gret, [], c + 1)
      let r := checkMotion1 (fun c _ => (valid, c)) (fun c _ => (sat, c)) geo 0 () ()
      pure s!"v={b01 r.1} geoCalled={r.2}"
    | "cm1p" :: rest => do
      let (a, rest) ← takeVec n rest
      let (b, rest) ← takeVec n rest
      let evs ← parseEvs n st.m rest #[]
      let r := checkMotion1 O.valid isSat pgeo ⟨evs, false⟩ a b
      pure (s!"v={b01 r.1}" ++ tail r.2)
    | "cm2" :: hf :: rest => do
      let hf ← parseBool? hf
      let (a, rest) ← takeVec n rest
      let (b, rest) ← takeVec n rest
      match rest with
      | sat :: valid :: gret :: k :: rest => do
        let sat ← parseBool? sat
        let valid ← parseBool? valid
        let gret ← parseBool? gret
        let k ← k.toNat?
        let (g, rest) ← takeVecs n k rest
        if !rest.isEmpty then none
        let geo : Geo Unit Vec := fun _ _ _ _ => (gret, g, ())
        let r := checkMotion2 A Am (fun _ _ => (sat, ())) (fun _ _ => (valid, ())) geo hf () a b
        pure s!"v={b01 r.verdict} first= {showOptVec r.first} second={showOptF r.second}"
      | _ => none
    | "cm2p" :: hf :: rest => do
      let hf ← parseBool? hf
      let (a, rest) ← takeVec n rest
      let (b, rest) ← takeVec n rest
      let evs ← parseEvs n st.m rest #[]
      let r := checkMotion2 A Am isSat O.valid pgeo hf ⟨evs, false⟩ a b
      pure (s!"v={b01 r.verdict} first= {showOptVec r.first} second={showOptF r.second}" ++ tail r.st)
    | _ => none
  match r with
  | some out => (st, out)
  | none =>
    -- Constraint::setTolerance / setMaxIterations mid-script: read at call time by everything that follows
    match ts with
    | ["settol", t] =>
      match parseFloatBits? t with
      | some t => ({ st with P := { st.P with tolSq := t * t } }, "ok")
      | none => bad
    | ["setmaxiter", k] =>
      match k.toNat? with
      | some k => ({ st with P := { st.P with maxIter := k } }, "ok")
      | none => bad
    | _ => bad

end OmplModel.Driver.ConstrainedDrv
