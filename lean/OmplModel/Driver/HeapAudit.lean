import OmplModel.Model.HeapAudit
import OmplModel.Model.ForwardQueueRule
import OmplModel.Driver.Common
/-! Line-protocol driver for the audit of dumped heap arrays (header `heapaudit`).

One line per dump: `H <n> r0 p0 r1 p1 … r(n-1) p(n-1)` — slot `i` holds an element of rank `ri` (rank under the
heap's own comparator, ties share a rank) whose `Element::position` field reads `pi`.  Answer:
`ord=<0|1> pos=<0|1> top=<0|1> sorted=<0|1> bad=<slots|-> pops=<ranks in the order the MODEL's pop loop yields them>`.
`X <n> r0 … | <k> s1 … sk` : remove the elements that sit in slots `s1 … sk` *of the dump* (by handle, in that order,
through the model's `remove`) and then pop everything: `top=<0|1 after the removals> sorted=<0|1> pops=…` (used by
the targeted search for a continuation that turns a latent disorder into a visible one).
`Q <inf|k> <n> lb0 est0 eff0 …` : rows of an eitstar::ForwardQueue in the container's iteration order; answer `front=<index>` —
the edge `getFrontIter(k)` selects as coded (`OmplModel.FwdQ.front`). -/
namespace OmplModel.Driver.HeapAuditDrv
open OmplModel.Heap OmplModel.Driver

abbrev St := Unit

def ltN : Nat → Nat → Bool := fun a b => decide (a < b)

def init (ts : List String) : Option St :=
  match ts with
  | ["heapaudit"] => some ()
  | _ => none

def b01 (b : Bool) : String := if b then "1" else "0"

/-- `r0 p0 r1 p1 …` → elements (handle = slot) and positions (indexed by handle) -/
def pairsRP : Nat → List Nat → Option (List (Elem Nat) × List Nat)
  | _, [] => some ([], [])
  | i, r :: p :: rest => do
    let (es, ps) ← pairsRP (i + 1) rest
    pure (⟨i, r⟩ :: es, p :: ps)
  | _, _ => none

def ranksOnly : Nat → List Nat → List (Elem Nat)
  | _, [] => []
  | i, r :: rest => ⟨i, r⟩ :: ranksOnly (i + 1) rest

def showNats (xs : List Nat) : String := if xs.isEmpty then "-" else ",".intercalate (xs.map toString)

def splitBar : List String → List String × List String
  | [] => ([], [])
  | "|" :: rest => ([], rest)
  | x :: rest => let (a, b) := splitBar rest; (x :: a, b)

def rows3 : List Nat → Option (List OmplModel.FwdQ.Row)
  | [] => some []
  | a :: b :: c :: rest => (rows3 rest).map (fun r => ⟨a, b, c⟩ :: r)
  | _ => none

def step (st : St) (ts : List String) : St × String :=
  match ts with
  | "H" :: n :: rest =>
    match parseNat? n, parseNats? rest with
    | some n, some xs =>
      match pairsRP 0 xs with
      | some (es, ps) =>
        if es.length ≠ n then (st, "bad-op") else
        let a := es.toArray
        let pops := popAll ltN a
        (st, s!"ord={b01 (heapOrdered ltN a)} pos={b01 (posConsistent a ps.toArray)} top={b01 (topIsMin ltN a)} " ++
          s!"sorted={b01 (sortedB ltN pops)} bad={showNats (badEdges ltN a)} pops={showNats (pops.map (·.key))}")
      | none => (st, "bad-op")
    | _, _ => (st, "bad-op")
  | "X" :: n :: rest =>
    let (left, right) := splitBar rest
    match parseNat? n, parseNats? left, takeCounted right with
    | some n, some rs, some (ss, []) =>
      match parseNats? ss with
      | some slots =>
        if rs.length ≠ n ∨ slots.any (fun s => s ≥ n) then (st, "bad-op") else
        let h0 : Heap Nat := { arr := (ranksOnly 0 rs).toArray, next := n }
        let h1 := slots.foldl (fun h s => h.remove ltN s) h0
        let pops := popAll ltN h1.arr
        (st, s!"top={b01 (topIsMin ltN h1.arr)} sorted={b01 (sortedB ltN pops)} pops={showNats (pops.map (·.key))}")
      | none => (st, "bad-op")
    | _, _, _ => (st, "bad-op")
  | "Q" :: f :: n :: rest =>
    let fac : Option (Option Nat) := if f = "inf" then some none else (parseNat? f).map some
    match fac, parseNat? n, parseNats? rest with
    | some fac, some n, some xs =>
      match rows3 xs with
      | some rows =>
        if rows.length ≠ n then (st, "bad-op") else
        match OmplModel.FwdQ.front fac rows with
        | some i => (st, s!"front={i}")
        | none => (st, "front=-")
      | none => (st, "bad-op")
    | _, _, _ => (st, "bad-op")
  | _ => (st, "bad-op")

end OmplModel.Driver.HeapAuditDrv
