import OmplModel.Model.Control
import OmplModel.Model.CRRT
import OmplModel.Model.CSST
import OmplModel.Model.CEST
import OmplModel.Model.CKPIECE
import OmplModel.Model.CPDST
import OmplModel.Model.Rng
import OmplModel.Model.ControlExtra
import OmplModel.Model.ControlSys
import OmplModel.Model.ControlReconf
import OmplModel.Driver.Common
/-!
Line-protocol driver for the control models (header `control`); grammar in harness/control.cpp.
Ops: `pwv`, `prop`, `pcheck`, `pinterp`, `rrtplay` (the recorded draws of a real control::RRT run),
`replayok` (the spec `replayOK` evaluated on a path the implementation printed).
-/
namespace OmplModel.Driver.ControlDrv
open OmplModel OmplModel.Control OmplModel.CRRT OmplModel.ControlSys OmplModel.Driver

abbrev F := Float
abbrev P := StateT (List String) Option

def tok : P String := do
  match (← get) with
  | [] => failure
  | t :: ts => set ts; pure t

def expect (w : String) : P Unit := do
  let t ← tok
  if t == w then pure () else failure

def pF : P F := do
  match parseFloatBits? (← tok) with
  | some x => pure x
  | none => failure

def pN : P Nat := do
  match parseNat? (← tok) with
  | some x => pure x
  | none => failure

def pI : P Int := do
  match parseInt? (← tok) with
  | some x => pure x
  | none => failure

def pMany {β : Type} (p : P β) : Nat → P (List β)
  | 0 => pure []
  | n + 1 => do
    let x ← p
    let xs ← pMany p n
    pure (x :: xs)

def pReals (n : Nat) : P (Array F) := do
  let xs ← pMany pF n
  pure xs.toArray

def pKV (key : String) : P String := do
  let t ← tok
  if t.startsWith (key ++ "=") then pure ((t.drop (key.length + 1)).toString) else failure

def pKVNat (key : String) : P Nat := do
  match parseNat? (← pKV key) with
  | some x => pure x
  | none => failure

def atEnd : P Unit := do
  match (← get) with
  | [] => pure ()
  | _ => failure

def guardP (b : Bool) : P Unit := if b then pure () else failure

def pKind : P Kind := do
  match (← tok) with
  | "point" => pure .point
  | "uni" => pure .uni
  | "dint" => pure .dint
  | "car" => pure .car
  | "dpoint" => pure .dpoint
  | _ => failure

def allLt (lo hi : Array F) : Bool := (List.range lo.size).all fun i => g lo i < g hi i

def pSys : P (Cfg F) := do
  let kind ← pKind
  let lo ← pReals kind.nb
  let hi ← pReals kind.nb
  let clo ← pReals 2
  let chi ← pReals 2
  let dt ← pF
  let mn ← pN
  let mx ← pN
  guardP (allLt lo hi && (List.range clo.size).all fun i => g clo i ≤ g chi i)
  guardP (dt > 1e-9 && (mn ≥ 1 || (mn == 0 && mx == 0)) && mn ≤ mx && mx ≤ 1000)
  -- `dpoint`: DiscreteControlSpace, the range is (clo[0], chi[0]) as integers, the second component is 0
  guardP (kind != .dpoint || (g clo 0 == (g clo 0).floor && g chi 0 == (g chi 0).floor && (g clo 0).abs ≤ 1e6 && (g chi 0).abs ≤ 1e6
    && g clo 1 == 0 && g chi 1 == 0))
  -- control::SpaceInformation::setup(): `minSteps_ == 0 && maxSteps_ == 0` becomes [1, 10]
  let (mn, mx) := if mn == 0 && mx == 0 then (1, 10) else (mn, mx)
  pure { kind, lo, hi, clo, chi, dt, minSteps := mn, maxSteps := mx }

def pEnv : P (List (Array F × Array F)) := do
  expect "boxes"
  let pdim ← pN
  guardP (pdim == 2)
  let k ← pN
  let bs ← pMany (do let lo ← pReals pdim; let hi ← pReals pdim; pure (lo, hi)) k
  pure bs

def eps : F := 2.220446049250313e-16          -- numeric_limits<double>::epsilon()
def fltEps : F := 1.1920928955078125e-07      -- numeric_limits<float>::epsilon()

def showReals (a : Array F) : String := joinSp (a.toList.map floatBits)

/-! ### pwv / prop -/

inductive FormK where
  | single | alias | vec (alloc : Bool) (presize : Nat)

def pForm : P FormK := do
  match (← tok) with
  | "single" => pure .single
  | "alias" => pure .alias
  | "vec" =>
    let a ← pN
    if a != 0 then pure (.vec true 0)
    else
      let m ← pN
      guardP (m ≤ 4096)
      pure (.vec false m)
  | _ => failure

/-- states of the pwv ops carry the number of steps taken from the start state, so that a validity
script indexed by call number (C++) is a pure function of the state (model) -/
abbrev TS := Array F × Nat

inductive Val where
  | script (a : Array Bool)
  | env (boxes : List (Array F × Array F))

def pVal : P Val := do
  expect "v"
  match (← tok) with
  | "s" =>
    let n ← pN
    let bs ← pMany pN n
    pure (.script (bs.map (· != 0)).toArray)
  | "e" =>
    let b ← pEnv
    pure (.env b)
  | _ => failure

def tsStep (c : Cfg F) (back : Bool) (s : TS) (u : Array F) : TS :=
  (ControlSys.step c.kind (if back then -c.dt else c.dt) s.1 u, s.2 + 1)

def tsValid (c : Cfg F) (v : Val) (s : TS) : Bool :=
  match v with
  | .script a => a.getD (s.2 - 1) true
  | .env boxes => ControlSys.valid c eps boxes s.1

def showVec (v : List (Option TS)) : String :=
  "vec=" ++ toString v.length ++
    String.join (v.map fun o => match o with
      | some s => " [" ++ showReals s.1 ++ "]"
      | none => " [null]")

def sentinels (c : Cfg F) (m : Nat) : List (Option TS) :=
  (List.range m).map fun j => some (Array.replicate c.kind.nreals (777.0 + Float.ofNat j), 0)

def opPwv (whileValid : Bool) : P String := do
  let c ← pSys
  let f ← pForm
  let steps ← pI
  guardP (steps ≤ 100000 && steps ≥ -100000)
  let v ← if whileValid then pVal else pure (.script #[])
  expect "st"
  let st ← pReals c.kind.nreals
  expect "ct"
  let ct ← pReals 2
  atEnd
  let s0 : TS := (st, 0)
  let stepB := tsStep c
  let valid := tsValid c v
  if whileValid then
    match f with
    | .single =>
      let r := pwvI stepB valid s0 ct steps
      pure s!"r={r.1} res={showReals r.2.1} vec=-"
    | .alias =>
      let r := pwvAlias (stepB (decide (steps < 0))) valid s0 ct steps.natAbs
      pure s!"r={r.1} res={showReals r.2.1} vec=-"
    | .vec alloc m =>
      let r := pwvVecI stepB valid s0 ct steps (if alloc then [] else sentinels c m) alloc
      pure s!"r={r.1} res=- {showVec r.2}"
  else
    match f with
    | .single | .alias =>
      let r := propagateI stepB s0 ct steps
      pure s!"res={showReals r.1} vec=-"
    | .vec alloc m =>
      let r := propagateVec (stepB (decide (steps < 0))) s0 ct steps.natAbs (if alloc then [] else sentinels c m) alloc
      pure s!"res=- {showVec r}"

/-! ### paths -/

def showPath (dt : F) (p : Path (Array F) (Array F)) : String :=
  s!"n={p.states.length} nc={p.controls.length} S" ++
    String.join (p.states.map fun s => " " ++ showReals s) ++ " C" ++
    String.join (p.controls.map fun u => " " ++ showReals u) ++ " D" ++
    String.join (p.steps.map fun k => " " ++ floatBits (durOfSteps k dt))

def closeF (k : Kind) (a b : Array F) : Bool := !(decide (fltEps < ControlSys.dist k a b))

def pPathArgs : P (Cfg F × List (Array F × Array F) × Path (Array F) (Array F)) := do
  let c ← pSys
  let boxes ← pEnv
  let n ← pN
  guardP (n ≥ 1 && n ≤ 5000)
  let ss ← pMany (pReals c.kind.nreals) n
  let cs ← pMany (pReals 2) (n - 1)
  let ds ← pMany pF (n - 1)
  atEnd
  guardP (ds.all fun d => d ≥ 0 && !(d / c.dt > 10000))
  let ks := ds.map fun d => (durToSteps d c.dt).toNat
  pure (c, boxes, { states := ss, controls := cs, steps := ks })

def opPcheck : P String := do
  let (c, boxes, p) ← pPathArgs
  let ok := p.check (ControlSys.step c.kind c.dt) (ControlSys.valid c eps boxes) (closeF c.kind)
  pure s!"check={if ok then 1 else 0}"

def opPinterp : P String := do
  let (c, _, p) ← pPathArgs
  pure (showPath c.dt (p.interpolate (ControlSys.step c.kind c.dt)))

/-- `stepcount h k`: `durToSteps (durOfSteps k h) h` as coded (`floor(0.5 + d/h)`), seen through `interpolate` on a two-state
path (control count = max 1 steps) and `check`; `trunc` = the truncating conversion `(int)(d/h)` for comparison -/
def opStepCount : P String := do
  let h ← pF
  let k ← pN
  atEnd
  guardP (h > 1e-9 && h < 1e6 && k ≤ 100000)
  let d : F := durOfSteps k h
  let n := (durToSteps d h).toNat
  let p : Path (Array F) (Array F) := { states := [#[1.0, 1.0], #[1.0, 1.0]], controls := [#[0.0, 0.0]], steps := [n] }
  let step := ControlSys.step .point h
  let q := p.interpolate step
  let ok := p.check step (fun _ => true) (closeF .point)
  pure s!"steps={q.controls.length} check={if ok then 1 else 0} d={floatBits d} trunc={Num.toInt (d / h)}"

def opPgeom : P String := do
  let (c, _, p) ← pPathArgs
  let gs := p.asGeometric (ControlSys.step c.kind c.dt)
  pure (s!"geom n={gs.length}" ++ String.join (gs.map fun s => " " ++ showReals s))

/-- the spec oracle `replayOK` (Model/Control.lean) on a path printed by the implementation -/
def opReplayOk : P String := do
  let (c, boxes, p) ← pPathArgs
  let step := ControlSys.step c.kind c.dt
  let valid := ControlSys.valid c eps boxes
  match p.states with
  | [] => failure
  | s0 :: rest =>
    let sg := segs rest p.controls p.steps
    let r := replayFirstBad step valid (closeF c.kind) s0 sg 0
    let rx := replayFirstBad step valid (fun a b => a.toList.map Float.toBits == b.toList.map Float.toBits) s0 sg 0
    let cb := p.controls.all (ctlInBounds c)
    let sh := fun (o : Option Nat) => match o with | none => "ok" | some i => s!"bad@{i}"
    pure s!"replay={sh r} exact={sh rx} start={if valid s0 then 1 else 0} ctl={if cb then 1 else 0}"

/-! ### control RRT on recorded draws -/

/-- the control / step-count events of one `sampleTo`, in the order drawn (C K (K C)*) -/
partial def pEvs (cs : Array (Array F)) (ks : Array Nat) : P (Array (Array F) × Array Nat) := do
  match (← get) with
  | "C" :: _ =>
    let _ ← tok
    let u ← pReals 2
    pEvs (cs.push u) ks
  | "K" :: _ =>
    let _ ← tok
    let k ← pN
    pEvs cs (ks.push k)
  | _ => pure (cs, ks)

partial def pDraws (acc : Array (Draw (Array F) (Array F))) (nreals : Nat) :
    P (Array (Draw (Array F) (Array F))) := do
  match (← get) with
  | [] => pure acc
  | _ =>
    let t ← tok
    let (useGoal, sample) ←
      if t == "G" then pure (true, (#[] : Array F))
      else if t == "U" then do
        let r ← pReals nreals
        pure (false, r)
      else failure
    let (cs, ks) ← pEvs #[] #[]
    guardP (cs.size == ks.size)
    pDraws (acc.push { useGoal, sample, ctl := cs.toList.zip ks.toList }) nreals

def statusName : Status → String
  | .invalidStart => "INVALID_START"
  | .timeout => "TIMEOUT"
  | .approximate => "APPROXIMATE_SOLUTION"
  | .exact => "EXACT_SOLUTION"

def showTree (t : Array (Motion (Array F) (Array F))) : String :=
  s!"tree {t.size}" ++ String.join (t.toList.map fun m =>
    s!" [{showReals m.state} ; {showReals m.control} ; {m.steps} ; " ++
      (match m.parent with | none => "-" | some p => toString p) ++ "]")

/-- `RealVectorControlSpace::nullControl` -/
def nullControl (c : Cfg F) : Array F :=
  (Array.range 2).map fun i => if g c.clo i ≤ 0.0 && g c.chi i ≥ 0.0 then 0.0 else g c.clo i

def opRrtPlay : P String := do
  let c ← pSys
  let boxes ← pEnv
  expect "starts"
  let ns ← pN
  guardP (ns ≥ 1 && ns ≤ 16)
  let starts ← pMany (pReals c.kind.nreals) ns
  expect "goal"
  let gk ← (do
    match (← tok) with
    | "pos" => pure GoalKind.pos
    | "pred" => pure GoalKind.pred
    | "l1" => pure GoalKind.l1
    | _ => failure)
  let goal ← pReals c.kind.nreals
  let thr ← pF
  let inter ← pKVNat "inter"
  expect "draws"
  let draws ← pDraws #[] c.kind.nreals
  -- every iteration draws the same number k ≥ 1 of controls (numControlSamples_), counts ≤ 100000
  let k := (draws.toList.head?.map (·.ctl.length)).getD 0
  guardP (draws.all fun d => d.ctl.length == k && k ≥ 1 && k ≤ 50 && d.ctl.all (·.2 ≤ 100000))
  let valid := ControlSys.valid c eps boxes
  let step := ControlSys.step c.kind c.dt
  let P : Problem (Array F) (Array F) F :=
    { step, valid, dist := ControlSys.dist c.kind, lt := fun a b => a < b, inf := 1.0 / 0.0,
      goal := goalTest gk 1.7976931348623157e308 goal thr, goalSample := goal, nullControl := nullControl c,
      minSteps := c.minSteps, intermediate := inter != 0 }
  let r := solve P starts draws.toList
  let has := r.path.isSome
  let hd := s!"status={statusName r.status} has={if has then 1 else 0} approx={if r.status == .approximate then 1 else 0}" ++
    -- ProblemDefinition::addSolutionPath stores the difference only for approximate solutions (else 0)
    s!" dif={floatBits (if !has then -1.0 else if r.status == .approximate then r.dif else 0.0)}" ++
    s!" cb {floatBits (g c.clo 0)} {floatBits (g c.clo 1)} {floatBits (g c.chi 0)} {floatBits (g c.chi 1)}" ++
    s!" dt={floatBits c.dt} min={c.minSteps} max={c.maxSteps}"
  let pth := match r.path with
    | some p =>
      let inside := match p.states.getLast? with
        | some l => (P.goal l).1
        | none => false
      s!" libcheck={if p.check step valid (closeF c.kind) then 1 else 0} insidegoal={if inside then 1 else 0} path {showPath c.dt p}"
    | none => " libcheck=- insidegoal=- path none"
  pure (hd ++ pth ++ " | " ++ showTree r.tree)

/-! ### control SST on recorded draws -/

partial def pSstDraws (acc : Array (CSST.Draw (Array F) (Array F))) (nreals : Nat) :
    P (Array (CSST.Draw (Array F) (Array F))) := do
  match (← get) with
  | [] => pure acc
  | _ =>
    let t ← tok
    let (useGoal, sample) ←
      if t == "G" then pure (true, (#[] : Array F))
      else if t == "U" then do
        let r ← pReals nreals
        pure (false, r)
      else failure
    expect "C"
    let u ← pReals 2
    expect "K"
    let k ← pN
    guardP (k ≤ 100000)
    pSstDraws (acc.push { useGoal, sample, control := u, steps := k }) nreals

def pKVF (key : String) : P F := do
  match parseFloatBits? (← pKV key) with
  | some x => pure x
  | none => failure

def opSstPlay : P String := do
  let c ← pSys
  let boxes ← pEnv
  expect "starts"
  let ns ← pN
  guardP (ns ≥ 1 && ns ≤ 16)
  let starts ← pMany (pReals c.kind.nreals) ns
  expect "goal"
  let gk ← (do
    match (← tok) with
    | "pos" => pure GoalKind.pos
    | "pred" => pure GoalKind.pred
    | "l1" => pure GoalKind.l1
    | _ => failure)
  let goal ← pReals c.kind.nreals
  let thr ← pF
  let sel ← pKVF "sel"
  let prune ← pKVF "prune"
  let bias ← pKVF "bias"
  let lseed ← pKVNat "lseed"
  guardP (sel ≥ 0 && prune ≥ 0 && lseed < 4294967296)
  expect "draws"
  let draws0 ← pSstDraws #[] c.kind.nreals
  -- the planner's own RNG, recomputed: `goal_s && rng_.uniform01() < goalBias_ && canSample()` then
  -- `rng_.uniformInt(minSteps, maxSteps)`; the harness's recorded G / K events must agree (else `desync`)
  let chk := draws0.foldl (fun (acc : Rng.Rng × Array (CSST.Draw (Array F) (Array F)) × Option Nat) d =>
    let (r0, out, bad) := acc
    let gb : Bool × Rng.Rng :=
      if gk == .pos then let x := r0.uniform01; (x.1 < bias, x.2) else (false, r0)
    let kk := gb.2.uniformInt (Int.ofNat c.minSteps) (Int.ofNat c.maxSteps)
    let k := kk.1.toNat
    let bad' := if bad.isNone && (gb.1 != d.useGoal || k != d.steps) then some out.size else bad
    (kk.2, out.push { d with useGoal := gb.1, steps := k }, bad')) (Rng.Rng.create lseed.toUInt64, #[], none)
  let draws := chk.2.1
  if let some i := chk.2.2 then
    return s!"desync: recorded goal-bias / step-count event {i} differs from the RNG model"
  let valid := ControlSys.valid c eps boxes
  let step := ControlSys.step c.kind c.dt
  let P : CSST.Problem (Array F) (Array F) F :=
    { step, valid, dist := ControlSys.dist c.kind, lt := fun a b => a < b, le := fun a b => a ≤ b, inf := 1.0 / 0.0,
      zero := 0.0, add := fun a b => a + b, motionCost := ControlSys.dist c.kind,
      costSatisfied := fun x => x < 0.0,      -- OptimizationObjective's default threshold_ = 0
      goal := goalTest gk 1.7976931348623157e308 goal thr, goalSample := goal, nullControl := nullControl c,
      selectionRadius := sel, pruningRadius := prune }
  let r := CSST.solve P starts draws.toList
  let has := r.path.isSome
  let hd := s!"status={statusName r.status} has={if has then 1 else 0} approx={if r.status == .approximate then 1 else 0}" ++
    s!" dif={floatBits (if !has then -1.0 else if r.status == .approximate then r.dif else 0.0)}" ++
    s!" cb {floatBits (g c.clo 0)} {floatBits (g c.clo 1)} {floatBits (g c.chi 0)} {floatBits (g c.chi 1)}" ++
    s!" dt={floatBits c.dt} min={c.minSteps} max={c.maxSteps}"
  let pth := match r.path with
    | some p =>
      let inside := match p.states.getLast? with
        | some l => (P.goal l).1
        | none => false
      s!" libcheck={if p.check step valid (closeF c.kind) then 1 else 0} insidegoal={if inside then 1 else 0} path {showPath c.dt p}"
    | none => " libcheck=- insidegoal=- path none"
  let st := r.final
  let pos := fun (i : Nat) => match st.nn.idxOf? i with | some j => toString j | none => "x"
  let tree := s!"tree {st.nn.length}" ++ String.join (st.nn.map fun i =>
    match st.tree[i]? with
    | none => " [?]"
    | some m =>
      s!" [{showReals m.state} ; {showReals m.control} ; {m.steps} ; " ++
        (match m.parent with | none => "-" | some p => pos p) ++
        s!" ; {floatBits (st.cost.getD i 0.0)} ; {st.nchild.getD i 0} ; {if st.inactive.getD i false then 1 else 0}]")
  let wits := s!"wits {st.wits.size}" ++ String.join (st.wits.toList.map fun w =>
    s!" [{showReals w.state} ; " ++ (match w.rep with | none => "-" | some rp => pos rp) ++ "]")
  pure (hd ++ pth ++ " | " ++ tree ++ " | " ++ wits)

/-! ### control EST on recorded draws (the planner's own RNG is the bit-exact `Model/Rng.lean`) -/

partial def pEstDraws (acc : Array (CEST.Draw (Array F) (Array F))) (nreals : Nat) :
    P (Array (CEST.Draw (Array F) (Array F))) := do
  match (← get) with
  | [] => pure acc
  | _ =>
    let t ← tok
    let near ←
      if t == "G" || t == "X" then pure (none : Option (Array F))
      else if t == "N" then do
        let r ← pReals nreals
        pure (some r)
      else failure
    let (cs, ks) ← pEvs #[] #[]
    guardP (cs.size == ks.size && cs.size ≤ 50 && ks.all (· ≤ 100000))
    pEstDraws (acc.push { near, ctl := cs.toList.zip ks.toList }) nreals

def pGoalKind : P GoalKind := do
  match (← tok) with
  | "pos" => pure GoalKind.pos
  | "pred" => pure GoalKind.pred
  | "l1" => pure GoalKind.l1
  | _ => failure

/-- lexicographic order on grid coordinates (the harness prints cells from a `std::map<pair<int,int>, …>`) -/
def coordLe : List Int → List Int → Bool
  | [], _ => true
  | _ :: _, [] => false
  | a :: as, b :: bs => if a < b then true else if b < a then false else coordLe as bs

def showCoord (c : List Int) : String := joinSp (c.map toString)

def solHead (c : Cfg F) (status : Status) (dif : F) (path : Option (Path (Array F) (Array F)))
    (goalT : Array F → Bool × F) (step : Array F → Array F → Array F) (valid : Array F → Bool) : String :=
  let has := path.isSome
  let hd := s!"status={statusName status} has={if has then 1 else 0} approx={if status == .approximate then 1 else 0}" ++
    s!" dif={floatBits (if !has then -1.0 else if status == .approximate then dif else 0.0)}" ++
    s!" cb {floatBits (g c.clo 0)} {floatBits (g c.clo 1)} {floatBits (g c.chi 0)} {floatBits (g c.chi 1)}" ++
    s!" dt={floatBits c.dt} min={c.minSteps} max={c.maxSteps}"
  let pth := match path with
    | some p =>
      let inside := match p.states.getLast? with
        | some l => (goalT l).1
        | none => false
      s!" libcheck={if p.check step valid (closeF c.kind) then 1 else 0} insidegoal={if inside then 1 else 0} path {showPath c.dt p}"
    | none => " libcheck=- insidegoal=- path none"
  hd ++ pth

def opEstPlay : P String := do
  let c ← pSys
  let boxes ← pEnv
  expect "starts"
  let ns ← pN
  guardP (ns ≥ 1 && ns ≤ 16)
  let starts ← pMany (pReals c.kind.nreals) ns
  expect "goal"
  let gk ← pGoalKind
  let goal ← pReals c.kind.nreals
  let thr ← pF
  let cell ← pKVF "cell"
  let bias ← pKVF "bias"
  let lseed ← pKVNat "lseed"
  guardP (cell > 1e-6 && bias ≥ 0 && bias ≤ 1 && lseed < 4294967296)
  expect "draws"
  let draws ← pEstDraws #[] c.kind.nreals
  let valid := ControlSys.valid c eps boxes
  let step := ControlSys.step c.kind c.dt
  let goalT := goalTest gk 1.7976931348623157e308 goal thr
  let P : CEST.Problem (Array F) (Array F) F (List Int) Rng.Rng :=
    { step, valid, dist := ControlSys.dist c.kind, lt := fun a b => a < b, inf := 1.0 / 0.0,
      goal := goalT, goalSample := goal, goalSampleable := gk == .pos, canSample := true, goalBias := bias,
      nullControl := nullControl c, minSteps := c.minSteps,
      -- computeCoordinates: floor(projection ./ cellSizes) cast to int
      coordOf := fun s => [Num.toInt (Float.floor (g s 0 / cell)), Num.toInt (Float.floor (g s 1 / cell))],
      wOne := 1.0, wInv := fun n => 1.0 / Float.ofNat n,
      rng01 := fun r => r.uniform01,
      rngInt := fun r hi => let x := r.uniformInt 0 (Int.ofNat hi); (x.1.toNat, x.2) }
  let r := CEST.solve P (Rng.Rng.create lseed.toUInt64) starts draws.toList
  let st := r.final
  let nameOf := fun (m : Nat) =>
    match st.cells.toList.find? (fun cl => cl.motions.contains m) with
    | some cl => s!"{showCoord cl.coord} {(cl.motions.idxOf? m).getD 0}"
    | none => "?"
  let sorted := st.cells.toList.mergeSort fun a b => coordLe a.coord b.coord
  let cells := String.join (sorted.map fun cl =>
    s!" [{showCoord cl.coord} ; " ++ (match st.pdf.getWeight cl.elem with | some w => floatBits w | none => "?") ++
      s!" ; {cl.motions.length}" ++
      String.join (cl.motions.map fun mi =>
        match st.tree[mi]? with
        | none => " {?}"
        | some m =>
          " {" ++ s!"{showReals m.state} ; {showReals m.control} ; {m.steps} ; " ++
            (match m.parent with | none => "-" | some p => nameOf p) ++ "}") ++ "]")
  pure (solHead c r.status r.dif r.path goalT step valid ++
    s!" | est size={st.tree.size} cells={st.cells.size} pdf={st.pdf.size}" ++ cells)

/-! ### control KPIECE1 on recorded draws (planner RNG = `Model/Rng.lean`) -/

partial def pKpDraws (acc : Array (CKPIECE.Draw (Array F))) : P (Array (CKPIECE.Draw (Array F))) := do
  match (← get) with
  | [] => pure acc
  | _ =>
    expect "C"
    let u ← pReals 2
    expect "K"
    let k ← pN
    guardP (k ≤ 100000)
    pKpDraws (acc.push { control := u, steps := k })

def fenc (x : Float) : Int := Int.ofNat x.toBits.toNat
def fdec (i : Int) : Float := Float.ofBits i.toNat.toUInt64

def opKpiecePlay : P String := do
  let c ← pSys
  let boxes ← pEnv
  expect "starts"
  let ns ← pN
  guardP (ns ≥ 1 && ns ≤ 16)
  let starts ← pMany (pReals c.kind.nreals) ns
  expect "goal"
  let gk ← pGoalKind
  let goal ← pReals c.kind.nreals
  let thr ← pF
  let cell ← pKVF "cell"
  let nclose ← pKVNat "nclose"
  let bias ← pKVF "bias"
  let bf ← pKVF "bf"
  let good ← pKVF "good"
  let bad ← pKVF "bad"
  let lseed ← pKVNat "lseed"
  guardP (cell > 1e-6 && bias ≥ 0 && bias ≤ 1 && lseed < 4294967296 && nclose ≤ 1000)
  expect "draws"
  let draws ← pKpDraws #[]
  let valid := ControlSys.valid c eps boxes
  let step := ControlSys.step c.kind c.dt
  let goalT := goalTest gk 1.7976931348623157e308 goal thr
  let Pb : CKPIECE.Problem (Array F) (Array F) F Rng.Rng :=
    { P := { dim := 2, enc := fenc, dec := fdec, eps := Float.ofBits 0x3CB0000000000000 },
      step, valid, inf := 1.0 / 0.0, goal := goalT, nullControl := nullControl c,
      minSteps := c.minSteps, maxSteps := c.maxSteps,
      coordOf := fun s => [Num.toInt (Float.floor (g s 0 / cell)), Num.toInt (Float.floor (g s 1 / cell))],
      goalBias := bias, borderFraction := bf, goodScoreFactor := good, badScoreFactor := bad, nClose := nclose,
      rng01 := fun r => r.uniform01,
      rngHalf := fun r hi => let x := r.halfNormalInt 0 (Int.ofNat hi) 3.0; ((x.1.getD 0).toNat, x.2) }
  let r := CKPIECE.solve Pb (Rng.Rng.create lseed.toUInt64) starts draws.toList
  let st := r.final
  let d := st.disc
  let nameOf := fun (m : Nat) =>
    match d.cdata.find? (fun e => e.2.motions.contains m) with
    | some e => s!"{showCoord e.1} {(e.2.motions.idxOf? m).getD 0}"
    | none => "?"
  let sorted := d.grid.cells.mergeSort fun a b => coordLe a.coord b.coord
  let cells := String.join (sorted.map fun gc =>
    match Disc.lookup d.cdata gc.coord with
    | none => " [?]"
    | some cd =>
      s!" [{showCoord gc.coord} ; {floatBits cd.coverage} ; {cd.selections} ; {floatBits cd.score} ; {cd.iteration} ; " ++
        s!"{floatBits (fdec gc.data)} ; {gc.nbrs} ; {if gc.border then 1 else 0} ; {cd.motions.length}" ++
        String.join (cd.motions.map fun mi =>
          match st.tree[mi]? with
          | none => " {?}"
          | some m =>
            " {" ++ s!"{showReals m.state} ; {showReals m.control} ; {m.steps} ; " ++
              (match m.parent with | none => "-" | some p => nameOf p) ++ "}") ++ "]")
  pure (solHead c r.status r.dif r.path goalT step valid ++
    s!" | kpiece size={d.size} cells={d.grid.cells.length} iteration={d.iteration}" ++
    s!" int={Grid.countInternal d.grid} ext={Grid.countExternal d.grid}" ++ cells)

/-! ### control PDST on recorded draws (planner RNG = `Model/Rng.lean`) -/

partial def pPdstDraws (acc : Array (CPDST.Draw (Array F) (Array F))) (nreals : Nat) :
    P (Array (CPDST.Draw (Array F) (Array F))) := do
  match (← get) with
  | [] => pure acc
  | "S" :: _ => pure acc
  | _ =>
    let t ← tok
    let sample ←
      if t == "G" then pure (#[] : Array F)
      else if t == "U" then pReals nreals
      else failure
    let (cs, ks) ← pEvs #[] #[]
    guardP (cs.size == ks.size && cs.size ≤ 50 && ks.all (· ≤ 100000))
    pPdstDraws (acc.push { sample, ctl := cs.toList.zip ks.toList }) nreals

def showPdst (st : CPDST.St (Array F) (Array F) F Rng.Rng) : String :=
  let order := st.heap.arr.toList.map (·.key.2)
  let pos := fun (i : Nat) => match order.idxOf? i with | some j => toString j | none => "x"
  let body := String.join (order.map fun i =>
    match st.motions[i]? with
    | none => " [?]"
    | some m =>
      s!" [{showReals m.start} ; {showReals m.stop} ; " ++ (match m.control with | some u => showReals u | none => "-") ++
        s!" ; {m.dur} ; {floatBits m.priority} ; " ++
        (match st.cells[m.cell]? with | some cl => floatBits cl.volume | none => "?") ++ " ; " ++
        (match m.parent with | none => "-" | some p => pos p) ++ s!" ; {if m.isSplit then 1 else 0}]")
  s!"pdst n={order.length} cells={st.cells.size} iteration={st.iteration} last=" ++
    (match st.lastGoal with | some l => pos l | none => "-") ++ body

def opPdstPlay : P String := do
  let c ← pSys
  let boxes ← pEnv
  expect "starts"
  let ns ← pN
  guardP (ns ≥ 1 && ns ≤ 16)
  let starts ← pMany (pReals c.kind.nreals) ns
  expect "goal"
  let gk ← pGoalKind
  let goal ← pReals c.kind.nreals
  let thr ← pF
  let bias ← pKVF "bias"
  let clearsol? ← (do
    match (← get) with
    | t :: _ => if t.startsWith "clearsol=" then let v ← pKVNat "clearsol"; pure (some (v != 0)) else pure none
    | [] => pure none)
  let lseed ← pKVNat "lseed"
  guardP (bias ≥ 0 && bias ≤ 1 && lseed < 4294967296)
  expect "draws"
  let draws ← pPdstDraws #[] c.kind.nreals
  let draws2 ← (do
    match (← get) with
    | "S" :: _ => let _ ← tok; pPdstDraws #[] c.kind.nreals
    | _ => pure #[])
  atEnd
  let valid := ControlSys.valid c eps boxes
  let step := ControlSys.step c.kind c.dt
  let goalT := goalTest gk 1.7976931348623157e308 goal thr
  let Pb : CPDST.Problem (Array F) (Array F) F Rng.Rng :=
    { step, valid, dist := ControlSys.dist c.kind,
      close := fun a b => decide (ControlSys.dist c.kind a b < fltEps),
      inf := 1.0 / 0.0, goal := goalT, goalSample := goal, goalSampleable := gk == .pos, canSample := true,
      goalBias := bias, minSteps := c.minSteps,
      project := fun s => #[g s 0, g s 1], ndim := 2, lo := #[g c.lo 0, g c.lo 1], hi := #[g c.hi 0, g c.hi 1],
      rng01 := fun r => r.uniform01,
      rngInt1 := fun r hi => let x := r.uniformInt 1 (Int.ofNat hi); (x.1.toNat, x.2) }
  let r := CPDST.solve Pb (Rng.Rng.create lseed.toUInt64) starts draws.toList
  let first := solHead c r.status r.dif r.path goalT step valid ++ " | " ++ showPdst r.final
  match clearsol? with
  | none => pure first
  | some cs =>
    -- pdef_->hasExactSolution(): the first solve published an exact path and the caller did not clear it
    let hasExact := !cs && r.status == .exact && r.path.isSome
    let r2 := CPDST.resume Pb r.final hasExact [] draws2.toList
    let nsol := (if r.path.isSome then 1 else 0) + (if r2.path.isSome then 1 else 0)
    let second :=
      if cs then solHead c r2.status r2.dif r2.path goalT step valid
      else s!"status={statusName r2.status} nsol={nsol}"
    pure (first ++ " ### " ++ second ++ " | " ++ showPdst r2.final)

/-! ### sampler histories and re-entrancy (`Model/ControlReconf.lean`) -/

section reconf
open OmplModel.ControlReconf

def rawRng (r : Rng.Rng) : F × Rng.Rng := r.uniform01

def pCBounds (disc : Bool) (dim : Nat) : P (CBounds F) := do
  if disc then
    let lo ← pI
    let hi ← pI
    guardP (lo ≤ hi && lo ≥ -1000000 && hi ≤ 1000000)
    pure (.disc lo hi)
  else
    let lo ← pMany pF dim
    let hi ← pMany pF dim
    guardP ((lo.zip hi).all fun (l, h) => l ≤ h && l.abs < 1e12 && h.abs < 1e12)
    pure (.real lo hi)

partial def pSamplerOps (disc : Bool) (dim : Nat) (acc : Array (Op F Rng.Rng (Array F))) : P (Array (Op F Rng.Rng (Array F))) := do
  match (← get) with
  | [] => pure acc
  | _ =>
    guardP (acc.size < 4000)
    match (← tok) with
    | "B" => let b ← pCBounds disc dim; pSamplerOps disc dim (acc.push (.setBounds b))
    | "S" => pSamplerOps disc dim (acc.push .sample)
    | "N" => pSamplerOps disc dim (acc.push .sample)      -- ControlSampler::sampleNext = sample
    | "K" =>
      let a ← pN
      let b ← pN
      guardP (a ≤ b && b ≤ 1000000)
      pSamplerOps disc dim (acc.push (.stepCount a b))
    | "R" => let sd ← pN; pSamplerOps disc dim (acc.push (.realloc (Rng.Rng.create sd.toUInt64)))
    | _ => failure

def showOutS : Out F (Array F) → String
  | .unit => ""
  | .ctl (.real v) => " S" ++ String.join (v.map fun x => " " ++ floatBits x)
  | .ctl (.disc v) => s!" S {v}"
  | .steps k => s!" K {k}"
  | .to _ => " ?"

def samplerParams : Params F Rng.Rng (Array F) F :=
  { drawCtl := sampleCtl rawRng, drawSteps := sampleSteps rawRng, step := fun _ s _ => s, valid := fun _ => true,
    dist := fun _ _ => 0.0, lt := fun a b => decide (a < b), k := 1 }

def opSampler : P String := do
  let kind ← tok
  guardP (kind == "real" || kind == "disc")
  let disc := kind == "disc"
  let dim ← if disc then pure 1 else pN
  guardP (dim ≥ 1 && dim ≤ 6)
  let b0 ← pCBounds disc dim
  let lseed ← pKVNat "lseed"
  expect "ops"
  let ops ← pSamplerOps disc dim #[]
  let st : St F Rng.Rng := { conf := { cb := b0, minSteps := 1, maxSteps := 1, dt := 1.0 }, gen := Rng.Rng.create lseed.toUInt64, cache := b0 }
  pure ("draws" ++ String.join ((run samplerParams false st ops.toList).map showOutS))

def ctlArr : Ctl F → Array F
  | .real v => v.toArray
  | .disc v => #[Float.ofInt v, 0.0]

def cboundsOf (c : Cfg F) (l0 l1 h0 h1 : F) : CBounds F :=
  if c.kind == .dpoint then .disc (Num.toInt l0) (Num.toInt h0) else .real [l0, l1] [h0, h1]

partial def pDSamplerOps (c : Cfg F) (steered : Bool) (acc : Array (Op F Rng.Rng (Array F))) : P (Array (Op F Rng.Rng (Array F))) := do
  match (← get) with
  | [] => pure acc
  | _ =>
    guardP (acc.size < 2000)
    match (← tok) with
    | "B" =>
      let l0 ← pF
      let l1 ← pF
      let h0 ← pF
      let h1 ← pF
      guardP (l0 ≤ h0 && l1 ≤ h1)
      guardP (c.kind != .dpoint || (l0 == l0.floor && h0 == h0.floor && l0.abs ≤ 1e6 && h0.abs ≤ 1e6))
      pDSamplerOps c steered (acc.push (.setBounds (cboundsOf c l0 l1 h0 h1)))
    | "M" =>
      let a ← pN
      let b ← pN
      guardP (a ≥ 1 && a ≤ b && b ≤ 1000)
      pDSamplerOps c steered (acc.push (.setMinMax a b))
    | "D" =>
      let d ← pF
      guardP (d > 1e-9 && d < 1e3)
      pDSamplerOps c steered (acc.push (.setStep d))
    | "R" => let sd ← pN; pDSamplerOps c steered (acc.push (.realloc (Rng.Rng.create sd.toUInt64)))
    | "T" =>
      let src ← pReals c.kind.nreals
      let dst ← pReals c.kind.nreals
      pDSamplerOps c steered (acc.push (if steered then .steerTo src dst else .sampleTo src dst))
    | _ => failure

def showOutT : Out F (Array F) → String
  | .to (some (u, n, s)) => s!" T {showReals (ctlArr u)} {n} {showReals s}"
  | .to none => " T none"
  | _ => ""

def opDSampler : P String := do
  let c ← pSys
  let boxes ← pEnv
  let k ← pKVNat "k"
  let lseed ← pKVNat "lseed"
  let steered ← (do
    match (← get) with
    | t :: _ => if t == "steer=1" then let _ ← tok; pure true else if t == "steer=0" then let _ ← tok; pure false else pure false
    | [] => pure false)
  expect "ops"
  guardP (k ≥ 1 && k ≤ 20 && (!steered || c.kind == .point))
  let ops ← pDSamplerOps c steered #[]
  let P : Params F Rng.Rng (Array F) F :=
    { drawCtl := sampleCtl rawRng, drawSteps := sampleSteps rawRng,
      step := fun dt s u => ControlSys.step c.kind dt s (ctlArr u),
      valid := ControlSys.valid c eps boxes, dist := ControlSys.dist c.kind, lt := fun a b => decide (a < b), k := k,
      -- the harness's steering function of the point system (SysPropagator::steer): straight line at the max-norm speed 1
      steer := fun a b =>
        let dx := g b 0 - g a 0
        let dy := g b 1 - g a 1
        let L : F := Num.max dx.abs dy.abs
        if L > 0 then some (.real [dx / L, dy / L], L) else none,
      -- SteeredControlSampler: `unsigned int steps = std::floor(duration / si_->getPropagationStepSize() + 0.5)`
      toSteps := fun d dt => (Num.toInt (Float.floor (d / dt + 0.5))).toNat }
  let cb0 := cboundsOf c (g c.clo 0) (g c.clo 1) (g c.chi 0) (g c.chi 1)
  let st : St F Rng.Rng := { conf := { cb := cb0, minSteps := c.minSteps, maxSteps := c.maxSteps, dt := c.dt },
                             gen := Rng.Rng.create lseed.toUInt64, cache := cb0 }
  pure ("dsampler" ++ String.join ((run P false st ops.toList).map showOutT))

/-- one CALL of a `nest` line: the result text (as a pwv/prop line prints it) and the number of validity queries and
propagator calls the call makes -/
def pCall (c : Cfg F) (boxes : List (Array F × Array F)) : P (String × Nat × Nat) := do
  let w ← tok
  guardP (w == "pwv" || w == "prop")
  let whileValid := w == "pwv"
  let f ← pForm
  let steps ← pI
  guardP (steps ≤ 10000 && steps ≥ -10000)
  expect "st"
  let st ← pReals c.kind.nreals
  expect "ct"
  let ct ← pReals 2
  let s0 : TS := (st, 0)
  let stepB := tsStep c
  let valid := tsValid c (.env boxes)
  let n := steps.natAbs
  if whileValid then
    match f with
    | .single =>
      let r := pwvI stepB valid s0 ct steps
      let q := min (r.1 + 1) n
      pure (s!"r={r.1} res={showReals r.2.1} vec=-", q, q)
    | .alias =>
      let r := pwvAlias (stepB (decide (steps < 0))) valid s0 ct n
      let q := min (r.1 + 1) n
      pure (s!"r={r.1} res={showReals r.2.1} vec=-", q, q)
    | .vec alloc m =>
      let r := pwvVecI stepB valid s0 ct steps (if alloc then [] else sentinels c m) alloc
      let n' := if alloc then n else min n m
      let q := min (r.1 + 1) n'
      pure (s!"r={r.1} res=- {showVec r.2}", q, q)
  else
    match f with
    | .single | .alias =>
      let r := propagateI stepB s0 ct steps
      pure (s!"res={showReals r.1} vec=-", 0, n)
    | .vec alloc m =>
      let r := propagateVec (stepB (decide (steps < 0))) s0 ct n (if alloc then [] else sentinels c m) alloc
      pure (s!"res=- {showVec r}", 0, if alloc then n else min n m)

/-- `nest`: the model is re-entrant by construction (`pwv_reentrant`, `pwv_nested_both_alone`): each call alone; the nested
call runs iff the outer call makes an `at`-th invocation of the hooked callback -/
def opNest : P String := do
  let c ← pSys
  let boxes ← pEnv
  let h ← tok
  guardP (h == "hook=v" || h == "hook=p")
  let at_ ← pKVNat "at"
  let outer ← pCall c boxes
  let inner ← pCall c boxes
  atEnd
  let cnt := if h == "hook=v" then outer.2.1 else outer.2.2
  pure (outer.1 ++ " ## " ++ (if at_ < cnt then inner.1 else "not-run"))

end reconf

def init (ts : List String) : Option Unit :=
  match ts with
  | ["control"] => some ()
  | _ => none

def runP (p : P String) (ts : List String) : String :=
  match p.run ts with
  | some (s, _) => s
  | none => "bad-op"

def step (_ : Unit) (ts : List String) : Unit × String :=
  match ts with
  | "pwv" :: rest => ((), runP (opPwv true) rest)
  | "prop" :: rest => ((), runP (opPwv false) rest)
  | "pcheck" :: rest => ((), runP opPcheck rest)
  | "pinterp" :: rest => ((), runP opPinterp rest)
  | "pgeom" :: rest => ((), runP opPgeom rest)
  | "stepcount" :: rest => ((), runP opStepCount rest)
  | "replayok" :: rest => ((), runP opReplayOk rest)
  | "rrtplay" :: rest => ((), runP opRrtPlay rest)
  | "sstplay" :: rest => ((), runP opSstPlay rest)
  | "estplay" :: rest => ((), runP opEstPlay rest)
  | "kpieceplay" :: rest => ((), runP opKpiecePlay rest)
  | "pdstplay" :: rest => ((), runP opPdstPlay rest)
  | "sampler" :: rest => ((), runP opSampler rest)
  | "dsampler" :: rest => ((), runP opDSampler rest)
  | "nest" :: rest => ((), runP opNest rest)
  | _ => ((), "bad-op")

end OmplModel.Driver.ControlDrv
