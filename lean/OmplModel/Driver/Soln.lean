import OmplModel.Model.Soln
import OmplModel.Driver.Common
/-! Line-protocol driver for the solution-set / cost-algebra model (`soln obj=<min|max>`).

```
add <approx 0|1> <f:diff> <hasopt 0|1> <f:cost> <opt 0|1> <f:len>  -> ok n=<k>
list   -> n=<k> <rec>*k          top -> <rec> | none          clear -> ok
flags  -> approx=<0|1> opt=<0|1> diff=<f> exact=<0|1> n=<k>
chk <k> <rec>*k   -> inv=none | inv=<i>,<j>     (first pair i<j with rec_j < rec_i)
cmp <rec> <rec>   -> lt=<0|1> gt=<0|1>
sat <f:threshold> <f:cost> -> sat=<0|1>
path <kind> <field> <f:w> <dim> <f:lo> <f:hi> <f:frac> <factor> <npts> <f>*(dim*npts) -> cost=<f> len=<f>
rec = idx:approx:diff:hasopt:cost:opt:len
```
-/
namespace OmplModel.Driver.SolnDrv
open OmplModel.Soln OmplModel.Driver

structure St where
  cmp : Cmp Float
  alg : CostAlg Float
  set : SolnSet Float

def fLt (a b : Float) : Bool := a < b

def init (ts : List String) : Option St :=
  match ts with
  | ["soln", "obj=min"] => some ⟨⟨fLt, fLt⟩, algAdditive, []⟩
  | ["soln", "obj=max"] => some ⟨⟨fLt, fun a b => fLt b a⟩, algClearance, []⟩
  | _ => none

def bit (b : Bool) : String := if b then "1" else "0"

def parseBit? (s : String) : Option Bool :=
  match s with
  | "0" => some false
  | "1" => some true
  | _ => none

def showRec (r : Soln Float) : String :=
  s!"{r.idx}:{bit r.approx}:{floatBits r.diff}:{bit r.hasOpt}:{floatBits r.cost}:{bit r.optimized}:{floatBits r.length}"

def parseRec? (s : String) : Option (Soln Float) :=
  match s.splitOn ":" with
  | [i, a, d, h, c, o, l] => do
    let i ← parseInt? i
    let a ← parseBit? a
    let d ← parseFloatBits? d
    let h ← parseBit? h
    let c ← parseFloatBits? c
    let o ← parseBit? o
    let l ← parseFloatBits? l
    pure { idx := i, approx := a, diff := d, hasOpt := h, cost := c, optimized := o, length := l }
  | _ => none

def chunks (n : Nat) : Nat → List Float → List (List Float)
  | 0, _ => []
  | k + 1, xs => xs.take n :: chunks n k (xs.drop n)

def parseKind? : String → Option ObjKind
  | "len" => some .len
  | "sci" => some .sci
  | "scii" => some .scii
  | "minimax" => some .minimax
  | "clear" => some .clear
  | "work" => some .work
  | "multi" => some .multi
  | "time" => some .time
  | "lenit" => some .lenit
  | _ => none

def doPath (ts : List String) : Option String :=
  match ts with
  | kind :: fld :: w :: dim :: lo :: hi :: frac :: factor :: npts :: coords => do
    let kind ← parseKind? kind
    let fld ← parseNat? fld
    let w ← parseFloatBits? w
    let dim ← parseNat? dim
    let lo ← parseFloatBits? lo
    let hi ← parseFloatBits? hi
    let frac ← parseFloatBits? frac
    let factor ← parseNat? factor
    let npts ← parseNat? npts
    let cs ← coords.mapM parseFloatBits?
    if dim = 0 ∨ fld > 2 ∨ cs.length ≠ dim * npts then none
    else
      let sp : Space Float := Space.box dim lo hi frac factor
      let p := chunks dim npts cs
      pure s!"cost={floatBits (kind.pathCost sp fld w p)} len={floatBits (rvPathLength p)}"
  | _ => none

def step (st : St) (ts : List String) : St × String :=
  match ts with
  | ["add", a, d, h, c, o, l] =>
    match parseBit? a, parseFloatBits? d, parseBit? h, parseFloatBits? c, parseBit? o, parseFloatBits? l with
    | some a, some d, some h, some c, some o, some l =>
      let s' := SolnSet.add st.cmp st.set (Soln.make 0.0 a d h c o l)
      ({ st with set := s' }, s!"ok n={s'.length}")
    | _, _, _, _, _, _ => (st, "bad-op")
  | ["list"] => (st, joinSp (s!"n={st.set.length}" :: st.set.map showRec))
  | ["top"] =>
    match SolnSet.top st.set with
    | some r => (st, showRec r)
    | none => (st, "none")
  | ["flags"] =>
    (st, s!"approx={bit (SolnSet.isApproximate st.set)} opt={bit (SolnSet.isOptimized st.set)} " ++
         s!"diff={floatBits (SolnSet.getDifference (-1.0) st.set)} exact={bit (SolnSet.hasExactSolution st.set)} " ++
         s!"n={st.set.length}")
  | ["clear"] => ({ st with set := [] }, "ok")
  | "chk" :: rest =>
    match takeCounted rest with
    | some (xs, []) =>
      match xs.mapM parseRec? with
      | some rs =>
        match firstInversion st.cmp rs with
        | some (i, j) => (st, s!"inv={i},{j}")
        | none => (st, "inv=none")
      | none => (st, "bad-op")
    | _ => (st, "bad-op")
  | ["cmp", a, b] =>
    match parseRec? a, parseRec? b with
    | some a, some b => (st, s!"lt={bit (Soln.lt st.cmp a b)} gt={bit (Soln.lt st.cmp b a)}")
    | _, _ => (st, "bad-op")
  | ["sat", t, c] =>
    match parseFloatBits? t, parseFloatBits? c with
    | some t, some c => (st, s!"sat={bit (st.alg.isSatisfied t c)}")
    | _, _ => (st, "bad-op")
  | "path" :: rest =>
    match doPath rest with
    | some out => (st, out)
    | none => (st, "bad-op")
  | _ => (st, "bad-op")

end OmplModel.Driver.SolnDrv
