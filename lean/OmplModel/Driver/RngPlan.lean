import OmplModel.Model.RngPlan
import OmplModel.Driver.Common
/-!
Line-protocol driver for the RRT-as-oracle-computation model (`Model/RngPlan.lean`); twin of `harness/rng_rrt.cpp`.
Header: `rrtl [clock=<c>]` (`c` = the value the model's seed generator takes for the microsecond clock; the harness
ignores it and uses the real clock).  One `run …` line per process (the global seed must precede every generator):

    run space=<rv|se2> dim=<d> lo=<b,..> hi=<b,..> boxes=<lo..,hi..;…|-> starts=<b,..;…> goals=<b,..;…> thr=<b> res=<b> range=<b>
        bias=<b> is=<0|1> seed=<n> budget=<n> hist=<[sc]+> ptc=<evals|iter> trace=<0|1>
-/
namespace OmplModel.Driver.RngPlanDrv
open OmplModel.Rng OmplModel.RngPlan OmplModel.Driver

structure St where
  clock : UInt64
  seeded : Bool := false

def parseU64? (s : String) : Option UInt64 :=
  match s.toNat? with
  | some n => if n < 2^64 then some (UInt64.ofNat n) else none
  | none => none

def init (ts : List String) : Option St :=
  match ts with
  | ["rrtl"] => some { clock := 0 }
  | ["rrtl", c] =>
    if c.startsWith "clock=" then (parseU64? ((c.drop 6).toString)).map fun c => { clock := c } else none
  | _ => none

def parseVec? (n : Nat) (s : String) : Option Vec := do
  let xs ← (s.splitOn ",").mapM parseFloatBits?
  if xs.length == n then some xs.toArray else none

def parseVecs? (n : Nat) (s : String) : Option (List Vec) :=
  if s == "-" then some [] else (s.splitOn ";").mapM (parseVec? n)

def kvs (ts : List String) : Option (List (String × String)) :=
  ts.mapM fun t =>
    match t.splitOn "=" with
    | [k, v] => some (k, v)
    | _ => none

def keys : List String :=
  ["space", "dim", "lo", "hi", "boxes", "starts", "goals", "thr", "res", "range", "bias", "is", "seed", "budget", "hist", "ptc",
   "trace"]

def parseHist? (s : String) : Option (List Phase) :=
  match s.toList with
  | 's' :: _ => s.toList.mapM fun c => if c == 's' then some Phase.solve else if c == 'c' then some Phase.clear else none
  | _ => none

def parseBit? (s : String) : Option Bool := if s == "0" then some false else if s == "1" then some true else none

structure Job where
  P : Problem
  boxes : List (Vec × Vec)
  seed : UInt64
  budget : Nat
  hist : List Phase
  iter : Bool
  trace : Bool

def parseJob? (ts : List String) : Option Job := do
  let m ← kvs ts
  if m.length != 17 then none
  if !(keys.all fun k => (m.filter (·.1 == k)).length == 1) then none
  let get := fun k => (m.lookup k).getD ""
  let dim ← parseNat? (get "dim")
  if dim < 1 || dim > 8 then none
  let se2 ← if get "space" == "rv" then some false else if get "space" == "se2" then some true else none
  if se2 && dim != 2 then none
  let n := if se2 then dim + 1 else dim
  let lo ← parseVec? dim (get "lo")
  let hi ← parseVec? dim (get "hi")
  let boxes ← parseVecs? (2 * dim) (get "boxes")
  let starts ← parseVecs? n (get "starts")
  let goals ← parseVecs? n (get "goals")
  if starts.isEmpty || goals.isEmpty then none
  let thr ← parseFloatBits? (get "thr")
  let res ← parseFloatBits? (get "res")
  let range ← parseFloatBits? (get "range")
  let bias ← parseFloatBits? (get "bias")
  let inter ← parseBit? (get "is")
  let seed ← parseU64? (get "seed")
  let budget ← parseNat? (get "budget")
  if budget > 1000000 then none
  let hist ← parseHist? (get "hist")
  let iter ← if get "ptc" == "evals" then some false else if get "ptc" == "iter" then some true else none
  let trace ← parseBit? (get "trace")
  if !((List.range dim).all fun i => lo.getD i 0.0 < hi.getD i 0.0) then none
  if !(res > 0.0 && res < 1.0) then none
  pure { P := { dim, se2, lo, hi, starts, goals := goals.toArray, thr, res, range, bias, inter },
         boxes := boxes.map fun b => (b.extract 0 dim, b.extract dim (2 * dim)),
         seed, budget, hist, iter, trace }

def hex16 (v : UInt64) : String :=
  let ds := (Nat.toDigits 16 v.toNat)
  String.ofList (List.replicate (16 - ds.length) '0' ++ ds)

def showSection (_dim : Nat) (e : EnvSt) (evals polls : Nat) (qhash : UInt64) (s : Section) : String :=
  match s.report with
  | none => "cleared"
  | some r =>
    let (approx, dif, path) :=
      match r.solution with
      | none => ("0", "-", "none")
      | some (ap, d, p) =>
        (if ap then "1" else "0", floatBits ((r.solutionDifference).getD d),
         s!"{p.length}:{hex16 (p.foldl (fun (h : UInt64) (x : Vec) => fnvVec h x) fnvInit)}")
    let th := s.ps.tree.foldl (fun (h : UInt64) (m : Motion) =>
      fnvU64 (fnvVec h m.state) (match m.parent with | some p => (p + 1).toUInt64 | none => 0)) fnvInit
    let _ := e
    s!"status={r.status} approx={approx} evals={evals} polls={polls} qhash={hex16 qhash} dif={dif} path={path} " ++
      s!"tree={s.ps.tree.size}:{hex16 th} lseed={s.ps.rngSeed}," ++
      (match s.ps.sampler with | some (_, sd) => toString sd | none => "-")

/-- Counters and hash are cumulative over the sections of a history; each `solve` section is printed from the `mark` the
program left when that `solve` returned. -/
def runJob (clock : UInt64) (j : Job) : String :=
  let orc := boxOracle j.P j.boxes
  let full := runS (envStep orc) (program j.P j.budget j.hist) (envInit clock j.seed j.iter j.trace)
  match full.1 with
  | none => "model-diverged"
  | some secs =>
    let marks := full.2.marks.reverse
    let lines := (secs.foldl (fun (acc : List String × Nat) s =>
      match s.report with
      | none => (acc.1 ++ ["cleared"], acc.2)
      | some _ =>
        match marks[acc.2]? with
        | none => (acc.1 ++ ["?"], acc.2 + 1)
        | some (ev, po, qh) => (acc.1 ++ [showSection j.P.dim full.2 ev po qh s], acc.2 + 1)) ([], 0)).1
    let tr := if j.trace then
        (full.2.log.reverse.zipIdx.map fun ((x, b), i) =>
          s!"q {i} {if b then 1 else 0} " ++ joinSp (x.toList.map floatBits))
      else []
    "\n".intercalate (tr ++ [" || ".intercalate lines])

def step (st : St) (ts : List String) : St × String :=
  match ts with
  | "run" :: rest =>
    if st.seeded then (st, "bad-op")
    else
      match parseJob? rest with
      | none => (st, "bad-op")
      | some j => ({ st with seeded := true }, runJob st.clock j)
  | _ => (st, "bad-op")

end OmplModel.Driver.RngPlanDrv
