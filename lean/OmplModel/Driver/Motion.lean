import OmplModel.Model.Motion
import OmplModel.Model.MotionReconf
import OmplModel.Model.Dubins
import OmplModel.Model.ReedsShepp
import OmplModel.Model.Vana
import OmplModel.Driver.Common
/-!
Line-protocol driver for the motion-check model (see harness/motion.cpp for the grammar).

The segment count `n` is computed by the model itself (generic `segCount` at `Float`,
`compoundSegCount` over the components) for the spaces whose distance is elementary (R^n, SO(2)
and compounds of them) and, since round 4, for Dubins, symmetric Dubins and Reeds-Shepp as well: the
distance is computed by C14's bit-exact models (`OmplModel.Dubins.distance`, `OmplModel.RS.rsDistance`)
and `L` is the SE(2) extent `1·|R² box| + 0.5·π` times the fraction, so no `hint` is needed there.
For Owen / Vana / VanaOwen (and the constrained traversal) `n` and whether a path exists still come
from a `hint` line; the harness prints the real `n` on every call, so a wrong hint shows up as a
disagreement.
-/
namespace OmplModel.Driver.MotionDrv
open OmplModel.Motion OmplModel.Driver

/-- shape of a state space as far as `validSegmentCount` is concerned.  A compound's own factor and
its weights do not enter the count (only its components' counts do). -/
inductive Sp where
  | rv (d : Nat) (fac : Nat)
  | so2 (fac : Nat)
  | cmpd (parts : List Sp)

structure Ctx where
  frac : Float
  lo : Float
  hi : Float

def pi : Float := Float.ofBits 0x400921FB54442D18
/-- `boost::math::double_constants::sixth_pi` (VanaStateSpace's default maximum pitch) -/
def sixthPi : Float := Float.ofBits 0x3FE0C152382D7366

/-- `RealVectorStateSpace::getMaximumExtent`: `e += d*d` per dimension, `sqrt(e)`. -/
def rvExtent (c : Ctx) : Nat → Float → Float
  | 0, e => Float.sqrt e
  | k + 1, e => rvExtent c k (e + (c.hi - c.lo) * (c.hi - c.lo))

/-- `RealVectorStateSpace::distance`: `diff = s1[i] - s2[i]; dist += diff*diff`, `sqrt(dist)`. -/
def rvDist : List Float → List Float → Float → Float
  | x :: xs, y :: ys, acc => rvDist xs ys (acc + (x - y) * (x - y))
  | _, _, acc => Float.sqrt acc

/-- `SO2StateSpace::distance`. -/
def so2Dist (a b : Float) : Float :=
  let d := Float.abs (a - b)
  if d > pi then 2.0 * pi - d else d

mutual
  def Sp.dim : Sp → Nat
    | .rv d _ => d
    | .so2 _ => 1
    | .cmpd ps => Sp.dims ps
  def Sp.dims : List Sp → Nat
    | [] => 0
    | p :: ps => p.dim + Sp.dims ps
end

mutual
  /-- `validSegmentCount(s1, s2)` with `longestValidSegment_ = maxExtent * fraction` per leaf space. -/
  def Sp.seg (c : Ctx) : Sp → List Float → List Float → Nat
    | .rv d fac, a, b => segCount fac (rvDist (a.take d) (b.take d) 0.0) (rvExtent c d 0.0 * c.frac)
    | .so2 fac, a, b => segCount fac (so2Dist (a.headD 0.0) (b.headD 0.0)) (pi * c.frac)
    | .cmpd ps, a, b => compoundSegCount (Sp.segs c ps a b)
  def Sp.segs (c : Ctx) : List Sp → List Float → List Float → List Nat
    | [], _, _ => []
    | p :: ps, a, b =>
      p.seg c (a.take p.dim) (b.take p.dim) :: Sp.segs c ps (a.drop p.dim) (b.drop p.dim)
end

/-- `SO2StateSpace::interpolate` (with the `>=` of the F4 fix). -/
def so2Interp (a b t : Float) : Float :=
  let diff := b - a
  if Float.abs diff <= pi then a + diff * t
  else
    let diff := if diff > 0.0 then 2.0 * pi - diff else -2.0 * pi - diff
    let v := a - diff * t
    if v >= pi then v - 2.0 * pi else if v < -pi then v + 2.0 * pi else v

/-- `RealVectorStateSpace::interpolate`. -/
def rvInterp (t : Float) : List Float → List Float → List Float
  | x :: xs, y :: ys => (x + (y - x) * t) :: rvInterp t xs ys
  | _, _ => []

mutual
  /-- `interpolate(from, to, t)` on the flat list of reals (compound: component-wise). -/
  def Sp.interp (t : Float) : Sp → List Float → List Float → List Float
    | .rv d _, a, b => rvInterp t (a.take d) (b.take d)
    | .so2 _, a, b => [so2Interp (a.headD 0.0) (b.headD 0.0) t]
    | .cmpd ps, a, b => Sp.interps t ps a b
  def Sp.interps (t : Float) : List Sp → List Float → List Float → List Float
    | [], _, _ => []
    | p :: ps, a, b =>
      p.interp t (a.take p.dim) (b.take p.dim) ++ Sp.interps t ps (a.drop p.dim) (b.drop p.dim)
end

/-- the geometric predicate: a state is INVALID iff every real lies in its `[lo, hi]` interval. -/
def inBox : List Float → List (Float × Float) → Bool
  | x :: xs, (lo, hi) :: bs => lo <= x && x <= hi && inBox xs bs
  | _, _ => true

mutual
  /-- number of pre-order factor slots of a space tree (a compound occupies a slot of its own). -/
  def Sp.slots : Sp → Nat
    | .rv _ _ => 1
    | .so2 _ => 1
    | .cmpd ps => 1 + Sp.slotsL ps
  def Sp.slotsL : List Sp → Nat
    | [] => 0
    | p :: ps => p.slots + Sp.slotsL ps
end

mutual
  /-- `setValidSegmentCountFactor(k)` on the node with pre-order number `slot` (a compound's own factor does
  not enter its count: `CompoundStateSpace::validSegmentCount` only takes the maximum of its components'). -/
  def Sp.setFac (slot k : Nat) : Sp → Sp
    | .rv d f => if slot = 0 then .rv d k else .rv d f
    | .so2 f => if slot = 0 then .so2 k else .so2 f
    | .cmpd ps => if slot = 0 then .cmpd ps else .cmpd (Sp.setFacL (slot - 1) k ps)
  def Sp.setFacL (slot k : Nat) : List Sp → List Sp
    | [] => []
    | p :: ps => if slot < p.slots then p.setFac slot k :: ps else p :: Sp.setFacL (slot - p.slots) k ps
end

/-- an armed nested call (`nest` line): at the `k`-th validity question of the next cm call the checker runs a
complete `form` check of the motion `(a, b)` under the predicate `inv`, before it answers. -/
structure NestArm where
  k : Nat
  form : String
  a : List Float
  b : List Float
  hints : List Nat
  inv : List Nat

structure St where
  /-- `some sp`: the model computes `n`; `none`: `n` comes from `hint` -/
  sp : Option Sp
  nreals : Nat
  ctx : Ctx
  val : Validator
  inv : List Nat := []
  /-- `some box`: the predicate is geometric (`invalid box …`) -/
  box : Option (List (Float × Float)) := none
  hintN : Nat := 0
  hintPath : Bool := true
  /-- `some (isRS, symmetric)`: a Dubins-type space whose distance the model computes itself -/
  car : Option (Bool × Bool) := none
  rho : Float := 1.0
  topFac : Nat := 1
  isVana : Bool := false
  /-- `space=proj`: the constrained validator; `hintPath` is then the traversal's `reached` and `hintSat` is `isSatisfied(s2)` -/
  constrained : Bool := false
  tmode : TMode := .proj
  hintSat : Bool := true
  /-- the traversal, when it gives up for geometric reasons, asked about one more candidate (not a state of the motion) -/
  hintExtra : Bool := false
  cv : Nat := 0
  ci : Nat := 0
  /-- `longestValidSegmentFraction_` and the bounds as last set; `ctx` is what the last `setup()` turned into
  `maxExtent_` / `longestValidSegment_` (the setters alone change nothing a motion check reads) -/
  pend : Ctx := ⟨0.01, 0.0, 1.0⟩
  /-- the validator `SpaceInformation::setDefaultMotionValidator` installs for this space -/
  defVal : Validator := .discrete
  nest : Option NestArm := none
  /-- identity of the installed checker object (a new one per `swapvc`) -/
  gen : Nat := 0

def kvs (ts : List String) : Option (List (String × String)) :=
  ts.mapM (fun t => match t.splitOn "=" with
    | [k, v] => some (k, v)
    | _ => none)

def facs? (s : String) : Option (List Nat) :=
  (s.splitOn ",").mapM (fun t => match t.toNat? with
    | some k => if 1 ≤ k ∧ k ≤ 1000 then some k else none
    | none => none)

def init (ts : List String) : Option St :=
  match ts with
  | "motion" :: rest => do
    let kv ← kvs rest
    let get := fun k => kv.lookup k
    let space ← get "space"
    let valn ← get "validator"
    let frac ← (get "frac").bind parseFloatBits?
    let lo ← (get "lo").bind parseFloatBits?
    let hi ← (get "hi").bind parseFloatBits?
    let _rho ← (get "rho").bind parseFloatBits?
    let dim ← match get "dim" with
      | some d => d.toNat?
      | none => some 1
    let f ← (get "f").bind facs?
    if !(lo < hi) || dim < 1 || dim > 16 then none
    if valn != "default" && valn != "discrete" then none
    let ctx : Ctx := ⟨frac, lo, hi⟩
    let mk := fun (sp : Option Sp) (nreals : Nat) (v : Validator) =>
      some ({ sp := sp, nreals := nreals, ctx := ctx, val := if valn == "discrete" then .discrete else v,
              pend := ctx, defVal := v } : St)
    match space, f with
    | "r1", [a] => mk (some (.rv 1 a)) 1 .discrete
    | "rn", [a] => mk (some (.rv dim a)) dim .discrete
    | "so2", [a] => mk (some (.so2 a)) 1 .discrete
    | "se2", [_, a, b] => mk (some (.cmpd [.rv 2 a, .so2 b])) 3 .discrete
    | "cmpd", [_, a, b, c] => mk (some (.cmpd [.rv 2 a, .so2 b, .rv 1 c])) 4 .discrete
    | "cmpd2", [_, _, a, b, c] => mk (some (.cmpd [.cmpd [.rv 2 a, .so2 b], .rv 1 c])) 4 .discrete
    | "dubins", [k] => (mk none 3 .dubins).map (fun st => { st with car := some (false, false), rho := _rho, topFac := k })
    | "dubinssym", [k] => (mk none 3 .dubins).map (fun st => { st with car := some (false, true), rho := _rho, topFac := k })
    | "rs", [k] => (mk none 3 .reedsShepp).map (fun st => { st with car := some (true, false), rho := _rho, topFac := k })
    | "owen", [_] => mk none 4 .dubins3D
    | "proj", [_] => (mk none 3 .discrete).map (fun st => { st with constrained := true })
    | "atlas", [_] => (mk none 3 .discrete).map (fun st => { st with constrained := true, tmode := .atlas })
    | "tb", [_] => (mk none 3 .discrete).map (fun st => { st with constrained := true, tmode := .tb })
    | "vana", [k] => (mk none 5 .dubins3D).map (fun st => { st with isVana := true, rho := _rho, topFac := k })
    | "vanaowen", [_] => mk none 5 .dubins3D
    | _, _ => none
  | _ => none

def qstr (q : List Nat) : String :=
  if q.isEmpty then "-" else ",".intercalate (q.map toString)

def state? (st : St) (ts : List String) : Option (List Float × List String) :=
  match takeCounted ts with
  | some (xs, rest) =>
    if xs.length != st.nreals then none
    else match xs.mapM parseFloatBits? with
      | some vs => some (vs, rest)
      | none => none
  | none => none

def fracBits (j n : Nat) : String :=
  floatBits (Float.ofInt (fracOf j n).1 / Float.ofNat (fracOf j n).2)

/-- `std::numeric_limits<double>::epsilon()` -/
def dblEps : Float := Float.ofBits 0x3CB0000000000000

/-- the hints a call gets: segment count / traversal length, path found / arrived, `isSatisfied(s2)`, extra candidate -/
structure Hints where
  n : Nat := 0
  path : Bool := true
  sat : Bool := true
  extra : Bool := false

def hintsOfList : List Nat → Option Hints
  | [] => some {}
  | [k] => some { n := k }
  | [k, p] => if p ≤ 1 then some { n := k, path := p == 1 } else none
  | [k, p, q] => if p ≤ 1 && q ≤ 1 then some { n := k, path := p == 1, sat := q == 1 } else none
  | [k, p, q, x] => if p ≤ 1 && q ≤ 1 && x ≤ 1 then some { n := k, path := p == 1, sat := q == 1, extra := x == 1 } else none
  | _ => none

/-- `validSegmentCount(a, b)` under the CURRENT configuration (effective fraction `st.ctx.frac`, current factors) and
whether the space finds a path: computed where the model has the distance, otherwise taken from the hints. -/
def countOf (st : St) (h : Hints) (a b : List Float) : Nat × Bool :=
  -- Dubins-type spaces: StateSpace::validSegmentCount with the curve length from C14's models and
  -- longestValidSegment_ = (1.0 * extent(R^2 box) + 0.5 * pi) * fraction (CompoundStateSpace::getMaximumExtent)
  let carN : Option Nat := match st.car, a, b with
    | some (isRS, sym), [x1, y1, t1], [x2, y2, t2] =>
      let p1 : OmplModel.Dubins.Pose Float := ⟨x1, y1, t1⟩
      let p2 : OmplModel.Dubins.Pose Float := ⟨x2, y2, t2⟩
      let d := if isRS then OmplModel.RS.rsDistance st.rho p1 p2 else OmplModel.Dubins.distance st.rho sym p1 p2
      let ext := (0.0 + 1.0 * rvExtent st.ctx 2 0.0) + 0.5 * pi
      d.map (fun dist => segCount st.topFac dist (ext * st.ctx.frac))
    | _, _, _ => none
  -- Vana: path (or its absence) from C14's `OmplModel.Vana.getPath` (with the last-arc pitch test of the F129 fix, as /repo has it); distance = path length, or the maximum
  -- extent when there is no path; extent = 1.0 * |R^4 box (x y z in [lo,hi], pitch in [-pi/6, pi/6])| + 0.5 * pi
  let vanaNP : Option (Nat × Bool) := match st.isVana, a, b with
    | true, [x1, y1, z1, p1, t1], [x2, y2, z2, p2, t2] =>
      let d3 := st.ctx.hi - st.ctx.lo
      let dp := sixthPi - (-sixthPi)
      let ext := (0.0 + 1.0 * Float.sqrt ((((0.0 + d3 * d3) + d3 * d3) + d3 * d3) + dp * dp)) + 0.5 * pi
      let L := ext * st.ctx.frac
      match OmplModel.Vana.getPath true st.rho (-sixthPi) sixthPi 1e-8
          (⟨x1, y1, z1, p1, t1⟩ : OmplModel.Vana.St5 Float) ⟨x2, y2, z2, p2, t2⟩ with
      | some path => some (segCount st.topFac path.len L, true)
      | none => some (segCount st.topFac ext L, false)
    | _, _, _ => none
  let pathOk := match vanaNP with
    | some (_, p) => p
    | none => h.path
  let n := match st.sp, carN, vanaNP with
    | some sp, _, _ => sp.seg st.ctx a b
    | none, some k, _ => k
    | none, none, some (k, _) => k
    | none, none, none => h.n
  (n, pathOk)

/-- one complete `checkMotion` call (`cm2 | cm3 | cm3n`) on `(a, b)` under the current configuration.
`ownInv = some l`: the call's own index predicate (a nested call); `none`: the installed checker's predicate.
`before`: the counters when the call starts; `mid`: what calls nested inside it added.
Returns the result line, the call's own counter increments and the number of validity questions it asks. -/
def predOf (st : St) (ownInv : Option (List Nat)) (n : Nat) (a b : List Float) : List Nat :=
  match ownInv with
  | some l => l
  | none => match st.box, st.sp with
    | some bx, some sp =>
      let idx := if n == 0 then [0] else (List.range' 1 n)
      idx.filter (fun j =>
        if j == n then inBox b bx else inBox (sp.interp (Float.ofNat j / Float.ofNat n) a b) bx)
    | _, _ => st.inv

/-- the configuration machine's view of the driver state (`OmplModel.Motion.Config`): the reconfiguration ops and
the checks go through `Config.step` / `Config.checkNow`, which is what `Props/C05.lean` (`history_*`) is about. -/
def St.cfg (st : St) : Config Ctx (Option Sp × Nat) :=
  ⟨st.gen, st.pend, st.ctx, (st.sp, st.topFac), st.val, st.cv, st.ci⟩

def St.withCfg (st : St) (c : Config Ctx (Option Sp × Nat)) : St :=
  { st with gen := c.checker, pend := c.pending, ctx := c.effective, sp := c.factor.1,
            topFac := c.factor.2, val := c.val, cv := c.cv, ci := c.ci }

/-- the world outside the configuration, for the pair and hints at hand. -/
def envOf (st : St) (h : Hints) (v : Nat → Bool) : Env Ctx (Option Sp × Nat) (List Float × List Float) :=
  { seg := fun fac eff d =>
      (countOf { st with sp := fac.1, topFac := fac.2, ctx := eff } h d.1 d.2).1
    pathOk := fun d => (countOf st h d.1 d.2).2
    valid := fun _ _ j => v j }

/-- a reconfiguration op, executed by the model's `Config.step`. -/
def St.reconf (st : St) (op : Op Ctx (Option Sp × Nat) (List Float × List Float)) : St :=
  st.withCfg ((st.cfg.step (envOf st {} (fun _ => true)) op).1)

def oneCall (st : St) (op : String) (h : Hints) (a b : List Float) (ownInv : Option (List Nat))
    (before mid : Nat × Nat) (rOverride : Option Result := none) : String × (Nat × Nat) × Nat :=
  let (n, pathOk) := countOf st h a b
  -- scripted predicate: an index set, or a box evaluated on the model's own interpolants
  let useBox := ownInv.isNone && st.box.isSome
  let invl : List Nat := predOf st ownInv n a b
  let v : Nat → Bool := fun j => !invl.contains j
  let invs := if useBox then " inv=" ++ qstr invl else ""
  let cntOf := fun (dv di : Nat) =>
    s!"cnt={before.1}/{before.2}->{before.1 + mid.1 + dv}/{before.2 + mid.2 + di}"
  if st.constrained then
    -- ConstrainedMotionValidator (as fixed by F120-F122); n = m + 1 with m traversal states
    let m := n - 1
    let r := if op == "cm2" then constrained2G st.tmode h.sat m pathOk v
      else constrained3G st.tmode (op == "cm3") h.sat m pathOk v
    let vb := if r.verdict then "1" else "0"
    let b01 := fun (x : Bool) => if x then "1" else "0"
    let tail := s!"{cntOf r.dValid r.dInvalid} amb=0 reached={b01 pathOk} sat={b01 h.sat}"
    -- a traversal that visited all its m states, then gave up, looked at one more candidate ('x')
    let ran := r.queries.filter (fun j => j != n && j != 0)
    let gaveUp := h.extra && !pathOk && ran.length == m && ran.all v && (st.tmode == .proj || v 0)
    let qs0 := if gaveUp then (if r.queries.isEmpty then "x" else qstr r.queries ++ ",x") else qstr r.queries
    -- TangentBundleSpaceInformation: after an invalid motion the state handed back is re-projected, and
    -- project() looks at the validity of the result ('p')
    let withP := st.tmode == .tb && op == "cm3" && !r.verdict
    let qs := if withP then (if qs0 == "-" then "p" else qs0 ++ ",p") else qs0
    let asked := r.queries.length + (if gaveUp then 1 else 0) + (if withP then 1 else 0)
    if op == "cm2" then (s!"v={vb} n={n} q={qs} {tail}", (r.dValid, r.dInvalid), asked)
    else
      let lv := if r.wroteSecond then "written" else "untouched"
      let lvs := if op == "cm3n" then "null" else match r.back with
        | some k => s!"g{k}"
        | none => "untouched"
      (s!"v={vb} n={n} lv={lv} lvs={lvs} q={qs} {tail}", (r.dValid, r.dInvalid), asked)
  else
    -- a check made NOW under the current configuration (or the result the re-entrancy machine computed)
    let r := match rOverride with
      | some r => r
      | none => st.cfg.checkNow (envOf st h v) (op != "cm2") (a, b)
    let vb := if r.verdict then "1" else "0"
    let cnt := cntOf r.dValid r.dInvalid
    if op == "cm2" then
      (s!"v={vb} n={n} q={qstr r.queries} {cnt} amb=0{invs}", (r.dValid, r.dInvalid), r.queries.length)
    else
      let lv := match r.failAt with
        | some j => fracBits j n
        | none => "untouched"
      let lvs := if op == "cm3n" then "null" else match r.failAt with
        | some _ => "eq"
        | none => "untouched"
      (s!"v={vb} n={n} lv={lv} lvs={lvs} q={qstr r.queries} {cnt} amb=0{invs}", (r.dValid, r.dInvalid), r.queries.length)

def step (st : St) (ts : List String) : St × String :=
  match ts with
  | "invalid" :: "idx" :: rest =>
    match parseNats? rest with
    | some js => ({ st with inv := js, box := none }, "ok")
    | none => (st, "bad-op")
  | "invalid" :: "box" :: rest =>
    match rest.mapM parseFloatBits?, st.sp with
    | some xs, some _ =>
      if xs.length != 2 * st.nreals then (st, "bad-op")
      else
        let rec pairs : List Float → List (Float × Float)
          | lo :: hi :: r => (lo, hi) :: pairs r
          | _ => []
        ({ st with box := some (pairs xs) }, "ok")
    | _, _ => (st, "bad-op")
  | "gms" :: c :: e :: a :: sz :: rest =>
    match c.toNat?, sz.toNat?, state? st rest with
    | some count, some size, some (_, rest2) =>
      match state? st rest2 with
      | some (_, []) =>
        if (e != "0" && e != "1") || (a != "0" && a != "1") || count ≥ 4294967296 || size > 100000 then (st, "bad-op")
        else
          let r := getMotionStates count (e == "1") (a == "1") size
          let lab : Slot → String
            | .start => "S"
            | .goal => "G"
            | .frac j c => s!"{j}/{c}"
          let rest := List.replicate (r.newSize - r.written.length) (if a == "1" then "0" else "u")
          let slots := r.written.map lab ++ rest
          let sl := if slots.isEmpty then "-" else ",".intercalate slots
          (st, s!"ret={r.returned} size={r.newSize} slots={sl} amb=0")
      | _ => (st, "bad-op")
    | _, _, _ => (st, "bad-op")
  | ["hint", k] =>
    match k.toNat? with
    | some k => ({ st with hintN := k, hintPath := true }, "ok")
    | none => (st, "bad-op")
  | ["hint", k, p] =>
    match k.toNat?, p with
    | some k, "0" => ({ st with hintN := k, hintPath := false }, "ok")
    | some k, "1" => ({ st with hintN := k, hintPath := true }, "ok")
    | _, _ => (st, "bad-op")
  | ["hint", k, p, q] =>
    match k.toNat?, p, q with
    | some k, "0", "0" => ({ st with hintN := k, hintPath := false, hintSat := false }, "ok")
    | some k, "0", "1" => ({ st with hintN := k, hintPath := false, hintSat := true }, "ok")
    | some k, "1", "0" => ({ st with hintN := k, hintPath := true, hintSat := false }, "ok")
    | some k, "1", "1" => ({ st with hintN := k, hintPath := true, hintSat := true }, "ok")
    | _, _, _ => (st, "bad-op")
  | ["hint", k, p, q, x] =>
    match k.toNat? with
    | some k =>
      if (p != "0" && p != "1") || (q != "0" && q != "1") || (x != "0" && x != "1") then (st, "bad-op")
      else ({ st with hintN := k, hintPath := p == "1", hintSat := q == "1", hintExtra := x == "1" }, "ok")
    | none => (st, "bad-op")
  | "list" :: c :: t :: flags =>
    match c.toNat?, t.toNat? with
    | some count, some total =>
      if count > total || total > 100000 || flags.length != total || !(flags.all (fun f => f == "0" || f == "1")) then
        (st, "bad-op")
      else
        let fa := flags.toArray
        let v : Nat → Bool := fun i => fa[i]? != some "0"
        let r2 := checkStateList count v
        let r3 := checkStateListFirst count v
        let b := fun (x : Bool) => if x then "1" else "0"
        let first := match r3.firstInvalid with
          | some i => toString i
          | none => "untouched"
        (st, s!"v2={b r2.verdict} q2={qstr r2.queries} v3={b r3.verdict} first={first} q3={qstr r3.queries}")
    | _, _ => (st, "bad-op")
  | ["swapvc", m] =>
    -- a new checker object with the empty predicate is installed; nothing else changes
    if m == "keep" || m == "drop" || m == "fn" then
      ({ st.reconf (.setChecker (st.gen + 1)) with inv := [], box := none }, "ok")
    else (st, "bad-op")
  | ["setfrac", f] =>
    match parseFloatBits? f with
    | some x =>
      if st.constrained then (st, "bad-op")
      else if x < dblEps || x > 1.0 - dblEps then (st, "bad-op")
      else (st.reconf (.setResolution { st.pend with frac := x }), "ok")      -- read by the next setup() only
    | none => (st, "bad-op")
  | ["setbounds", lo, hi] =>
    -- setBounds on every RealVector part of the space: the extent (hence longestValidSegment_) follows at the next setup()
    match parseFloatBits? lo, parseFloatBits? hi with
    | some l, some h =>
      if st.constrained || !(l < h) then (st, "bad-op")
      else (st.reconf (.setResolution { st.pend with lo := l, hi := h }), "ok")
    | _, _ => (st, "bad-op")
  | ["setfac", s, k] =>
    match s.toNat?, k.toNat? with
    | some slot, some k =>
      if st.constrained || k < 1 || k > 1000 then (st, "bad-op")
      else match st.sp with
        | some sp =>
          if slot < sp.slots then (st.reconf (.setFactor (some (sp.setFac slot k), st.topFac)), "ok") else (st, "bad-op")
        | none => if slot == 0 then (st.reconf (.setFactor (none, k)), "ok") else (st, "bad-op")
    | _, _ => (st, "bad-op")
  | ["setup"] => (st.reconf .setup, "ok")
  | ["setmv", m] =>
    if m == "default" then
      -- setMotionValidator(nullptr) + setup(): the space's default validator, fresh counters; setup() ran
      (st.reconf (.setValidator st.defVal true), "ok")
    else if m == "discrete" && !st.constrained && st.defVal != .dubins3D then
      (st.reconf (.setValidator .discrete false), "ok")
    else (st, "bad-op")
  | ["resetcnt"] => (st.reconf .resetCounters, "ok")
  | "nest" :: k :: mode :: form :: rest =>
    match k.toNat?, state? st rest with
    | some k, some (a, rest2) =>
      match state? st rest2 with
      | some (b, rest3) =>
        match takeCounted rest3 with
        | some (hs, rest4) =>
          match takeCounted rest4, hs.mapM String.toNat? with
          | some (iv, []), some hl =>
            match iv.mapM String.toNat?, hintsOfList hl with
            | some inv, some _ =>
              if k < 1 || k > 1000000 || (mode != "same" && mode != "thread") ||
                  (form != "cm2" && form != "cm3" && form != "cm3n") then
                (st, "bad-op")
              else ({ st with nest := some ⟨k, form, a, b, hl, inv⟩ }, "ok")
            | _, _ => (st, "bad-op")
          | _, _ => (st, "bad-op")
        | none => (st, "bad-op")
      | none => (st, "bad-op")
    | _, _ => (st, "bad-op")
  | op :: rest =>
    if op != "cm2" && op != "cm3" && op != "cm3n" then (st, "bad-op")
    else
      match state? st rest with
      | some (a, rest2) =>
        match state? st rest2 with
        | some (b, []) =>
          let h : Hints := { n := st.hintN, path := st.hintPath, sat := st.hintSat, extra := st.hintExtra }
          let before := (st.cv, st.ci)
          -- the call alone: its question count decides whether an armed nested call happens at all
          let (line0, d0, asked) := oneCall st op h a b none before (0, 0)
          match st.nest with
          | none => ({ st with cv := st.cv + d0.1, ci := st.ci + d0.2 }, line0)
          | some ne =>
            let st1 := { st with nest := none }
            let hN := (hintsOfList ne.hints).getD {}
            let (nO, pathO) := countOf st1 h a b
            let (nN, pathN) := countOf st1 hN ne.a ne.b
            if !st.constrained && pathO && pathN then
              -- the re-entrancy machine (`OmplModel.Motion.outerCall`, per-call scratch as coded): the outer call with
              -- the nested one run by the checker inside its k-th question; `reentrant_nested_alone` says what comes out
              let invO := predOf st1 none nO a b
              let vv : Nat × Nat → Bool := fun p => if p.1 == 0 then !invO.contains p.2 else !ne.inv.contains p.2
              let (rO, w) := outerCall false (op != "cm2") nO ne.k (ne.form != "cm2") nN vv ⟨st.cv, st.ci, (0, 0), 0, none⟩
              match w.nested with
              | some rN =>
                let (lineN, dN, _) := oneCall st1 ne.form hN ne.a ne.b (some ne.inv) before (0, 0) (some rN)
                let (line, _, _) := oneCall st1 op h a b none before dN (some rO)
                ({ st1 with cv := w.cv, ci := w.ci }, line ++ " || nested " ++ lineN)
              | none =>
                let (line, _, _) := oneCall st1 op h a b none before (0, 0) (some rO)
                ({ st1 with cv := w.cv, ci := w.ci }, line ++ " || nested=none")
            else if ne.k ≤ asked then
              -- (constrained traversals, Dubins3D without a path) the nested call runs to completion in the middle of the
              -- outer one, on the same validator
              let (lineN, dN, _) := oneCall st1 ne.form hN ne.a ne.b (some ne.inv) before (0, 0)
              let (line, d, _) := oneCall st1 op h a b none before dN
              ({ st1 with cv := st.cv + dN.1 + d.1, ci := st.ci + dN.2 + d.2 }, line ++ " || nested " ++ lineN)
            else ({ st1 with cv := st.cv + d0.1, ci := st.ci + d0.2 }, line0 ++ " || nested=none")
        | _ => (st, "bad-op")
      | none => (st, "bad-op")
  | _ => (st, "bad-op")

end OmplModel.Driver.MotionDrv
