import OmplModel.Model.Heap
import OmplModel.Model.HeapFull
import OmplModel.Model.HeapAudit
import OmplModel.Driver.Common
/-! Line-protocol driver for the heap model (`heap cmp=<less|greater|div4>`).

Two models run side by side on every line: `Heap` (handle search, swap-based sifting — what the order theorems are
about) and `FHeap` (`Model/HeapFull.lean`: the class as coded, with every `->position` store and the callbacks).  The
dump shows the `FHeap` array, `ps=` is the position audit of the `FHeap` table, `pf=` lists every element's position
field and the callback events come from the `FHeap` log.  If the two models ever differed (they cannot for a
contract-respecting script: `whole_class_refines_search`) the line carries `model-split` and so differs from the
implementation's. -/
namespace OmplModel.Driver.HeapDrv
open OmplModel.Heap OmplModel.Driver

structure St where
  lt : Int → Int → Bool
  heap : Heap Int
  full : FHeap Int := {}
  /-- are `onAfterInsert` / `onBeforeRemove` registered?  (`if (eventAfterInsert_) …`: with none registered nothing fires) -/
  reg : Bool := true

def showEv : Ev → String
  | .ins h => s!"I{h}"
  | .rem h => s!"R{h}"

def dump (s : Heap Int) (f : FHeap Int) : String :=
  "n=" ++ toString f.arr.size ++
    f.arr.foldl (fun acc e => acc ++ " " ++ toString e.h ++ ":" ++ toString e.key) "" ++
    (if posConsistent f.arr f.pos then " ps=1" else " ps=0") ++
    " pf=" ++ ",".intercalate (f.positions.map toString) ++
    (if s.arr.toList.map (fun e => (e.h, e.key)) == f.arr.toList.map (fun e => (e.h, e.key)) && s.next == f.next then ""
     else " model-split")

/-- keys are `value*1024 + serial` (non-negative); every comparator ignores the serial. -/
def init0 (ts : List String) : Option St :=
  match ts with
  | ["heap", "cmp=less"] => some ⟨fun a b => decide (a / 1024 < b / 1024), {}, {}, true⟩
  | ["heap", "cmp=greater"] => some ⟨fun a b => decide (a / 1024 > b / 1024), {}, {}, true⟩
  | ["heap", "cmp=div4"] => some ⟨fun a b => decide (a / 4096 < b / 4096), {}, {}, true⟩
  | ["heap", "cmp=tie"] => some ⟨fun _ _ => false, {}, {}, true⟩
  | ["heap", "cmp=mod7"] => some ⟨fun a b => decide ((a / 1024) % 7 < (b / 1024) % 7), {}, {}, true⟩
  | _ => none

/-- optional third header token `ev=0` / `ev=1`: callbacks not registered / registered (default) -/
def init (ts : List String) : Option St :=
  match ts with
  | [a, b, "ev=0"] => (init0 [a, b]).map (fun st => { st with reg := false })
  | [a, b, "ev=1"] => init0 [a, b]
  | _ => init0 ts

def live (s : Heap Int) (h : Nat) : Bool := (findIdx s.arr h).isSome

def pairs? : List String → Option (List (Nat × Int))
  | [] => some []
  | h :: k :: rest => do
    let h ← parseNat? h
    let k ← parseInt? k
    let r ← pairs? rest
    pure ((h, k) :: r)
  | _ => none

def step (st : St) (ts : List String) : St × String :=
  let s := st.heap
  let f := st.full
  /- `evs`: does this operation's result line carry the callbacks (`ins`, `insl`, `rm`)?  Otherwise any callback
  fired is reported as `stray=` after the dump (the model never fires one there). -/
  let fin (s' : Heap Int) (f' : FHeap Int) (res : String) (evs : Bool) : St × String :=
    let fired := if st.reg then (f'.log.toList.drop f.log.size).map showEv else []
    let r := if evs then res ++ " ev=" ++ ",".intercalate fired else res
    let stray := if !evs && !fired.isEmpty then " stray=" ++ ",".intercalate fired else ""
    ({ st with heap := s', full := f' }, r ++ " | " ++ dump s' f' ++ stray)
  match ts with
  | ["ins", k] =>
    match parseInt? k with
    | some k => fin (s.insert st.lt k) (f.insert st.lt k) s!"h={f.next}" true
    | none => (st, "bad-op")
  | "insl" :: rest =>
    match takeCounted rest with
    | some (xs, []) =>
      match parseInts? xs with
      | some ks => fin (s.insertMany st.lt ks) (f.insertVec st.lt ks) "ok" true
      | none => (st, "bad-op")
    | _ => (st, "bad-op")
  | ["rm", h] =>
    match parseNat? h with
    | some h => if live s h then fin (s.remove st.lt h) (f.remove st.lt h) "ok" true else fin s f "dead" false
    | none => (st, "bad-op")
  | ["set", h, k] =>
    match parseNat? h, parseInt? k with
    | some h, some k => if live s h then fin (s.setKey st.lt h k) (f.setKey st.lt h k) "ok" false else fin s f "dead" false
    | _, _ => (st, "bad-op")
  | ["pop"] => if s.arr.size = 0 then fin s f "empty" false else fin (s.pop st.lt) (f.pop st.lt) "ok" false
  | ["top"] =>
    match f.arr[0]? with
    | some e => fin s f s!"{e.h}:{e.key}" false
    | none => fin s f "none" false
  | "build" :: rest =>
    match takeCounted rest with
    | some (xs, []) =>
      match parseInts? xs with
      | some ks => fin (s.buildFrom st.lt ks) (f.buildFrom st.lt ks) "ok" false
      | none => (st, "bad-op")
    | _ => (st, "bad-op")
  | "poke" :: rest =>
    match takeCounted rest with
    | some (xs, []) =>
      match pairs? xs with
      | some chg =>
        if chg.all (fun p => live s p.1) then fin (s.pokeRebuild st.lt chg) (f.pokeRebuild st.lt chg) "ok" false
        else fin s f "dead" false
      | none => (st, "bad-op")
    | _ => (st, "bad-op")
  | "sort" :: rest =>
    match takeCounted rest with
    | some (xs, []) =>
      match parseInts? xs with
      | some ks =>
        let a := s.sort st.lt ks
        let b := f.sort st.lt ks
        fin s f (joinSp (("sorted" :: b.map toString) ++ (if a == b then [] else ["model-split"]))) false
      | none => (st, "bad-op")
    | _ => (st, "bad-op")
  | ["clear"] => fin s.clear f.clear "ok" false
  | _ => (st, "bad-op")

end OmplModel.Driver.HeapDrv
