import OmplModel.Model.Heap
import OmplModel.Driver.Common
/-! Line-protocol driver for the heap model (`heap cmp=<less|greater|div4>`). -/
namespace OmplModel.Driver.HeapDrv
open OmplModel.Heap OmplModel.Driver

structure St where
  lt : Int → Int → Bool
  heap : Heap Int

def dump (s : Heap Int) : String :=
  "n=" ++ toString s.arr.size ++
    s.arr.foldl (fun acc e => acc ++ " " ++ toString e.h ++ ":" ++ toString e.key) "" ++ " ps=1"

/-- keys are `value*1024 + serial` (non-negative); every comparator ignores the serial. -/
def init (ts : List String) : Option St :=
  match ts with
  | ["heap", "cmp=less"] => some ⟨fun a b => decide (a / 1024 < b / 1024), {}⟩
  | ["heap", "cmp=greater"] => some ⟨fun a b => decide (a / 1024 > b / 1024), {}⟩
  | ["heap", "cmp=div4"] => some ⟨fun a b => decide (a / 4096 < b / 4096), {}⟩
  | _ => none

def live (s : Heap Int) (h : Nat) : Bool := (findIdx s.arr h).isSome

def pairs? : List String → Option (List (Nat × Int))
  | [] => some []
  | h :: k :: rest => do
    let h ← parseNat? h
    let k ← parseInt? k
    let r ← pairs? rest
    pure ((h, k) :: r)
  | _ => none

def step (st : St) (ts : List String) : St × String :=
  let s := st.heap
  let fin (s' : Heap Int) (res : String) : St × String := ({ st with heap := s' }, res ++ " | " ++ dump s')
  match ts with
  | ["ins", k] =>
    match parseInt? k with
    | some k => fin (s.insert st.lt k) s!"h={s.next} ev=I{s.next}"
    | none => (st, "bad-op")
  | "insl" :: rest =>
    match takeCounted rest with
    | some (xs, []) =>
      match parseInts? xs with
      | some ks =>
        let evs := (List.range ks.length).map (fun i => s!"I{s.next + i}")
        fin (s.insertMany st.lt ks) ("ok ev=" ++ ",".intercalate evs)
      | none => (st, "bad-op")
    | _ => (st, "bad-op")
  | ["rm", h] =>
    match parseNat? h with
    | some h => if live s h then fin (s.remove st.lt h) s!"ok ev=R{h}" else fin s "dead"
    | none => (st, "bad-op")
  | ["set", h, k] =>
    match parseNat? h, parseInt? k with
    | some h, some k => if live s h then fin (s.setKey st.lt h k) "ok" else fin s "dead"
    | _, _ => (st, "bad-op")
  | ["pop"] => if s.arr.size = 0 then fin s "empty" else fin (s.pop st.lt) "ok"
  | ["top"] =>
    match s.top with
    | some e => fin s s!"{e.h}:{e.key}"
    | none => fin s "none"
  | "build" :: rest =>
    match takeCounted rest with
    | some (xs, []) =>
      match parseInts? xs with
      | some ks => fin (s.buildFrom st.lt ks) "ok"
      | none => (st, "bad-op")
    | _ => (st, "bad-op")
  | "poke" :: rest =>
    match takeCounted rest with
    | some (xs, []) =>
      match pairs? xs with
      | some chg =>
        if chg.all (fun p => live s p.1) then fin (s.pokeRebuild st.lt chg) "ok" else fin s "dead"
      | none => (st, "bad-op")
    | _ => (st, "bad-op")
  | "sort" :: rest =>
    match takeCounted rest with
    | some (xs, []) =>
      match parseInts? xs with
      | some ks => fin s (joinSp ("sorted" :: (s.sort st.lt ks).map toString))
      | none => (st, "bad-op")
    | _ => (st, "bad-op")
  | ["clear"] => fin s.clear "ok"
  | _ => (st, "bad-op")

end OmplModel.Driver.HeapDrv
