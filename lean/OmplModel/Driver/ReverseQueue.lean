import OmplModel.Model.ReverseQueue
import OmplModel.Driver.Common
/-! Line-protocol driver for the ReverseQueue model (header `rq order=<cost|effort>`; the `rq` scripts of
harness/heapusers.cpp).  Answer per op: `<result> | K n=<n> s>t:k0:k1:k2:k3 … | L i=s>t,s>t …` — the stored 4-keys in
heap-array order and every non-empty handle lookup in vector order (handles shown as the edge they point at). -/
namespace OmplModel.Driver.RevQDrv
open OmplModel.Heap OmplModel.RevQ OmplModel.Driver

structure S where
  w : World := #[]
  q : RQ K4 := {}

def init (ts : List String) : Option S :=
  match ts with
  | ["rq", "order=cost"] => some { q := { costOrd := true } }
  | ["rq", "order=effort"] => some { q := { costOrd := false } }
  | _ => none

def edgeStr (e : Elem (RKey K4)) : String := s!"{e.key.s}>{e.key.t}"

def dumpK (q : RQ K4) : String :=
  "K n=" ++ toString q.heap.arr.size ++
    q.heap.arr.foldl (fun acc e => acc ++ s!" {edgeStr e}:{e.key.k.k0}:{e.key.k.k1}:{e.key.k.k2}:{e.key.k.k3}") ""

def handleStr (q : RQ K4) (h : Nat) : String :=
  match findIdx q.heap.arr h with
  | some p => (q.heap.arr[p]?.map edgeStr).getD "?"
  | none => "?"

def dumpL (q : RQ K4) : String :=
  (List.range q.lk.size).foldl (fun acc i =>
    let l := q.lk.getD i []
    if l.isEmpty then acc else acc ++ s!" {i}=" ++ ",".intercalate (l.map (handleStr q))) "L"

def pairs? : List Nat → Option (List (Nat × Nat))
  | [] => some []
  | a :: b :: rest => (pairs? rest).map (fun r => (a, b) :: r)
  | _ => none

def setField (st : St) (f : String) (v : Nat) : Option St :=
  match f with
  | "actg" => some { st with actg := v }
  | "ectg" => some st            -- estimated cost-to-go: not read by the reverse queue
  | "cctc" => some st            -- current cost-to-come: not read by the reverse queue
  | "eetg" => some { st with eetg := v }
  | "lbctc" => some { st with lbctc := v }
  | "lbetc" => some { st with lbetc := v }
  | "inadm" => some { st with inadm := v }
  | _ => none

def step (σ : S) (ts : List String) : S × String :=
  let fin (σ' : S) (res : String) : S × String := (σ', res ++ " | " ++ dumpK σ'.q ++ " | " ++ dumpL σ'.q)
  let n := σ.w.size
  match ts with
  | ["st", x, ctg, etg, lbctc, lbetc, inadm] =>
    match parseNats? [x, ctg, etg, lbctc, lbetc, inadm] with
    | some [x, ctg, etg, lbctc, lbetc, inadm] =>
      fin { w := σ.w.push { x := x, actg := ctg, eetg := etg, lbctc := lbctc, lbetc := lbetc, inadm := inadm },
            q := σ.q.addState } s!"s={n}"
    | _ => (σ, "bad-op")
  | ["set", i, f, v] =>
    match parseNat? i, parseNat? v with
    | some i, some v =>
      if h : i < n then
        match setField σ.w[i] f v with
        | some st => fin { σ with w := σ.w.set i st } "ok"
        | none => (σ, "bad-op")
      else (σ, "bad-op")
    | _, _ => (σ, "bad-op")
  | ["wl", s, t] =>
    match parseNat? s, parseNat? t with
    | some s, some t =>
      if h : s < n ∧ t < n then
        fin { σ with w := σ.w.set s { σ.w[s] with wl := t :: σ.w[s].wl } } "ok"
      else (σ, "bad-op")
    | _, _ => (σ, "bad-op")
  | ["cc", s, t, c] =>
    match parseNat? s, parseNat? t, parseNat? c with
    | some s, some t, some c =>
      if h : s < n ∧ t < n then
        if c ≤ dist σ.w[s].x σ.w[t].x then
          fin { σ with w := σ.w.set t { σ.w[t] with cc := (s, c) :: σ.w[t].cc } } "ok"
        else (σ, "bad-op")
      else (σ, "bad-op")
    | _, _, _ => (σ, "bad-op")
  | ["ins", s, t] =>
    match parseNat? s, parseNat? t with
    | some s, some t =>
      if s < n ∧ t < n then fin { σ with q := σ.q.insertOrUpdate ltCost ltEffort keyOf σ.w s t } "ok" else (σ, "bad-op")
    | _, _ => (σ, "bad-op")
  | "insv" :: rest =>
    match takeCounted rest with
    | some (xs, []) =>
      match (parseNats? xs).bind pairs? with
      | some es =>
        if es.all (fun e => e.1 < n ∧ e.2 < n) then fin { σ with q := σ.q.insertMany ltCost ltEffort keyOf σ.w es } "ok"
        else (σ, "bad-op")
      | none => (σ, "bad-op")
    | _ => (σ, "bad-op")
  | ["pop"] =>
    match σ.q.heap.top with
    | some e => fin { σ with q := σ.q.pop ltCost ltEffort } s!"e={edgeStr e}"
    | none => fin σ "empty"
  | ["peek"] =>
    match σ.q.heap.top with
    | some e => fin σ s!"e={edgeStr e} eff={e.key.k.k2}"
    | none => fin σ "empty"
  | ["rmv", v] =>
    match parseNat? v with
    | some v => if v < n then fin { σ with q := σ.q.removeOutgoing ltCost ltEffort v } "ok" else (σ, "bad-op")
    | none => (σ, "bad-op")
  | ["clear"] => fin { σ with q := σ.q.clear } "ok"
  | ["rebuild"] => fin { σ with q := σ.q.rebuild ltCost ltEffort keyOf σ.w } "ok"
  | ["order", o] =>
    if o = "cost" ∨ o = "effort" then
      if σ.q.heap.arr.size = 0 then fin { σ with q := σ.q.setOrder (o = "cost") } "ok" else fin σ "nonempty"
    else (σ, "bad-op")
  | _ => (σ, "bad-op")

end OmplModel.Driver.RevQDrv
