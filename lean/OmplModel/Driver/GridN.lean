import OmplModel.Model.GridN
import OmplModel.Driver.Common
/-!
Line-protocol driver for the plain `GridN` model (split protocol).
Header: `gridn dim=<d> limit=<k|default> (nobounds | bounds <lo>*d <up>*d)`
  `create <x> <data>` -> `c=<id>` | `present` | `busy`     createCell (absent coordinate, no pending cell)
  `add`               -> `ok` | `nopending`                 add(pending)
  `abandon`           -> `0` | `1` | `nopending`            remove(pending) (its bool) + destroyCell
  `rm <x>`            -> `1` | `0` | `absent` | `busy`      remove(cell at x) + destroyCell
Every result is followed by ` | n=<k> <id:coords:neighbors:border:data>* | pending=<id:coords:neighbors:border|->`.
-/
namespace OmplModel.Driver.GridNDrv
open OmplModel.Grid OmplModel.GridN OmplModel.Driver

structure St where
  cfg : Cfg
  g : GridN.GridN

def kv (pre : String) (s : String) : Option String :=
  if s.startsWith pre then some (s.drop pre.length).toString else none

def init (ts : List String) : Option St :=
  match ts with
  | "gridn" :: d :: l :: rest => do
    let dim ← (← kv "dim=" d).toNat?
    if dim = 0 || dim > 8 then none
    let ls ← kv "limit=" l
    let limit ← if ls == "default" then some (2 * dim) else ls.toNat?
    if limit = 0 then none
    let bounds ← match rest with
      | ["nobounds"] => some none
      | "bounds" :: xs =>
        if xs.length = 2 * dim then (parseInts? xs).map (fun v => some (v.take dim, v.drop dim)) else none
      | _ => none
    pure ⟨{ dim, bounds, limit, ltE := fun _ _ => false, ltI := fun _ _ => false, ev := fun c => c.data }, {}⟩
  | _ => none

def joinC (xs : List String) : String := if xs.isEmpty then "-" else ",".intercalate xs

def cellStr (c : Cell) (withData : Bool) : String :=
  toString c.id ++ ":" ++ joinC (c.coord.map toString) ++ ":" ++ toString c.nbrs ++ ":" ++ (if c.border then "1" else "0") ++
    (if withData then ":" ++ toString c.data else "")

def dump (g : GridN.GridN) : String :=
  let cells := g.cells.mergeSort (fun a b => decide (a.id ≤ b.id))
  "n=" ++ toString cells.length ++ cells.foldl (fun acc c => acc ++ " " ++ cellStr c true) "" ++
    " | pending=" ++ (match g.pending with | some c => cellStr c false | none => "-")

def coord? (dim : Nat) (ts : List String) : Option (Coord × List String) :=
  if ts.length < dim then none else
    match parseInts? (ts.take dim) with
    | some x => some (x, ts.drop dim)
    | none => none

def step (st : St) (ts : List String) : St × String :=
  let cfg := st.cfg
  let g := st.g
  let fin (g' : GridN.GridN) (res : String) : St × String := ({ st with g := g' }, res ++ " | " ++ dump g')
  match ts with
  | "create" :: rest =>
    match coord? cfg.dim rest with
    | some (x, [d]) =>
      match parseInt? d with
      | some d =>
        if g.pending.isSome then fin g "busy"
        else if has g.cells x then fin g "present"
        else fin (createCell cfg g x d) s!"c={g.nextId}"
      | none => (st, "bad-op")
    | _ => (st, "bad-op")
  | ["add"] => if g.pending.isSome then fin (addPending g) "ok" else fin g "nopending"
  | ["abandon"] =>
    if g.pending.isSome then
      let r := abandon cfg g
      fin r.1 (if r.2 then "1" else "0")
    else fin g "nopending"
  | "rm" :: rest =>
    match coord? cfg.dim rest with
    | some (x, []) =>
      if g.pending.isSome then fin g "busy"
      else if has g.cells x then
        let r := removeCell cfg g x
        fin r.1 (if r.2 then "1" else "0")
      else fin g "absent"
    | _ => (st, "bad-op")
  | _ => (st, "bad-op")

end OmplModel.Driver.GridNDrv
