import OmplModel.Model.GridN
import OmplModel.Driver.Common
/-!
Line-protocol driver for the plain `GridN` model (split protocol).
Header: `gridn dim=<d> limit=<k|default> (nobounds | bounds <lo>*d <up>*d)`
  `create <x> <data>` -> `c=<id>` | `present` | `busy`     createCell (absent coordinate, no pending cell)
  `add`               -> `ok` | `nopending`                 add(pending)
  `abandon`           -> `0` | `1` | `nopending`            remove(pending) (its bool) + destroyCell
  `rm <x>`            -> `1` | `0` | `absent` | `busy`      remove(cell at x) + destroyCell
  `has <x>` / `nb <x>` / `obs` / `clear`                     Grid base observers (has, getCell, neighbors, getContent,
                                                             getCoordinates, getCells, components, status) and clear()
  `setlimit <k>` / `setbounds <lo>*d <up>*d` / `setdim <d> [<lo>*d <up>*d]`   the setters AFTER first use, as coded
Every result is followed by ` | n=<k> <id:coords:neighbors:border:data>* | pending=<id:coords:neighbors:border|->`.
-/
namespace OmplModel.Driver.GridNDrv
open OmplModel.Grid OmplModel.GridN OmplModel.Driver

structure St where
  cfg : Cfg
  g : GridN.GridN
  /-- `overrideCellNeighborsLimit_`: `setDimension` resets the limit to `2*dim` only while this is false. -/
  overridden : Bool := false

def kv (pre : String) (s : String) : Option String :=
  if s.startsWith pre then some (s.drop pre.length).toString else none

def init (ts : List String) : Option St :=
  match ts with
  | "gridn" :: d :: l :: rest => do
    let dim ← (← kv "dim=" d).toNat?
    if dim = 0 || dim > 8 then none
    let ls ← kv "limit=" l
    let limit ← if ls == "default" then some (2 * dim) else ls.toNat?
    if limit = 0 then none
    let bounds ← match rest with
      | ["nobounds"] => some none
      | "bounds" :: xs =>
        if xs.length = 2 * dim then (parseInts? xs).map (fun v => some (v.take dim, v.drop dim)) else none
      | _ => none
    pure ⟨{ dim, bounds, limit, ltE := fun _ _ => false, ltI := fun _ _ => false, ev := fun c => c.data }, {}, ls != "default"⟩
  | _ => none

def joinC (xs : List String) : String := if xs.isEmpty then "-" else ",".intercalate xs

def cellStr (c : Cell) (withData : Bool) : String :=
  toString c.id ++ ":" ++ joinC (c.coord.map toString) ++ ":" ++ toString c.nbrs ++ ":" ++ (if c.border then "1" else "0") ++
    (if withData then ":" ++ toString c.data else "")

def dump (g : GridN.GridN) : String :=
  let cells := g.cells.mergeSort (fun a b => decide (a.id ≤ b.id))
  "n=" ++ toString cells.length ++ cells.foldl (fun acc c => acc ++ " " ++ cellStr c true) "" ++
    " | pending=" ++ (match g.pending with | some c => cellStr c false | none => "-")

def coord? (dim : Nat) (ts : List String) : Option (Coord × List String) :=
  if ts.length < dim then none else
    match parseInts? (ts.take dim) with
    | some x => some (x, ts.drop dim)
    | none => none

def step (st : St) (ts : List String) : St × String :=
  let cfg := st.cfg
  let g := st.g
  let fin (g' : GridN.GridN) (res : String) : St × String := ({ st with g := g' }, res ++ " | " ++ dump g')
  match ts with
  | "create" :: rest =>
    match coord? cfg.dim rest with
    | some (x, [d]) =>
      match parseInt? d with
      | some d =>
        if g.pending.isSome then fin g "busy"
        else if has g.cells x then fin g "present"
        else fin (createCell cfg g x d) s!"c={g.nextId}"
      | none => (st, "bad-op")
    | _ => (st, "bad-op")
  | ["add"] => if g.pending.isSome then fin (addPending g) "ok" else fin g "nopending"
  | ["abandon"] =>
    if g.pending.isSome then
      let r := abandon cfg g
      fin r.1 (if r.2 then "1" else "0")
    else fin g "nopending"
  | "rm" :: rest =>
    match coord? cfg.dim rest with
    | some (x, []) =>
      if g.pending.isSome then fin g "busy"
      else if has g.cells x then
        let r := removeCell cfg g x
        fin r.1 (if r.2 then "1" else "0")
      else fin g "absent"
    | _ => (st, "bad-op")
  | "has" :: rest =>
    match coord? cfg.dim rest with
    | some (x, []) =>
      match getCell g.cells x with
      | some c => fin g s!"1 c={c.id}"
      | none => fin g "0"
    | _ => (st, "bad-op")
  | "nb" :: rest =>
    match coord? cfg.dim rest with
    | some (x, []) =>
      let nb := neighbors cfg.dim g.cells x
      fin g (joinSp (toString nb.length :: nb.map (fun c => toString c.id)))
    | _ => (st, "bad-op")
  | ["obs"] =>
    -- getContent / getCoordinates / getCells (sorted: hash order), components() (canonical), status()
    let content := (g.cells.map (·.data)).mergeSort (fun a b => decide (a ≤ b))
    let ids := (g.cells.map (·.id)).mergeSort (fun a b => decide (a ≤ b))
    let comps := components cfg.dim g.cells
    let canon := (comps.map (fun c => (c.map (·.id)).mergeSort (fun a b => decide (a ≤ b)))).mergeSort (fun a b =>
      decide (a.length > b.length) || (a.length == b.length && decide (a.headD 0 ≤ b.headD 0)))
    fin g ("content=" ++ joinC (content.map toString) ++ " cells=" ++ joinC (ids.map toString) ++
      " sizes=" ++ joinC (comps.map (fun c => toString c.length)) ++
      " comps=" ++ (if canon.isEmpty then "-" else ";".intercalate (canon.map (fun c => ",".intercalate (c.map toString)))) ++
      " status=" ++ toString g.cells.length ++ "/" ++ toString comps.length)
  -- late setters, AS CODED: they only store the new parameter; no existing cell is touched
  | ["setlimit", k] =>
    match k.toNat? with
    | some k =>
      if k = 0 then (st, "bad-op")
      else if g.pending.isSome then fin g "busy"
      else ({ st with cfg := { cfg with limit := k }, overridden := true }, "ok | " ++ dump g)
    | none => (st, "bad-op")
  | "setbounds" :: xs =>
    if xs.length != 2 * cfg.dim then (st, "bad-op") else
    match parseInts? xs with
    | some v =>
      if g.pending.isSome then fin g "busy"
      else ({ st with cfg := { cfg with bounds := some (v.take cfg.dim, v.drop cfg.dim) } }, "ok | " ++ dump g)
    | none => (st, "bad-op")
  | "setdim" :: d :: xs =>
    -- GridN::setDimension ("should not be done unless the grid is empty"); the bounds vectors keep their old size,
    -- so a bounded grid must be given bounds of the new dimension in the same line (setBounds follows at once)
    match d.toNat?, parseInts? xs with
    | some d, some v =>
      if d = 0 || d > 8 || xs.length != (if cfg.bounds.isSome then 2 * d else 0) then (st, "bad-op")
      else if g.pending.isSome || !g.cells.isEmpty then fin g "busy"
      else
        let b := if cfg.bounds.isSome then some (v.take d, v.drop d) else none
        ({ st with cfg := { cfg with dim := d, bounds := b, limit := if st.overridden then cfg.limit else 2 * d } }, "ok | " ++ dump g)
    | _, _ => (st, "bad-op")
  | ["clear"] =>
    -- Grid::clear() (freeMemory): every cell of the grid is deleted; a pending cell is not in the grid
    -- (refused while a created cell is pending, like `rm`: the create..add window holds no other mutation)
    if g.pending.isSome then fin g "busy" else fin { g with cells := [] } "ok"
  | _ => (st, "bad-op")

end OmplModel.Driver.GridNDrv
