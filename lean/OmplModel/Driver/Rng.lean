import OmplModel.Model.Rng
import OmplModel.Model.RngSphere
import OmplModel.Driver.Common
/-!
Line-protocol driver for the RNG model.  Header: `rng clock=<c> [copies=rebind] [hni=fixed]` (`c` = the value the model's seed generator
takes for the microsecond clock; the C++ harness ignores it and uses the real clock).

ops (k = index of an RNG object in creation order; doubles as u64 bit patterns)
  clock                     -> clock=<c>
  getseed                   -> first=clock | first=<n>
  setseed <s>               -> msg=<silent|error-started|warn-zero-ignored|warn-zero-using-one> first=…
  new                       -> id=<k> seed=<localSeed>          (RNG::RNG())
  newl <s>                  -> id=<k> seed=<s>                  (RNG::RNG(localSeed))
  copy <k>                  -> id=<n> seed=<localSeed>          (RNG(const RNG&), the implicit copy constructor)
  lseed <k>                 -> seed=<localSeed>
  reseed <k> <s>            -> ok                               (RNG::setLocalSeed)
  sphere <k> <dim>          -> bits…                            (RNG::uniformNormalVector, dim 1..64)
  ball <k> <dim> <r>        -> bits…                            (RNG::uniformInBall)
  phs <k> <dim> <d> [pre…]  -> pre <bits…>   uniformProlateHyperspheroid: the model prints the unit-ball point that
  phss <k> <dim> <d> [pre…] -> pre <bits…>   is handed to ProlateHyperspheroid::transform (phss: the sphere point of
                               …Surface); the harness prints the same line iff its output equals transform(pre…)
  shuffle <k> <n>           -> perm …                           (RNG::shuffle of 0..n-1, n ≤ 5000)
  boosttables               -> tables=<fnv64 of the four ziggurat tables>
  u01 <k> | g01 <k> | bool <k> | quat <k> | rpy <k>
  u01n <k> <n> | g01n <k> <n>                                   (n draws on one line)
  ureal <k> <lo> <hi> | gauss <k> <mean> <stddev> | hnr <k> <rmin> <rmax> <focus>      (bits)
  uint <k> <lo> <hi> | hni <k> <lo> <hi> <focusbits>
-/
namespace OmplModel.Driver.RngDrv
open OmplModel.Rng OmplModel.Driver

structure St where
  clock : UInt64
  w : World
  /-- (copy, owner): object `copy` was copy-constructed; its SphericalData is bound to the generator of `owner` -/
  copies : List (Nat × Nat) := []
  /-- header option `copies=rebind`: the tree under test declares `RNG(const RNG&)` (the proposed fix of F200), whose
  copies get a SphericalData of their own -/
  rebind : Bool := false
  /-- header option `hni=fixed`: the tree under test no longer casts before clamping in `halfNormalInt` (fix of F204) -/
  hniFixed : Bool := false

def St.ownerOf (st : St) (k : Nat) : Nat :=
  match st.copies.lookup k with
  | some o => o
  | none => k

def parseU64? (s : String) : Option UInt64 :=
  match s.toNat? with
  | some n => if n < 2^64 then some (UInt64.ofNat n) else none
  | none => none

def init1 (ts : List String) : Option St :=
  match ts with
  | ["rng", c] =>
    if c.startsWith "clock=" then
      match parseU64? ((c.drop 6).toString) with
      | some c => some { clock := c, w := World.start c }
      | none => none
    else none
  | _ => none

def applyOpt (st : Option St) (o : String) : Option St :=
  match st with
  | none => none
  | some st =>
    if o = "copies=rebind" then some { st with rebind := true }
    else if o = "hni=fixed" then some { st with hniFixed := true }
    else none

def init (ts : List String) : Option St :=
  match ts with
  | a :: c :: opts => opts.foldl applyOpt (init1 [a, c])
  | _ => none

def showFirst (st : St) : String :=
  if st.w.sg.firstSeed = st.clock then "first=clock" else s!"first={st.w.sg.firstSeed.toNat}"

def msgName : SeedMsg → String
  | .silent => "silent"
  | .errorStarted => "error-started"
  | .warnZeroIgnored => "warn-zero-ignored"
  | .warnZeroUsingOne => "warn-zero-using-one"

def showOut : Out → String
  | .real x => floatBits x
  | .int i => toString i
  | .bool b => if b then "1" else "0"
  | .reals xs => joinSp (xs.map floatBits)
  | .seed s => s!"seed={s.toNat}"
  | .unit => "ok"
  | .diverged => "diverged"

/-- apply one op to RNG number `k` -/
def onRng (st : St) (k : String) (op : Op) : St × String :=
  match parseNat? k with
  | none => (st, "bad-op")
  | some k =>
    if h : k < st.w.rngs.size then
      let d := (st.w.rngs[k]).step op
      ({ st with w := { st.w with rngs := st.w.rngs.set k d.2 } }, showOut d.1)
    else (st, "no-such-rng")


/-- FNV-1a over the little-endian bytes of the tables' bit patterns (same as `Fnv::u64` in harness/rng.cpp) -/
def fnvU64 (h : UInt64) (v : UInt64) : UInt64 :=
  (List.range 8).foldl (fun h i => (h ^^^ ((v >>> (8 * i).toUInt64) &&& 0xff)) * 1099511628211) h

def tablesHash : UInt64 :=
  [Boost.normalX, Boost.normalY, Boost.expX, Boost.expY].foldl
    (fun h t => t.foldl (fun h x => fnvU64 h x.toBits) h) 1469598103934665603

/-- apply one extended op to RNG number `k` (sphere-based routines go through the generator its SphericalData is
bound to, which for a copy is the original's) -/
def onRngX (st : St) (k : String) (op : OpX) : St × String :=
  match parseNat? k with
  | none => (st, "bad-op")
  | some k =>
    if k < st.w.rngs.size then
      let d : Option (List Float) × Array Rng :=
        match op with
        | .sphere dim => sphereAt st.w.rngs (st.ownerOf k) dim
        | .ball r dim => ballAt st.w.rngs k (st.ownerOf k) r dim
        | .base _ => (none, st.w.rngs)
        | .shuffle _ => (none, st.w.rngs)
      ({ st with w := { st.w with rngs := d.2 } }, showOut (optReals d.1))
    else (st, "no-such-rng")

def repeatOp (st : St) (k : String) (op : Op) : Nat → List String → St × List String
  | 0, acc => (st, acc.reverse)
  | n + 1, acc =>
    let d := onRng st k op
    repeatOp d.1 k op n (d.2 :: acc)
termination_by structural n => n

def maxBulk : Nat := 100000

def bulk (st : St) (k n : String) (op : Op) : St × String :=
  match parseNat? k, parseNat? n with
  | some kk, some n =>
    if n > maxBulk then (st, "bad-op")
    else if kk < st.w.rngs.size then
      let d := repeatOp st k op n []
      (d.1, joinSp ("n" :: d.2))
    else (st, "no-such-rng")
  | _, _ => (st, "bad-op")

def step (st : St) (ts : List String) : St × String :=
  match ts with
  | ["clock"] => (st, s!"clock={st.clock.toNat}")
  | ["getseed"] => (st, showFirst st)
  | ["setseed", s] =>
    match parseU64? s with
    | some s =>
      let d := st.w.sg.setSeed s
      let st' := { st with w := { st.w with sg := d.1 } }
      (st', s!"msg={msgName d.2} {showFirst st'}")
    | none => (st, "bad-op")
  | ["new"] =>
    let d := st.w.newRng
    match d.1 with
    | some s => ({ st with w := d.2 }, s!"id={st.w.rngs.size} seed={s.toNat}")
    | none => ({ st with w := d.2 }, "diverged")
  | ["newl", s] =>
    match parseU64? s with
    | some s => ({ st with w := st.w.newLocal s }, s!"id={st.w.rngs.size} seed={s.toNat}")
    | none => (st, "bad-op")
  | ["copy", k] =>
    match parseNat? k with
    | some k =>
      match st.w.rngs[k]? with
      | some r =>
        ({ st with w := { st.w with rngs := st.w.rngs.push r }, copies := if st.rebind then st.copies else (st.w.rngs.size, st.ownerOf k) :: st.copies },
         s!"id={st.w.rngs.size} seed={r.localSeed.toNat}")
      | none => (st, "no-such-rng")
    | none => (st, "bad-op")
  | ["lseed", k] => onRng st k .getLocalSeed
  | ["reseed", k, s] =>
    match parseU64? s with
    | some s => onRng st k (.setLocalSeed s)
    | none => (st, "bad-op")
  | ["shuffle", k, n] =>
    match parseNat? k, parseNat? n with
    | some k, some n =>
      if n > 5000 then (st, "bad-op")
      else match st.w.rngs[k]? with
        | none => (st, "no-such-rng")
        | some r =>
          let d := r.shuffle (Array.range n)
          match d.1 with
          | none => (st, "diverged")
          | some a =>
            ({ st with w := { st.w with rngs := st.w.rngs.setIfInBounds k d.2 } },
             joinSp ("perm" :: a.toList.map toString))
    | _, _ => (st, "bad-op")
  | ["boosttables"] => (st, s!"tables={tablesHash.toNat}")
  | ["sphere", k, d] =>
    match parseNat? d with
    | some d => if 1 ≤ d ∧ d ≤ 64 then onRngX st k (.sphere d) else (st, "bad-op")
    | none => (st, "bad-op")
  | ["ball", k, d, r] =>
    match parseNat? d, parseFloatBits? r with
    | some d, some r => if 1 ≤ d ∧ d ≤ 64 then onRngX st k (.ball r d) else (st, "bad-op")
    | _, _ => (st, "bad-op")
  | "phs" :: k :: d :: _ :: _ =>
    match parseNat? d with
    | some d => if 2 ≤ d ∧ d ≤ 16 then let x := onRngX st k (.ball 1.0 d); (x.1, "pre " ++ x.2) else (st, "bad-op")
    | none => (st, "bad-op")
  | "phss" :: k :: d :: _ :: _ =>
    match parseNat? d with
    | some d => if 2 ≤ d ∧ d ≤ 16 then let x := onRngX st k (.sphere d); (x.1, "pre " ++ x.2) else (st, "bad-op")
    | none => (st, "bad-op")
  | ["u01", k] => onRng st k .uniform01
  | ["g01", k] => onRng st k .gaussian01
  | ["bool", k] => onRng st k .uniformBool
  | ["quat", k] => onRng st k .quaternion
  | ["rpy", k] => onRng st k .eulerRPY
  | ["u01n", k, n] => bulk st k n .uniform01
  | ["g01n", k, n] => bulk st k n .gaussian01
  | ["ureal", k, a, b] =>
    match parseFloatBits? a, parseFloatBits? b with
    | some a, some b => onRng st k (.uniformReal a b)
    | _, _ => (st, "bad-op")
  | ["gauss", k, a, b] =>
    match parseFloatBits? a, parseFloatBits? b with
    | some a, some b => onRng st k (.gaussian a b)
    | _, _ => (st, "bad-op")
  | ["hnr", k, a, b, f] =>
    match parseFloatBits? a, parseFloatBits? b, parseFloatBits? f with
    | some a, some b, some f => onRng st k (.halfNormalReal a b f)
    | _, _, _ => (st, "bad-op")
  | ["uint", k, a, b] =>
    match parseInt? a, parseInt? b with
    | some a, some b =>
      if a ≤ b ∧ -2147483648 ≤ a ∧ b ≤ 2147483647 then onRng st k (.uniformInt a b) else (st, "bad-op")
    | _, _ => (st, "bad-op")
  | ["hni", k, a, b, f] =>
    match parseNat? k, parseInt? a, parseInt? b, parseFloatBits? f with
    | some kk, some a, some b, some f =>
      if a ≤ b ∧ -2147483648 ≤ a ∧ b ≤ 2147483647 then
        if st.hniFixed then
          match st.w.rngs[kk]? with
          | none => (st, "no-such-rng")
          | some r =>
            let d := r.halfNormalIntFixed a b f
            ({ st with w := { st.w with rngs := st.w.rngs.setIfInBounds kk d.2 } }, showOut (optInt d.1))
        else onRng st k (.halfNormalInt a b f)
      else (st, "bad-op")
    | _, _, _, _ => (st, "bad-op")
  | _ => (st, "bad-op")

end OmplModel.Driver.RngDrv
