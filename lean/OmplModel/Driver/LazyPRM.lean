import OmplModel.Model.LazyPRM
import OmplModel.Driver.RRT
/-!
Line-protocol driver for the LazyPRM model at `Float` over R^n with box obstacles (lock-step twin of
`harness/planners.cpp`, mode `lockstep`, planner `LazyPRM`).  Configuration lines are those of `drv_rrt`
(`bounds`, `boxes`, `res`, `range`, `goal`, `thr`, `start`); then

    ptc <n>                 the termination condition answers false n times, then true
    costthr <inf|zero>      cost threshold of the path-length objective (inf = LazyPRM's own default)
    draw u <state>          one `sampleUniform` result
    astar <k> <v1> … <vk>   the vertex sequence (start … goal, vertex numbers in creation order) the real A* returned
    solvel                  -> status line
    roadmap                 -> alive vertices `id:state:flag:component` (components renamed by first occurrence) | edges
    path / pdef             -> the reported path, the problem definition
-/
namespace OmplModel.Driver.LazyPRMDrv
open OmplModel.LazyPRM OmplModel.PlannerReport OmplModel.Driver OmplModel.Driver.RRTDrv

structure LEnv where
  base : Env
  events : Array (Event State) := #[]
  ptc : Nat := 0
  thrInf : Bool := true
  report : Option (Report State Float) := none

def pathCost (p : List State) : Float :=
  match p with
  | [] => 0.0
  | s0 :: rest =>
    let r := rest.foldl (fun (acc : Float × State) s => (acc.1 + rvDist acc.2 s, s)) (0.0, s0)
    r.1 + 0.0

def cfgL (l : LEnv) : Cfg State Float where
  dist := rvDist
  cost := rvDist
  lt a b := a < b
  bound := effRange l.base
  k := 5
  bounds := inBounds l.base
  valid := isValid l.base
  checkMotion := checkMotion l.base
  goalSample := OmplModel.GoalStates.kth (RRTDrv.allGoals l.base) l.base.goal
  maxGoalSamples := (RRTDrv.allGoals l.base).size
  filter _ _ := true
  pathCost := pathCost
  satisfied c := if l.thrInf then c < inf else c < 0.0
  better a b := a < b
  infCost := inf

def init (ts : List String) : Option LEnv :=
  match ts with
  | ["lazyprm", d] => (RRTDrv.init ["rrt", d]).map (fun e => { base := e })
  | _ => none

/-- component ids renamed by first occurrence over the alive vertices in creation order -/
def canonComps (r : Roadmap State Float) : List (Nat × Nat) :=
  (List.range r.states.size).foldl (fun (acc : List (Nat × Nat)) v =>
    if isAlive r v then
      let c := compOf r v
      if acc.any (fun p => p.1 == c) then acc else acc ++ [(c, acc.length)]
    else acc) []

def showRoadmap (r : Roadmap State Float) : String :=
  let cm := canonComps r
  let vs := (List.range r.states.size).filterMap (fun v =>
    if isAlive r v then
      let c := match cm.find? (fun p => p.1 == compOf r v) with | some p => p.2 | none => 999999
      some s!"{v}:{showState (r.states[v]?.getD #[])}:{if r.vflag[v]?.getD false then 1 else 0}:{c}"
    else none)
  let es := r.edges.map (fun e => s!"{e.u}-{e.v}:{if e.flag then 1 else 0}:{floatBits e.w}")
  joinSp ([s!"roadmap nv={vs.length} ne={es.length}"] ++ vs ++ ["|"] ++ es)

def step (l : LEnv) (ts : List String) : LEnv × String :=
  match ts with
  | ["ptc", n] => match parseNat? n with | some n => ({ l with ptc := n }, "ok") | none => (l, "bad-op")
  | ["costthr", "inf"] => ({ l with thrInf := true }, "ok")
  | ["costthr", "zero"] => ({ l with thrInf := false }, "ok")
  | "draw" :: "u" :: rest =>
    match floats? rest with
    | some s => if s.size = l.base.dim then ({ l with events := l.events.push (.draw s) }, "ok") else (l, "bad-op")
    | none => (l, "bad-op")
  | "astar" :: rest =>
    match takeCounted rest with
    | some (xs, []) =>
      match parseNats? xs with
      | some p => ({ l with events := l.events.push (.astar p) }, "ok")
      | none => (l, "bad-op")
    | _ => (l, "bad-op")
  | ["solvel"] =>
    let e := l.base
    if e.lo.size = e.dim ∧ e.hi.size = e.dim ∧ e.goal.size = e.dim then
      let r := solve (cfgL l) e.starts l.ptc l.events.toList
      let a := match r.added with | some _ => "1" | none => "0"
      ({ l with report := some r },
        s!"status={r.status.name} bool={if r.status.toBool then 1 else 0} added={a} unused={r.unusedEvents} " ++
        s!"oraclebad={if r.oracleBad then 1 else 0} stale={if r.rm.stale then 1 else 0} iterations={r.iterations} lvs={floatBits (lvs e)} " ++
        s!"range={floatBits (effRange e)} nstart={r.pis.addedStartStates} ngoal={r.pis.sampledGoalsCount} " ++
        s!"startm={",".intercalate (r.startM.map toString)} goalm={",".intercalate (r.goalM.map toString)}")
    else (l, "bad-op")
  | ["roadmap"] =>
    match l.report with
    | some r => (l, showRoadmap r.rm)
    | none => (l, "bad-op")
  | ["path"] =>
    match l.report with
    | some r =>
      match r.added with
      | some (p, _, _) => (l, joinSp (s!"path n={p.length}" :: p.map showState))
      | none => (l, "path none")
    | none => (l, "bad-op")
  | ["pdef"] =>
    match l.report with
    | some r =>
      match r.added with
      | some _ => (l, "pdef count=1 approx=0 diff=0")
      | none => (l, s!"pdef count=0 approx=0 diff={floatBits (-1.0)}")
    | none => (l, "bad-op")
  | _ =>
    let r := RRTDrv.step l.base ts
    ({ l with base := r.1 }, r.2)

end OmplModel.Driver.LazyPRMDrv
