import OmplModel.Model.Space
import OmplModel.Driver.Common
/-
Protocol encoding of spaces and states (shared by the space engines; the C++ twin is
harness/common/spaces.h).  Prefix grammar, doubles as u64 bit patterns:

  space ::= rv <n> <lo>*n <hi>*n | so2 | so3 | time u | time b <lo> <hi> | disc <lo:int> <hi:int>
          | cmp <k> (<w> space)*k | se2 <lo>*2 <hi>*2 | se3 <lo>*3 <hi>*3
          | torus <R> <r> | mobius <imax> <rad> | klein | sphere <r> | wrap space
  state ::= leaf values in component order (rv: n doubles; so2: 1; so3: x y z w; time: 1; disc: 1 int)

`se2`/`se3` are the real SE2StateSpace/SE3StateSpace classes on the C++ side and the compounds
[(1, rv), (0.5, so2)] / [(1, rv), (1, so3)] the code builds on the model side.
-/
namespace OmplModel.Driver
open OmplModel

abbrev P (β : Type) := List String → Option (β × List String)

def pFloat : P Float
  | t :: r => (parseFloatBits? t).map (·, r)
  | [] => none

def pFloats : Nat → P (List Float)
  | 0, r => some ([], r)
  | n + 1, r => do
    let (x, r) ← pFloat r
    let (xs, r) ← pFloats n r
    pure (x :: xs, r)

def pInt : P Int
  | t :: r => (parseInt? t).map (·, r)
  | [] => none

def pNat : P Nat
  | t :: r => (parseNat? t).map (·, r)
  | [] => none

partial def pSpace : P (Space Float)
  | "rv" :: r => do
    let (n, r) ← pNat r
    let (lo, r) ← pFloats n r
    let (hi, r) ← pFloats n r
    pure (.rv lo hi, r)
  | "so2" :: r => some (.so2, r)
  | "so3" :: r => some (.so3, r)
  | "time" :: "u" :: r => some (.time false 0 0, r)
  | "time" :: "b" :: r => do
    let (lo, r) ← pFloat r
    let (hi, r) ← pFloat r
    pure (.time true lo hi, r)
  | "disc" :: r => do
    let (lo, r) ← pInt r
    let (hi, r) ← pInt r
    pure (.disc lo hi, r)
  | "cmp" :: r => do
    let (k, r) ← pNat r
    let rec go : Nat → List String → Option (Space Float × List String)
      | 0, r => some (.cnil, r)
      | n + 1, r => do
        let (w, r) ← pFloat r
        let (h, r) ← pSpace r
        let (t, r) ← go n r
        pure (.ccons w h t, r)
    go k r
  | "se2" :: r => do
    let (lo, r) ← pFloats 2 r
    let (hi, r) ← pFloats 2 r
    pure (.ccons 1.0 (.rv lo hi) (.ccons 0.5 .so2 .cnil), r)
  | "se3" :: r => do
    let (lo, r) ← pFloats 3 r
    let (hi, r) ← pFloats 3 r
    pure (.ccons 1.0 (.rv lo hi) (.ccons 1.0 .so3 .cnil), r)
  | "torus" :: r => do
    let (a, r) ← pFloat r
    let (b, r) ← pFloat r
    pure (.torus a b, r)
  | "mobius" :: r => do
    let (a, r) ← pFloat r
    let (b, r) ← pFloat r
    pure (.mobius a b, r)
  | "klein" :: r => some (.klein, r)
  | "sphere" :: r => do
    let (a, r) ← pFloat r
    pure (.sphere a, r)
  | "wrap" :: r => do
    let (s, r) ← pSpace r
    pure (.wrap s, r)
  | _ => none

/-- parse a state of the given space (special spaces via their compound expansion) -/
partial def pState : Space Float → P (St Float)
  | .rv lo _, r => do
    let (xs, r) ← pFloats lo.length r
    pure (.rv xs, r)
  | .so2, r => do let (v, r) ← pFloat r; pure (.so2 v, r)
  | .so3, r => do
    let (x, r) ← pFloat r
    let (y, r) ← pFloat r
    let (z, r) ← pFloat r
    let (w, r) ← pFloat r
    pure (.so3 x y z w, r)
  | .time .., r => do let (v, r) ← pFloat r; pure (.time v, r)
  | .disc .., r => do let (v, r) ← pInt r; pure (.disc v, r)
  | .cnil, r => some (.cnil, r)
  | .ccons _ h t, r => do
    let (sh, r) ← pState h r
    let (st, r) ← pState t r
    pure (.ccons sh st, r)
  | .wrap s, r => pState s r
  | sp, r => pState sp.expand r

def showState : St Float → List String
  | .rv xs => xs.map floatBits
  | .so2 v => [floatBits v]
  | .so3 x y z w => [floatBits x, floatBits y, floatBits z, floatBits w]
  | .time t => [floatBits t]
  | .disc v => [toString v]
  | .cnil => []
  | .ccons h t => showState h ++ showState t

end OmplModel.Driver
