import OmplModel.Model.NN
import OmplModel.Model.NNGnatOps
import OmplModel.Model.NNKCenters
import OmplModel.Driver.Common
/-!
Line-protocol driver of the nearest-neighbour models (`nn kind=… metric=… …`).

* `kind=linear|sqrt`: lock-step model, same output lines as harness/nn.cpp
  (`<result> | sz=<n> ls=<n> <pts…>`); `nk`/`nr` print distances only (`e=` is dropped by the check,
  since `std::sort` is unstable).
* `kind=gnat|gnatnts`: *state injection*.  A line `tree <dump>` (the dump the harness printed for
  the real tree) replaces the model state; the answer reports the invariant check
  (`Node.inv`, the hypothesis of the pruning theorems), the live count, and the model's `list()`.
  `nst/nk/nr` then run the **model's** query code on the injected tree.
  `defaultnn <mt> <flags…>` (any kind): the model of `SelfConfig::getDefaultNearestNeighbors`.
  `kcm <u64> <k> <rows> <cols> <n> <pt>*n` (any kind): the model of `GreedyKCenters::kcenters` WITH its matrix
  (`Model/NNKCenters.lean`) on a caller matrix of the given dimensions, first centre from the recorded draw; prints
  the centres, the final dimensions, the cells of the columns `< centers.size()` and the number of unwritten cells.
  `mop <n> <u64>*n <add|addv|rm|clear …>` runs the **model's** operation (`Model/NNGnatOps.lean`) on the
  injected state with the k-centers draws of that operation and prints `<result> | <dump>` in the
  harness's dump format (without `stale=`/`draws=`); the check compares it with the real dump.
-/
namespace OmplModel.Driver.NNDrv
open OmplModel.NN OmplModel.Driver

abbrev Pt := Int × Int

def table6 : Array (Array Int) :=
  #[#[0, 1, 3, 4, 3, 2], #[1, 0, 2, 3, 2, 3], #[3, 2, 0, 1, 4, 5],
    #[4, 3, 1, 0, 3, 4], #[3, 2, 4, 3, 0, 1], #[2, 3, 5, 4, 1, 0]]

def iabs (a : Int) : Int := if a < 0 then -a else a

def metricOf : String → Option (Nat × (Pt → Pt → Int))
  | "abs1" => some (1, fun a b => iabs (a.1 - b.1))
  | "l1" => some (2, fun a b => iabs (a.1 - b.1) + iabs (a.2 - b.2))
  | "linf" => some (2, fun a b => max (iabs (a.1 - b.1)) (iabs (a.2 - b.2)))
  | "abs3" => some (1, fun a b => (iabs (a.1 - b.1) + 2) / 3)
  | "table6" => some (1, fun a b => (table6.getD a.1.toNat #[]).getD b.1.toNat 0)
  | _ => none

inductive Kind | linear | sqrt | gnat | gnatnts
deriving BEq

structure St where
  kind : Kind
  dim : Nat
  table : Bool
  dist : Pt → Pt → Int
  lin : List Pt := []
  sq : Sqrt Pt := {}
  g : Gnat Pt Int := Gnat.init 8 4 12 50 500 false
  injected : Bool := false
  /-- the one result vector reused by all `nk` / `nr` calls (as in harness/nn.cpp) -/
  vec : List Pt := []

def kvs (ts : List String) : Option (List (String × String)) :=
  ts.mapM (fun t =>
    match t.splitOn "=" with
    | [k, v] => some (k, v)
    | _ => none)

def lookupNat (kv : List (String × String)) (k : String) (dflt : Nat) : Option Nat :=
  match kv.lookup k with
  | none => some dflt
  | some v => v.toNat?

def init (ts : List String) : Option St :=
  match ts with
  | "nn" :: rest => do
    let kv ← kvs rest
    let kind ← match kv.lookup "kind" with
      | some "linear" => some Kind.linear
      | some "sqrt" => some Kind.sqrt
      | some "gnat" => some Kind.gnat
      | some "gnatnts" => some Kind.gnatnts
      | _ => none
    let m ← kv.lookup "metric"
    let (dim, dist) ← metricOf m
    let deg ← lookupNat kv "deg" 8
    let mn ← lookupNat kv "min" 4
    let mx ← lookupNat kv "max" 12
    let leaf ← lookupNat kv "leaf" 50
    let cache ← lookupNat kv "cache" 500
    let rebal ← lookupNat kv "rebal" 0
    let _ ← lookupNat kv "seed" 0
    -- `ctor=old`: the tree under test has the constructor of before 77efe5ce5 (no clamping of the degrees)
    let oldCtor := kv.lookup "ctor" == some "old"
    pure { kind := kind, dim := dim, table := m == "table6", dist := dist,
           g := if oldCtor then Gnat.initOld deg mn mx leaf cache (rebal != 0)
                else Gnat.init deg mn mx leaf cache (rebal != 0) }
  | _ => none

/-- parse one point (`dim` tokens) -/
def pt? (st : St) (ts : List String) : Option (Pt × List String) :=
  let ok (p : Pt) : Bool :=
    (!st.table || (0 ≤ p.1 && p.1 ≤ 5)) && iabs p.1 ≤ 1000000000 && iabs p.2 ≤ 1000000000
  match st.dim, ts with
  | 1, a :: rest => do
    let a ← parseInt? a
    if ok (a, 0) then some ((a, 0), rest) else none
  | 2, a :: b :: rest => do
    let a ← parseInt? a
    let b ← parseInt? b
    if ok (a, b) then some ((a, b), rest) else none
  | _, _ => none

def pts? (st : St) : Nat → List String → Option (List Pt × List String)
  | 0, ts => some ([], ts)
  | n + 1, ts => do
    let (p, rest) ← pt? st ts
    let (ps, rest') ← pts? st n rest
    pure (p :: ps, rest')

def ptStr (st : St) (p : Pt) : String :=
  if st.dim = 1 then toString p.1 else toString p.1 ++ " " ++ toString p.2

def listStr (st : St) (ps : List Pt) : String :=
  "ls=" ++ toString ps.length ++ ps.foldl (fun acc p => acc ++ " " ++ ptStr st p) ""

def ansStr (ds : List Int) : String :=
  "k=" ++ toString ds.length ++ " d=" ++ ",".intercalate (ds.map toString)

/-- what the harness pre-fills the reused result vector with when the previous answer was empty -/
def sentinel : Pt := (987654321, 987654321)
def prefill (v : List Pt) : List Pt := if v.isEmpty then [sentinel, sentinel] else v

def ptLt (a b : Pt) : Bool := if a.1 != b.1 then a.1 < b.1 else a.2 < b.2

/-! ### dump parser (state injection) -/

def range? (a b : String) : Option (Range Int) :=
  if a == "inf" && b == "-inf" then some none
  else do
    let x ← parseInt? a
    let y ← parseInt? b
    pure (some (x, y))

def stripKey (k : String) (t : String) : Option String :=
  if t.startsWith (k ++ "=") then some ((t.drop (k.length + 1)).toString) else none

def ranges? : Nat → List String → Option (List (Range Int) × List String)
  | 0, ts => some ([], ts)
  | n + 1, a :: b :: rest => do
    let r ← range? a b
    let (rs, rest') ← ranges? n rest
    pure (r :: rs, rest')
  | _, _ => none

structure PSt where
  nextId : Nat := 0
  removed : List Nat := []

def elem? (st : St) (ps : PSt) (ts : List String) : Option (Elem Pt × PSt × List String) := do
  let (p, rest) ← pt? st ts
  match rest with
  | f :: rest' =>
    let rm ← if f == "1" then some true else if f == "0" then some false else none
    let e : Elem Pt := ⟨ps.nextId, p⟩
    pure (e, { nextId := ps.nextId + 1, removed := if rm then ps.nextId :: ps.removed else ps.removed }, rest')
  | [] => none

def elems? (st : St) : Nat → PSt → List String → Option (List (Elem Pt) × PSt × List String)
  | 0, ps, ts => some ([], ps, ts)
  | n + 1, ps, ts => do
    let (e, ps1, rest) ← elem? st ps ts
    let (es, ps2, rest') ← elems? st n ps1 rest
    pure (e :: es, ps2, rest')

mutual
partial def node? (st : St) (ps : PSt) (ts : List String) : Option (Node Pt Int × PSt × List String) :=
  match ts with
  | "N" :: rest => do
    let (pv, ps1, rest) ← elem? st ps rest
    match rest with
    | deg :: radA :: radB :: nr :: rest =>
      let deg ← (stripKey "deg" deg).bind String.toNat?
      let radA ← stripKey "rad" radA
      let rad ← range? radA radB
      let nr ← (stripKey "nr" nr).bind String.toNat?
      let (rgs, rest) ← ranges? nr rest
      match rest with
      | nd :: rest =>
        let nd ← (stripKey "nd" nd).bind String.toNat?
        let (data, ps2, rest) ← elems? st nd ps1 rest
        match rest with
        | nc :: rest =>
          let nc ← (stripKey "nc" nc).bind String.toNat?
          let (ch, ps3, rest) ← nodes? st nc ps2 rest
          pure (Node.mk pv deg rad rgs data ch, ps3, rest)
        | [] => none
      | [] => none
    | _ => none
  | _ => none
partial def nodes? (st : St) (n : Nat) (ps : PSt) (ts : List String) :
    Option (List (Node Pt Int) × PSt × List String) :=
  match n with
  | 0 => some ([], ps, ts)
  | n + 1 => do
    let (c, ps1, rest) ← node? st ps ts
    let (cs, ps2, rest') ← nodes? st n ps1 rest
    pure (c :: cs, ps2, rest')
end

/-- `G size=.. rebuild=.. off=.. nrem=.. stale=.. draws=n u*n [N …]` -/
def dump? (st : St) (ts : List String) : Option (Gnat Pt Int) :=
  match ts with
  | "G" :: size :: rebuild :: off :: nrem :: _stale :: draws :: rest => do
    let size ← (stripKey "size" size).bind String.toNat?
    let rb ← stripKey "rebuild" rebuild
    let rb ← if rb == "max" then some none else rb.toNat?.map some
    let off ← (stripKey "off" off).bind String.toNat?
    let nrem ← (stripKey "nrem" nrem).bind String.toNat?
    let nd ← (stripKey "draws" draws).bind String.toNat?
    if rest.length < nd then none
    else
      let rest := rest.drop nd
      match rest with
      | [] =>
        pure { st.g with tree := none, size := size, rebuildSize := rb, offset := off, removed := [], nextId := 0 }
      | _ =>
        let (t, ps, rest') ← node? st {} rest
        -- `nrem` counts addresses, stale ones included; the flags count the ones that hit an element
        if !rest'.isEmpty || ps.removed.length > nrem then none
        else pure { st.g with tree := some t, size := size, rebuildSize := rb, offset := off,
                              removed := ps.removed, nextId := ps.nextId }
  | _ => none

/-! ### steps -/

def gnatInvOk (st : St) (g : Gnat Pt Int) : Bool :=
  match g.tree with
  | none => true
  | some t => t.inv st.dist g.removed

/-- `setdist <metric>`: the metrics a structure may be switched to (same dimension, not the table). -/
def newDist? (st : St) (m : String) : Option (Pt → Pt → Int) :=
  if st.table then none
  else
    match metricOf m with
    | some (dim, f) => if dim = st.dim && m != "table6" then some f else none
    | none => none

/-- `reportsSortedResults()`: `true` in all four shipped structures. -/
def reportsSorted (_ : Kind) : Bool := true

def stepLinear (st : St) (ts : List String) : St × String :=
  let fin (d : List Pt) (res : String) : St × String :=
    ({ st with lin := d }, res ++ " | sz=" ++ toString d.length ++ " " ++ listStr st d)
  let d := st.lin
  match ts with
  | "add" :: rest =>
    match pt? st rest with
    | some (p, []) => fin (linStep d (.add p)) "ok"
    | _ => (st, "bad-op")
  | "addv" :: k :: rest =>
    match k.toNat? with
    | some k =>
      match pts? st k rest with
      | some (ps, []) => fin (linStep d (.addv ps)) "ok"
      | _ => (st, "bad-op")
    | none => (st, "bad-op")
  | "rm" :: rest =>
    match pt? st rest with
    | some (p, []) => fin (linStep d (.remove p)) (if (removeLast p d).isSome then "true" else "false")
    | _ => (st, "bad-op")
  | ["clear"] => fin [] "ok"
  | ["sorted"] => fin d (if reportsSorted st.kind then "1" else "0")
  | ["setdist", m] =>
    match newDist? st m with
    | some f => let r := fin d "ok"; ({ r.1 with dist := f }, r.2)
    | none => (st, "bad-op")
  | ["size"] => fin d (toString d.length)
  | ["list"] =>
    let s := d.mergeSort (fun a b => !ptLt b a)
    fin d ("n=" ++ toString s.length ++ s.foldl (fun acc p => acc ++ " " ++ ptStr st p) "")
  | "nst" :: rest =>
    match pt? st rest with
    | some (q, []) =>
      match linNearest st.dist q d with
      | some (x, _) => fin d ("d=" ++ toString (st.dist q x) ++ " e=" ++ ptStr st x)
      | none => fin d "none"
    | _ => (st, "bad-op")
  | "nk" :: rest =>
    match pt? st rest with
    | some (q, [k]) =>
      match k.toNat? with
      | some k =>
        let v := linNearestKInto st.dist q k d (prefill st.vec)
        let r := fin d (ansStr (v.map (fun x => st.dist q x)))
        ({ r.1 with vec := v }, r.2)
      | none => (st, "bad-op")
    | _ => (st, "bad-op")
  | "nr" :: rest =>
    match pt? st rest with
    | some (q, [r]) =>
      match parseInt? r with
      | some r =>
        let v := linNearestRInto st.dist q r d (prefill st.vec)
        let res := fin d (ansStr (v.map (fun x => st.dist q x)))
        ({ res.1 with vec := v }, res.2)
      | none => (st, "bad-op")
    | _ => (st, "bad-op")
  | _ => (st, "bad-op")

def stepSqrt (st : St) (ts : List String) : St × String :=
  let fin (s : Sqrt Pt) (res : String) : St × String :=
    ({ st with sq := s }, res ++ " | sz=" ++ toString s.data.length ++ " " ++ listStr st s.data)
  let s := st.sq
  match ts with
  | "add" :: rest =>
    match pt? st rest with
    | some (p, []) => fin (s.step (.add p)) "ok"
    | _ => (st, "bad-op")
  | "addv" :: k :: rest =>
    match k.toNat? with
    | some k =>
      match pts? st k rest with
      | some (ps, []) => fin (s.step (.addv ps)) "ok"
      | _ => (st, "bad-op")
    | none => (st, "bad-op")
  | "rm" :: rest =>
    match pt? st rest with
    | some (p, []) => fin (s.step (.remove p)) (if (removeLast p s.data).isSome then "true" else "false")
    | _ => (st, "bad-op")
  | ["clear"] => fin (s.step .clear) "ok"
  | ["sorted"] => fin s (if reportsSorted st.kind then "1" else "0")
  | ["setdist", m] =>
    match newDist? st m with
    | some f => let r := fin s "ok"; ({ r.1 with dist := f }, r.2)
    | none => (st, "bad-op")
  | ["size"] => fin s (toString s.data.length)
  | ["list"] =>
    let l := s.data.mergeSort (fun a b => !ptLt b a)
    fin s ("n=" ++ toString l.length ++ l.foldl (fun acc p => acc ++ " " ++ ptStr st p) "")
  | "nst" :: rest =>
    match pt? st rest with
    | some (q, []) =>
      match s.nearest st.dist q with
      | (some (x, _), s') => fin s' ("d=" ++ toString (st.dist q x) ++ " e=" ++ ptStr st x)
      | (none, s') => fin s' "none"
    | _ => (st, "bad-op")
  | "nk" :: rest =>
    match pt? st rest with
    | some (q, [k]) =>
      match k.toNat? with
      | some k =>
        let v := linNearestKInto st.dist q k s.data (prefill st.vec)
        let r := fin s (ansStr (v.map (fun x => st.dist q x)))
        ({ r.1 with vec := v }, r.2)
      | none => (st, "bad-op")
    | _ => (st, "bad-op")
  | "nr" :: rest =>
    match pt? st rest with
    | some (q, [r]) =>
      match parseInt? r with
      | some r =>
        let v := linNearestRInto st.dist q r s.data (prefill st.vec)
        let res := fin s (ansStr (v.map (fun x => st.dist q x)))
        ({ res.1 with vec := v }, res.2)
      | none => (st, "bad-op")
    | _ => (st, "bad-op")
  | _ => (st, "bad-op")


/-! ### lock-step operations on the injected state -/

/-- `rng_.uniformInt(0, n-1)` = `min(floor((n - 0) * u + 0), n-1)`, in `double` like the code. -/
def pickF (u : Float) (n : Nat) : Nat :=
  let r := (Float.floor (n.toFloat * u + 0.0)).toUInt64.toNat
  if r > n - 1 then n - 1 else r

def rangeStr : Range Int → String
  | none => "inf -inf"
  | some (a, b) => toString a ++ " " ++ toString b

def elemStr (st : St) (removed : List Nat) (e : Elem Pt) : String :=
  ptStr st e.val ++ " " ++ (if isRemoved removed e then "1" else "0")

mutual
partial def nodeStr (st : St) (removed : List Nat) : Node Pt Int → String
  | .mk p deg rad rgs data ch =>
    " N " ++ elemStr st removed p ++ " deg=" ++ toString deg ++ " rad=" ++ rangeStr rad ++
      " nr=" ++ toString rgs.length ++ rgs.foldl (fun acc r => acc ++ " " ++ rangeStr r) "" ++
      " nd=" ++ toString data.length ++ data.foldl (fun acc e => acc ++ " " ++ elemStr st removed e) "" ++
      " nc=" ++ toString ch.length ++ nodesStr st removed ch
partial def nodesStr (st : St) (removed : List Nat) : List (Node Pt Int) → String
  | [] => ""
  | c :: cs => nodeStr st removed c ++ nodesStr st removed cs
end

def dumpStr (st : St) (g : Gnat Pt Int) : String :=
  "G size=" ++ toString g.size ++ " rebuild=" ++ (match g.rebuildSize with | none => "max" | some n => toString n) ++
    " off=" ++ toString (if st.kind == Kind.gnat then g.offset else 0) ++ " nrem=" ++ toString g.removed.length ++
    (match g.tree with | none => "" | some t => nodeStr st g.removed t)

def ctxOf (st : St) : Ctx Pt Int Float :=
  { P := st.g.params, dist := st.dist, eps := 1, pick := pickF }

def stepModelOp (st : St) (ts : List String) : St × String :=
  match takeCounted ts with
  | none => (st, "bad-op")
  | some (us, op) =>
    match us.mapM parseFloatBits? with
    | none => (st, "bad-op")
    | some us =>
      let ord := childOrder (st.kind == Kind.gnat)
      let ctx := ctxOf st
      let fin (r : Gnat Pt Int × List Float × Bool) (res : String) : St × String :=
        ({ st with g := r.1 },
          res ++ (if r.2.2 then "" else " model-not-ok") ++ (if r.2.1.isEmpty then "" else " draws-left") ++
            " | " ++ dumpStr st r.1)
      match op with
      | "add" :: rest =>
        match pt? st rest with
        | some (p, []) => fin (st.g.add ctx p us) "ok"
        | _ => (st, "bad-op")
      | "addv" :: k :: rest =>
        match k.toNat? with
        | some k =>
          match pts? st k rest with
          | some (ps, []) => fin (st.g.addv ctx ps us) "ok"
          | _ => (st, "bad-op")
        | none => (st, "bad-op")
      | "rm" :: rest =>
        match pt? st rest with
        | some (p, []) =>
          let r := st.g.remove ctx ord p us
          fin r.1 (if r.2 then "true" else "false")
        | _ => (st, "bad-op")
      | ["clear"] => fin (st.g.clear, us, true) "ok"
      | ["setdist", m] =>
        match newDist? st m with
        | some f =>
          let st' := { st with dist := f }
          let r := st.g.setDistanceFunction (ctxOf st') us
          ({ st' with g := r.1 },
            "ok" ++ (if r.2.2 then "" else " model-not-ok") ++ (if r.2.1.isEmpty then "" else " draws-left") ++
              " | " ++ dumpStr st' r.1)
        | none => (st, "bad-op")
      | _ => (st, "bad-op")

def stepGnat (st : St) (ts : List String) : St × String :=
  let ord := childOrder (st.kind == Kind.gnat)
  let g := st.g
  let fuel (b : Bool) : String := if b then " fuel-exhausted" else ""
  match ts with
  | "mop" :: rest => stepModelOp st rest
  | "tree" :: rest =>
    match dump? st rest with
    | some g' =>
      let l := g'.list
      ({ st with g := g', injected := true },
        "inv=" ++ (if gnatInvOk st g' then "ok" else "bad") ++ " size=" ++ toString g'.size ++
          " live=" ++ toString l.length ++ " " ++ listStr st (l.map (·.val)))
    | none => (st, "bad-dump")
  | ["sorted"] => (st, if reportsSorted st.kind then "1" else "0")
  | "nst" :: rest =>
    match pt? st rest with
    | some (q, []) =>
      match g.nearest st.dist 1 ord q with
      | (some (d, _), _, ex) => (st, "d=" ++ toString d ++ fuel ex)
      | (none, _, ex) => (st, "none" ++ fuel ex)
    | _ => (st, "bad-op")
  | "nk" :: rest =>
    match pt? st rest with
    | some (q, [k]) =>
      match k.toNat? with
      | some k =>
        let (_, _, ex) := g.nearestK st.dist 1 ord q k
        let v := g.nearestKInto st.dist 1 ord q k (prefill st.vec)
        ({ st with vec := v }, ansStr (v.map (fun x => st.dist q x)) ++ fuel ex)
      | none => (st, "bad-op")
    | _ => (st, "bad-op")
  | "nr" :: rest =>
    match pt? st rest with
    | some (q, [r]) =>
      match parseInt? r with
      | some r =>
        let (_, _, ex) := g.nearestR st.dist ord q r
        let v := g.nearestRInto st.dist ord q r (prefill st.vec)
        ({ st with vec := v }, ansStr (v.map (fun x => st.dist q x)) ++ fuel ex)
      | none => (st, "bad-op")
    | _ => (st, "bad-op")
  | _ => (st, "bad-op")

def kindStr : NNKind → String
  | .gnat => "gnat"
  | .gnatNoThreadSafety => "gnatnts"
  | .sqrtApprox => "sqrt"
  | .linear => "linear"

/-- `defaultnn <multithreaded 0|1> <component isMetricSpace 0|1>+`: the model's selection. -/
def stepDefault (ts : List String) : Option String :=
  match ts with
  | mt :: flags =>
    let b? (t : String) : Option Bool := if t == "1" then some true else if t == "0" then some false else none
    match b? mt, flags.mapM b? with
    | some mt, some fs =>
      if fs.isEmpty then none
      else
        let m := compoundIsMetric fs
        some ("metric=" ++ (if m then "1" else "0") ++ " kind=" ++ kindStr (defaultNN m mt))
    | _, _ => none
  | [] => none

/-- `kcm <u64 draw> <k> <rows> <cols> <n> <pt>*n`: `GreedyKCenters::kcenters` with its matrix. -/
def stepKCenters (st : St) (ts : List String) : Option String :=
  match ts with
  | u :: k :: rows :: cols :: n :: rest => do
    let u ← parseFloatBits? u
    let k ← k.toNat?
    let rows ← rows.toNat?
    let cols ← cols.toNat?
    let n ← n.toNat?
    let (ps, rest') ← pts? st n rest
    if !rest'.isEmpty || n = 0 then none
    else
      let data : List (Elem Pt) := idsFrom 0 ps
      let M0 : Mat Int := Mat.new rows cols
      let resized := decide (rows < n) || decide (cols < k)
      match kcentersM st.dist 1 data k (pickF u n) M0 with
      | none => some "out-of-bounds"
      | some (cs, M) =>
        let cellStr (j i : Nat) : String := match M.cell j i with
          | some v => toString v
          | none => "u"
        let rowStr (j : Nat) : String := ",".intercalate ((List.range cs.length).map (cellStr j))
        some ("c=" ++ ",".intercalate (cs.map toString) ++ " dims=" ++ toString M.rows ++ "x" ++ toString M.cols ++
          " resized=" ++ (if resized then "1" else "0") ++
          " m=" ++ ";".intercalate ((List.range n).map rowStr) ++
          " untouched=" ++ (if resized then "na" else toString M.unwritten))
  | _ => none

def step (st : St) (ts : List String) : St × String :=
  match ts with
  | "defaultnn" :: rest => (st, (stepDefault rest).getD "bad-op")
  | "kcm" :: rest => (st, (stepKCenters st rest).getD "bad-op")
  | _ =>
  match st.kind with
  | .linear => stepLinear st ts
  | .sqrt => stepSqrt st ts
  | _ => stepGnat st ts

end OmplModel.Driver.NNDrv
