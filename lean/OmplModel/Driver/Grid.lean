import OmplModel.Model.Grid
import OmplModel.Model.GridSplit
import OmplModel.Driver.Common
/-!
Line-protocol driver for the grid model.

Header: `grid dim=<d> limit=<k|default> cmpe=<cmp> cmpi=<cmp> ev=<none|lo|hi> (nobounds | bounds <lo>*d <up>*d)`
Ops (coordinates are `d` integers):
  `new <x> <data>`  -> `c=<id>` | `present`        createCell + data + add (only if absent)
  `rm <x>`          -> `true` | `false` | `absent` remove (+ destroyCell) (only if present)
  `upd <x> <data>`  -> `ok` | `absent`             data change + update
  `updall <k> (<x> <data>)*k` -> `ok`              data changes (absent coordinates skipped) + updateAll
  `has <x>`         -> `0` | `1 c=<id>`            has / getCell
  `nb <x>`          -> `<k> <id>*k`                neighbors(coord), in the code's order
  `topi` / `tope`   -> `<id>` | `none`             topInternal / topExternal (not called on an empty grid)
  `rmtopi`/`rmtope` -> `c=<id>` | `none`           remove (+ destroyCell) the cell topInternal/topExternal returns
  `clear`           -> `ok`
Split protocol (Model/GridSplit.lean; one created-but-not-added cell at a time):
  `create <x> <data>` -> `c=<id> nbh=<ids>` | `present` | `busy`   createCell(x, &nbh) + data; NOT added
  `addc`              -> `ok` | `nopending`                          add(pending)
  `abandon`           -> `false` | `true` | `nopending`              remove(pending) (its bool) + destroyCell
  while a cell is pending `new`, `rm`, `rmtopi`, `rmtope`, `clear` answer `busy`; everything else works.
Every result is followed by ` | <dump>`: the cell table sorted by id
(`id:coords:neighbors:border:data:ids of neighbors(cell)`), both heaps in array order, both counts, the raw
size sequence of `components()` and its canonical partition, and `P=<id:coords:neighbors:border:data|->` (the pending cell).
-/
namespace OmplModel.Driver.GridDrv
open OmplModel.Grid OmplModel.Heap OmplModel.Driver

structure St where
  cfg : Cfg
  g : GridB
  /-- the created-but-not-added cell (`GridS.pending`) -/
  pending : Option Cell := none

def cmpOf : String → Option (Int → Int → Bool)
  | "less" => some fun a b => decide (a < b)
  | "greater" => some fun a b => decide (a > b)
  | "div4" => some fun a b => decide (a.tdiv 4 < b.tdiv 4)
  | "mod16" => some fun a b => decide (a.tmod 16 < b.tmod 16)
  | _ => none

def evOf : String → Option (Cell → Int)
  | "none" => some fun c => c.data
  | "lo" => some fun c => (c.data.tdiv 16) * 16 + (min c.nbrs 15 : Nat)
  | "hi" => some fun c => ((min c.nbrs 15 : Nat) : Int) * 4096 + c.data.tmod 4096
  | _ => none

def kv (pre : String) (s : String) : Option String :=
  if s.startsWith pre then some (s.drop pre.length).toString else none

def init (ts : List String) : Option St :=
  match ts with
  | "grid" :: d :: l :: ce :: ci :: e :: rest => do
    let dim ← (← kv "dim=" d).toNat?
    if dim = 0 || dim > 8 then none
    let ls ← kv "limit=" l
    let limit ← if ls == "default" then some (2 * dim) else ls.toNat?
    if limit = 0 then none
    let ltE ← cmpOf (← kv "cmpe=" ce)
    let ltI ← cmpOf (← kv "cmpi=" ci)
    let ev ← evOf (← kv "ev=" e)
    let bounds ← match rest with
      | ["nobounds"] => some none
      | "bounds" :: xs =>
        if xs.length = 2 * dim then (parseInts? xs).map (fun v => some (v.take dim, v.drop dim)) else none
      | _ => none
    pure ⟨{ dim, bounds, limit, ltE, ltI, ev }, {}, none⟩
  | _ => none

def joinC (xs : List String) : String := if xs.isEmpty then "-" else ",".intercalate xs

def sortNat (xs : List Nat) : List Nat := xs.mergeSort (fun a b => decide (a ≤ b))

def canonComps (cs : List (List Cell)) : String :=
  let ids := cs.map (fun c => sortNat (c.map (·.id)))
  let sorted := ids.mergeSort (fun a b =>
    decide (a.length > b.length) || (a.length == b.length && decide (a.headD 0 ≤ b.headD 0)))
  if sorted.isEmpty then "-" else ";".intercalate (sorted.map (fun c => ",".intercalate (c.map toString)))

def dumpG (cfg : Cfg) (g : GridB) : String :=
  let cells := g.cells.mergeSort (fun a b => decide (a.id ≤ b.id))
  let cellStr (c : Cell) : String :=
    toString c.id ++ ":" ++ joinC (c.coord.map toString) ++ ":" ++ toString c.nbrs ++ ":" ++
      (if c.border then "1" else "0") ++ ":" ++ toString c.data ++ ":" ++
      joinC ((neighbors cfg.dim g.cells c.coord).map (fun n => toString n.id))
  let comps := components cfg.dim g.cells
  "n=" ++ toString cells.length ++ cells.foldl (fun acc c => acc ++ " " ++ cellStr c) "" ++
    " | I=" ++ joinC (g.internal.arr.toList.map (fun e => toString e.key.2)) ++
    " E=" ++ joinC (g.external.arr.toList.map (fun e => toString e.key.2)) ++
    " ci=" ++ toString (countInternal g) ++ " ce=" ++ toString (countExternal g) ++
    " | sizes=" ++ joinC (comps.map (fun c => toString c.length)) ++ " comps=" ++ canonComps comps

def dump (cfg : Cfg) (g : GridB) (p : Option Cell) : String :=
  dumpG cfg g ++ " | P=" ++
    (match p with
     | some c => toString c.id ++ ":" ++ joinC (c.coord.map toString) ++ ":" ++ toString c.nbrs ++ ":" ++
         (if c.border then "1" else "0") ++ ":" ++ toString c.data
     | none => "-")

/-- split `d` coordinates off the front -/
def coord? (dim : Nat) (ts : List String) : Option (Coord × List String) :=
  if ts.length < dim then none else
    match parseInts? (ts.take dim) with
    | some x => some (x, ts.drop dim)
    | none => none

def pokes? (dim : Nat) : Nat → List String → Option (List (Coord × Int))
  | 0, [] => some []
  | 0, _ => none
  | k + 1, ts => do
    let (x, rest) ← coord? dim ts
    match rest with
    | d :: rest' =>
      let d ← parseInt? d
      let r ← pokes? dim k rest'
      pure ((x, d) :: r)
    | [] => none

def step (st : St) (ts : List String) : St × String :=
  let cfg := st.cfg
  let g := st.g
  let fin (g' : GridB) (res : String) : St × String := ({ st with g := g' }, res ++ " | " ++ dump cfg g' st.pending)
  let finP (g' : GridB) (p : Option Cell) (res : String) : St × String :=
    ({ st with g := g', pending := p }, res ++ " | " ++ dump cfg g' p)
  let busy := st.pending.isSome
  -- `rmtopi`/`rmtope`: remove (+ destroy) the cell that topInternal()/topExternal() returns
  let rmTop (t : Option Nat) : St × String :=
    if busy then fin g "busy" else
    match t with
    | none => fin g "none"
    | some i =>
      match g.cells.find? (fun c => c.id == i) with
      | some c => fin (removeCell cfg g c.coord).1 s!"c={i}"
      | none => fin g "stale-top"
  match ts with
  | "new" :: rest =>
    match coord? cfg.dim rest with
    | some (x, [d]) =>
      match parseInt? d with
      | some d =>
        if busy then fin g "busy"
        else if has g.cells x then fin g "present" else fin (newCell cfg g x d) s!"c={g.nextId}"
      | none => (st, "bad-op")
    | _ => (st, "bad-op")
  | "rm" :: rest =>
    match coord? cfg.dim rest with
    | some (x, []) =>
      if busy then fin g "busy"
      else if has g.cells x then
        let r := removeCell cfg g x
        fin r.1 (if r.2 then "true" else "false")
      else fin g "absent"
    | _ => (st, "bad-op")
  | "upd" :: rest =>
    match coord? cfg.dim rest with
    | some (x, [d]) =>
      match parseInt? d with
      | some d => if has g.cells x then fin (update cfg g x d) "ok" else fin g "absent"
      | none => (st, "bad-op")
    | _ => (st, "bad-op")
  | "updall" :: k :: rest =>
    match parseNat? k with
    | some k =>
      match pokes? cfg.dim k rest with
      | some chg => fin (updateAll cfg g chg) "ok"
      | none => (st, "bad-op")
    | none => (st, "bad-op")
  | "has" :: rest =>
    match coord? cfg.dim rest with
    | some (x, []) =>
      match getCell g.cells x with
      | some c => fin g s!"1 c={c.id}"
      | none => fin g "0"
    | _ => (st, "bad-op")
  | "nb" :: rest =>
    match coord? cfg.dim rest with
    | some (x, []) =>
      let nb := neighbors cfg.dim g.cells x
      fin g (joinSp (toString nb.length :: nb.map (fun c => toString c.id)))
    | _ => (st, "bad-op")
  | ["topi"] =>
    match topInternal g with
    | some i => fin g (toString i)
    | none => fin g "none"
  | ["tope"] =>
    match topExternal g with
    | some i => fin g (toString i)
    | none => fin g "none"
  | ["rmtopi"] => rmTop (topInternal g)
  | ["rmtope"] => rmTop (topExternal g)
  | ["clear"] => if busy then fin g "busy" else fin (clear g) "ok"
  | "create" :: rest =>
    match coord? cfg.dim rest with
    | some (x, [d]) =>
      match parseInt? d with
      | some d =>
        if busy then fin g "busy"
        else if has g.cells x then fin g "present"
        else
          let r := GridS.createCell cfg g x d
          finP r.1 (some r.2) (s!"c={g.nextId} nbh=" ++ joinC ((neighbors cfg.dim g.cells x).map (fun n => toString n.id)))
      | none => (st, "bad-op")
    | _ => (st, "bad-op")
  | ["addc"] =>
    match st.pending with
    | some p => finP (GridS.addCellB cfg g p) none "ok"
    | none => fin g "nopending"
  | ["abandon"] =>
    match st.pending with
    | some p => let r := GridS.abandon cfg g p; finP r.1 none (if r.2 then "true" else "false")
    | none => fin g "nopending"
  | _ => (st, "bad-op")

end OmplModel.Driver.GridDrv
