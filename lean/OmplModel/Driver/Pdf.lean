import OmplModel.Model.CellPdf
import OmplModel.Driver.Common
/-! Line-protocol driver for the PDF model.  Header: `pdf` (descent with the F2 bound guard, i.e.
the code after the fix) or `pdf old` (the descent before the fix, checked reads print `oob`).
`add` / `upd` / `rm` run the CHECKED twins of `Model/PdfChecked.lean` (every container access of the C++ explicit;
an access outside the storage prints `oob` and leaves the state alone); `err-neg` is the model's own rejection.
Header `cellpdf`: the cell-PDF protocol of SBL / control::EST (`Model/CellPdf.lean`): `addm <coord>` / `rmm <coord>` /
`cclear` with `<coord>` = comma-separated integers; the dump adds `cells=<coord>:<count>:<elem_ points back>;…` in PDF
element order. -/
namespace OmplModel.Driver.PdfDrv
open OmplModel.Pdf OmplModel.Driver

structure St where
  old : Bool
  pdf : Pdf Float
  cp : Option (OmplModel.CellPdf.St Float) := none
  /-- `cellpdf count`: the counting variant (`Syclop::RegionSet`: new region `1`, then `getWeight + 1`) -/
  counting : Bool := false

/-- the weights as coded: `1.0` for a new cell, `1.0 / cell->data.size()` otherwise -/
def cellCfg : OmplModel.CellPdf.Cfg Float := { wOne := 1.0, wCell := fun n => 1.0 / n.toFloat }

/-- `Syclop::RegionSet`: `add(r, 1)`, then `update(elem, getWeight(elem) + 1)` = the insertion count -/
def countCfg : OmplModel.CellPdf.Cfg Float := { wOne := 1.0, wCell := fun n => n.toFloat }

def parseCoord? (t : String) : Option (List Int) := (t.splitOn ",").mapM parseInt?

def coordStr (c : List Int) : String := ",".intercalate (c.map toString)

/-- the grid cells in PDF element order, through the element payload (`owner`) -/
def cellsDump (c : OmplModel.CellPdf.St Float) : String :=
  "cells=" ++ ";".intercalate (c.pdf.data.toList.map fun h =>
    match c.owner h with
    | none => "?"
    | some co =>
      match c.cell co with
      | none => coordStr co ++ ":gone"
      | some (n, e) => coordStr co ++ ":" ++ toString n ++ ":" ++ (if e = h then "1" else "0"))

def commaNats (xs : List Nat) : String := ",".intercalate (xs.map toString)

def rowStr (r : Array Float) : String :=
  "[" ++ toString r.size ++ ":" ++ ",".intercalate (r.toList.map floatBits) ++ "]"

/-- `n=<k> ord=<h,..> ix=<index_ of the element at each position> rows=<r> [len:bits,..]*r` -/
def dump (s : Pdf Float) : String :=
  let ord := s.data.toList
  let ix := ord.map (fun h => match s.idx h with | some i => toString i | none => "x")
  joinSp (["n=" ++ toString s.data.size, "ord=" ++ commaNats ord, "ix=" ++ ",".intercalate ix,
           "rows=" ++ toString s.tree.length] ++ s.tree.map rowStr)

def init (ts : List String) : Option St :=
  match ts with
  | ["pdf"] => some ⟨false, {}, none, false⟩
  | ["pdf", "old"] => some ⟨true, {}, none, false⟩
  | ["cellpdf"] => some ⟨false, {}, some {}, false⟩
  | ["cellpdf", "count"] => some ⟨false, {}, some {}, true⟩
  | _ => none

def live (s : Pdf Float) (h : Nat) : Bool := (s.idx h).isSome

def cellStep (st : St) (c : OmplModel.CellPdf.St Float) (ts : List String) : St × String :=
  let go (op : OmplModel.CellPdf.COp) : St × String :=
    match OmplModel.CellPdf.stepC (if st.counting then countCfg else cellCfg) c op with
    | some c' => ({ st with cp := some c' }, "ok | " ++ dump c'.pdf ++ " " ++ cellsDump c')
    | none => (st, "oob | " ++ dump c.pdf ++ " " ++ cellsDump c)
  match ts with
  | ["addm", co] =>
    match parseCoord? co with
    | some co => go (.add co)
    | none => (st, "bad-op")
  | ["rmm", co] =>
    match parseCoord? co with
    | some co => go (.remove co)
    | none => (st, "bad-op")
  | ["cclear"] => go .clear
  | _ => (st, "bad-op")

def pdfStep (st : St) (ts : List String) : St × String :=
  let s := st.pdf
  let fin (s' : Pdf Float) (res : String) : St × String := ({ st with pdf := s' }, res ++ " | " ++ dump s')
  match ts with
  | ["add", w] =>
    match parseFloatBits? w with
    | some w =>
      match s.addC w with
      | some s' => if s'.next = s.next then fin s' "err-neg" else fin s' s!"h={s.next}"
      | none => fin s "oob"
    | none => (st, "bad-op")
  | ["upd", h, w] =>
    match parseNat? h, parseFloatBits? w with
    | some h, some w =>
      if live s h then
        match s.updateC h w with
        | some s' => fin s' "ok"
        | none => fin s "oob"
      else fin s "dead"
    | _, _ => (st, "bad-op")
  | ["rm", h] =>
    match parseNat? h with
    | some h =>
      if live s h then
        match s.removeC h with
        | some s' => fin s' "ok"
        | none => fin s "oob"
      else fin s "dead"
    | none => (st, "bad-op")
  | ["smp", r] =>
    match parseFloatBits? r with
    | some r =>
      match (if st.old then s.sampleOld r else s.sample r) with
      | .ok h => fin s s!"h={h}"
      | .errEmpty => fin s "err-empty"
      | .errRange => fin s "err-range"
      | .oob => fin s "oob"
    | none => (st, "bad-op")
  | ["w", h] =>
    match parseNat? h with
    | some h =>
      if live s h then
        match s.getWeight h with
        | some w => fin s ("w=" ++ floatBits w)
        | none => fin s "oob"
      else fin s "dead"
    | none => (st, "bad-op")
  | ["clear"] => fin s.clear "ok"
  | ["emp"] => fin s s!"e={if s.isEmpty then 1 else 0} sz={s.size} els={s.data.size}"
  | ["at", i] =>
    match parseNat? i with
    | some i =>
      match s.elemAt i with
      | some h => fin s s!"d={h}"
      | none => fin s "oob"
    | none => (st, "bad-op")
  | ["print"] => fin s "ok"
  | "ctor" :: rest =>
    -- `PDF(data, weights)` REPLACES the structure under test (then the history continues on the constructed object);
    -- as coded the constructor is `add` in a loop: an exception out of the first `add` leaves the old object in place
    match takeCounted rest with
    | some (xs, []) =>
      match xs.mapM parseFloatBits? with
      | some ws =>
        if (Pdf.ofWeights ws).data.size = ws.length then fin (Pdf.ofWeights ws) "ok" else fin s "err-neg"
      | none => (st, "bad-op")
    | _ => (st, "bad-op")
  | "bulk" :: rest =>
    match takeCounted rest with
    | some (xs, []) =>
      match xs.mapM parseFloatBits? with
      | some ws =>
        if ws.any (fun w => w < 0) then fin s "err-neg"
        else fin s ("bulk " ++ dump (Pdf.ofWeights ws))
      | none => (st, "bad-op")
    | _ => (st, "bad-op")
  | _ => (st, "bad-op")

def step (st : St) (ts : List String) : St × String :=
  match st.cp with
  | some c => cellStep st c ts
  | none => pdfStep st ts

end OmplModel.Driver.PdfDrv
