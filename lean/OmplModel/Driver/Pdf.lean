import OmplModel.Model.Pdf
import OmplModel.Driver.Common
/-! Line-protocol driver for the PDF model.  Header: `pdf` (descent with the F2 bound guard, i.e.
the code after the fix) or `pdf old` (the descent before the fix, checked reads print `oob`). -/
namespace OmplModel.Driver.PdfDrv
open OmplModel.Pdf OmplModel.Driver

structure St where
  old : Bool
  pdf : Pdf Float

def commaNats (xs : List Nat) : String := ",".intercalate (xs.map toString)

def rowStr (r : Array Float) : String :=
  "[" ++ toString r.size ++ ":" ++ ",".intercalate (r.toList.map floatBits) ++ "]"

/-- `n=<k> ord=<h,..> ix=<index_ of the element at each position> rows=<r> [len:bits,..]*r` -/
def dump (s : Pdf Float) : String :=
  let ord := s.data.toList
  let ix := ord.map (fun h => match s.idx h with | some i => toString i | none => "x")
  joinSp (["n=" ++ toString s.data.size, "ord=" ++ commaNats ord, "ix=" ++ ",".intercalate ix,
           "rows=" ++ toString s.tree.length] ++ s.tree.map rowStr)

def init (ts : List String) : Option St :=
  match ts with
  | ["pdf"] => some ⟨false, {}⟩
  | ["pdf", "old"] => some ⟨true, {}⟩
  | _ => none

def live (s : Pdf Float) (h : Nat) : Bool := (s.idx h).isSome

def step (st : St) (ts : List String) : St × String :=
  let s := st.pdf
  let fin (s' : Pdf Float) (res : String) : St × String := ({ st with pdf := s' }, res ++ " | " ++ dump s')
  match ts with
  | ["add", w] =>
    match parseFloatBits? w with
    | some w => if w < 0 then fin s "err-neg" else fin (s.add w) s!"h={s.next}"
    | none => (st, "bad-op")
  | ["upd", h, w] =>
    match parseNat? h, parseFloatBits? w with
    | some h, some w => if live s h then fin (s.update h w) "ok" else fin s "dead"
    | _, _ => (st, "bad-op")
  | ["rm", h] =>
    match parseNat? h with
    | some h => if live s h then fin (s.remove h) "ok" else fin s "dead"
    | none => (st, "bad-op")
  | ["smp", r] =>
    match parseFloatBits? r with
    | some r =>
      match (if st.old then s.sampleOld r else s.sample r) with
      | .ok h => fin s s!"h={h}"
      | .errEmpty => fin s "err-empty"
      | .errRange => fin s "err-range"
      | .oob => fin s "oob"
    | none => (st, "bad-op")
  | ["w", h] =>
    match parseNat? h with
    | some h =>
      if live s h then
        match s.getWeight h with
        | some w => fin s ("w=" ++ floatBits w)
        | none => fin s "oob"
      else fin s "dead"
    | none => (st, "bad-op")
  | ["clear"] => fin s.clear "ok"
  | ["emp"] => fin s s!"e={if s.isEmpty then 1 else 0} sz={s.size} els={s.data.size}"
  | ["at", i] =>
    match parseNat? i with
    | some i =>
      match s.elemAt i with
      | some h => fin s s!"d={h}"
      | none => fin s "oob"
    | none => (st, "bad-op")
  | ["print"] => fin s "ok"
  | "bulk" :: rest =>
    match takeCounted rest with
    | some (xs, []) =>
      match xs.mapM parseFloatBits? with
      | some ws =>
        if ws.any (fun w => w < 0) then fin s "err-neg"
        else fin s ("bulk " ++ dump (Pdf.ofWeights ws))
      | none => (st, "bad-op")
    | _ => (st, "bad-op")
  | _ => (st, "bad-op")

end OmplModel.Driver.PdfDrv
