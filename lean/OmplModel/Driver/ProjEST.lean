import OmplModel.Model.ProjEST
import OmplModel.Driver.RRT
import OmplModel.Driver.Pdf
/-!
Line-protocol driver for the ProjEST model at `Float` over R^n with axis-aligned box obstacles and an orthogonal
projection with explicit cell sizes (lock-step twin of `harness/projest.cpp`).

    projest <dim>                      header
    bounds / boxes / res / range / goal / thr / start     as in the rrt driver
    bias <b>                           setGoalBias
    proj <k> <component>*k <cellSize>*k   RealVectorOrthogonalProjectionEvaluator(space, cellSizes, components)
    us <k> <u>*k | near <0|1> <state> | gs <state> | iters <n>        as in the est driver
    solve                              -> status line
    cells / pdf / path / next          -> the cell table in creation order (coord, elem_, motions with state bits and the
                                          parent as cell.position), the whole PDF, the reported path, the next unused draw
-/
namespace OmplModel.Driver.ProjESTDrv
open OmplModel.ProjEST OmplModel.PlannerReport OmplModel.Driver OmplModel.Pdf
open OmplModel.EST (Script Node)

abbrev State := Array Float

structure Env where
  r : RRTDrv.Env
  bias : Float := 0.05
  comps : Array Nat := #[]
  sizes : Array Float := #[]
  sc : Script State Float := {}
  iters : Nat := 0
  report : Option (Report State Float) := none

/-- `floor(projection ./ cellSizes).cast<int>()` of the orthogonal projection -/
def coordOf (e : Env) (s : State) : List Int :=
  (List.range e.comps.size).map (fun i => (Float.floor (s[e.comps[i]!]! / e.sizes[i]!)).toInt64.toInt)

/-- `RNG::uniformInt(0, n - 1)` from its `uniform01` draw: `(int)floor((n-1 + 1.0 - 0.0) * u + 0.0)`, capped at `n-1` -/
def pickIdx (u : Float) (n : Nat) : Nat :=
  let ub : Int := Int.ofNat n - 1
  let v := (Float.floor ((Float.ofInt ub + 1.0 - 0.0) * u + 0.0)).toInt64.toInt
  (if v > ub then ub else v).toNat

def cfgOf (e : Env) : Cfg State Float where
  coord := coordOf e
  lt a b := a < b
  inf := RRTDrv.inf
  goalBias := e.bias
  canSample := true
  wOne := 1.0
  wCell n := 1.0 / n.toFloat
  pickIdx := pickIdx
  bounds := RRTDrv.inBounds e.r
  valid := RRTDrv.isValid e.r
  checkMotion := RRTDrv.checkMotion e.r
  goalDist s := RRTDrv.rvDist s e.r.goal
  threshold := e.r.thr

def init (ts : List String) : Option Env :=
  match ts with
  | ["projest", d] => (parseNat? d).bind (fun d => if 0 < d then some { r := { dim := d } } else none)
  | _ => none

/-- motion index -> (cell, position) -/
def locate (cells : Array CellInfo) (m : Nat) : String :=
  let hits := (List.range cells.size).filterMap (fun k =>
    match cells[k]? with
    | some ci => (ci.motions.toList.idxOf? m).map (fun p => s!"{k}.{p}")
    | none => none)
  match hits with
  | [x] => x
  | [] => "nowhere"
  | _ => "several"

def showCells (st : St State Float) : String :=
  joinSp (s!"cells n={st.cells.size} grid={st.grid.length} motions={st.tree.size}" ::
    (List.range st.cells.size).map (fun k =>
      match st.cells[k]? with
      | none => "?"
      | some ci =>
        let ingrid := match OmplModel.Grid.getCell st.grid ci.coord with
          | some gc => if gc.id = k then "" else "!grid"
          | none => "!grid"
        s!"{k}:" ++ ",".intercalate (ci.coord.map toString) ++ s!":e{ci.elem}{ingrid}:" ++
          ";".intercalate (ci.motions.toList.map (fun m =>
            match st.tree[m]? with
            | some nd => RRTDrv.showState nd.state ++ "^" ++
                (match nd.parent with | some p => locate st.cells p | none => "-1")
            | none => "dangling"))))

def step (e : Env) (ts : List String) : Env × String :=
  match ts with
  | "bounds" :: _ | "boxes" :: _ | ["res", _] | ["range", _] | ["thr", _] | "goal" :: _ | "start" :: _ =>
    let (r', out) := RRTDrv.step e.r ts
    ({ e with r := r' }, out)
  | ["bias", x] => match parseFloatBits? x with | some x => ({ e with bias := x }, "ok") | none => (e, "bad-op")
  | "proj" :: k :: rest =>
    match parseNat? k with
    | some k =>
      if rest.length = 2 * k ∧ 0 < k then
        match parseNats? (rest.take k), RRTDrv.floats? (rest.drop k) with
        | some cs, some sz =>
          if cs.all (· < e.r.dim) then ({ e with comps := cs.toArray, sizes := sz }, "ok") else (e, "bad-op")
        | _, _ => (e, "bad-op")
      else (e, "bad-op")
    | none => (e, "bad-op")
  | "us" :: rest =>
    match takeCounted rest with
    | some (xs, []) =>
      match RRTDrv.floats? xs with
      | some us => ({ e with sc := { e.sc with us := e.sc.us ++ us.toList } }, "ok")
      | none => (e, "bad-op")
    | _ => (e, "bad-op")
  | "near" :: k :: rest =>
    match RRTDrv.floats? rest with
    | some s =>
      if s.size = e.r.dim ∧ (k = "0" ∨ k = "1") then
        ({ e with sc := { e.sc with nears := e.sc.nears ++ [(decide (k = "1"), s)] } }, "ok")
      else (e, "bad-op")
    | none => (e, "bad-op")
  | "gs" :: rest =>
    match RRTDrv.floats? rest with
    | some s => if s.size = e.r.dim then ({ e with sc := { e.sc with goals := e.sc.goals ++ [s] } }, "ok") else (e, "bad-op")
    | none => (e, "bad-op")
  | ["iters", n] => match parseNat? n with | some n => ({ e with iters := n }, "ok") | none => (e, "bad-op")
  | ["solve"] =>
    if e.r.lo.size = e.r.dim ∧ e.r.hi.size = e.r.dim ∧ e.r.goal.size = e.r.dim ∧ 0 < e.comps.size then
      let cfg := cfgOf e
      let r := solve cfg e.r.starts e.sc e.iters
      let (a, ap, df) := match r.added with
        | some (_, ap, df) => ("1", (if ap then "1" else "0"), floatBits df)
        | none => ("0", "-", "-")
      ({ e with report := some r },
        s!"status={r.status.name} bool={if r.status.toBool then 1 else 0} added={a} approx={ap} diff={df} " ++
        s!"lvs={floatBits (RRTDrv.lvs e.r)} range={floatBits (RRTDrv.effRange e.r)} " ++
        s!"nstart={r.pis.addedStartStates} ntree={r.final.tree.size} " ++
        s!"nnear={e.sc.nears.length - r.final.sc.nears.length} ngs={e.sc.goals.length - r.final.sc.goals.length} " ++
        s!"nus={e.sc.us.length - r.final.sc.us.length}")
    else (e, "bad-op")
  | ["cells"] =>
    match e.report with
    | some r => (e, showCells r.final)
    | none => (e, "bad-op")
  | ["pdf"] =>
    match e.report with
    | some r => (e, "pdf " ++ PdfDrv.dump r.final.pdf)
    | none => (e, "bad-op")
  | ["path"] =>
    match e.report with
    | some r =>
      match r.added with
      | some (p, _, _) => (e, joinSp (s!"path n={p.length}" :: p.map RRTDrv.showState))
      | none => (e, "path none")
    | none => (e, "bad-op")
  | ["next"] =>
    match e.report with
    | some r =>
      match r.final.sc.us with
      | u :: _ => (e, "next " ++ floatBits u)
      | [] => (e, "next none")
    | none => (e, "bad-op")
  | _ => (e, "bad-op")

end OmplModel.Driver.ProjESTDrv
