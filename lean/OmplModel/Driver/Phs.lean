import OmplModel.Model.Phs
import OmplModel.Model.PhsGlue
import OmplModel.Driver.Common
/-! Line-protocol driver for the informed-sampling model (`phs [seed=…]`).  See harness/phs.cpp for the
grammar; ops that only make sense on the real code (`probe`, `sprobe`, `surf`, `bulk`, `bulk3`, `keep`)
are never sent to this driver. -/
namespace OmplModel.Driver.PhsDrv
open OmplModel OmplModel.Phs OmplModel.Driver

structure DSt where
  phs : Array (Phs Float) := #[]
  kind : String := ""
  n : Nat := 0
  lo : Float := 0
  hi : Float := 0
  infMeas : Float := 0
  totMeas : Float := 0
  unMeas : Option Float := none
  starts : List (List Float) := []
  goals : List (List Float) := []
  skind : String := ""
  thr : Float := 0
  numIters : Nat := 0
  smp : Option (Sampler Float) := none
  q : List (List Float) := []
  cur : List Float := []
  batch : Nat := 10
  restore : Bool := false     -- fix 09980379c (F36) present in the tree under test
  degfix : Bool := false      -- fix 5852532a8 (F130) present in the tree under test
  ordQ : List (List Float × Unit) := []
  ctorfix : Bool := false     -- repair of F451 present in the tree under test (SE-typed compound needs one R^n and one SO(n) subspace)
  cfsfix : Bool := false      -- fix 1d61cd7e5 (F450) present in the tree under test (no uninformed part when both indices coincide)
  layout : Layout := ⟨false, 0, 0⟩   -- isCompound / informedIdx_ / uninformedIdx_ from the model's own `classify`
  subKinds : List String := []        -- component kinds of a compound space, in order: "rv" | "so2" | "so3"

def init (ts : List String) : Option DSt :=
  match ts with
  | "phs" :: rest =>
    some { restore := rest.contains "restore=1", degfix := rest.contains "degfix=1", cfsfix := rest.contains "cfsfix=1", ctorfix := rest.contains "ctorfix=1" }
  | _ => none

def takeVec (ts : List String) (n : Nat) : Option (List Float × List String) :=
  if n ≤ ts.length then
    match (ts.take n).mapM parseFloatBits? with
    | some v => some (v, ts.drop n)
    | none => none
  else none

def takeVecs (ts : List String) (k n : Nat) : Option (List (List Float) × List String) :=
  match k with
  | 0 => some ([], ts)
  | k + 1 =>
    match takeVec ts n with
    | some (v, rest) =>
      match takeVecs rest k n with
      | some (vs, rest') => some (v :: vs, rest')
      | none => none
    | none => none

def vecBits (v : List Float) : String := ",".intercalate (v.map floatBits)

/-- column-major `n*n` list → list of columns -/
def toCols (n : Nat) (r : List Float) : List (List Float) :=
  (List.range n).map (fun j => (r.drop (j * n)).take n)

def dot (a b : List Float) : Float := (List.zipWith (· * ·) a b).foldl (· + ·) 0

/-- the hypotheses of the geometric theorems, checked numerically at 1e-9: `RᵀR ≈ I` and
`R e₁ ≈ (f₂ - f₁)/cmin` -/
def listEq (a b : List Float) : Bool := a.length == b.length && (List.zipWith (fun x y => x == y) a b).all id

def hypOk (n : Nat) (f1 f2 : List Float) (cols : List (List Float)) : Bool :=
  let tol : Float := 1e-9
  let cmin := vnorm (vsub f1 f2)
  -- circle branch of updateRotation: foci closer than circleTol => the rotation must be EXACTLY the identity
  if cmin < (circleTol : Float) then
    cols.length == n && (List.zipWith listEq cols (identityRot n : List (List Float))).all id
  else
  let axis := (vsub f2 f1).map (· / cmin)
  cols.length == n && cols.all (·.length == n) &&
  (List.range n).all (fun i => (List.range n).all (fun j =>
    let d := dot (cols.getD i []) (cols.getD j [])
    decide ((d - (if i == j then 1.0 else 0.0)).abs ≤ tol))) &&
  (List.zipWith (fun a b => decide ((a - b).abs ≤ tol)) (cols.getD 0 []) axis).all id

/-- in dimension 2 the model computes the rotation itself (`rot2`: the unique proper rotation whose first column is
the focal axis) and the recovered one must agree with it at 1e-9 (this also checks `det = +1`) -/
def rot2Ok (n : Nat) (f1 f2 : List Float) (cols : List (List Float)) : Bool :=
  if n != 2 || vnorm (vsub f1 f2) < (circleTol : Float) then true
  else
    let m := rot2 f1 f2
    m.length == 2 &&
    (List.zipWith (fun a b => (List.zipWith (fun x y => decide ((x - y).abs ≤ 1e-9)) a b).all id) m cols).all id

/-- `pow(u, 1.0 / n)` -/
def rootF (n : Nat) (u : Float) : Float := Float.pow u (1.0 / n.toFloat)

/-- RAW draws `[r1, dir (n values: uniformNormalVector), u (uniformReal(0,1)), r2]` per iteration; the ball point is
computed by the model's `uniformInBall` (dimension = length of `dir` = the PHS dimension) -/
def drawsGo (n : Nat) : Nat → List Float → List (Draw Float Unit)
  | 0, _ => []
  | fuel + 1, l =>
    if l.length < n + 3 then []
    else
      let dir := (l.drop 1).take n
      let u := (l.drop (n + 1)).headD 0
      { baseInf := [], baseRest := (), r1 := l.headD 0, ball := uniformInBall rootF 1.0 dir u,
        r2 := (l.drop (n + 2)).headD 0, rot := () } :: drawsGo n fuel (l.drop (n + 3))

def drawsOf (n : Nat) (l : List Float) : List (Draw Float Unit) := drawsGo n l.length l

def costOf (s : String) : Option (Bool × Float) :=
  if s == "inf" then some (false, 1.0 / 0.0)
  else match parseFloatBits? s with
    | some c => some (true, c)
    | none => none

def rvInBounds (lo hi : Float) (st : List Float × Unit) : Bool :=
  let eps : Float := 2.220446049250313e-16
  st.1.all (fun x => !(x - eps > hi || x + eps < lo))

def mkDraws (q : List (List Float)) : List (Draw Float Unit) :=
  q.map (fun v => { baseInf := v, baseRest := (), r1 := 0, ball := [], r2 := 0, rot := () })

/-- `createBatch` of an OrderedInfSampler over the rejection sampler: `batch` wrapped calls on the scripted draw queue -/
def createBatch (h : List Float × Unit → Float) (lim : Nat) (c : Float) (n : Nat) :
    Nat → List (List Float) → List (Wrapped (List Float × Unit)) → Option (List (Wrapped (List Float × Unit)) × List (List Float))
  | 0, q, acc => some (acc.reverse, q)
  | b + 1, q, acc =>
    let o := rejSample2 h lim c (mkDraws q) (List.replicate n 0, ())
    if o.starved then none
    else createBatch h lim c n b (q.drop (q.length - o.rest.length)) ((o.found, o.st) :: acc)

def showOut (op : String) (st : DSt) (q : List (List Float)) (o : Out Float Unit) : DSt × String :=
  if o.starved then ({ st with q := [] }, op ++ " starved")
  else
    let used := q.length - o.rest.length
    ({ st with q := q.drop used, cur := o.st.1 },
      op ++ " found=" ++ (if o.found then "1" else "0") ++ " used=" ++ toString used ++ " x=" ++
        (if used == 0 then "-" else vecBits o.st.1))

/-- RAW draws for a compound space: `rot` is filled in afterwards -/
def drawsGoR (n : Nat) : Nat → List Float → List (Draw Float (List Float))
  | 0, _ => []
  | fuel + 1, l =>
    if l.length < n + 3 then []
    else
      let dir := (l.drop 1).take n
      let u := (l.drop (n + 1)).headD 0
      { baseInf := [], baseRest := [], r1 := l.headD 0, ball := uniformInBall rootF 1.0 dir u,
        r2 := (l.drop (n + 2)).headD 0, rot := [] } :: drawsGoR n fuel (l.drop (n + 3))

/-- the uninformed sub-sampler has its own generator and is asked once per KEPT iteration (`createFullState`): hand the
rotation draws out in that order (which iterations are kept is decided by the model's own randomPhs/transform/keep) -/
def assignRots (s' : Sampler Float) (rdim : Nat) :
    List (Draw Float (List Float)) → List Float → List (Draw Float (List Float) × Bool)
  | [], _ => []
  | d :: ds, rots =>
    let kept := match s'.randomPhs d.r1 with
      | some p => match p.transform d.ball with
        | some x => s'.keep x d.r2
        | none => false
      | none => false
    if kept then ({ d with rot := rots.take rdim }, true) :: assignRots s' rdim ds (rots.drop rdim)
    else (d, false) :: assignRots s' rdim ds rots

/-- `CompoundStateSpace::satisfiesBounds` for SE2 (`-pi <= yaw <= pi`) / SE3 (`|norm(q) - 1| < 1e-9`) -/
def rotInBounds (kind : String) (r : List Float) : Bool :=
  if kind == "se2" then
    match r with
    | [y] =>
      let p : Float := 3.14159265358979323846
      (y <= p) && (y >= -p)
    | _ => false
  else
    let nrm : Float := Float.sqrt (r.foldl (fun a q => a + q * q) (0.0 : Float))
    Float.abs (nrm - 1.0) < 1e-9

/-- `CompoundStateSpace::satisfiesBounds`: every component in its own subspace's bounds -/
def compsInBounds (kinds : List String) (n : Nat) (lo hi : Float) : List String → List (List Float) → Bool
  | [], [] => true
  | k :: ks, c :: cs =>
    (if k == "rv" then c.length == n && rvInBounds lo hi (c, ()) else rotInBounds (if k == "so2" then "se2" else "se3") c) &&
      compsInBounds kinds n lo hi ks cs
  | _, _ => false

/-- reals per component of kind `k` -/
def compDim (n : Nat) (k : String) : Nat := if k == "rv" then n else if k == "so2" then 1 else 4

/-- the state the real call returns for the tested informed vector `x` and the uninformed draw `rot`: the model's own
`createFullState` for the layout the model's own `classify` gave -/
def fullOf (st : DSt) (x rot : List Float) : FullState Float :=
  st.layout.createFullStateG st.cfsfix (.comp (st.subKinds.map (fun k => List.replicate (compDim st.n k) 0.0))) x rot

def compInBounds (st : DSt) (s : List Float × List Float) : Bool :=
  match fullOf st s.1 s.2 with
  | .comp cs => compsInBounds st.subKinds st.n st.lo st.hi st.subKinds cs
  | .flat v => rvInBounds st.lo st.hi (v, ())

def supCompound (st : DSt) (s : Sampler Float) (op : String) (mc : Option Float) (c : Float) (vals : List Float) : DSt × String :=
  if st.skind != "direct" then (st, "bad-op") else
  let rdim := if st.layout.hasUninformedG st.cfsfix then compDim st.n (st.subKinds.getD st.layout.un "") else 0
  let s' := s.updateG st.restore c
  if s'.useBoundsBranch then ({ st with smp := some s' }, op ++ " bounds-branch")
  else if vals.length != s.numIters * (st.n + 3) + s.numIters * rdim then (st, "bad-op")
  else
    let raw := vals.take (s.numIters * (st.n + 3))
    let rots := vals.drop (s.numIters * (st.n + 3))
    let tagged := assignRots s' rdim (drawsGoR st.n raw.length raw) rots
    let ds := tagged.map (·.1)
    let inB := compInBounds st
    let cur : List Float × List Float := (st.cur, [])
    let r := match mc with
      | none => s.sample2G st.restore st.degfix inB true c ds cur
      | some m =>
        -- heuristicSolnCost reads the informed substate of the state createFullState wrote (PHS branch: st = (tested vector, uninformed draw))
        s.sample3GV (fun x => st.layout.informedSubstate (fullOf st x.1 x.2)) st.restore st.degfix inB true m c ds cur
    let o := r.2
    let used := match mc with
      | none => o.iters
      | some _ => ds.length - o.rest.length
    let kept := if rdim == 0 then 0 else ((tagged.take used).filter (·.2)).length
    -- what the caller gets back: the created full state, in `copyToReals` order, and its informed part as
    -- `getInformedSubstate` (hence `heuristicSolnCost`) reads it
    let full := fullOf st o.st.1 o.st.2
    ({ st with smp := some r.1, cur := o.st.1 },
      s!"{op} found={if o.found then 1 else 0} used={used} kept={kept} ~x={if o.found then vecBits full.flatten else "-"} inb={if o.found then (if inB o.st then "1" else "0") else "-"} ~xi={if o.found then vecBits (st.layout.informedSubstate full) else "-"}")

def spTypeOf (s : String) : Option SpType :=
  match s with
  | "rv" => some .realVector | "unknown" => some .unknown | "se2" => some .se2 | "se3" => some .se3
  | "dubins" => some .dubins | "rs" => some .reedsShepp | "other" => some .other | _ => none

def subTypeOf (s : String) : Option SubType :=
  match s with
  | "rv" => some .rv | "so2" => some .so2 | "so3" => some .so3 | "other" => some .other | _ => none

/-- the spaces of the sampler world: (space type, subspace kinds with their weights) -/
def compoundKind (kind : String) : Option (SpType × List (String × Float)) :=
  match kind with
  | "se2" => some (.se2, [("rv", 1.0), ("so2", 0.5)])
  | "dubins" => some (.dubins, [("rv", 1.0), ("so2", 0.5)])
  | "rs" => some (.reedsShepp, [("rv", 1.0), ("so2", 0.5)])
  | "se2x" => some (.se2, [("so2", 0.5), ("rv", 1.0)])      -- an SE(2)-typed compound with the subspaces the other way round
  | "se3" => some (.se3, [("rv", 1.0), ("so3", 1.0)])
  | "crv" => some (.unknown, [("rv", 1.0)])                  -- CompoundStateSpace with ONE real-vector subspace
  | _ => none

def subTypeOfKind (k : String) : SubType := if k == "rv" then .rv else if k == "so2" then .so2 else .so3

/-- a compound space of the sampler world: the layout comes from the model's own `classify` (the space is only usable
when the constructor would accept it); `CompoundStateSpace::getMeasure`: `m = 1; m *= weights_[i] * components_[i]->getMeasure()` -/
def compoundSpace (st : DSt) (kind : String) (n : Nat) (lo hi : Float) : DSt × String :=
  match compoundKind kind with
  | none => (st, "bad-op")
  | some (ty, subs) =>
    match classify { compound := true, castOk := true, ty := ty, subs := subs.map (fun kw => subTypeOfKind kw.1) } with
    | .error _ => (st, "bad-op")
    | .ok L =>
      let m := (List.range n).foldl (fun m _ => m * (hi - lo)) (1.0 : Float)
      let pi : Float := Num.pi
      let measOf := fun (k : String) => if k == "rv" then m else if k == "so2" then 2.0 * pi else pi * pi
      let tot := subs.foldl (fun acc kw => acc * (kw.2 * measOf kw.1)) (1.0 : Float)
      let kinds := subs.map (·.1)
      let inf := measOf (kinds.getD L.inf "")
      ({ st with kind := kind, n := n, lo := lo, hi := hi, infMeas := inf, totMeas := tot,
                 unMeas := L.unMeasureG st.cfsfix (fun i => measOf (kinds.getD i "")), layout := L, subKinds := kinds,
                 starts := [], goals := [], smp := none, skind := "", q := [] },
        s!"space ok ~inf={floatBits inf} ~tot={floatBits tot}")

def step (st : DSt) (ts : List String) : DSt × String :=
  match ts with
  | "new" :: n :: rest =>
    match parseNat? n with
    | some n =>
      if n < 1 || n > 64 then (st, "bad-op") else
      match takeVec rest n with
      | some (f1, rest) =>
        match takeVec rest n with
        | some (f2, []) =>
          let p : Phs Float := Phs.mk' st.phs.size f1 f2 []
          ({ st with phs := st.phs.push p },
            s!"new id={st.phs.size} ~cmin={floatBits p.cmin} dim={p.dim}")
        | _ => (st, "bad-op")
      | none => (st, "bad-op")
    | none => (st, "bad-op")
  | "rot" :: k :: rest =>
    match parseNat? k with
    | some k =>
      match st.phs[k]? with
      | some p =>
        match takeVec rest (p.dim * p.dim) with
        | some (r, []) =>
          let cols := toCols p.dim r
          if hypOk p.dim p.f1 p.f2 cols && rot2Ok p.dim p.f1 p.f2 cols then
            ({ st with phs := st.phs.setIfInBounds k { p with rot := cols } }, "rot hyp=1")
          else (st, "rot hyp=0")
        | _ => (st, "bad-op")
      | none => (st, "bad-op")
    | none => (st, "bad-op")
  | ["setc", k, c] =>
    match parseNat? k, parseFloatBits? c with
    | some k, some c =>
      match st.phs[k]? with
      | some p =>
        match p.setTransverseDiameter c with
        | some p' => ({ st with phs := st.phs.setIfInBounds k p' }, "setc ok ~m=" ++ floatBits p'.measure)
        | none => (st, "setc throw")
      | none => (st, "bad-op")
    | _, _ => (st, "bad-op")
  | "tf" :: k :: rest =>
    match parseNat? k with
    | some k =>
      match st.phs[k]? with
      | some p =>
        match takeVec rest p.dim with
        | some (u, []) =>
          match p.transform u with
          | some x => (st, "tf ~x=" ++ vecBits x ++ " ~pl=" ++ floatBits (p.pathLength x))
          | none => (st, "tf throw")
        | _ => (st, "bad-op")
      | none => (st, "bad-op")
    | none => (st, "bad-op")
  | "pt" :: k :: rest =>
    match parseNat? k with
    | some k =>
      match st.phs[k]? with
      | some p =>
        match takeVec rest p.dim with
        | some (x, []) =>
          if p.upToDate then
            (st, "pt ~pl=" ++ floatBits (p.pathLength x) ++ " in=" ++ (if p.isIn x then "1" else "0") ++
              " on=" ++ (if p.isOn x then "1" else "0"))
          else (st, "pt throw")
        | _ => (st, "bad-op")
      | none => (st, "bad-op")
    | none => (st, "bad-op")
  | ["meas", k, c] =>
    match parseNat? k, parseFloatBits? c with
    | some k, some c =>
      match st.phs[k]? with
      | some p =>
        match phsMeasure p.dim p.cmin c with
        | some m => (st, "meas ~m=" ++ floatBits m)
        | none => (st, "meas throw")
      | none => (st, "bad-op")
    | _, _ => (st, "bad-op")
  | ["ball", n] =>
    match parseNat? n with
    | some n => if n ≤ 400 then (st, "ball ~m=" ++ floatBits (unitNBallMeasure n : Float)) else (st, "bad-op")
    | none => (st, "bad-op")
  -- ------------------------------------------------------------------ sampler world
  | ["space", "rv", n, lo, hi] =>
    match parseNat? n, parseFloatBits? lo, parseFloatBits? hi with
    | some n, some lo, some hi =>
      let m := (List.range n).foldl (fun m _ => m * (hi - lo)) (1.0 : Float)
      ({ st with kind := "rv", n := n, lo := lo, hi := hi, infMeas := m, totMeas := m, unMeas := none,
                 layout := ⟨false, 0, 0⟩, subKinds := [],
                 starts := [], goals := [], smp := none, skind := "", q := [] },
        s!"space ok ~inf={floatBits m} ~tot={floatBits m}")
    | _, _, _ => (st, "bad-op")
  | ["space", "crv", n, lo, hi] =>
    match parseNat? n, parseFloatBits? lo, parseFloatBits? hi with
    | some n, some lo, some hi => compoundSpace st "crv" n lo hi
    | _, _, _ => (st, "bad-op")
  | ["space", kind, lo, hi] =>
    match parseFloatBits? lo, parseFloatBits? hi with
    | some lo, some hi => compoundSpace st kind (if kind == "se3" then 3 else 2) lo hi
    | _, _ => (st, "bad-op")
  | "ctor" :: obj :: ns :: gs :: ng :: cmp :: cast :: ty :: subs =>
    match parseNat? obj, parseNat? ns, parseNat? gs, parseNat? ng, parseNat? cmp, parseNat? cast, spTypeOf ty, subs.mapM subTypeOf with
    | some obj, some ns, some gs, some ng, some cmp, some cast, some ty, some subs =>
      let i : CtorIn := { hasObjective := obj != 0, numStarts := ns, goalSampleable := gs != 0, numGoals := ng,
                          space := { compound := cmp != 0, castOk := cast != 0, ty := ty, subs := subs } }
      match ctorCheckG st.ctorfix i with
      | .ok L => (st, s!"ctor ok compound={if L.compound then 1 else 0} inf={L.inf} un={L.un} hasun={if L.hasUninformedG st.cfsfix then 1 else 0}")
      | .error e => (st, s!"ctor throw={e.code}")
    | _, _, _, _, _, _, _, _ => (st, "bad-op")
  | "starts" :: k :: rest =>
    match parseNat? k with
    | some k =>
      if st.kind == "" || k < 1 || k > 16 then (st, "bad-op") else
      match takeVecs rest k st.n with
      | some (vs, []) => ({ st with starts := vs }, "starts ok")
      | _ => (st, "bad-op")
    | none => (st, "bad-op")
  | "goals" :: k :: rest =>
    match parseNat? k with
    | some k =>
      if st.kind == "" || k < 1 || k > 16 then (st, "bad-op") else
      match takeVecs rest k st.n with
      | some (vs, []) => ({ st with goals := vs }, "goals ok")
      | _ => (st, "bad-op")
    | none => (st, "bad-op")
  | "mk" :: skind :: ni :: thr :: more =>
    let batch := match more with
      | b :: _ => (parseNat? b).getD 10
      | [] => 10
    match parseNat? ni, parseFloatBits? thr with
    | some ni, some thr =>
      if st.kind == "" || st.starts.isEmpty || st.goals.isEmpty then (st, "bad-op") else
      let direct := skind == "direct" || skind == "ord-direct"
      if !(direct || skind == "rej" || skind == "ord-rej") then (st, "bad-op") else
      let pairs := phsPairs st.starts st.goals
      let phss := (pairs.zipIdx).map (fun (sg, i) => Phs.mk' i sg.1 sg.2 [])
      let smp : Sampler Float :=
        { phss := phss, summed := 0, numIters := ni, infMeasure := st.infMeas, unMeasure := st.unMeas,
          spaceMeasure := st.totMeas, all := phss }
      ({ st with skind := skind, thr := thr, numIters := ni, smp := if direct then some smp else none, q := [],
                 batch := batch, ordQ := [],
                 cur := List.replicate st.n 0 },
        s!"mk ok nphs={if direct then phss.length else 0} has={if direct then 1 else 0}")
    | _, _ => (st, "bad-op")
  | "srot" :: k :: rest =>
    match parseNat? k, st.smp with
    | some k, some s =>
      match s.phss.find? (·.id == k) with
      | some p =>
        match takeVec rest (p.dim * p.dim) with
        | some (r, []) =>
          let cols := toCols p.dim r
          if hypOk p.dim p.f1 p.f2 cols && rot2Ok p.dim p.f1 p.f2 cols then
            let setR := fun (q : Phs Float) => if q.id == k then { q with rot := cols } else q
            let s2 : Sampler Float := { s with phss := s.phss.map setR, «all» := s.all.map setR }
            ({ st with smp := some s2 }, "rot hyp=1")
          else (st, "rot hyp=0")
        | _ => (st, "bad-op")
      | none => (st, "bad-op")
    | _, _ => (st, "bad-op")
  | ["upd", c] =>
    match parseFloatBits? c, st.smp with
    | some c, some s =>
      let s' := s.updateG st.restore c
      ({ st with smp := some s' },
        "upd ids=" ++ ",".intercalate (s'.phss.map (fun p => toString p.id)) ++ " ~sum=" ++ floatBits s'.summed ++
          " branch=" ++ (if s'.useBoundsBranch then "B" else "P"))
    | _, _ => (st, "bad-op")
  | "hc" :: rest =>
    if st.skind == "" then (st, "bad-op") else
    match takeVec rest st.n with
    | some (x, []) =>
      let h := match st.smp with
        | some s => if st.skind == "direct" then s.hcostG st.restore x else baseHeuristic st.starts st.goals st.thr x
        | none => baseHeuristic st.starts st.goals st.thr x
      match h with
      | some h => (st, "hc ~h=" ++ floatBits h)
      | none => (st, "hc none")
    | _ => (st, "bad-op")
  | "nin" :: rest =>
    match st.smp with
    | some s =>
      match takeVec rest st.n with
      | some (x, []) => (st, s!"nin k={s.numIn x} any={if s.isInAny x then 1 else 0}")
      | _ => (st, "bad-op")
    | none => (st, "bad-op")
  | ["im", c] =>
    match parseFloatBits? c with
    | some c =>
      match st.smp with
      | some s => (st, "im ~m=" ++ floatBits (s.informedMeasureG st.restore c) ++ " has=1")
      | none => if st.skind == "" then (st, "bad-op") else (st, "im ~m=" ++ floatBits st.totMeas ++ " has=0")
    | none => (st, "bad-op")
  | "base" :: k :: rest =>
    match parseNat? k with
    | some k =>
      if st.kind != "rv" then (st, "bad-op") else
      match takeVecs rest k st.n with
      | some (vs, []) => ({ st with q := st.q ++ vs }, s!"base ok q={(st.q ++ vs).length}")
      | _ => (st, "bad-op")
    | none => (st, "bad-op")
  | ["nball", n, r] =>
    match parseNat? n, parseFloatBits? r with
    | some n, some r => if n ≤ 400 then (st, "nball ~m=" ++ floatBits (nBallMeasure n r)) else (st, "bad-op")
    | _, _ => (st, "bad-op")
  | "sup" :: seed :: c :: rest =>
    match parseNat? seed, parseFloatBits? c, st.smp, rest.mapM parseFloatBits? with
    | some _, some c, some s, some vals =>
      if st.layout.compound then supCompound st s "sup" none c vals else
      if st.kind != "rv" || st.skind != "direct" then (st, "bad-op") else
      let s' := s.updateG st.restore c
      if s'.useBoundsBranch then ({ st with smp := some s' }, "sup bounds-branch")
      else if vals.length != s.numIters * (st.n + 3) then (st, "bad-op")
      else
        let ds := drawsOf st.n vals
        let r := s.sample2G st.restore st.degfix (rvInBounds st.lo st.hi) true c ds (st.cur, ())
        let o := r.2
        ({ st with smp := some r.1, cur := o.st.1 },
          s!"sup found={if o.found then 1 else 0} used={o.iters} kept=0 ~x={if o.found then vecBits o.st.1 else "-"} inb={if o.found then (if rvInBounds st.lo st.hi o.st then "1" else "0") else "-"} ~xi={if o.found then vecBits o.st.1 else "-"}")
    | _, _, _, _ => (st, "bad-op")
  | "sup3" :: seed :: mc :: c :: rest =>
    match parseNat? seed, parseFloatBits? mc, parseFloatBits? c, st.smp, rest.mapM parseFloatBits? with
    | some _, some mc, some c, some s, some vals =>
      if st.layout.compound then supCompound st s "sup3" (some mc) c vals else
      if st.kind != "rv" || st.skind != "direct" then (st, "bad-op") else
      let s' := s.updateG st.restore c
      if s'.useBoundsBranch then ({ st with smp := some s' }, "sup3 bounds-branch")
      else if vals.length != s.numIters * (st.n + 3) then (st, "bad-op")
      else
        let ds := drawsOf st.n vals
        let r := s.sample3G st.restore st.degfix (rvInBounds st.lo st.hi) true mc c ds (st.cur, ())
        let o := r.2
        let used := ds.length - o.rest.length
        ({ st with smp := some r.1, cur := o.st.1 },
          s!"sup3 found={if o.found then 1 else 0} used={used} kept=0 ~x={if o.found then vecBits o.st.1 else "-"} inb={if o.found then (if rvInBounds st.lo st.hi o.st then "1" else "0") else "-"} ~xi={if o.found then vecBits o.st.1 else "-"}")
    | _, _, _, _, _ => (st, "bad-op")
  | ["iss", c] =>
    if st.kind != "rv" then (st, "bad-op") else
    match costOf c with
    | some (fin, c) =>
      let run (o : Out Float Unit) (st : DSt) : DSt × String :=
        if o.starved then ({ st with q := [] }, "iss starved")
        else
          match informedStateSample o with
          | none => ({ st with q := [] }, "iss starved")
          | some (x, rest, _) =>
            let used := st.q.length - rest.length
            ({ st with q := st.q.drop used, cur := x.1 },
              s!"iss used={used} x={vecBits x.1} inb={if rvInBounds st.lo st.hi x then 1 else 0}")
      if st.skind == "direct" then
        match st.smp with
        | some s =>
          let s' := if fin then s.updateG st.restore c else s
          if fin && !s'.useBoundsBranch then ({ st with smp := some s' }, "iss phs-branch")
          else
            let r := s.sample2G st.restore st.degfix (rvInBounds st.lo st.hi) fin c (mkDraws st.q) (st.cur, ())
            run r.2 { st with smp := some r.1 }
        | none => (st, "bad-op")
      else if st.skind == "rej" then
        let h := fun (x : List Float × Unit) => (baseHeuristic st.starts st.goals st.thr x.1).getD (0.0 / 0.0)
        run (rejSample2 h st.numIters c (mkDraws st.q) (st.cur, ())) st
      else (st, "bad-op")
    | none => (st, "bad-op")
  | ["im2", mc, c] =>
    match parseFloatBits? mc, parseFloatBits? c with
    | some mc, some c =>
      match st.smp with
      | some s => (st, "im2 ~m=" ++ floatBits (s.informedMeasureG st.restore c - s.informedMeasureG st.restore mc))
      | none => if st.skind == "" then (st, "bad-op") else (st, "im2 ~m=" ++ floatBits st.totMeas)
    | _, _ => (st, "bad-op")
  | ["osu", c] =>
    if st.kind != "rv" || st.skind != "ord-rej" then (st, "bad-op") else
    match costOf c with
    | some (_, c) =>
      let h := fun (x : List Float × Unit) => (baseHeuristic st.starts st.goals st.thr x.1).getD (0.0 / 0.0)
      match orderedRun h c (fun q => createBatch h st.numIters c st.n st.batch q []) st.ordQ st.q with
      | .found t rest q' =>
        ({ st with ordQ := rest, q := q', cur := t.1 },
          s!"osu found=1 used={st.q.length - q'.length} x={vecBits t.1} q={rest.length}")
      | .failed q' => ({ st with ordQ := [], q := q' }, s!"osu found=0 used={st.q.length - q'.length} x=- q=0")
      | .starved => ({ st with ordQ := [], q := [] }, "osu starved")
    | none => (st, "bad-op")
  | "usurf" :: k :: _seed :: rest =>
    match parseNat? k with
    | some k =>
      match st.phs[k]? with
      | some p =>
        match takeVec rest p.dim with
        | some (dir, []) =>
          -- uniformProlateHyperspheroidSurface: uniformNormalVector of the PHS dimension, transformed
          match (if dir.length = p.dim then p.transform dir else none) with
          | some x => (st, "usurf consumed=1 ~x=" ++ vecBits x ++ " ~pl=" ++ floatBits (p.pathLength x) ++ " in=" ++ (if p.isIn x then "1" else "0"))
          | none => (st, "usurf throw")
        | _ => (st, "bad-op")
      | none => (st, "bad-op")
    | none => (st, "bad-op")
  | "uball" :: k :: _seed :: rest =>
    match parseNat? k with
    | some k =>
      match st.phs[k]? with
      | some p =>
        match takeVec rest p.dim with
        | some (dir, [u]) =>
          match parseFloatBits? u with
          | some u =>
            match uniformPhs rootF p dir u with
            | some x => (st, "uball consumed=1 ~x=" ++ vecBits x ++ " ~pl=" ++ floatBits (p.pathLength x) ++ " in=" ++ (if p.isIn x then "1" else "0"))
            | none => (st, "uball throw")
          | none => (st, "bad-op")
        | _ => (st, "bad-op")
      | none => (st, "bad-op")
    | none => (st, "bad-op")
  | "addstart" :: rest =>
    if st.kind == "" || st.skind == "" then (st, "bad-op") else
    match takeVec rest st.n with
    | some (x, []) =>
      -- the direct sampler keeps the PHSs built at construction; InformedSampler::heuristicSolnCost reads the problem live
      ({ st with starts := st.starts ++ [x] }, s!"addstart ok n={st.starts.length + 1}")
    | _ => (st, "bad-op")
  | ["su", c] =>
    if st.kind != "rv" then (st, "bad-op") else
    match costOf c with
    | some (fin, c) =>
      if st.skind == "direct" then
        match st.smp with
        | some s =>
          let s' := if fin then s.updateG st.restore c else s
          if fin && !s'.useBoundsBranch then ({ st with smp := some s' }, "su phs-branch")
          else
            let r := s.sample2G st.restore st.degfix (rvInBounds st.lo st.hi) fin c (mkDraws st.q) (st.cur, ())
            showOut "su" { st with smp := some r.1 } st.q r.2
        | none => (st, "bad-op")
      else if st.skind == "rej" then
        let h := fun (x : List Float × Unit) => (baseHeuristic st.starts st.goals st.thr x.1).getD (0.0 / 0.0)
        showOut "su" st st.q (rejSample2 h st.numIters c (mkDraws st.q) (st.cur, ()))
      else (st, "bad-op")
    | none => (st, "bad-op")
  | ["su3", mc, c] =>
    if st.kind != "rv" then (st, "bad-op") else
    match costOf mc, costOf c with
    | some (_, mc), some (fin, c) =>
      if st.skind == "direct" then
        match st.smp with
        | some s =>
          let s' := if fin then s.updateG st.restore c else s
          if fin && !s'.useBoundsBranch then ({ st with smp := some s' }, "su3 phs-branch")
          else
            let r := s.sample3G st.restore st.degfix (rvInBounds st.lo st.hi) fin mc c (mkDraws st.q) (st.cur, ())
            showOut "su3" { st with smp := some r.1 } st.q r.2
        | none => (st, "bad-op")
      else if st.skind == "rej" then
        let h := fun (x : List Float × Unit) => (baseHeuristic st.starts st.goals st.thr x.1).getD (0.0 / 0.0)
        showOut "su3" st st.q (rejSample3 h st.numIters mc c (mkDraws st.q) (st.cur, ()))
      else (st, "bad-op")
    | _, _ => (st, "bad-op")
  | ["issalloc", obj, iters] =>
    if st.skind == "" then (st, "bad-op") else
    match (if obj == "pl" then some ObjKind.pathLength else if obj == "int" then some ObjKind.other else none), parseNat? iters with
    | some o, some it =>
      let r := allocInformed o it
      (st, s!"issalloc kind={if r.1 == .direct then "direct" else "rej"} iters={r.2} has={if r.1 == .direct then 1 else 0}")
    | _, _ => (st, "bad-op")
  | op :: seed :: par :: rest =>
    -- InformedStateSampler::sampleUniformNear / sampleGaussian forward to the wrapper's own base sampler (whose behaviour is C08's):
    -- the only modelled facts are "forwarded, informed sampler untouched, inside the bounds"
    if (op == "issn" || op == "issg") && st.kind == "rv" && st.skind != "" then
      match parseNat? seed, parseFloatBits? par, takeVec rest st.n with
      | some sd, some _, some (_, []) => if sd == 0 then (st, "bad-op") else (st, s!"{op} fwd=1 within=1 inb=1")
      | _, _, _ => (st, "bad-op")
    else (st, "bad-op")
  | _ => (st, "bad-op")

end OmplModel.Driver.PhsDrv
