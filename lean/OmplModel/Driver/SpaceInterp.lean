import OmplModel.Model.SpaceInterp
import OmplModel.Driver.SpaceIO
/-!
Line-protocol driver of the C07 interpolation model (header `spaceinterp`).

  space <space>                      -> ok                     (sets the current space)
  interp <from> <to> <t>             -> r <state> | sb <0/1> | ef <0/1> | et <0/1> | old <state>
  interp2 <from> <to> <s> <u>        -> s3 <state> | r <state> | direct <state>

`r` = interpolate(from,to,t); `sb` = satisfiesBounds(r); `ef`/`et` = equalStates(r,from)/(r,to);
`old` = the same interpolation with the SO(2) clause of the code before the F4 fix.
`interp2`: s3 = interpolate(from,to,s); r = interpolate(s3,to,u); direct = interpolate(from,to,s+(1-s)*u).
`oob-input` when from or to is not in bounds.  States are printed as their leaf values (doubles as u64 bit patterns).
-/
namespace OmplModel.Driver.SpaceInterpDrv
open OmplModel OmplModel.Driver OmplModel.SpaceInterp

abbrev DSt := Option (Space Float)

def init (ts : List String) : Option DSt :=
  match ts with
  | ["spaceinterp"] => some none
  | _ => none

def b01 (b : Bool) : String := if b then "1" else "0"

def showSt (s : St Float) : String := joinSp (showState s)

def step (st : DSt) (ts : List String) : DSt × String :=
  match ts with
  | "space" :: rest =>
    match pSpace rest with
    | some (sp, []) => (some sp, "ok")
    | _ => (st, "bad-op")
  | "interp" :: rest =>
    match st with
    | none => (st, "bad-op")
    | some sp =>
      match (do
        let (a, r) ← pState sp rest
        let (b, r) ← pState sp r
        let (t, r) ← pFloat r
        if r.isEmpty then pure (a, b, t) else none) with
      | some (a, b, t) =>
        if !(inBounds sp a && inBounds sp b) then (st, "oob-input") else
        let r := interpolate sp a b t
        let o := interpolateOld sp a b t
        (st, s!"r {showSt r} | sb {b01 (inBounds sp r)} | ef {b01 (eqStates sp r a)} | et {b01 (eqStates sp r b)} | old {showSt o}")
      | none => (st, "bad-op")
  | "interp2" :: rest =>
    match st with
    | none => (st, "bad-op")
    | some sp =>
      match (do
        let (a, r) ← pState sp rest
        let (b, r) ← pState sp r
        let (s, r) ← pFloat r
        let (u, r) ← pFloat r
        if r.isEmpty then pure (a, b, s, u) else none) with
      | some (a, b, s, u) =>
        if !(inBounds sp a && inBounds sp b) then (st, "oob-input") else
        let s3 := interpolate sp a b s
        let r := interpolate sp s3 b u
        let d := interpolate sp a b (s + (1 - s) * u)
        (st, s!"s3 {showSt s3} | r {showSt r} | direct {showSt d}")
      | none => (st, "bad-op")
  | _ => (st, "bad-op")

end OmplModel.Driver.SpaceInterpDrv
