import OmplModel.Model.SpaceInterp
import OmplModel.Model.SpaceInterpCar
import OmplModel.Driver.SpaceIO
/-!
Line-protocol driver of the C07 interpolation model (header `spaceinterp`).

  space <space>                      -> ok                     (sets the current space)
  mutate <space>                     -> ok                     (history op of the harness; same as `space` here)
  sanity                             -> sanity -               (the library's own sanityChecks; harness only)
  interp <from> <to> <t>             -> r <state> | sb <0/1> | ef <0/1> | et <0/1> | old <state>
  interp2 <from> <to> <s> <u>        -> s3 <state> | r <state> | direct <state>

`r` = interpolate(from,to,t); `sb` = satisfiesBounds(r); `ef`/`et` = equalStates(r,from)/(r,to);
`r`/`s3`/`direct` follow the tree: `interpolateTree` = the SO(2) clause as repaired by the F61 fix (both branches
wrapped) plus the Mobius gluing after the cylinder branch (F159 repair; `old159` = without it).  Witnesses of former code, for labelling a reverted tree: `old61`/`*_old61` = before the F61 fix (`interpolate`:
short branch not wrapped), `old` = before the F4 fix (`v > pi`).
`interp2`: s3 = interpolate(from,to,s); r = interpolate(s3,to,u); direct = interpolate(from,to,s+(1-s)*u).
`oob-input` when from or to is not in bounds.  States are printed as their leaf values (doubles as u64 bit patterns).

Car-like spaces (round 10).  Top-level `dubins <rho> <sym> <lo>*2 <hi>*2` and `rs <rho> <lo>*2 <hi>*2` are answered from
`Model/SpaceInterpCar.lean` (the cached-overload machine over C14's Dubins / Reeds-Shepp models):
  interp / interp2                   -> r <x y yaw> [| s3 … | direct …]           (`nopath` when the planner model has no path)
  walk <legs> (<from> <to> <k> <t>*k)*legs -> c0 <state> / <state> … | c1 …       one `(firstTime, path)` pair for the whole line,
                                        `firstTime = true` at every leg, the stale path kept (`Car.walk`)
Any other space line that mentions a car-like space (Owen / Vana / VanaOwen, compounds and wrappers of car-like spaces) is
accepted with `ok` and every op on it is answered `nomodel`: there the check's independent oracle judges alone.
-/
namespace OmplModel.Driver.SpaceInterpDrv
open OmplModel OmplModel.Driver OmplModel.SpaceInterp

inductive Top where
  | plain (sp : Space Float)
  | dubins (rho : Float) (sym : Bool) (lo hi : List Float)
  | rs (rho : Float) (lo hi : List Float)
  | x (sp : Car.XSpace Float)      -- wrappers / compounds with Dubins / Reeds-Shepp leaves (`Car.xinterp`)
  | nomodel
deriving Inhabited

abbrev DSt := Option Top

def carKinds : List String := ["dubins", "rs", "owen", "vana", "vanaowen"]

/-- the shared grammar (`pSpace`) plus the spaces this engine adds: `spacetime <vmax> <tw> u|b <lo> <hi> <space>`
= SpaceTimeStateSpace, the compound `[(1 - tw, space), (tw, time)]` its constructor builds (it does not
override interpolate); `empty` = EmptyStateSpace = R^0; at top level `cfw <space>` = CForestStateSpaceWrapper,
which forwards interpolate to the space and shares its states. -/
partial def pSpaceX : P (Space Float)
  | "cmp" :: r => do
    let (k, r) ← pNat r
    let rec go : Nat → List String → Option (Space Float × List String)
      | 0, r => some (.cnil, r)
      | n + 1, r => do
        let (w, r) ← pFloat r
        let (h, r) ← pSpaceX r
        let (t, r) ← go n r
        pure (.ccons w h t, r)
    go k r
  | "wrap" :: r => do
    let (s, r) ← pSpaceX r
    pure (.wrap s, r)
  | "spacetime" :: r => do
    let (_vmax, r) ← pFloat r
    let (tw, r) ← pFloat r
    match r with
    | "u" :: r => do
      let (s, r) ← pSpaceX r
      pure (.ccons (1 - tw) s (.ccons tw (.time false 0 0) .cnil), r)
    | "b" :: r => do
      let (lo, r) ← pFloat r
      let (hi, r) ← pFloat r
      let (s, r) ← pSpaceX r
      pure (.ccons (1 - tw) s (.ccons tw (.time true lo hi) .cnil), r)
    | _ => none
  | "empty" :: r => some (.rv [] [], r)
  | r => pSpace r

def pTopPlain : P (Space Float)
  | "cfw" :: r => do
    let (s, r) ← pSpaceX r
    pure (.wrap s, r)
  | r => pSpaceX r

/-- the `XSpace` skeleton: `cmp` / `wrap` opened, Dubins / Reeds-Shepp leaves, anything else a car-free `base` leaf -/
partial def pX : P (Car.XSpace Float)
  | "cmp" :: r => do
    let (k, r) ← pNat r
    let rec go : Nat → List String → Option (Car.XSpace Float × List String)
      | 0, r => some (.xnil, r)
      | n + 1, r => do
        let (w, r) ← pFloat r
        let (h, r) ← pX r
        let (t, r) ← go n r
        pure (.xcons w h t, r)
    go k r
  | "wrap" :: r => do
    let (s, r) ← pX r
    pure (.wrap s, r)
  | "dubins" :: r => do
    let (rho, r) ← pFloat r
    let (sym, r) ← pNat r
    let (lo, r) ← pFloats 2 r
    let (hi, r) ← pFloats 2 r
    pure (.dubins rho (sym != 0) lo hi, r)
  | "rs" :: r => do
    let (rho, r) ← pFloat r
    let (lo, r) ← pFloats 2 r
    let (hi, r) ← pFloats 2 r
    pure (.rs rho lo hi, r)
  | r => do
    let (s, r) ← pSpaceX r
    pure (.base s, r)

partial def pXState : Car.XSpace Float → P (St Float)
  | .base s, r => pState s r
  | .dubins .., r | .rs .., r => do
    let (x, r) ← pFloat r
    let (y, r) ← pFloat r
    let (th, r) ← pFloat r
    pure (Car.stOf ⟨x, y, th⟩, r)
  | .xnil, r => some (.cnil, r)
  | .xcons _ h t, r => do
    let (sh, r) ← pXState h r
    let (st, r) ← pXState t r
    pure (.ccons sh st, r)
  | .wrap s, r => pXState s r

def pTop : P Top
  | "dubins" :: r => do
    let (rho, r) ← pFloat r
    let (sym, r) ← pNat r
    let (lo, r) ← pFloats 2 r
    let (hi, r) ← pFloats 2 r
    pure (.dubins rho (sym != 0) lo hi, r)
  | "rs" :: r => do
    let (rho, r) ← pFloat r
    let (lo, r) ← pFloats 2 r
    let (hi, r) ← pFloats 2 r
    pure (.rs rho lo hi, r)
  | r =>
    if r.any (["owen", "vana", "vanaowen"].contains ·) then some (.nomodel, [])
    else if r.any (carKinds.contains ·) then
      let body : Option (Car.XSpace Float × List String) := match r with
        | "cfw" :: r' => (pX r').map (fun (s, r) => (Car.XSpace.wrap s, r))
        | _ => pX r
      match body with
      | some (s, []) => some (.x s, [])
      | _ => some (.nomodel, [])
    else (pTopPlain r).map (fun (s, r) => (.plain s, r))

open OmplModel.Dubins in
/-- the SE(2) box of a car-like space, for `satisfiesBounds` of the inputs -/
def se2Of (lo hi : List Float) : Space Float := .ccons 1 (.rv lo hi) (.ccons 0.5 .so2 .cnil)

def poseSt (p : OmplModel.Dubins.Pose Float) : St Float := .ccons (.rv [p.x, p.y]) (.ccons (.so2 p.th) .cnil)

def pPose : P (OmplModel.Dubins.Pose Float) := fun r => do
  let (x, r) ← pFloat r
  let (y, r) ← pFloat r
  let (th, r) ← pFloat r
  pure (⟨x, y, th⟩, r)

def showPose (p : OmplModel.Dubins.Pose Float) : String := s!"{floatBits p.x} {floatBits p.y} {floatBits p.th}"
def showOPose : Option (OmplModel.Dubins.Pose Float) → String
  | some p => showPose p
  | none => "nopath"

/-- the ops on a top-level car-like space; `dir` = the 4-argument interpolate, `wk` = a walk on one cache -/
def carStep (lo hi : List Float)
    (dir : OmplModel.Dubins.Pose Float → OmplModel.Dubins.Pose Float → Float → Option (OmplModel.Dubins.Pose Float))
    (wk : List (OmplModel.Dubins.Pose Float × OmplModel.Dubins.Pose Float × List Float) → Option (List (List (OmplModel.Dubins.Pose Float))))
    (ts : List String) : String :=
  let inB (p : OmplModel.Dubins.Pose Float) : Bool := inBounds (se2Of lo hi) (poseSt p)
  match ts with
  | "interp" :: rest =>
    match (do
      let (a, r) ← pPose rest
      let (b, r) ← pPose r
      let (t, r) ← pFloat r
      if r.isEmpty then pure (a, b, t) else none) with
    | some (a, b, t) =>
      if !(inB a && inB b) then "oob-input" else s!"r {showOPose (dir a b t)}"
    | none => "bad-op"
  | "interp2" :: rest =>
    match (do
      let (a, r) ← pPose rest
      let (b, r) ← pPose r
      let (s, r) ← pFloat r
      let (u, r) ← pFloat r
      if r.isEmpty then pure (a, b, s, u) else none) with
    | some (a, b, s, u) =>
      if !(inB a && inB b) then "oob-input" else
      let s3 := dir a b s
      let r := s3.bind (fun m => dir m b u)
      let d := dir a b (s + (1 - s) * u)
      s!"s3 {showOPose s3} | r {showOPose r} | direct {showOPose d}"
    | none => "bad-op"
  | "walk" :: rest =>
    match (do
      let (n, r) ← pNat rest
      let rec legs : Nat → List String → Option (List (OmplModel.Dubins.Pose Float × OmplModel.Dubins.Pose Float × List Float) × List String)
        | 0, r => some ([], r)
        | n + 1, r => do
          let (a, r) ← pPose r
          let (b, r) ← pPose r
          let (k, r) ← pNat r
          let (tv, r) ← pFloats k r
          let (more, r) ← legs n r
          pure ((a, b, tv) :: more, r)
      let (ls, r) ← legs n r
      if r.isEmpty && n != 0 then pure ls else none) with
    | some ls =>
      if !(ls.all (fun (a, b, _) => inB a && inB b)) then "oob-input" else
      match wk ls with
      | some outs =>
        let one (j : Nat) (o : List (OmplModel.Dubins.Pose Float)) : String := s!"c{j} " ++ " / ".intercalate (o.map showPose)
        " | ".intercalate ((List.range outs.length).zip outs |>.map (fun (j, o) => one j o))
      | none => "c0 nopath"
    | none => "bad-op"
  | _ => "bad-op"

def init (ts : List String) : Option DSt :=
  match ts with
  | ["spaceinterp"] => some none
  | _ => none

def b01 (b : Bool) : String := if b then "1" else "0"

def showSt (s : St Float) : String := joinSp (showState s)

def step (st : DSt) (ts : List String) : DSt × String :=
  match ts with
  | "space" :: rest =>
    match pTop rest with
    | some (sp, []) => (some sp, "ok")
    | _ => (st, "bad-op")
  | "mutate" :: rest =>   -- the implementation mutates its space object in place; the model just takes the new one
    match st, pTop rest with
    | some _, some (sp, []) => (some sp, "ok")
    | _, _ => (st, "bad-op")
  | ["sanity"] => if st.isSome then (st, "sanity -") else (st, "bad-op")
  | [] => (st, "bad-op")
  | op :: rest =>
  match st with
  | none => (st, "bad-op")
  | some .nomodel => (st, if ["interp", "interp2", "walk"].contains op then "nomodel" else "bad-op")
  | some (.dubins rho sym lo hi) =>
    let car := Car.dubinsCar rho sym
    (st, carStep lo hi (Car.direct Car.clsNum car Car.dubinsDefault)
      (fun ls => (Car.walk (Car.cachedCall Car.clsNum car) ⟨true, Car.dubinsDefault⟩ ls).map (·.1)) (op :: rest))
  | some (.rs rho lo hi) =>
    let car := Car.rsCar rho
    (st, carStep lo hi (Car.direct Car.clsNum car ⟨0, 0, 0, 0, 0, 0⟩)
      (fun ls => (Car.walk (Car.cachedCall Car.clsNum car) ⟨true, ⟨0, 0, 0, 0, 0, 0⟩⟩ ls).map (·.1)) (op :: rest))
  | some (.x xs) =>
    let showO : Option (St Float) → String
      | some v => joinSp (showState v)
      | none => "nopath"
    match op :: rest with
    | "interp" :: rest =>
      match (do
        let (a, r) ← pXState xs rest
        let (b, r) ← pXState xs r
        let (t, r) ← pFloat r
        if r.isEmpty then pure (a, b, t) else none) with
      | some (a, b, t) =>
        if !(Car.xinBounds xs a && Car.xinBounds xs b) then (st, "oob-input")
        else (st, s!"r {showO (Car.xinterp xs a b t)}")
      | none => (st, "bad-op")
    | "interp2" :: rest =>
      match (do
        let (a, r) ← pXState xs rest
        let (b, r) ← pXState xs r
        let (s, r) ← pFloat r
        let (u, r) ← pFloat r
        if r.isEmpty then pure (a, b, s, u) else none) with
      | some (a, b, s, u) =>
        if !(Car.xinBounds xs a && Car.xinBounds xs b) then (st, "oob-input") else
        let s3 := Car.xinterp xs a b s
        let r := s3.bind (fun m => Car.xinterp xs m b u)
        let d := Car.xinterp xs a b (s + (1 - s) * u)
        (st, s!"s3 {showO s3} | r {showO r} | direct {showO d}")
      | none => (st, "bad-op")
    | _ => (st, "bad-op")
  | some (.plain sp0) =>
  let st' : Option (Space Float) := some sp0
  match op :: rest with
  | "interp" :: rest =>
    match st' with
    | none => (st, "bad-op")
    | some sp =>
      match (do
        let (a, r) ← pState sp rest
        let (b, r) ← pState sp r
        let (t, r) ← pFloat r
        if r.isEmpty then pure (a, b, t) else none) with
      | some (a, b, t) =>
        if !(inBounds sp a && inBounds sp b) then (st, "oob-input") else
        -- the tree = the repaired SO(2) clause (F61 fix committed): `interpolateFix61`; witnesses of the former
        -- code: `old61` = before the F61 fix (short branch not wrapped), `old` = before the F4 fix (`v > pi`)
        let r := interpolateTree sp a b t
        let o := interpolateOld sp a b t
        let p := interpolate sp a b t
        let q := interpolateFix61 sp a b t
        (st, s!"r {showSt r} | sb {b01 (inBounds sp r)} | ef {b01 (eqStates sp r a)} | et {b01 (eqStates sp r b)} | old {showSt o} | old61 {showSt p} | old159 {showSt q}")
      | none => (st, "bad-op")
  | "interp2" :: rest =>
    match st' with
    | none => (st, "bad-op")
    | some sp =>
      match (do
        let (a, r) ← pState sp rest
        let (b, r) ← pState sp r
        let (s, r) ← pFloat r
        let (u, r) ← pFloat r
        if r.isEmpty then pure (a, b, s, u) else none) with
      | some (a, b, s, u) =>
        if !(inBounds sp a && inBounds sp b) then (st, "oob-input") else
        let s3 := interpolateTree sp a b s
        let r := interpolateTree sp s3 b u
        let d := interpolateTree sp a b (s + (1 - s) * u)
        let s3p := interpolate sp a b s
        let rp := interpolate sp s3p b u
        let dp := interpolate sp a b (s + (1 - s) * u)
        let s3q := interpolateFix61 sp a b s
        let rq := interpolateFix61 sp s3q b u
        let dq := interpolateFix61 sp a b (s + (1 - s) * u)
        (st, s!"s3 {showSt s3} | r {showSt r} | direct {showSt d} | s3_old61 {showSt s3p} | r_old61 {showSt rp} | direct_old61 {showSt dp} | s3_old159 {showSt s3q} | r_old159 {showSt rq} | direct_old159 {showSt dq}")
      | none => (st, "bad-op")
  | _ => (st, "bad-op")

end OmplModel.Driver.SpaceInterpDrv
