import OmplModel.Model.KPIECE1
import OmplModel.Model.Rng
import OmplModel.Driver.Common
/-!
Line-protocol driver for the `KPIECE1` model at `Float`, states as lists of IEEE bit patterns.
The script is built by checks/c13.py from the records of a run of the real planner (harness/kpiece.cpp): every
oracle answer the planner received (sampled state, three-argument `checkMotion` answer, goal distance, projection
coordinate) is replayed; the three random streams the planner owns (`disc_.rng_`: `uniform01` + `halfNormalInt` per
iteration; the planner's `rng_`: one `uniform01` per iteration) are recomputed from their seeds with the RNG model of C20.

  `kpiece pdim=<k> bf=<b> gb=<b> fsf=<b> mvf=<b> thr=<b> seedp=<n> seedd=<n>`          header
  `start <state> <ok 0|1> <coord>`   -> `ok`            one per problem start, in order (ok = satisfiesBounds && isValid)
  `begin`                            -> `st <dump>` | `invalid-start <dump>`
  `it x=<state> exs=<state> cm=<0|1> frac=<b> xs=<state> dist=<b|-> coord=<ints|->`
                                     -> `it sel=<m> tag=<g|n> keep=<0|1> | st <dump>`   one loop iteration
  `fin`                              -> `final status=<S> added=<0|1> approx=<0|1> dif=<b|-> path=<states|-> | st <dump>`
-/
namespace OmplModel.Driver.KpieceDrv
open OmplModel OmplModel.Grid OmplModel.Disc OmplModel.KPIECE1 OmplModel.PlannerReport OmplModel.Driver

abbrev S := List Nat

def fenc (x : Float) : Int := Int.ofNat x.toBits.toNat
def fdec (i : Int) : Float := Float.ofBits i.toNat.toUInt64
def fb (n : Nat) : Float := Float.ofBits n.toUInt64

structure Hdr where
  pdim : Nat
  bf : Float
  gb : Float
  fsf : Float
  mvf : Float
  thr : Float
  seedp : Nat
  seedd : Nat

structure DSt where
  h : Hdr
  starts : List (S × Bool × Coord) := []
  /-- known projection coordinates / goal distances (the recorded oracle answers so far) -/
  coords : List (S × Coord) := []
  dists : List (S × Float) := []
  st : Option (St S Float) := none
  invalidStart : Bool := false
  rp : Rng.Rng
  rd : Rng.Rng
  /-- everything replayed so far, for the whole-run `solve` at `fin` -/
  draws : List (Draw S Float) := []
  cms : List ((S × S) × (Bool × S × Float)) := []

def kv (pre : String) (s : String) : Option String :=
  if s.startsWith pre then some (s.drop pre.length).toString else none

def nats? (s : String) : Option (List Nat) := (s.splitOn ",").mapM (·.toNat?)
def ints? (s : String) : Option (List Int) := if s == "-" then some [] else (s.splitOn ",").mapM (·.toInt?)

def init (ts : List String) : Option DSt :=
  match ts with
  | ["kpiece", a, b, c, d, e, f, g, h] => do
    let pdim ← (← kv "pdim=" a).toNat?
    let bf ← (← kv "bf=" b).toNat?
    let gb ← (← kv "gb=" c).toNat?
    let fsf ← (← kv "fsf=" d).toNat?
    let mvf ← (← kv "mvf=" e).toNat?
    let thr ← (← kv "thr=" f).toNat?
    let sp ← (← kv "seedp=" g).toNat?
    let sd ← (← kv "seedd=" h).toNat?
    pure { h := ⟨pdim, fb bf, fb gb, fb fsf, fb mvf, fb thr, sp, sd⟩,
           rp := Rng.Rng.create sp.toUInt64, rd := Rng.Rng.create sd.toUInt64 }
  | _ => none

def lookupA {β : Type} (l : List (S × β)) (s : S) : Option β := (l.find? (fun e => e.1 == s)).map (·.2)

def mkCfg (ds : DSt) (cm : S → S → Bool × S × Float) : Cfg S Float :=
  { P := { dim := ds.h.pdim, enc := fenc, dec := fdec, eps := Float.ofBits 0x3CB0000000000000 },
    borderFraction := ds.h.bf,
    bounds := fun s => match (ds.starts.find? (fun e => e.1 == s)) with | some e => e.2.1 | none => false,
    valid := fun _ => true,
    coord := fun s => (lookupA ds.coords s).getD [],
    goalDist := fun s => (lookupA ds.dists s).getD (0.0 / 0.0),
    threshold := ds.h.thr, goalBias := ds.h.gb, canSample := true,
    failedFactor := ds.h.fsf, minValidFrac := ds.h.mvf, inf := 1.0 / 0.0,
    checkMotion := cm }

def joinC (xs : List String) : String := if xs.isEmpty then "-" else ",".intercalate xs
def sstr (s : S) : String := joinC (s.map toString)

def dump (d : Disc Float) (tree : Array (Node S)) : String :=
  let cells := d.grid.cells.mergeSort (fun a b => decide (a.id ≤ b.id))
  let cellStr (c : Cell) : String :=
    let base := toString c.id ++ ":" ++ joinC (c.coord.map toString) ++ ":" ++ toString c.nbrs ++ ":" ++
      (if c.border then "1" else "0") ++ ":"
    match lookup d.cdata c.coord with
    | some cd =>
      base ++ joinC (cd.motions.map toString) ++ ":" ++ floatBits cd.coverage ++ ":" ++ toString cd.selections ++ ":" ++
        floatBits cd.score ++ ":" ++ toString cd.iteration ++ ":" ++ toString c.data
    | none => base ++ "nodata"
  "st size=" ++ toString d.size ++ " iter=" ++ toString d.iteration ++ " bf=" ++ floatBits d.bf ++
    " tbl=" ++ toString d.cdata.length ++
    " | n=" ++ toString cells.length ++ cells.foldl (fun acc c => acc ++ " " ++ cellStr c) "" ++
    " | I=" ++ joinC (d.grid.internal.arr.toList.map (fun e => toString e.key.2)) ++
    " E=" ++ joinC (d.grid.external.arr.toList.map (fun e => toString e.key.2)) ++
    " | tree n=" ++ toString tree.size ++
    tree.foldl (fun acc nd => acc ++ " " ++ (match nd.parent with | some p => toString p | none => "-1") ++ ":" ++ sstr nd.state) ""

def step (ds : DSt) (ts : List String) : DSt × String :=
  match ts with
  | ["start", s, ok, c] =>
    match nats? s, ok.toNat?, ints? c with
    | some s, some ok, some c =>
      ({ ds with starts := ds.starts ++ [(s, ok == 1, c)], coords := ds.coords ++ [(s, c)] }, "ok")
    | _, _, _ => (ds, "bad-op")
  | ["begin"] =>
    let cfg := mkCfg ds (fun a _ => (false, a, 0.0))
    let init := initState cfg (ds.starts.map (·.1)).toArray
    if init.1.1.size = 0 then ({ ds with invalidStart := true }, "invalid-start " ++ dump init.1.2 init.1.1)
    else
      let st : St S Float := ⟨init.1.1, init.1.2, none, none, cfg.inf⟩
      ({ ds with st := some st }, dump st.disc st.tree)
  | ["it", x, exs, cm, frac, xs, dist, coord] =>
    match ds.st, (kv "x=" x).bind nats?, (kv "exs=" exs).bind nats?, (kv "cm=" cm).bind (·.toNat?),
        (kv "frac=" frac).bind (·.toNat?), (kv "xs=" xs).bind nats?, kv "dist=" dist, (kv "coord=" coord).bind ints? with
    | some st, some x, some exs, some cm, some frac, some xs, some dist, some coord =>
      if st.solution.isSome then (ds, "already-solved") else
      let ds1 : DSt :=
        { ds with coords := if coord.isEmpty then ds.coords else (xs, coord) :: ds.coords,
                  dists := match dist.toNat? with | some d => (xs, fb d) :: ds.dists | none => ds.dists }
      let cfg := mkCfg ds1 (fun a b => if a == exs && b == x then (cm == 1, xs, fb frac) else (false, a, -1.0))
      -- the three streams
      let (bias, rp') := ds.rp.uniform01
      let (u, r1) := ds.rd.uniform01
      let pick (n : Nat) : Nat :=
        match (r1.halfNormalInt 0 ((n : Int) - 1) 3.0).1 with
        | some v => v.toNat
        | none => n
      let rd' := (r1.halfNormalInt 0 0 3.0).2
      let dr : Draw S Float := { u := u, pick := pick, bias := bias, goalSample := x, nearSample := x }
      let sel := (select cfg.P (countIteration st.disc) u pick).2
      let st' := KPIECE1.step cfg st dr
      let keep := st'.tree.size != st.tree.size
      ({ ds1 with st := some st', rp := rp', rd := rd', draws := ds.draws ++ [dr],
                  cms := ((exs, x), (cm == 1, xs, fb frac)) :: ds.cms },
        s!"it sel={match sel with | some (m, _) => toString m | none => "none"} tag={if fromGoal cfg dr then "g" else "n"} keep={if keep then 1 else 0} | " ++
          dump st'.disc st'.tree)
    | _, _, _, _, _, _, _, _ => (ds, "bad-op")
  | ["fin"] =>
    -- the whole run again through `KPIECE1.solve`, with all recorded oracle answers; it must end in the state the
    -- iteration-by-iteration replay reached (`same=1`)
    let cfg := mkCfg ds (fun a b =>
      match ds.cms.find? (fun e => e.1.1 == a && e.1.2 == b) with
      | some e => e.2
      | none => (false, a, -1.0))
    let r := solve cfg (ds.starts.map (·.1)).toArray ds.draws
    let same := match ds.st with
      | some st => dump st.disc st.tree == dump r.disc r.tree
      | none => ds.invalidStart
    let head := s!"final status={r.status.name} same={if same then 1 else 0} unused={r.unusedDraws} "
    match r.added with
    | some (path, approximate, dif) =>
      (ds, head ++ s!"added=1 approx={if approximate then 1 else 0} " ++
        s!"dif={if approximate then floatBits dif else floatBits 0.0} path={";".intercalate (path.map sstr)} | " ++
        dump r.disc r.tree)
    | none => (ds, head ++ "added=0 approx=0 dif=- path=- | " ++ dump r.disc r.tree)
  | _ => (ds, "bad-op")

end OmplModel.Driver.KpieceDrv
