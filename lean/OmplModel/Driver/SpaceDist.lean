import OmplModel.Model.SpaceDistX
import OmplModel.Model.SpaceDistCar
import OmplModel.Driver.SpaceIO
/-!
Line-protocol driver of the C06 model.

  header : `spacedist` [space]              (a space may be declared in the header …)
  ops    : `space <space>`                  → `ok`            (… or re-declared at any time)
           `dist <stateA> <stateB>`         → `d <bits>`      (`+∞` as the bits of inf)
           `equal <stateA> <stateB>`        → `eq 0|1`
           `inbounds <state>`               → `in 0|1`
           `extent`                         → `ext <bits>`
           `claims`                         → `claims metric=b symdist=b syminterp=b discrete=b`

space grammar: Driver/SpaceIO.lean plus, at top level,
  `empty` | `spacetime <vmax> <timeWeight> (u | b <lo> <hi>) <space>` |
  `projected|atlas|tangentbundle <space>` | `cforest <space of this grammar>`
-/
namespace OmplModel.Driver.SpaceDistDrv
open OmplModel OmplModel.Driver OmplModel.SpaceDist

structure St where
  sp : Option (SpaceX Float)
  car : Option (CarSpace Float) := none
  /-- the tree under test still has the former `weights_[i] >= epsilon` guard in `CompoundStateSpace::getMaximumExtent`
  (header `spacedist-oldextent`; the check reads the source text) -/
  oldExtent : Bool := false

/-- `dubins <rho> <sym> <lo>*2 <hi>*2 | reedsshepp <rho> <lo>*2 <hi>*2 | owen|vana|vanaowen <rho> <maxPitch> <lo>*3 <hi>*3` -/
partial def pCar : P (CarSpace Float)
  | "cforest" :: r => pCar r          -- CForestStateSpaceWrapper forwards everything (claims included)
  | "dubins" :: r => do
    let (rho, r) ← pFloat r
    let (sym, r) ← pNat r
    let (lo, r) ← pFloats 2 r
    let (hi, r) ← pFloats 2 r
    pure (.dubins rho (sym != 0) lo hi, r)
  | "reedsshepp" :: r => do
    let (rho, r) ← pFloat r
    let (lo, r) ← pFloats 2 r
    let (hi, r) ← pFloats 2 r
    pure (.reedsshepp rho lo hi, r)
  | k :: r =>
    if k == "owen" || k == "vana" || k == "vanaowen" then do
      let (rho, r) ← pFloat r
      let (p, r) ← pFloat r
      let (lo, r) ← pFloats 3 r
      let (hi, r) ← pFloats 3 r
      if k == "owen" then pure (.owen rho p (Float.tan p) lo hi, r)
      else if k == "vana" then pure (.vana rho p lo hi, r)
      else pure (.vanaowen rho p lo hi, r)
    else none
  | [] => none

partial def pSpaceX : P (SpaceX Float)
  | "empty" :: r => some (.empty, r)
  | "spacetime" :: r => do
    let (vmax, r) ← pFloat r
    let (tw, r) ← pFloat r
    match r with
    | "u" :: r => do
      let (inner, r) ← pSpace r
      let sx ← SpaceX.mkSpacetime? vmax tw false 0 0 inner      -- the constructor refuses a time weight outside [0, 1]
      pure (sx, r)
    | "b" :: r => do
      let (lo, r) ← pFloat r
      let (hi, r) ← pFloat r
      let (inner, r) ← pSpace r
      let sx ← SpaceX.mkSpacetime? vmax tw true lo hi inner
      pure (sx, r)
    | _ => none
  | "cforest" :: r => do let (s, r) ← pSpaceX r; pure (.cforest s, r)
  | k :: r =>
    -- `projected|atlas|tangentbundle[:sphere|:plane|:torus] <ambient>`: whatever the constraint, distance / equalStates /
    -- satisfiesBounds / extent are the ambient space's
    if ["projected", "atlas", "tangentbundle"].contains ((k.splitOn ":").headD "") then do
      let (s, r) ← pSpace r
      pure (.constrained s, r)
    else do
      let (s, r) ← pSpace (k :: r)
      pure (.base s, r)
  | [] => none

/-! ### histories: the space is changed after construction; the model is recomputed from the CURRENT bounds/weights -/

/-- apply `f` to the node at `path` (compound: i-th component; wrapper: 0 = the wrapped space) -/
partial def modAt (f : Space Float → Option (Space Float)) : List Nat → Space Float → Option (Space Float)
  | [], s => f s
  | 0 :: p, .wrap s => (modAt f p s).map .wrap
  | i :: p, s => modComp f i p s
where
  modComp (f : Space Float → Option (Space Float)) : Nat → List Nat → Space Float → Option (Space Float)
    | 0, p, .ccons w h t => (modAt f p h).map (fun h' => .ccons w h' t)
    | i + 1, p, .ccons w h t => (modComp f i p t).map (fun t' => .ccons w h t')
    | _, _, _ => none

def setBoundsF (lo hi : List Float) : Space Float → Option (Space Float)
  | .rv l _ => if l.length == lo.length && lo.length == hi.length then some (.rv lo hi) else none
  | .disc _ _ =>
    match lo, hi with
    | [a], [b] => some (.disc a.toInt64.toInt b.toInt64.toInt)     -- `(int)lo`, `(int)hi`
    | _, _ => none
  -- SE2StateSpace::setBounds / SE3StateSpace::setBounds forward to the R^n component
  | .ccons w (.rv l _) t => if l.length == lo.length && lo.length == hi.length then some (.ccons w (.rv lo hi) t) else none
  | .time _ _ _ =>
    match lo, hi with
    | [a], [b] => some (.time true a b)
    | _, _ => none
  | _ => none

/-- `RealVectorStateSpace::addDimension(minBound, maxBound)` -/
def addDimF (lo hi : Float) : Space Float → Option (Space Float)
  | .rv l h => some (.rv (l ++ [lo]) (h ++ [hi]))
  | _ => none

def weightsOf : Space Float → List Float
  | .ccons w _ t => w :: weightsOf t
  | _ => []

/-- the node at a path (for queries) -/
partial def nodeAtX : List Nat → SpaceX Float → Option (Space Float)
  | p, .base s => nodeAt p s
  | 0 :: p, .constrained amb => nodeAt p amb
  | 0 :: p, .cforest s => nodeAtX p s
  | 0 :: p, .spacetime _ _ _ _ _ _ inner => nodeAt p inner
  | [], .spacetime _ w0 w1 b lo hi inner => some (.ccons w0 inner (.ccons w1 (.time b lo hi) .cnil))
  | [], .weighted _ w0 w1 => some (.ccons w0 .so2 (.ccons w1 .so2 .cnil))        -- (only the weights are read)
  | _, _ => none
where
  nodeAt : List Nat → Space Float → Option (Space Float)
    | [], s => some s
    | 0 :: p, .wrap s => nodeAt p s
    | i :: p, s => (comp i s).bind (nodeAt p)
  comp : Nat → Space Float → Option (Space Float)
    | 0, .ccons _ h _ => some h
    | i + 1, .ccons _ _ t => comp i t
    | _, _ => none

def setWeightF (idx : Nat) (w : Float) : Space Float → Option (Space Float)
  | .ccons w0 h t =>
    match idx with
    | 0 => some (.ccons w h t)
    | i + 1 => (setWeightF i w t).map (fun t' => .ccons w0 h t')
  | _ => none

/-- the same on the extended spaces: constrained / cforest: 0 = inner; spacetime: 0 = space, 1 = time -/
partial def modAtX (f : Space Float → Option (Space Float)) : List Nat → SpaceX Float → Option (SpaceX Float)
  | p, .base s => (modAt f p s).map .base
  | 0 :: p, .constrained amb => (modAt f p amb).map .constrained
  | 0 :: p, .cforest s => (modAtX f p s).map .cforest
  | 0 :: p, .spacetime vmax w0 w1 b lo hi inner => (modAt f p inner).map (fun i' => .spacetime vmax w0 w1 b lo hi i')
  | [1], .spacetime vmax w0 w1 b lo hi inner =>
    match f (.time b lo hi) with
    | some (.time b' lo' hi') => some (.spacetime vmax w0 w1 b' lo' hi' inner)
    | _ => none
  | _, _ => none

/-- Torus / Möbius / Klein bottle / Sphere: compounds of two components with weights 1, 1 -/
def isSpecial : Space Float → Bool
  | .torus .. | .mobius .. | .klein | .sphere _ => true
  | _ => false

/-- `CompoundStateSpace::setSubspaceWeight(idx, w)` on the node at `path`: `if (weight < 0.0) throw` (the space is left as
it is), `if (componentCount_ > index) weights_[index] = weight; else throw`.  A SpaceTimeStateSpace is itself a compound
of two components (its constructor's `lock()` only blocks `addSubspace`): path `[]` changes `weights_[0]` / `weights_[1]`,
which its own `distance` uses. -/
partial def setWeightX (idx : Nat) (w : Float) : List Nat → SpaceX Float → Option (SpaceX Float)
  | path, sx =>
    if w < 0.0 then none else
    match path, sx with
    | [], .spacetime vmax w0 w1 b lo hi inner =>
      match idx with
      | 0 => some (.spacetime vmax w w1 b lo hi inner)
      | 1 => some (.spacetime vmax w0 w b lo hi inner)
      | _ => none
    | 0 :: p, .cforest s => (setWeightX idx w p s).map .cforest
    | [], .weighted s w0 w1 =>
      match idx with
      | 0 => some (.weighted s w w1)
      | 1 => some (.weighted s w0 w)
      | _ => none
    | [], .base s =>
      if isSpecial s then setWeightX idx w [] (.weighted s 1.0 1.0) else modAtX (setWeightF idx w) [] (.base s)
    | p, s => modAtX (setWeightF idx w) p s

/-- `k i1 … ik rest` -/
def pPath : P (List Nat)
  | ts => (takeCounted ts).bind fun (xs, r) => (parseNats? xs).map (·, r)

def init0 (ts : List String) : Option St :=
  match ts with
  | ["spacedist"] => some ⟨none, none, false⟩
  | "spacedist" :: rest =>
    match pCar rest with
    | some (c, []) => some ⟨none, some c, false⟩
    | _ =>
      match pSpaceX rest with
      | some (sp, []) => some ⟨some sp, none, false⟩
      | _ => none
  | _ => none

def init (ts : List String) : Option St :=
  match ts with
  | "spacedist-oldextent" :: rest => (init0 ("spacedist" :: rest)).map fun st => { st with oldExtent := true }
  | _ => init0 ts

def b2s (b : Bool) : String := if b then "1" else "0"

/-- `isDiscrete()`: DiscreteStateSpace and wrappers of it; a compound inherits the base-class `false` -/
def isDiscrete : Space Float → Bool
  | .disc .. => true
  | .wrap s => isDiscrete s
  | _ => false

def isDiscreteX : SpaceX Float → Bool
  | .base s => isDiscrete s
  | .constrained s => isDiscrete s
  | .cforest s => isDiscreteX s
  | _ => false

def inf : Float := 1.0 / 0.0
def optBits : Option Float → String
  | some x => floatBits x
  | none => floatBits inf

/-- ops on a car-like space: `dist` (Dubins, Reeds-Shepp, Vana: recomputed), `distr <a> <b> rec <k> <x>*k` (Owen,
VanaOwen: with the recorded answers of the real code), and the compound's `equal` / `inbounds` / `extent` / `claims` -/
def stepCar (st : St) (c : CarSpace Float) (op : String) (rest : List String) : St × String :=
  let sp := c.layout
  let two (k : OmplModel.St Float → OmplModel.St Float → List String → String) : St × String :=
    match pState sp rest with
    | some (a, r) =>
      match pState sp r with
      | some (b, r) => if sp.wellTyped a && sp.wellTyped b then (st, k a b r) else (st, "bad-op")
      | none => (st, "bad-op")
    | none => (st, "bad-op")
  let showD : Option Float → String
    | some d => "d " ++ floatBits d
    | none => "d none"
  match op with
  | "dist" => two fun a b r => if r.isEmpty then showD (carDist c a b []) else "bad-op"
  | "distr" => two fun a b r =>
    match r with
    | "rec" :: r =>
      match pNat r with
      | some (k, r) =>
        match pFloats k r with
        | some (xs, []) => showD (carDist c a b xs)
        | _ => "bad-op"
      | none => "bad-op"
    | _ => "bad-op"
  | "equal" => two fun a b r => if r.isEmpty then "eq " ++ b2s (equalStates sp a b) else "bad-op"
  | "inbounds" =>
    match pState sp rest with
    | some (a, []) => if sp.wellTyped a then (st, "in " ++ b2s (satisfiesBounds sp a)) else (st, "bad-op")
    | _ => (st, "bad-op")
  | "extent" => if rest.isEmpty then (st, "ext " ++ floatBits (carExtent c)) else (st, "bad-op")
  | "claims" =>
    let (m, sy) := carClaims c
    if rest.isEmpty then (st, s!"claims metric={b2s m} symdist={b2s sy} syminterp={b2s sy} discrete=0") else (st, "bad-op")
  | "setup" => if rest.isEmpty then (st, "ok") else (st, "bad-op")
  | _ => (st, "bad-op")

def step (st : St) (ts : List String) : St × String :=
  match ts with
  | "space" :: rest =>
    match pCar rest with
    | some (c, []) => ({ st with sp := none, car := some c }, "ok")
    | _ =>
      match pSpaceX rest with
      | some (sp, []) => ({ st with sp := some sp, car := none }, "ok")
      | _ => (st, "bad-op")
  | op :: rest =>
    match st.car with
    | some c => stepCar st c op rest
    | none =>
    match st.sp with
    | none => (st, "bad-op")
    | some sx =>
      let sp := sx.layout
      match op with
      | "dist" =>
        match pState sp rest with
        | some (a, r) =>
          match pState sp r with
          | some (b, []) =>
            if sp.wellTyped a && sp.wellTyped b then (st, "d " ++ optBits (distX sx a b)) else (st, "bad-op")
          | _ => (st, "bad-op")
        | none => (st, "bad-op")
      | "equal" =>
        match pState sp rest with
        | some (a, r) =>
          match pState sp r with
          | some (b, []) =>
            if sp.wellTyped a && sp.wellTyped b then (st, "eq " ++ b2s (equalX sx a b)) else (st, "bad-op")
          | _ => (st, "bad-op")
        | none => (st, "bad-op")
      | "inbounds" =>
        match pState sp rest with
        | some (a, []) => if sp.wellTyped a then (st, "in " ++ b2s (inBoundsX sx a)) else (st, "bad-op")
        | _ => (st, "bad-op")
      | "setup" => if rest.isEmpty then (st, "ok") else (st, "bad-op")
      | "setbounds" =>
        match pPath rest with
        | some (path, r) =>
          match pNat r with
          | some (n, r) =>
            match pFloats n r with
            | some (lo, r) =>
              match pFloats n r with
              | some (hi, []) =>
                match modAtX (setBoundsF lo hi) path sx with
                | some sx' => ({ st with sp := some sx', car := none }, "ok")
                | none => (st, "bad-op")
              | _ => (st, "bad-op")
            | none => (st, "bad-op")
          | none => (st, "bad-op")
        | none => (st, "bad-op")
      | "adddim" =>
        match pPath rest with
        | some (path, r) =>
          match pFloats 2 r with
          | some ([lo, hi], []) =>
            match modAtX (addDimF lo hi) path sx with
            | some sx' => ({ st with sp := some sx', car := none }, "ok")
            | none => (st, "bad-op")
          | _ => (st, "bad-op")
        | none => (st, "bad-op")
      | "weights" =>
        match pPath rest with
        | some (path, []) =>
          match nodeAtX path sx with
          | some (.ccons w h t) =>
            let ws := weightsOf (.ccons w h t)
            (st, joinSp (["w", toString ws.length] ++ ws.map floatBits))
          | some s => if isSpecial s && path.isEmpty then (st, joinSp ["w", "2", floatBits 1.0, floatBits 1.0]) else (st, "bad-op")
          | _ => (st, "bad-op")
        | _ => (st, "bad-op")
      | "setweight" | "setweightn" =>
        match pPath rest with
        | some (path, r) =>
          match pNat r with
          | some (idx, r) =>
            match pFloat r with
            | some (w, []) =>
              match setWeightX idx w path sx with
              | some sx' => ({ st with sp := some sx', car := none }, "ok")
              | none => (st, "bad-op")
            | _ => (st, "bad-op")
          | none => (st, "bad-op")
        | none => (st, "bad-op")
      | "extent" =>
        if rest.isEmpty then (st, "ext " ++ optBits (if st.oldExtent then extentXOld sx else extentX sx)) else (st, "bad-op")
      | "claims" =>
        if rest.isEmpty then
          (st, s!"claims metric={b2s (claimsMetricX sx)} symdist=1 syminterp=1 discrete={b2s (isDiscreteX sx)}")
        else (st, "bad-op")
      | _ => (st, "bad-op")
  | [] => (st, "bad-op")

end OmplModel.Driver.SpaceDistDrv
