import OmplModel.Model.SpaceDist
import OmplModel.Driver.SpaceIO
/-!
Line-protocol driver of the C06 model.

  header : `spacedist` [space]              (a space may be declared in the header …)
  ops    : `space <space>`                  → `ok`            (… or re-declared at any time)
           `dist <stateA> <stateB>`         → `d <bits>`
           `equal <stateA> <stateB>`        → `eq 0|1`
           `inbounds <state>`               → `in 0|1`
           `extent`                         → `ext <bits>`
           `claims`                         → `claims metric=b symdist=b syminterp=b discrete=b`
-/
namespace OmplModel.Driver.SpaceDistDrv
open OmplModel OmplModel.Driver OmplModel.SpaceDist

structure St where
  sp : Option (Space Float)

def init (ts : List String) : Option St :=
  match ts with
  | ["spacedist"] => some ⟨none⟩
  | "spacedist" :: rest =>
    match pSpace rest with
    | some (sp, []) => some ⟨some sp⟩
    | _ => none
  | _ => none

def b2s (b : Bool) : String := if b then "1" else "0"

/-- `isDiscrete()`: DiscreteStateSpace and wrappers of it; a compound inherits the base-class `false` -/
def isDiscrete : Space Float → Bool
  | .disc .. => true
  | .wrap s => isDiscrete s
  | _ => false

def step (st : St) (ts : List String) : St × String :=
  match ts with
  | "space" :: rest =>
    match pSpace rest with
    | some (sp, []) => (⟨some sp⟩, "ok")
    | _ => (st, "bad-op")
  | op :: rest =>
    match st.sp with
    | none => (st, "bad-op")
    | some sp =>
      match op with
      | "dist" =>
        match pState sp rest with
        | some (a, r) =>
          match pState sp r with
          | some (b, []) =>
            if sp.wellTyped a && sp.wellTyped b then (st, "d " ++ floatBits (dist sp a b)) else (st, "bad-op")
          | _ => (st, "bad-op")
        | none => (st, "bad-op")
      | "equal" =>
        match pState sp rest with
        | some (a, r) =>
          match pState sp r with
          | some (b, []) =>
            if sp.wellTyped a && sp.wellTyped b then (st, "eq " ++ b2s (equalStates sp a b)) else (st, "bad-op")
          | _ => (st, "bad-op")
        | none => (st, "bad-op")
      | "inbounds" =>
        match pState sp rest with
        | some (a, []) => if sp.wellTyped a then (st, "in " ++ b2s (satisfiesBounds sp a)) else (st, "bad-op")
        | _ => (st, "bad-op")
      | "extent" => if rest.isEmpty then (st, "ext " ++ floatBits (maxExtent sp)) else (st, "bad-op")
      | "claims" =>
        if rest.isEmpty then
          (st, s!"claims metric={b2s (claimsMetric sp)} symdist=1 syminterp=1 discrete={b2s (isDiscrete sp)}")
        else (st, "bad-op")
      | _ => (st, "bad-op")
  | [] => (st, "bad-op")

end OmplModel.Driver.SpaceDistDrv
