import OmplModel.Model.SpaceDistX
import OmplModel.Driver.SpaceIO
/-!
Line-protocol driver of the C06 model.

  header : `spacedist` [space]              (a space may be declared in the header …)
  ops    : `space <space>`                  → `ok`            (… or re-declared at any time)
           `dist <stateA> <stateB>`         → `d <bits>`      (`+∞` as the bits of inf)
           `equal <stateA> <stateB>`        → `eq 0|1`
           `inbounds <state>`               → `in 0|1`
           `extent`                         → `ext <bits>`
           `claims`                         → `claims metric=b symdist=b syminterp=b discrete=b`

space grammar: Driver/SpaceIO.lean plus, at top level,
  `empty` | `spacetime <vmax> <timeWeight> (u | b <lo> <hi>) <space>` |
  `projected|atlas|tangentbundle <space>` | `cforest <space of this grammar>`
-/
namespace OmplModel.Driver.SpaceDistDrv
open OmplModel OmplModel.Driver OmplModel.SpaceDist

structure St where
  sp : Option (SpaceX Float)

partial def pSpaceX : P (SpaceX Float)
  | "empty" :: r => some (.empty, r)
  | "spacetime" :: r => do
    let (vmax, r) ← pFloat r
    let (tw, r) ← pFloat r
    match r with
    | "u" :: r => do
      let (inner, r) ← pSpace r
      pure (.spacetime vmax tw false 0 0 inner, r)
    | "b" :: r => do
      let (lo, r) ← pFloat r
      let (hi, r) ← pFloat r
      let (inner, r) ← pSpace r
      pure (.spacetime vmax tw true lo hi inner, r)
    | _ => none
  | "projected" :: r => do let (s, r) ← pSpace r; pure (.constrained s, r)
  | "atlas" :: r => do let (s, r) ← pSpace r; pure (.constrained s, r)
  | "tangentbundle" :: r => do let (s, r) ← pSpace r; pure (.constrained s, r)
  | "cforest" :: r => do let (s, r) ← pSpaceX r; pure (.cforest s, r)
  | r => do let (s, r) ← pSpace r; pure (.base s, r)

def init (ts : List String) : Option St :=
  match ts with
  | ["spacedist"] => some ⟨none⟩
  | "spacedist" :: rest =>
    match pSpaceX rest with
    | some (sp, []) => some ⟨some sp⟩
    | _ => none
  | _ => none

def b2s (b : Bool) : String := if b then "1" else "0"

/-- `isDiscrete()`: DiscreteStateSpace and wrappers of it; a compound inherits the base-class `false` -/
def isDiscrete : Space Float → Bool
  | .disc .. => true
  | .wrap s => isDiscrete s
  | _ => false

def isDiscreteX : SpaceX Float → Bool
  | .base s => isDiscrete s
  | .constrained s => isDiscrete s
  | .cforest s => isDiscreteX s
  | _ => false

def inf : Float := 1.0 / 0.0
def optBits : Option Float → String
  | some x => floatBits x
  | none => floatBits inf

def step (st : St) (ts : List String) : St × String :=
  match ts with
  | "space" :: rest =>
    match pSpaceX rest with
    | some (sp, []) => (⟨some sp⟩, "ok")
    | _ => (st, "bad-op")
  | op :: rest =>
    match st.sp with
    | none => (st, "bad-op")
    | some sx =>
      let sp := sx.layout
      match op with
      | "dist" =>
        match pState sp rest with
        | some (a, r) =>
          match pState sp r with
          | some (b, []) =>
            if sp.wellTyped a && sp.wellTyped b then (st, "d " ++ optBits (distX sx a b)) else (st, "bad-op")
          | _ => (st, "bad-op")
        | none => (st, "bad-op")
      | "equal" =>
        match pState sp rest with
        | some (a, r) =>
          match pState sp r with
          | some (b, []) =>
            if sp.wellTyped a && sp.wellTyped b then (st, "eq " ++ b2s (equalX sx a b)) else (st, "bad-op")
          | _ => (st, "bad-op")
        | none => (st, "bad-op")
      | "inbounds" =>
        match pState sp rest with
        | some (a, []) => if sp.wellTyped a then (st, "in " ++ b2s (inBoundsX sx a)) else (st, "bad-op")
        | _ => (st, "bad-op")
      | "extent" => if rest.isEmpty then (st, "ext " ++ optBits (extentX sx)) else (st, "bad-op")
      | "claims" =>
        if rest.isEmpty then
          (st, s!"claims metric={b2s (claimsMetricX sx)} symdist=1 syminterp=1 discrete={b2s (isDiscreteX sx)}")
        else (st, "bad-op")
      | _ => (st, "bad-op")
  | [] => (st, "bad-op")

end OmplModel.Driver.SpaceDistDrv
