import OmplModel.Model.SpaceDistX
import OmplModel.Driver.SpaceIO
/-!
Line-protocol driver of the C06 model.

  header : `spacedist` [space]              (a space may be declared in the header …)
  ops    : `space <space>`                  → `ok`            (… or re-declared at any time)
           `dist <stateA> <stateB>`         → `d <bits>`      (`+∞` as the bits of inf)
           `equal <stateA> <stateB>`        → `eq 0|1`
           `inbounds <state>`               → `in 0|1`
           `extent`                         → `ext <bits>`
           `claims`                         → `claims metric=b symdist=b syminterp=b discrete=b`

space grammar: Driver/SpaceIO.lean plus, at top level,
  `empty` | `spacetime <vmax> <timeWeight> (u | b <lo> <hi>) <space>` |
  `projected|atlas|tangentbundle <space>` | `cforest <space of this grammar>`
-/
namespace OmplModel.Driver.SpaceDistDrv
open OmplModel OmplModel.Driver OmplModel.SpaceDist

structure St where
  sp : Option (SpaceX Float)

partial def pSpaceX : P (SpaceX Float)
  | "empty" :: r => some (.empty, r)
  | "spacetime" :: r => do
    let (vmax, r) ← pFloat r
    let (tw, r) ← pFloat r
    match r with
    | "u" :: r => do
      let (inner, r) ← pSpace r
      pure (.spacetime vmax tw false 0 0 inner, r)
    | "b" :: r => do
      let (lo, r) ← pFloat r
      let (hi, r) ← pFloat r
      let (inner, r) ← pSpace r
      pure (.spacetime vmax tw true lo hi inner, r)
    | _ => none
  | "projected" :: r => do let (s, r) ← pSpace r; pure (.constrained s, r)
  | "atlas" :: r => do let (s, r) ← pSpace r; pure (.constrained s, r)
  | "tangentbundle" :: r => do let (s, r) ← pSpace r; pure (.constrained s, r)
  | "cforest" :: r => do let (s, r) ← pSpaceX r; pure (.cforest s, r)
  | r => do let (s, r) ← pSpace r; pure (.base s, r)

/-! ### histories: the space is changed after construction; the model is recomputed from the CURRENT bounds/weights -/

/-- apply `f` to the node at `path` (compound: i-th component; wrapper: 0 = the wrapped space) -/
partial def modAt (f : Space Float → Option (Space Float)) : List Nat → Space Float → Option (Space Float)
  | [], s => f s
  | 0 :: p, .wrap s => (modAt f p s).map .wrap
  | i :: p, s => modComp f i p s
where
  modComp (f : Space Float → Option (Space Float)) : Nat → List Nat → Space Float → Option (Space Float)
    | 0, p, .ccons w h t => (modAt f p h).map (fun h' => .ccons w h' t)
    | i + 1, p, .ccons w h t => (modComp f i p t).map (fun t' => .ccons w h t')
    | _, _, _ => none

def setBoundsF (lo hi : List Float) : Space Float → Option (Space Float)
  | .rv l _ => if l.length == lo.length && lo.length == hi.length then some (.rv lo hi) else none
  | .time _ _ _ =>
    match lo, hi with
    | [a], [b] => some (.time true a b)
    | _, _ => none
  | _ => none

def setWeightF (idx : Nat) (w : Float) : Space Float → Option (Space Float)
  | .ccons w0 h t =>
    match idx with
    | 0 => some (.ccons w h t)
    | i + 1 => (setWeightF i w t).map (fun t' => .ccons w0 h t')
  | _ => none

/-- the same on the extended spaces: constrained / cforest: 0 = inner; spacetime: 0 = space, 1 = time -/
partial def modAtX (f : Space Float → Option (Space Float)) : List Nat → SpaceX Float → Option (SpaceX Float)
  | p, .base s => (modAt f p s).map .base
  | 0 :: p, .constrained amb => (modAt f p amb).map .constrained
  | 0 :: p, .cforest s => (modAtX f p s).map .cforest
  | 0 :: p, .spacetime vmax tw b lo hi inner => (modAt f p inner).map (fun i' => .spacetime vmax tw b lo hi i')
  | [1], .spacetime vmax tw b lo hi inner =>
    match f (.time b lo hi) with
    | some (.time b' lo' hi') => some (.spacetime vmax tw b' lo' hi' inner)
    | _ => none
  | _, _ => none

/-- `k i1 … ik rest` -/
def pPath : P (List Nat)
  | ts => (takeCounted ts).bind fun (xs, r) => (parseNats? xs).map (·, r)

def init (ts : List String) : Option St :=
  match ts with
  | ["spacedist"] => some ⟨none⟩
  | "spacedist" :: rest =>
    match pSpaceX rest with
    | some (sp, []) => some ⟨some sp⟩
    | _ => none
  | _ => none

def b2s (b : Bool) : String := if b then "1" else "0"

/-- `isDiscrete()`: DiscreteStateSpace and wrappers of it; a compound inherits the base-class `false` -/
def isDiscrete : Space Float → Bool
  | .disc .. => true
  | .wrap s => isDiscrete s
  | _ => false

def isDiscreteX : SpaceX Float → Bool
  | .base s => isDiscrete s
  | .constrained s => isDiscrete s
  | .cforest s => isDiscreteX s
  | _ => false

def inf : Float := 1.0 / 0.0
def optBits : Option Float → String
  | some x => floatBits x
  | none => floatBits inf

def step (st : St) (ts : List String) : St × String :=
  match ts with
  | "space" :: rest =>
    match pSpaceX rest with
    | some (sp, []) => (⟨some sp⟩, "ok")
    | _ => (st, "bad-op")
  | op :: rest =>
    match st.sp with
    | none => (st, "bad-op")
    | some sx =>
      let sp := sx.layout
      match op with
      | "dist" =>
        match pState sp rest with
        | some (a, r) =>
          match pState sp r with
          | some (b, []) =>
            if sp.wellTyped a && sp.wellTyped b then (st, "d " ++ optBits (distX sx a b)) else (st, "bad-op")
          | _ => (st, "bad-op")
        | none => (st, "bad-op")
      | "equal" =>
        match pState sp rest with
        | some (a, r) =>
          match pState sp r with
          | some (b, []) =>
            if sp.wellTyped a && sp.wellTyped b then (st, "eq " ++ b2s (equalX sx a b)) else (st, "bad-op")
          | _ => (st, "bad-op")
        | none => (st, "bad-op")
      | "inbounds" =>
        match pState sp rest with
        | some (a, []) => if sp.wellTyped a then (st, "in " ++ b2s (inBoundsX sx a)) else (st, "bad-op")
        | _ => (st, "bad-op")
      | "setup" => if rest.isEmpty then (st, "ok") else (st, "bad-op")
      | "setbounds" =>
        match pPath rest with
        | some (path, r) =>
          match pNat r with
          | some (n, r) =>
            match pFloats n r with
            | some (lo, r) =>
              match pFloats n r with
              | some (hi, []) =>
                match modAtX (setBoundsF lo hi) path sx with
                | some sx' => (⟨some sx'⟩, "ok")
                | none => (st, "bad-op")
              | _ => (st, "bad-op")
            | none => (st, "bad-op")
          | none => (st, "bad-op")
        | none => (st, "bad-op")
      | "setweight" | "setweightn" =>
        match pPath rest with
        | some (path, r) =>
          match pNat r with
          | some (idx, r) =>
            match pFloat r with
            | some (w, []) =>
              match modAtX (setWeightF idx w) path sx with
              | some sx' => (⟨some sx'⟩, "ok")
              | none => (st, "bad-op")
            | _ => (st, "bad-op")
          | none => (st, "bad-op")
        | none => (st, "bad-op")
      | "extent" => if rest.isEmpty then (st, "ext " ++ optBits (extentX sx)) else (st, "bad-op")
      | "claims" =>
        if rest.isEmpty then
          (st, s!"claims metric={b2s (claimsMetricX sx)} symdist=1 syminterp=1 discrete={b2s (isDiscreteX sx)}")
        else (st, "bad-op")
      | _ => (st, "bad-op")
  | [] => (st, "bad-op")

end OmplModel.Driver.SpaceDistDrv
