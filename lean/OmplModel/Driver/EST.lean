import OmplModel.Model.EST
import OmplModel.Driver.RRT
import OmplModel.Driver.Pdf
/-!
Line-protocol driver for the EST model at `Float` over R^n with axis-aligned box obstacles (lock-step
twin of `harness/est.cpp`).  Space / validity / motion-validator numerics are those of `Driver/RRT.lean`.

    est <dim>                          header
    bounds / boxes / res / range / goal / thr / start     as in the rrt driver
    bias <b>                           setGoalBias
    us <k> <u>*k                       the planner's rng_.uniform01() stream (twin RNG of the harness)
    near <0|1> <state>                 one sampler_->sampleNear result (recorded), repeatable
    gs <state>                         one goal_s->sampleGoal result (recorded), repeatable
    iters <n>                          the termination condition fires after n iterations
    solve                              -> status line
    tree / pdf / path / next           -> tree in insertion order, the whole PDF (as the pdf driver dumps it),
                                          reported path, the next unused value of the us stream
-/
namespace OmplModel.Driver.ESTDrv
open OmplModel.EST OmplModel.PlannerReport OmplModel.Driver OmplModel.Pdf

abbrev State := Array Float

structure Env where
  r : RRTDrv.Env
  bias : Float := 0.05
  sc : Script State Float := {}
  iters : Nat := 0
  report : Option (Report State Float) := none

def cfgOf (e : Env) : Cfg State Float where
  dist := RRTDrv.rvDist
  lt a b := a < b
  le a b := a ≤ b
  inf := RRTDrv.inf
  radius := RRTDrv.effRange e.r / 3.0
  goalBias := e.bias
  canSample := true
  rejectP k := 1.0 - (1.0 / k.toFloat)
  wNew k := 1.0 / (k.toFloat + 1.0)
  wUpd w := w / (w + 1.0)
  bounds := RRTDrv.inBounds e.r
  valid := RRTDrv.isValid e.r
  checkMotion := RRTDrv.checkMotion e.r
  goalDist s := RRTDrv.rvDist s e.r.goal
  threshold := e.r.thr

def init (ts : List String) : Option Env :=
  match ts with
  | ["est", d] => (parseNat? d).bind (fun d => if 0 < d then some { r := { dim := d } } else none)
  | _ => none

def step (e : Env) (ts : List String) : Env × String :=
  match ts with
  | "bounds" :: _ | "boxes" :: _ | ["res", _] | ["range", _] | ["thr", _] | "goal" :: _ | "start" :: _ =>
    let (r', out) := RRTDrv.step e.r ts
    ({ e with r := r' }, out)
  | ["bias", x] => match parseFloatBits? x with | some x => ({ e with bias := x }, "ok") | none => (e, "bad-op")
  | "us" :: rest =>
    match takeCounted rest with
    | some (xs, []) =>
      match RRTDrv.floats? xs with
      | some us => ({ e with sc := { e.sc with us := e.sc.us ++ us.toList } }, "ok")
      | none => (e, "bad-op")
    | _ => (e, "bad-op")
  | "near" :: k :: rest =>
    match RRTDrv.floats? rest with
    | some s =>
      if s.size = e.r.dim ∧ (k = "0" ∨ k = "1") then
        ({ e with sc := { e.sc with nears := e.sc.nears ++ [(decide (k = "1"), s)] } }, "ok")
      else (e, "bad-op")
    | none => (e, "bad-op")
  | "gs" :: rest =>
    match RRTDrv.floats? rest with
    | some s => if s.size = e.r.dim then ({ e with sc := { e.sc with goals := e.sc.goals ++ [s] } }, "ok") else (e, "bad-op")
    | none => (e, "bad-op")
  | ["iters", n] => match parseNat? n with | some n => ({ e with iters := n }, "ok") | none => (e, "bad-op")
  | ["solve"] =>
    if e.r.lo.size = e.r.dim ∧ e.r.hi.size = e.r.dim ∧ e.r.goal.size = e.r.dim then
      let cfg := cfgOf e
      let r := solve cfg e.r.starts e.sc e.iters
      let (a, ap, df) := match r.added with
        | some (_, ap, df) => ("1", (if ap then "1" else "0"), floatBits df)
        | none => ("0", "-", "-")
      ({ e with report := some r },
        s!"status={r.status.name} bool={if r.status.toBool then 1 else 0} added={a} approx={ap} diff={df} " ++
        s!"lvs={floatBits (RRTDrv.lvs e.r)} range={floatBits (RRTDrv.effRange e.r)} radius={floatBits cfg.radius} " ++
        s!"nstart={r.pis.addedStartStates} ntree={r.final.tree.size} " ++
        s!"nnear={e.sc.nears.length - r.final.sc.nears.length} ngs={e.sc.goals.length - r.final.sc.goals.length} " ++
        s!"nus={e.sc.us.length - r.final.sc.us.length}")
    else (e, "bad-op")
  | ["tree"] =>
    match e.report with
    | some r =>
      (e, joinSp (s!"tree n={r.final.tree.size}" :: r.final.tree.toList.map (fun nd =>
        (match nd.parent with | some p => toString p | none => "-1") ++ ":" ++ RRTDrv.showState nd.state)))
    | none => (e, "bad-op")
  | ["pdf"] =>
    match e.report with
    | some r => (e, "pdf " ++ PdfDrv.dump r.final.pdf)
    | none => (e, "bad-op")
  | ["path"] =>
    match e.report with
    | some r =>
      match r.added with
      | some (p, _, _) => (e, joinSp (s!"path n={p.length}" :: p.map RRTDrv.showState))
      | none => (e, "path none")
    | none => (e, "bad-op")
  | ["next"] =>
    match e.report with
    | some r =>
      match r.final.sc.us with
      | u :: _ => (e, "next " ++ floatBits u)
      | [] => (e, "next none")
    | none => (e, "bad-op")
  | _ => (e, "bad-op")

end OmplModel.Driver.ESTDrv
