import OmplModel.Model.Discretization
import OmplModel.Model.Rng
import OmplModel.Driver.Common
/-!
Line-protocol driver for the `Discretization` model at `Float`.

Header: `disc dim=<d>`
Ops (coordinates are `d` integers, doubles are u64 bit patterns):
  `add <parent|-1> <x> <dist>` -> `m=<id> created=<0|1>`   new Motion (ids in creation order), addMotion
  `sel <seed>`                 -> `m=<id> x=<coords>` | `none`   rng_.setLocalSeed(seed); selectMotion (not called when empty)
  `score <x> <s>`              -> `ok` | `absent`          cell->data->score = s; updateCell(cell)
  `rm <m> <x>`                 -> `1` | `0` | `dead`       removeMotion(motion m, x) (not called for a dead motion)
  `iter` -> `ok`   `bf <b>` -> `ok` | `err`   `clear` -> `ok`   `pd` -> `v=<n> e=<n> r=<n>`
Every result is followed by ` | <dump>`: size_, iteration_, border fraction, the cell table sorted by cell id
(`id:coords:neighbors:border:motions:coverage:selections:score:iteration:importance`), both heaps in array order.
-/
namespace OmplModel.Driver.DiscDrv
open OmplModel OmplModel.Grid OmplModel.Disc OmplModel.Driver

def fenc (x : Float) : Int := Int.ofNat x.toBits.toNat
def fdec (i : Int) : Float := Float.ofBits i.toNat.toUInt64

structure St where
  P : Params Float
  d : Disc Float
  /-- `true`: the copy of this code inside `control::KPIECE1` (coverage weight = steps, score offset 1e-3, border
  fraction 0.8 by default and set without range check) -/
  control : Bool := false
  nextM : Nat := 0
  live : List Nat := []
  parents : List (Nat × Option Nat) := []

def kv (pre : String) (s : String) : Option String :=
  if s.startsWith pre then some (s.drop pre.length).toString else none

def init (ts : List String) : Option St :=
  match ts with
  | ["disc", d] => do
    let dim ← (← kv "dim=" d).toNat?
    if dim > 8 then none
    pure { P := { dim, enc := fenc, dec := fdec, eps := Float.ofBits 0x3CB0000000000000 },
           d := { bf := Float.ofScientific 9 true 1 } }
  | ["disc", d, "variant=control"] => do
    let dim ← (← kv "dim=" d).toNat?
    if dim > 8 then none
    pure { P := { dim, enc := fenc, dec := fdec, eps := Float.ofBits 0x3CB0000000000000 },
           d := { bf := Float.ofScientific 8 true 1 }, control := true }
  | _ => none

def joinC (xs : List String) : String := if xs.isEmpty then "-" else ",".intercalate xs

def dump (st : St) : String :=
  let d := st.d
  let cells := d.grid.cells.mergeSort (fun a b => decide (a.id ≤ b.id))
  let cellStr (c : Cell) : String :=
    let base := toString c.id ++ ":" ++ joinC (c.coord.map toString) ++ ":" ++ toString c.nbrs ++ ":" ++
      (if c.border then "1" else "0") ++ ":"
    match lookup d.cdata c.coord with
    | some cd =>
      base ++ joinC (cd.motions.map toString) ++ ":" ++ floatBits cd.coverage ++ ":" ++ toString cd.selections ++ ":" ++
        floatBits cd.score ++ ":" ++ toString cd.iteration ++ ":" ++ toString c.data
    | none => base ++ "nodata"
  "size=" ++ toString d.size ++ " iter=" ++ toString d.iteration ++ " bf=" ++ floatBits d.bf ++
    " tbl=" ++ toString d.cdata.length ++
    " | n=" ++ toString cells.length ++ cells.foldl (fun acc c => acc ++ " " ++ cellStr c) "" ++
    " | I=" ++ joinC (d.grid.internal.arr.toList.map (fun e => toString e.key.2)) ++
    " E=" ++ joinC (d.grid.external.arr.toList.map (fun e => toString e.key.2))

def coord? (dim : Nat) (ts : List String) : Option (Coord × List String) :=
  if ts.length < dim then none else
    match parseInts? (ts.take dim) with
    | some x => some (x, ts.drop dim)
    | none => none

def step (st : St) (ts : List String) : St × String :=
  let P := st.P
  let fin (st' : St) (res : String) : St × String := (st', res ++ " | " ++ dump st')
  match ts with
  | "add" :: par :: rest =>
    match parseInt? par, coord? P.dim rest with
    | some par, some (x, [dist]) =>
      match parseFloatBits? dist with
      | some dist =>
        if par < -1 || par ≥ (st.nextM : Int) || st.control then (st, "bad-op") else
        let r := add P st.d st.nextM x dist
        fin { st with d := r.1, nextM := st.nextM + 1, live := st.live ++ [st.nextM],
                      parents := st.parents ++ [(st.nextM, if par < 0 then none else some par.toNat)] }
          s!"m={st.nextM} created={r.2}"
      | none => (st, "bad-op")
    | _, _ => (st, "bad-op")
  | "addw" :: par :: steps :: rest =>
    match parseInt? par, parseNat? steps, coord? P.dim rest with
    | some par, some steps, some (x, [dist]) =>
      match parseFloatBits? dist with
      | some dist =>
        if par < -1 || par ≥ (st.nextM : Int) || !st.control then (st, "bad-op") else
        let r := add P st.d st.nextM x dist (Float.ofNat steps) (Float.ofScientific 1 true 3)
        fin { st with d := r.1, nextM := st.nextM + 1, live := st.live ++ [st.nextM],
                      parents := st.parents ++ [(st.nextM, if par < 0 then none else some par.toNat)] }
          s!"m={st.nextM} created={r.2}"
      | none => (st, "bad-op")
    | _, _, _ => (st, "bad-op")
  | ["sel", seed] =>
    match parseNat? seed with
    | some seed =>
      if st.d.size = 0 then fin st "none" else
      let r0 := Rng.Rng.create seed.toUInt64
      let (u, r1) := r0.uniform01
      let pick (n : Nat) : Nat :=
        match (r1.halfNormalInt 0 ((n : Int) - 1) 3.0).1 with
        | some v => v.toNat
        | none => n
      let r := select P st.d u pick
      match r.2 with
      | some (m, x) => fin { st with d := r.1 } s!"m={m} x={joinC (x.map toString)}"
      | none => fin { st with d := r.1 } "no-motion"
    | none => (st, "bad-op")
  | "score" :: rest =>
    match coord? P.dim rest with
    | some (x, [s]) =>
      match parseFloatBits? s with
      | some s => if has st.d.grid.cells x then fin { st with d := updScore P st.d x s } "ok" else fin st "absent"
      | none => (st, "bad-op")
    | _ => (st, "bad-op")
  | "rm" :: m :: rest =>
    match parseNat? m, coord? P.dim rest with
    | some m, some (x, []) =>
      if st.control then (st, "bad-op") else      -- control::KPIECE1 has no removeMotion
      if st.live.contains m then
        let r := remove P st.d m x
        fin { st with d := r.1, live := if r.2 then st.live.erase m else st.live } (if r.2 then "1" else "0")
      else fin st "dead"
    | _, _ => (st, "bad-op")
  | ["iter"] => fin { st with d := countIteration st.d } "ok"
  | ["bf", b] =>
    match parseFloatBits? b with
    | some b =>
      if st.control then fin { st with d := { st.d with bf := b } } "ok" else
      let r := setBorderFraction P st.d b
      fin { st with d := r.1 } (if r.2 then "ok" else "err")
    | none => (st, "bad-op")
  | ["clear"] => fin { st with d := clear P st.d, live := [] } "ok"
  | ["pd"] =>
    if st.control then (st, "bad-op") else
    let parent (m : Nat) : Option Nat := ((st.parents.find? (fun e => e.1 == m)).map (·.2)).join
    let r := plannerData st.d parent
    fin st s!"v={r.1} e={r.2.1} r={r.2.2}"
  | _ => (st, "bad-op")

end OmplModel.Driver.DiscDrv
