import OmplModel.Proofs.CopyState

/-!
# The proposed repair of F32 (`notes/C09-fix-F32.diff`): value locations of every space tree

`CopyState.lean` proves that `getValueLocations` + `getValueAddressAtLocation` enumerate exactly the
reference addresses `realAddrs sp` under the hypothesis `Sp.ok` (no wrapper around a compound space
strictly below a compound node).  With the repair (`leafLocsF`: a wrapper is an opaque leaf whatever it
wraps) the same statements hold for EVERY space tree, and on `Sp.ok` trees the repair changes nothing.
-/
namespace OmplModel.Copy

/-! ### `leafLocsF` needs no `isComp` side condition -/

theorem leafLocsF_eq (sp : Sp) (chain : List Nat) :
    leafLocsF sp chain = (List.range (nReals sp)).map (fun k => ⟨chain, k⟩) := by
  have hc : countFrom (addrAtIndex sp) (nReals sp + 1) 0 = nReals sp := by
    rw [countFrom_spec (addrAtIndex sp) (nReals sp) (addrAtIndex_none_iff sp)]; omega
  unfold leafLocsF
  rw [hc]
  by_cases h0 : nReals sp = 0
  · simp [h0]
  · have : addrAtIndex sp 0 ≠ none := fun hn => h0 (by have := (addrAtIndex_none_iff sp 0).1 hn; omega)
    cases ha : addrAtIndex sp 0 with
    | none => exact absurd ha this
    | some a => simp

theorem leafLocsF_res (root sp : Sp) (chain : List Nat) (hn : nodeAt root chain = some sp) :
    (leafLocsF sp chain).map (res root) = (realAddrs sp).map (fun a => some (chain ++ a)) := by
  rw [leafLocsF_eq sp chain, List.map_map]
  have : (res root ∘ fun k => (⟨chain, k⟩ : Loc)) =
      (fun o => o.map (chain ++ ·)) ∘ (fun k => (realAddrs sp)[k]?) := by
    funext k
    simp [res, hn, addrAtIndex_spec]
  rw [this, ← List.map_map, ← realAddrs_length, range_map_getElem?, List.map_map]
  rfl

mutual
theorem locsF_res (root : Sp) : ∀ (sp : Sp) (chain : List Nat),
    nodeAt root chain = some sp →
    (locsF sp chain).map (res root) = (realAddrs sp).map (fun a => some (chain ++ a))
  | .real nm n, chain, hn => by rw [locsF]; exact leafLocsF_res root _ chain hn
  | .so2 nm, chain, hn => by rw [locsF]; exact leafLocsF_res root _ chain hn
  | .so3 nm, chain, hn => by rw [locsF]; exact leafLocsF_res root _ chain hn
  | .time nm, chain, hn => by rw [locsF]; exact leafLocsF_res root _ chain hn
  | .discrete nm, chain, hn => by rw [locsF]; exact leafLocsF_res root _ chain hn
  | .wrapper nm s, chain, hn => by rw [locsF]; exact leafLocsF_res root _ chain hn
  | .compound nm cs, chain, hn => by
      rw [locsF, realAddrs]
      exact locsLF_res root cs chain 0
        (fun k => by rw [Nat.zero_add]; exact nodeAt_snoc root chain nm cs hn k)
theorem locsLF_res (root : Sp) : ∀ (cs : List Sp) (chain : List Nat) (i : Nat),
    (∀ k, nodeAt root (chain ++ [i + k]) = cs[k]?) →
    (locsLF cs chain i).map (res root) = (realAddrsL cs i).map (fun a => some (chain ++ a))
  | [], chain, i, _ => by simp [locsLF, realAddrsL]
  | c :: cs, chain, i, hn => by
      have h1 := locsF_res root c (chain ++ [i]) (by simpa using hn 0)
      have h2 := locsLF_res root cs chain (i + 1) (fun k => by
        have := hn (k + 1)
        rw [List.getElem?_cons_succ] at this
        rw [← this]; congr 3; omega)
      rw [locsLF, realAddrsL, List.map_append, List.map_append, h1, h2, List.map_map]
      congr 1
      apply List.map_congr_left
      intro a _
      simp
end

/-- for a non-wrapper root, the repaired locations resolve to the reference addresses -/
theorem locsF_root (sp : Sp) (h : ∀ nm s, sp ≠ .wrapper nm s) :
    (locsF sp []).map (resolve sp) = (realAddrs sp).map some := by
  rw [resolve_eq_res sp h]
  simpa using locsF_res sp sp [] (nodeAt_nil sp)

/-- with the repair, `getValueLocations` + `getValueAddressAtLocation` visit exactly the reference
addresses, in serialization order, for EVERY space tree (no `Sp.ok` hypothesis). -/
theorem valueLocationsF_enumerates : ∀ (sp : Sp),
    (valueLocationsF sp).map (resolve sp) = (realAddrs sp).map some
  | .wrapper nm s => by
      have ih := valueLocationsF_enumerates s
      have : resolve (.wrapper nm s) = (fun o => o.map (0 :: ·)) ∘ resolve s := by
        funext loc; simp [resolve]
      rw [valueLocationsF, this, ← List.map_map, ih, realAddrs, List.map_map, List.map_map]
      rfl
  | .compound nm cs => by
      have hv : valueLocationsF (.compound nm cs) = locsF (.compound nm cs) [] := by
        simp [valueLocationsF]
      rw [hv]; exact locsF_root _ (fun _ _ h => nomatch h)
  | .real nm n => by
      have hv : valueLocationsF (.real nm n) = locsF (.real nm n) [] := by simp [valueLocationsF]
      rw [hv]; exact locsF_root _ (fun _ _ h => nomatch h)
  | .so2 nm => by
      have hv : valueLocationsF (.so2 nm) = locsF (.so2 nm) [] := by simp [valueLocationsF]
      rw [hv]; exact locsF_root _ (fun _ _ h => nomatch h)
  | .so3 nm => by
      have hv : valueLocationsF (.so3 nm) = locsF (.so3 nm) [] := by simp [valueLocationsF]
      rw [hv]; exact locsF_root _ (fun _ _ h => nomatch h)
  | .time nm => by
      have hv : valueLocationsF (.time nm) = locsF (.time nm) [] := by simp [valueLocationsF]
      rw [hv]; exact locsF_root _ (fun _ _ h => nomatch h)
  | .discrete nm => by
      have hv : valueLocationsF (.discrete nm) = locsF (.discrete nm) [] := by
        simp [valueLocationsF]
      rw [hv]; exact locsF_root _ (fun _ _ h => nomatch h)

theorem valueLocationsF_length (sp : Sp) : (valueLocationsF sp).length = nReals sp := by
  have := congrArg List.length (valueLocationsF_enumerates sp)
  simpa [realAddrs_length] using this

/-! ### `copyToReals` / `copyFromReals` with the repair -/

theorem copyToRealsF_eq (sp : Sp) (st : St) :
    copyToRealsF sp st = (realAddrs sp).map (fun p => readBits st (some p)) := by
  have := valueLocationsF_enumerates sp
  unfold copyToRealsF
  have h2 : (valueLocationsF sp).map (fun loc => readBits st (resolve sp loc))
      = ((valueLocationsF sp).map (resolve sp)).map (readBits st) := by
    rw [List.map_map]; rfl
  rw [h2, this, List.map_map]; rfl

theorem copyFromRealsF_eq (sp : Sp) (st : St) (rs : List Nat) :
    copyFromRealsF sp st rs = writeP st (realAddrs sp) rs :=
  writeAll_of_map sp _ _ st rs (valueLocationsF_enumerates sp)

theorem copyToRealsF_length (sp : Sp) (st : St) : (copyToRealsF sp st).length = nReals sp := by
  rw [copyToRealsF_eq sp st, List.length_map, realAddrs_length]

/-- `copyFromRealsF ∘ copyToRealsF = id` on a fitting state -/
theorem fromRealsF_toRealsF (sp : Sp) (st : St) (hf : fits sp st = true) :
    copyFromRealsF sp st (copyToRealsF sp st) = st := by
  rw [copyToRealsF_eq sp _, copyFromRealsF_eq sp st _]
  exact writeP_read (realAddrs sp) st (fits_get sp st hf)

/-- `copyToRealsF ∘ copyFromRealsF = id` on a vector of the right length -/
theorem toRealsF_fromRealsF (sp : Sp) (st : St) (rs : List Nat)
    (hf : fits sp st = true) (hl : rs.length = nReals sp) :
    copyToRealsF sp (copyFromRealsF sp st rs) = rs := by
  rw [copyToRealsF_eq sp _, copyFromRealsF_eq sp st rs]
  exact read_writeP (realAddrs sp) st rs (realAddrs_nodup sp) (fits_get sp st hf)
    (by rw [realAddrs_length, hl])

/-- `copyFromRealsF` touches nothing but the reference addresses -/
theorem copyFromRealsF_frame (sp : Sp) (st : St) (rs : List Nat) (q : List Nat)
    (hq : q ∉ realAddrs sp) : (copyFromRealsF sp st rs).get q = st.get q := by
  rw [copyFromRealsF_eq sp st rs]
  exact writeP_get_notin (realAddrs sp) st rs q hq

/-- the reals round trip with the repair, for every space tree -/
theorem realsF_roundtrip (sp : Sp) (st : St) (hf : fits sp st = true) :
    copyFromRealsF sp st (copyToRealsF sp st) = st ∧
    (∀ rs : List Nat, rs.length = nReals sp → copyToRealsF sp (copyFromRealsF sp st rs) = rs) ∧
    (∀ (rs : List Nat) (q : List Nat), q ∉ realAddrs sp →
      (copyFromRealsF sp st rs).get q = st.get q) :=
  ⟨fromRealsF_toRealsF sp st hf,
   fun rs hl => toRealsF_fromRealsF sp st rs hf hl,
   fun rs q hq => copyFromRealsF_frame sp st rs q hq⟩

/-! ### on `Sp.ok` trees the repair changes nothing -/

theorem leafLocsF_eq_leafLocs (sp : Sp) (chain : List Nat) (h : sp.isComp = false) :
    leafLocsF sp chain = leafLocs sp chain := by
  rw [leafLocsF_eq, leafLocs_eq sp chain h]

mutual
theorem locsF_eq_locs : ∀ (sp : Sp) (chain : List Nat), sp.okIn = true →
    locsF sp chain = locs sp chain
  | .real nm n, chain, _ => by rw [locsF, locs]; exact leafLocsF_eq_leafLocs _ chain rfl
  | .so2 nm, chain, _ => by rw [locsF, locs]; exact leafLocsF_eq_leafLocs _ chain rfl
  | .so3 nm, chain, _ => by rw [locsF, locs]; exact leafLocsF_eq_leafLocs _ chain rfl
  | .time nm, chain, _ => by rw [locsF, locs]; exact leafLocsF_eq_leafLocs _ chain rfl
  | .discrete nm, chain, _ => by rw [locsF, locs]; exact leafLocsF_eq_leafLocs _ chain rfl
  | .wrapper nm s, chain, hok => by
      rw [locsF, locs]
      exact leafLocsF_eq_leafLocs _ chain (by simpa [Sp.okIn, Sp.isComp] using hok)
  | .compound nm cs, chain, hok => by
      rw [locsF, locs]
      exact locsLF_eq_locsL cs chain 0 (by simpa [Sp.okIn] using hok)
theorem locsLF_eq_locsL : ∀ (cs : List Sp) (chain : List Nat) (i : Nat), Sp.okInL cs = true →
    locsLF cs chain i = locsL cs chain i
  | [], chain, i, _ => by simp [locsLF, locsL]
  | c :: cs, chain, i, hok => by
      simp only [Sp.okInL, Bool.and_eq_true] at hok
      rw [locsLF, locsL, locsF_eq_locs c (chain ++ [i]) hok.1,
        locsLF_eq_locsL cs chain (i + 1) hok.2]
end

theorem valueLocationsF_eq_of_ok : ∀ (sp : Sp), sp.ok = true →
    valueLocationsF sp = valueLocations sp
  | .wrapper nm s, h => by
      rw [valueLocationsF, valueLocations]
      exact valueLocationsF_eq_of_ok s (by simpa [Sp.ok] using h)
  | .compound nm cs, h => by
      have hv : valueLocationsF (.compound nm cs) = locsF (.compound nm cs) [] := by
        simp [valueLocationsF]
      have hv' : valueLocations (.compound nm cs) = locs (.compound nm cs) [] := by
        simp [valueLocations]
      rw [hv, hv']; exact locsF_eq_locs _ [] (by simpa [Sp.ok] using h)
  | .real nm n, _ => by
      have hv : valueLocationsF (.real nm n) = locsF (.real nm n) [] := by simp [valueLocationsF]
      have hv' : valueLocations (.real nm n) = locs (.real nm n) [] := by simp [valueLocations]
      rw [hv, hv']; exact locsF_eq_locs _ [] rfl
  | .so2 nm, _ => by
      have hv : valueLocationsF (.so2 nm) = locsF (.so2 nm) [] := by simp [valueLocationsF]
      have hv' : valueLocations (.so2 nm) = locs (.so2 nm) [] := by simp [valueLocations]
      rw [hv, hv']; exact locsF_eq_locs _ [] rfl
  | .so3 nm, _ => by
      have hv : valueLocationsF (.so3 nm) = locsF (.so3 nm) [] := by simp [valueLocationsF]
      have hv' : valueLocations (.so3 nm) = locs (.so3 nm) [] := by simp [valueLocations]
      rw [hv, hv']; exact locsF_eq_locs _ [] rfl
  | .time nm, _ => by
      have hv : valueLocationsF (.time nm) = locsF (.time nm) [] := by simp [valueLocationsF]
      have hv' : valueLocations (.time nm) = locs (.time nm) [] := by simp [valueLocations]
      rw [hv, hv']; exact locsF_eq_locs _ [] rfl
  | .discrete nm, _ => by
      have hv : valueLocationsF (.discrete nm) = locsF (.discrete nm) [] := by
        simp [valueLocationsF]
      have hv' : valueLocations (.discrete nm) = locs (.discrete nm) [] := by
        simp [valueLocations]
      rw [hv, hv']; exact locsF_eq_locs _ [] rfl

theorem copyToRealsF_eq_of_ok (sp : Sp) (st : St) (h : sp.ok = true) :
    copyToRealsF sp st = copyToReals sp st := by
  unfold copyToRealsF copyToReals; rw [valueLocationsF_eq_of_ok sp h]

theorem copyFromRealsF_eq_of_ok (sp : Sp) (st : St) (rs : List Nat) (h : sp.ok = true) :
    copyFromRealsF sp st rs = copyFromReals sp st rs := by
  unfold copyFromRealsF copyFromReals; rw [valueLocationsF_eq_of_ok sp h]

/-- on the F32 witness (a wrapped compound used as a component) the repaired helper finds the
`double` that the original misses. -/
example : (valueLocationsF (Sp.compound 0 [.wrapper 1 (.compound 2 [.real 3 1])])).length = 1 ∧
    (valueLocations (Sp.compound 0 [.wrapper 1 (.compound 2 [.real 3 1])])).length = 0 := by
  decide

end OmplModel.Copy
