import OmplModel.Model.Rng
/-!
The oracle-machine view of a planner run (DESIGN 1.4) specialised to C20: a single-threaded planner is a
computation that learns about the world only by asking questions — random draws, state-validity /
propagation evaluations, and polls of the termination condition.  Its transcript and its output are then a
function of the answers it received, and of nothing else (no clock, no address, no hash order).

Core Lean only.
-/
namespace OmplModel.Rng.Oracle

inductive Comp (Q A Res : Type) where
  | done (o : Res)
  | ask (q : Q) (k : A → Comp Q A Res)

/-- A deterministic environment: the answer may depend on the whole transcript so far (this covers stateful
random generators, evaluation counters and a termination condition that counts evaluations). -/
abbrev Env (Q A : Type) := List (Q × A) → Q → A

variable {Q A Res : Type}

/-- run `c` against `env`, starting with transcript `h`; returns the final transcript and the output -/
def Comp.run (env : Env Q A) : Comp Q A Res → List (Q × A) → List (Q × A) × Res
  | .done o, h => (h, o)
  | .ask q k, h => Comp.run env (k (env h q)) (h ++ [(q, env h q)])

/-- the (transcript, question) pairs at which `env` is consulted during that run -/
def Comp.asked (env : Env Q A) : Comp Q A Res → List (Q × A) → List (List (Q × A) × Q)
  | .done _, _ => []
  | .ask q k, h => (h, q) :: Comp.asked env (k (env h q)) (h ++ [(q, env h q)])

/-- two environments that agree wherever the first run consults its environment give the same transcript
and the same output -/
theorem run_congr_asked (c : Comp Q A Res) (h : List (Q × A)) (e₁ e₂ : Env Q A)
    (H : ∀ p ∈ c.asked e₁ h, e₁ p.1 p.2 = e₂ p.1 p.2) : c.run e₁ h = c.run e₂ h := by
  induction c generalizing h with
  | done o => rfl
  | ask q k ih =>
    have h0 : e₁ h q = e₂ h q := H (h, q) (by simp [Comp.asked])
    simp only [Comp.run]
    rw [← h0]
    apply ih
    intro p hp
    exact H p (by simp only [Comp.asked, List.mem_cons]; exact Or.inr hp)

theorem run_length_ge (env : Env Q A) (c : Comp Q A Res) (h : List (Q × A)) :
    h.length ≤ (c.run env h).1.length := by
  induction c generalizing h with
  | done o => exact Nat.le_refl _
  | ask q k ih =>
    simp only [Comp.run]
    have := ih (env h q) (h ++ [(q, env h q)])
    simp only [List.length_append, List.length_cons, List.length_nil] at this
    omega

/-- the environment that answers the `i`-th question with the `i`-th element of a stream of draws -/
def streamEnv (d : Nat → A) : Env Q A := fun h _ => d h.length

/-- a run is a function of the prefix of the draw stream it consumed -/
theorem run_stream_congr (c : Comp Q A Res) (h : List (Q × A)) (d₁ d₂ : Nat → A)
    (H : ∀ i, h.length ≤ i → i < (c.run (streamEnv d₁) h).1.length → d₁ i = d₂ i) :
    c.run (streamEnv d₁) h = c.run (streamEnv d₂) h := by
  induction c generalizing h with
  | done o => rfl
  | ask q k ih =>
    have hlen := run_length_ge (streamEnv d₁) (k (d₁ h.length)) (h ++ [(q, d₁ h.length)])
    simp only [List.length_append, List.length_cons, List.length_nil] at hlen
    have h0 : d₁ h.length = d₂ h.length :=
      H h.length (Nat.le_refl _) (by simp only [Comp.run, streamEnv]; omega)
    simp only [Comp.run, streamEnv] at H ⊢
    rw [← h0]
    apply ih
    intro i hi hlt
    apply H i _ hlt
    simp only [List.length_append, List.length_cons, List.length_nil] at hi
    omega


/-! ### an input that is never asked about: the old content of an output state

`run_congr_asked` says a run is determined by the answers to the questions it asks.  The converse-style witness: a
computation that takes part of its output from an input it never asks about (uninitialised memory is exactly
that: no draw, no callback, no poll reveals it) has the *same transcript* for every value of that input and yet
*different outputs* — so it is not reproducible from (seed, problem, budget).  The model is a sampler that writes an
output state component by component from draws but skips the flagged components, the shape of
`CompoundStateSampler::sampleUniformNear` without its `else samplers_[i]->sampleUniform(comps[i])` branch. -/

def Comp.map {S : Type} (f : Res → S) : Comp Q A Res → Comp Q A S
  | .done o => .done (f o)
  | .ask q k => .ask q fun a => Comp.map f (k a)

theorem run_map {S : Type} (f : Res → S) (env : Env Q A) (c : Comp Q A Res) (h : List (Q × A)) :
    (c.map f).run env h = ((c.run env h).1, f (c.run env h).2) := by
  induction c generalizing h with
  | done o => rfl
  | ask q k ih => simp only [Comp.map, Comp.run]; exact ih _ _

/-- `skipSampler skip old`: for each component, either keep what the output state held (`old`, flag `true`) or
ask for a draw and write it (flag `false`). -/
def skipSampler {α : Type} : List Bool → List α → Comp Unit α (List α)
  | true :: sk, g :: gs => (skipSampler sk gs).map (g :: ·)
  | false :: sk, _ :: gs => .ask () fun a => (skipSampler sk gs).map (a :: ·)
  | _, _ => .done []

/-- the old content never shows in the transcript … -/
theorem skipSampler_transcript_ignores_old {α : Type} (env : Env Unit α) (sk : List Bool) (g₁ g₂ : List α)
    (hl : g₁.length = g₂.length) (h : List (Unit × α)) :
    ((skipSampler sk g₁).run env h).1 = ((skipSampler sk g₂).run env h).1 := by
  induction sk generalizing g₁ g₂ h with
  | nil => simp [skipSampler, Comp.run]
  | cons b sk ih =>
    cases g₁ with
    | nil =>
      cases g₂ with
      | nil => cases b <;> simp [skipSampler, Comp.run]
      | cons _ _ => simp at hl
    | cons x xs =>
      cases g₂ with
      | nil => simp at hl
      | cons y ys =>
        have hl' : xs.length = ys.length := by simpa using hl
        cases b with
        | true => simp only [skipSampler, run_map]; exact ih xs ys hl' h
        | false => simp only [skipSampler, Comp.run, run_map]; exact ih xs ys hl' _

/-- … but as soon as one component is skipped, the output depends on it: same environment (same seed, same
callbacks), same transcript, different results. -/
theorem skipSampler_output_depends_on_old {α : Type} (env : Env Unit α) (sk : List Bool) (hs : true ∈ sk)
    (x y : α) (hxy : x ≠ y) (h : List (Unit × α)) :
    ((skipSampler sk (List.replicate sk.length x)).run env h).2 ≠
      ((skipSampler sk (List.replicate sk.length y)).run env h).2 := by
  induction sk generalizing h with
  | nil => simp at hs
  | cons b sk ih =>
    cases b with
    | true =>
      simp only [List.length_cons, List.replicate_succ, skipSampler, run_map]
      intro e
      exact hxy (List.cons.inj e).1
    | false =>
      have hs' : true ∈ sk := by simpa using hs
      simp only [List.length_cons, List.replicate_succ, skipSampler, Comp.run, run_map]
      intro e
      exact ih hs' _ (List.cons.inj e).2

/-- a sampler that writes every component is reproducible whatever the output state held -/
theorem skipSampler_full_ignores_old {α : Type} (env : Env Unit α) (sk : List Bool) (hs : true ∉ sk)
    (g₁ g₂ : List α) (hl : g₁.length = g₂.length) (h : List (Unit × α)) :
    (skipSampler sk g₁).run env h = (skipSampler sk g₂).run env h := by
  induction sk generalizing g₁ g₂ h with
  | nil => simp [skipSampler, Comp.run]
  | cons b sk ih =>
    cases b with
    | true => simp at hs
    | false =>
      have hs' : true ∉ sk := by simpa using hs
      cases g₁ with
      | nil =>
        cases g₂ with
        | nil => simp [skipSampler, Comp.run]
        | cons _ _ => simp at hl
      | cons x xs =>
        cases g₂ with
        | nil => simp at hl
        | cons y ys =>
          have hl' : xs.length = ys.length := by simpa using hl
          simp only [skipSampler, Comp.run, run_map]
          rw [ih hs' xs ys hl' _]

/-! ### the planner instance -/

/-- what a planner may ask: a draw from its generator, an evaluation of a user callback on `x`
(state validity, motion validity, propagation, …), or a poll of the termination condition -/
inductive PQ (X : Type) where
  | draw (op : Op)
  | eval (x : X)
  | poll

inductive PA (Y : Type) where
  | drew (o : Rng.Out)
  | val (y : Y)
  | stop (b : Bool)

variable {X Y : Type}

def drawsOf : List (PQ X × PA Y) → List Op
  | [] => []
  | (.draw op, _) :: r => op :: drawsOf r
  | _ :: r => drawsOf r

def evalsOf : List (PQ X × PA Y) → Nat
  | [] => 0
  | (.eval _, _) :: r => evalsOf r + 1
  | _ :: r => evalsOf r

/-- the world of one process: a generator with local seed `s` (the model of `ompl::RNG`), user callbacks `orc`,
and a termination condition that fires once `budget` evaluations have been made -/
def plannerEnv (s : UInt64) (budget : Nat) (orc : X → Y) : Env (PQ X) (PA Y)
  | h, .draw op => .drew (((Rng.create s).after (drawsOf h)).step op).1
  | _, .eval x => .val (orc x)
  | h, .poll => .stop (decide (budget ≤ evalsOf h))

/-- the states on which the callbacks were evaluated in a list of consultations -/
def evalPoints : List (List (PQ X × PA Y) × PQ X) → List X
  | [] => []
  | (_, .eval x) :: r => x :: evalPoints r
  | _ :: r => evalPoints r

theorem mem_evalPoints {l : List (List (PQ X × PA Y) × PQ X)} {h : List (PQ X × PA Y)} {x : X}
    (hm : (h, PQ.eval x) ∈ l) : x ∈ evalPoints l := by
  induction l with
  | nil => simp at hm
  | cons p l ih =>
    rcases List.mem_cons.mp hm with e | e
    · subst e; simp [evalPoints]
    · obtain ⟨ph, pq⟩ := p
      cases pq <;> simp [evalPoints, ih e]

/-- Same seed, same budget, and callbacks that agree on the points the first run evaluated: same transcript
(every draw, every evaluated point, every poll, in order) and same output. -/
theorem planner_run_congr (c : Comp (PQ X) (PA Y) Res) (s : UInt64) (budget : Nat) (orc₁ orc₂ : X → Y)
    (H : ∀ x ∈ evalPoints (c.asked (plannerEnv s budget orc₁) []), orc₁ x = orc₂ x) :
    c.run (plannerEnv s budget orc₁) [] = c.run (plannerEnv s budget orc₂) [] := by
  apply run_congr_asked
  intro p hp
  obtain ⟨h, q⟩ := p
  cases q with
  | draw op => rfl
  | poll => rfl
  | eval x => simp only [plannerEnv]; rw [H x (mem_evalPoints hp)]

end OmplModel.Rng.Oracle
