import OmplModel.Model.ProjEST
import OmplModel.Proofs.ESTPdf
import OmplModel.Proofs.GridBasic
/-!
Invariants of the ProjEST model.  Arithmetic-free: every statement holds for every `Cfg` (projection,
validity predicate, motion validator, goal, weight formulas, index draw) and every weight type.
The tree / report part reuses the EST proofs through `toEST` (the invariants mention only
`bounds`, `valid`, `checkMotion`, `goalDist`, `lt`, `threshold`).
-/
namespace OmplModel.ProjEST
open OmplModel.PlannerReport OmplModel.Pdf
open OmplModel.EST (Node Script Flow pathTo PInv)
open OmplModel.RRT (Chain)
open OmplModel.Grid (Coord getCell addCell has)

variable {S D : Type}

/-- the EST configuration with the same environment oracles (the other fields are irrelevant here) -/
def toEST (cfg : Cfg S D) : OmplModel.EST.Cfg S D where
  dist _ _ := cfg.inf
  lt := cfg.lt
  le := cfg.lt
  inf := cfg.inf
  radius := cfg.inf
  goalBias := cfg.goalBias
  canSample := cfg.canSample
  rejectP _ := cfg.inf
  wNew _ := cfg.wOne
  wUpd w := w
  bounds := cfg.bounds
  valid := cfg.valid
  checkMotion := cfg.checkMotion
  goalDist := cfg.goalDist
  threshold := cfg.threshold

/-- `s` is one of the problem definition's start states and passed the input filter -/
def ValidStart (cfg : Cfg S D) (starts : Array S) (s : S) : Prop :=
  ∃ k, ∃ h : k < starts.size, starts[k] = s ∧ cfg.bounds s = true ∧ cfg.valid s = true

/-- every root is a valid start; every other motion's parent was created earlier and
`checkMotion(parent, child)` returned true -/
def TreeInv (cfg : Cfg S D) (starts : Array S) (tree : Array (Node S)) : Prop :=
  ∀ (i : Nat) (nd : Node S), tree[i]? = some nd →
    match nd.parent with
    | none => ValidStart cfg starts nd.state
    | some p => p < i ∧ ∃ np, tree[p]? = some np ∧ cfg.checkMotion np.state nd.state = true

theorem treeInv_iff (cfg : Cfg S D) (starts : Array S) (tree : Array (Node S)) :
    TreeInv cfg starts tree ↔ OmplModel.EST.TreeInv (toEST cfg) starts tree := Iff.rfl

/-- loop invariant of `solve`'s bookkeeping -/
structure StInv (cfg : Cfg S D) (starts : Array S) (st : St S D) : Prop where
  tree : TreeInv cfg starts st.tree
  sol : ∀ i, st.solution = some i → ∃ nd, st.tree[i]? = some nd ∧
    cfg.lt (cfg.goalDist nd.state) cfg.threshold = true ∧ st.approxdif = cfg.goalDist nd.state
  approx : st.solution = none → ∀ i, st.approxsol = some i → ∃ nd, st.tree[i]? = some nd ∧
    cfg.lt (cfg.goalDist nd.state) cfg.threshold = false ∧ st.approxdif = cfg.goalDist nd.state

section
variable [WOps D]

/-- `addMotion` appends the motion to the tree and never touches the bookkeeping -/
theorem addMotion_tree (cfg : Cfg S D) (st : St S D) (nd : Node S) :
    (addMotion cfg st nd).tree = st.tree.push nd ∧
      (addMotion cfg st nd).solution = st.solution ∧ (addMotion cfg st nd).approxsol = st.approxsol ∧
      (addMotion cfg st nd).approxdif = st.approxdif := by
  unfold addMotion
  split
  · split <;> exact ⟨rfl, rfl, rfl, rfl⟩
  · exact ⟨rfl, rfl, rfl, rfl⟩

theorem tryAdd_inv (cfg : Cfg S D) (starts : Array S) (st : St S D) (ex : Nat) (exn : Node S) (x : S)
    (h : StInv cfg starts st) (hs : st.solution = none) (hex : st.tree[ex]? = some exn) :
    StInv cfg starts (tryAdd cfg st ex exn.state x).1 ∧
      ((tryAdd cfg st ex exn.state x).2 = Flow.cont → (tryAdd cfg st ex exn.state x).1.solution = none) := by
  unfold tryAdd
  obtain ⟨ht, hsol, happ, hdif⟩ := addMotion_tree cfg st ⟨x, some ex⟩
  split
  · next hcm =>
    have hexlt : ex < st.tree.size := by
      rcases Nat.lt_or_ge ex st.tree.size with h1 | h1
      · exact h1
      · rw [Array.getElem?_eq_none h1] at hex; cases hex
    have htree : TreeInv cfg starts (addMotion cfg st ⟨x, some ex⟩).tree := by
      rw [ht]
      exact OmplModel.EST.treeInv_push (toEST cfg) starts st.tree ⟨x, some ex⟩ h.tree ⟨hexlt, exn, hex, hcm⟩
    have hnew : (addMotion cfg st ⟨x, some ex⟩).tree[st.tree.size]? = some ⟨x, some ex⟩ := by rw [ht]; simp
    have hold : ∀ (i : Nat) (nd : Node S), st.tree[i]? = some nd → (addMotion cfg st ⟨x, some ex⟩).tree[i]? = some nd := by
      intro i nd hi; rw [ht]; exact OmplModel.EST.getElem?_push_old _ _ _ _ hi
    simp only
    split
    · next hsat =>
      refine ⟨⟨htree, ?_, ?_⟩, fun hc => by cases hc⟩
      · intro i hi
        simp only [Option.some.injEq] at hi; subst hi
        exact ⟨_, hnew, hsat, rfl⟩
      · intro hn; simp at hn
    · next hsat =>
      split
      · refine ⟨⟨htree, ?_, ?_⟩, fun _ => by show (addMotion cfg st _).solution = none; rw [hsol, hs]⟩
        · intro i hi
          have : (addMotion cfg st ⟨x, some ex⟩).solution = some i := hi
          rw [hsol, hs] at this; cases this
        · intro _ i hi
          simp only [Option.some.injEq] at hi; subst hi
          exact ⟨_, hnew, by simpa using hsat, rfl⟩
      · refine ⟨⟨htree, ?_, ?_⟩, fun _ => by rw [hsol, hs]⟩
        · intro i hi; rw [hsol, hs] at hi; cases hi
        · intro hn i hi
          rw [happ] at hi
          obtain ⟨nd, h1, h2, h3⟩ := h.approx hs i hi
          exact ⟨nd, hold i nd h1, h2, by rw [hdif]; exact h3⟩
  · exact ⟨h, fun _ => hs⟩

end

section
variable [WScale D]

theorem step_inv (cfg : Cfg S D) (starts : Array S) (st : St S D) (h : StInv cfg starts st)
    (hs : st.solution = none) :
    StInv cfg starts (step cfg st).1 ∧ ((step cfg st).2 = Flow.cont → (step cfg st).1.solution = none) := by
  have keep : ∀ sc', StInv cfg starts { st with sc := sc' } := fun sc' => ⟨h.tree, h.sol, h.approx⟩
  unfold step
  split
  · split
    · exact ⟨h, fun _ => hs⟩
    · next ex _ =>
      split
      · exact ⟨h, fun _ => hs⟩
      · next exn hex =>
        split
        · split
          · exact ⟨h, fun _ => hs⟩
          · exact tryAdd_inv cfg starts _ ex exn _ (keep _) hs hex
        · split
          · exact ⟨h, fun _ => hs⟩
          · split
            · exact ⟨keep _, fun _ => hs⟩
            · exact tryAdd_inv cfg starts _ ex exn _ (keep _) hs hex
  · exact ⟨h, fun _ => hs⟩

theorem loop_inv (cfg : Cfg S D) (starts : Array S) : ∀ (n : Nat) (st : St S D), StInv cfg starts st →
    st.solution = none → StInv cfg starts (loop cfg n st)
  | 0, st, h, _ => h
  | n + 1, st, h, hs => by
    unfold loop
    have := step_inv cfg starts st h hs
    generalize step cfg st = r at this ⊢
    obtain ⟨st', fl⟩ := r
    cases fl with
    | cont => exact loop_inv cfg starts n st' this.1 (this.2 rfl)
    | done => exact this.1
    | halt => exact this.1

end

section
variable [WOps D]

theorem addStarts_inv (cfg : Cfg S D) (starts : Array S) : ∀ (l : List S) (st : St S D),
    (∀ s ∈ l, ValidStart cfg starts s) → StInv cfg starts st → st.solution = none → st.approxsol = none →
    StInv cfg starts (addStarts cfg st l) ∧ (addStarts cfg st l).solution = none ∧
      (addStarts cfg st l).approxsol = none
  | [], st, _, h, hs, ha => ⟨h, hs, ha⟩
  | s :: rest, st, hl, h, hs, ha => by
    unfold addStarts
    obtain ⟨ht, hsol, happ, _⟩ := addMotion_tree cfg st ⟨s, none⟩
    apply addStarts_inv cfg starts rest _ (fun x hx => hl x (List.mem_cons_of_mem _ hx))
    · refine ⟨?_, ?_, ?_⟩
      · rw [ht]
        exact OmplModel.EST.treeInv_push (toEST cfg) starts st.tree ⟨s, none⟩ h.tree (hl s List.mem_cons_self)
      · intro i hi; rw [hsol, hs] at hi; cases hi
      · intro _ i hi; rw [happ, ha] at hi; cases hi
    · rw [hsol, hs]
    · rw [happ, ha]

theorem initSt_inv (cfg : Cfg S D) (starts : Array S) (sc : Script S D) :
    StInv cfg starts (initSt cfg starts sc).1 ∧ (initSt cfg starts sc).1.solution = none := by
  have hspec := (drainStarts_spec cfg.bounds cfg.valid starts (starts.size + 1) {}).1
  have := addStarts_inv cfg starts ((drainStarts cfg.bounds cfg.valid starts (starts.size + 1) {}).1.map (·.2))
    ⟨#[], [], #[], {}, none, none, cfg.inf, sc⟩
    (by
      intro s hs
      simp only [List.mem_map] at hs
      obtain ⟨x, hx, rfl⟩ := hs
      obtain ⟨hi, h1, h2, h3, _⟩ := hspec x hx
      exact ⟨x.1, hi, h1, h2, h3⟩)
    ⟨fun i nd hnd => by simp at hnd, fun i hi => by simp at hi, fun _ i hi => by simp at hi⟩ rfl rfl
  exact ⟨this.1, this.2.1⟩

end

/-- grid ↔ cell table ↔ tree ↔ PDF -/
structure GInv [WOps D] (cfg : Cfg S D) (st : St S D) : Prop where
  glen : st.grid.length = st.cells.size
  gcell : ∀ (k : Nat) (gc : OmplModel.Grid.Cell), st.grid[k]? = some gc →
    gc.id = k ∧ ∃ ci, st.cells[k]? = some ci ∧ ci.coord = gc.coord
  gnodup : (st.grid.map (·.coord)).Nodup
  nonempty : ∀ (k : Nat) (ci : CellInfo), st.cells[k]? = some ci → 0 < ci.motions.size
  mem : ∀ (k : Nat) (ci : CellInfo) (p m : Nat), st.cells[k]? = some ci → ci.motions[p]? = some m →
    ∃ nd, st.tree[m]? = some nd ∧ cfg.coord nd.state = ci.coord
  cover : ∀ i, i < st.tree.size → ∃ (k : Nat) (ci : CellInfo) (p : Nat), st.cells[k]? = some ci ∧ ci.motions[p]? = some i
  uniq : ∀ (k k' : Nat) (ci ci' : CellInfo) (p p' m : Nat), st.cells[k]? = some ci → st.cells[k']? = some ci' →
    ci.motions[p]? = some m → ci'.motions[p']? = some m → k = k' ∧ p = p'
  p : PInv st.pdf st.cells.size
  elem : ∀ (k : Nat) (ci : CellInfo), st.cells[k]? = some ci → ci.elem = k
  weight : ∀ (k : Nat) (ci : CellInfo), st.cells[k]? = some ci →
    st.pdf.getWeight k = some (if ci.motions.size = 1 then cfg.wOne else cfg.wCell ci.motions.size)

theorem lt_of_getElem?_some {α} (a : Array α) (i : Nat) (x : α) (h : a[i]? = some x) : i < a.size := by
  rcases Nat.lt_or_ge i a.size with h1 | h1
  · exact h1
  · rw [Array.getElem?_eq_none h1] at h; cases h

section
variable [WOps D]

theorem GInv.mem_lt {cfg : Cfg S D} {st : St S D} (h : GInv cfg st) {k : Nat} {ci : CellInfo} {p m : Nat}
    (hk : st.cells[k]? = some ci) (hp : ci.motions[p]? = some m) : m < st.tree.size := by
  obtain ⟨nd, hnd, _⟩ := h.mem k ci p m hk hp
  exact lt_of_getElem?_some _ _ _ hnd

/-- joining an existing cell -/
theorem ginv_join (cfg : Cfg S D) (st : St S D) (nd : Node S) (K : Nat) (ci : CellInfo) (h : GInv cfg st)
    (hK : st.cells[K]? = some ci) (hcoord : ci.coord = cfg.coord nd.state) :
    GInv cfg { st with tree := st.tree.push nd
                       cells := st.cells.setIfInBounds K { ci with motions := ci.motions.push st.tree.size }
                       pdf := st.pdf.update ci.elem (cfg.wCell (ci.motions.size + 1)) } := by
  have hKlt := lt_of_getElem?_some _ _ _ hK
  have hc' : ∀ k2 : Nat, (st.cells.setIfInBounds K { ci with motions := ci.motions.push st.tree.size })[k2]? =
      if k2 = K then some { ci with motions := ci.motions.push st.tree.size } else st.cells[k2]? := by
    intro k2
    rw [Array.getElem?_setIfInBounds]
    by_cases e : K = k2
    · subst e; simp [hKlt]
    · have : ¬ k2 = K := fun x => e x.symm
      simp [e, this]
  have helem := h.elem K ci hK
  have hwK := h.weight K ci hK
  have hne := h.nonempty K ci hK
  constructor
  · simpa using h.glen
  · intro k gc hg
    obtain ⟨h1, ci0, h2, h3⟩ := h.gcell k gc hg
    refine ⟨h1, ?_⟩
    simp only [hc']
    by_cases e : k = K
    · subst e
      rw [hK] at h2; cases h2
      exact ⟨⟨ci.coord, ci.motions.push st.tree.size, ci.elem⟩, by simp, h3⟩
    · exact ⟨ci0, by simp [e, h2], h3⟩
  · exact h.gnodup
  · intro k ci2 hk
    simp only [hc'] at hk
    by_cases e : k = K
    · simp only [e, if_true, Option.some.injEq] at hk
      subst hk; simp
    · simp only [e, if_false] at hk
      exact h.nonempty k ci2 hk
  · intro k ci2 p m hk hp
    simp only [hc'] at hk
    by_cases e : k = K
    · simp only [e, if_true, Option.some.injEq] at hk
      subst hk
      simp only [Array.getElem?_push] at hp
      by_cases ep : p = ci.motions.size
      · simp only [ep, if_true, Option.some.injEq] at hp
        subst hp
        exact ⟨nd, by simp, hcoord.symm⟩
      · simp only [ep, if_false] at hp
        obtain ⟨nd2, hn1, hn2⟩ := h.mem K ci p m hK hp
        exact ⟨nd2, OmplModel.EST.getElem?_push_old _ _ _ _ hn1, hn2⟩
    · simp only [e, if_false] at hk
      obtain ⟨nd2, hn1, hn2⟩ := h.mem k ci2 p m hk hp
      exact ⟨nd2, OmplModel.EST.getElem?_push_old _ _ _ _ hn1, hn2⟩
  · intro i hi
    simp only [Array.size_push] at hi
    by_cases e : i = st.tree.size
    · refine ⟨K, ⟨ci.coord, ci.motions.push st.tree.size, ci.elem⟩, ci.motions.size, by simp [hc'], ?_⟩
      simp [e]
    · obtain ⟨k, ci2, p, hk, hp⟩ := h.cover i (by omega)
      by_cases ek : k = K
      · subst ek
        rw [hK] at hk; cases hk
        refine ⟨k, ⟨ci.coord, ci.motions.push st.tree.size, ci.elem⟩, p, by simp [hc'], ?_⟩
        have := lt_of_getElem?_some _ _ _ hp
        simp only [Array.getElem?_push]
        have : ¬ p = ci.motions.size := by omega
        simp [this, hp]
      · exact ⟨k, ci2, p, by simp [hc', ek, hk], hp⟩
  · intro k k' c1 c2 p p' m hk hk' hp hp'
    simp only [hc'] at hk hk'
    -- every old entry is < tree.size, the new entry is tree.size
    have old : ∀ (k0 : Nat) (c0 : CellInfo) (p0 : Nat), st.cells[k0]? = some c0 → c0.motions[p0]? = some m →
        m < st.tree.size := fun k0 c0 p0 a b => h.mem_lt a b
    have pushed : ∀ (p0 : Nat), (ci.motions.push st.tree.size)[p0]? = some m →
        (p0 = ci.motions.size ∧ m = st.tree.size) ∨ (p0 < ci.motions.size ∧ ci.motions[p0]? = some m) := by
      intro p0 hp0
      simp only [Array.getElem?_push] at hp0
      by_cases e : p0 = ci.motions.size
      · simp only [e, if_true, Option.some.injEq] at hp0
        exact Or.inl ⟨e, hp0.symm⟩
      · simp only [e, if_false] at hp0
        exact Or.inr ⟨lt_of_getElem?_some _ _ _ hp0, hp0⟩
    by_cases e : k = K <;> by_cases e' : k' = K
    · simp only [e, if_true, Option.some.injEq] at hk
      simp only [e', if_true, Option.some.injEq] at hk'
      subst hk hk'
      refine ⟨by rw [e, e'], ?_⟩
      rcases pushed p hp with ⟨a1, a2⟩ | ⟨a1, a2⟩ <;> rcases pushed p' hp' with ⟨b1, b2⟩ | ⟨b1, b2⟩
      · omega
      · have := old K ci p' hK b2; omega
      · have := old K ci p hK a2; omega
      · exact (h.uniq K K ci ci p p' m hK hK a2 b2).2
    · simp only [e, if_true, Option.some.injEq] at hk
      simp only [e', if_false] at hk'
      subst hk
      rcases pushed p hp with ⟨a1, a2⟩ | ⟨a1, a2⟩
      · have := old k' c2 p' hk' hp'; omega
      · have := h.uniq K k' ci c2 p p' m hK hk' a2 hp'
        exact ⟨by rw [e]; exact this.1, this.2⟩
    · simp only [e, if_false] at hk
      simp only [e', if_true, Option.some.injEq] at hk'
      subst hk'
      rcases pushed p' hp' with ⟨a1, a2⟩ | ⟨a1, a2⟩
      · have := old k c1 p hk hp; omega
      · have := h.uniq k K c1 ci p p' m hk hK hp a2
        exact ⟨by rw [e']; exact this.1, this.2⟩
    · simp only [e, if_false] at hk
      simp only [e', if_false] at hk'
      exact h.uniq k k' c1 c2 p p' m hk hk' hp hp'
  · have := OmplModel.EST.pinv_update st.pdf st.cells.size ci.elem (cfg.wCell (ci.motions.size + 1)) h.p
    simpa using this
  · intro k ci2 hk
    simp only [hc'] at hk
    by_cases e : k = K
    · simp only [e, if_true, Option.some.injEq] at hk
      subst hk; rw [e]; exact helem
    · simp only [e, if_false] at hk
      exact h.elem k ci2 hk
  · intro k ci2 hk
    simp only [hc'] at hk
    have hg := OmplModel.EST.getWeight_update st.pdf h.p.shape h.p.idx ci.elem (cfg.wCell (ci.motions.size + 1))
      (by rw [helem, hwK]; rfl) k
    show (st.pdf.update ci.elem _).getWeight k = _
    rw [hg, helem]
    by_cases e : k = K
    · simp only [e, if_true, Option.some.injEq] at hk
      subst hk
      have : ¬ (ci.motions.push st.tree.size).size = 1 := by rw [Array.size_push]; omega
      rw [if_pos e, if_neg this]
      simp
    · simp only [e, if_false] at hk
      rw [if_neg e]
      exact h.weight k ci2 hk

/-- creating a new cell -/
theorem ginv_new (cfg : Cfg S D) (hw : WOps.lt cfg.wOne (WOps.zero : D) = false) (st : St S D) (nd : Node S)
    (h : GInv cfg st) (hnone : getCell st.grid (cfg.coord nd.state) = none) :
    GInv cfg { st with tree := st.tree.push nd
                       grid := addCell st.grid { id := st.cells.size, coord := cfg.coord nd.state, data := 0 }
                       cells := st.cells.push ⟨cfg.coord nd.state, #[st.tree.size], st.pdf.next⟩
                       pdf := st.pdf.add cfg.wOne } := by
  have hhas : has st.grid (cfg.coord nd.state) = false := OmplModel.Grid.getCell_eq_none_iff.mp hnone
  have hfresh : ∀ gc ∈ st.grid, gc.coord ≠ cfg.coord nd.state := by
    intro gc hgc e
    have := OmplModel.Grid.has_iff.mpr ⟨gc, hgc, e⟩
    rw [hhas] at this; cases this
  have hgrid : addCell st.grid { id := st.cells.size, coord := cfg.coord nd.state, data := 0 } =
      st.grid ++ [{ id := st.cells.size, coord := cfg.coord nd.state, data := 0 }] := by
    unfold addCell; simp [hhas]
  have hc' : ∀ k2 : Nat, (st.cells.push ⟨cfg.coord nd.state, #[st.tree.size], st.pdf.next⟩)[k2]? =
      if k2 = st.cells.size then some ⟨cfg.coord nd.state, #[st.tree.size], st.pdf.next⟩ else st.cells[k2]? := by
    intro k2; rw [Array.getElem?_push]
  have hns := OmplModel.EST.add_next_size st.pdf cfg.wOne hw
  have oldk : ∀ (k : Nat) (c0 : CellInfo), st.cells[k]? = some c0 → k ≠ st.cells.size := by
    intro k c0 hk e
    have := lt_of_getElem?_some _ _ _ hk
    omega
  constructor
  · show (addCell st.grid _).length = (st.cells.push _).size
    rw [hgrid]; simp [h.glen]
  · intro k gc hg
    have hg' : (st.grid ++ [({ id := st.cells.size, coord := cfg.coord nd.state, data := 0 } : OmplModel.Grid.Cell)])[k]? = some gc := by
      rw [← hgrid]; exact hg
    simp only [hc']
    by_cases e : k < st.grid.length
    · rw [List.getElem?_append_left e] at hg'
      obtain ⟨h1, ci0, h2, h3⟩ := h.gcell k gc hg'
      have : ¬ k = st.cells.size := by rw [← h.glen]; omega
      exact ⟨h1, ci0, by simp [this, h2], h3⟩
    · have hk : k = st.grid.length := by
        have := (List.getElem?_eq_some_iff.mp hg').1
        simp at this; omega
      subst hk
      simp at hg'
      subst hg'
      exact ⟨h.glen.symm, ⟨cfg.coord nd.state, #[st.tree.size], st.pdf.next⟩, by simp [h.glen], rfl⟩
  · show ((addCell st.grid _).map (·.coord)).Nodup
    rw [hgrid, List.map_append, List.nodup_append]
    refine ⟨h.gnodup, by simp, ?_⟩
    intro a ha b hb
    simp only [List.map_cons, List.map_nil, List.mem_singleton] at hb
    subst hb
    obtain ⟨gc, hgc, rfl⟩ := List.mem_map.mp ha
    exact hfresh gc hgc
  · intro k ci2 hk
    simp only [hc'] at hk
    by_cases e : k = st.cells.size
    · simp only [e, if_true, Option.some.injEq] at hk; subst hk; simp
    · simp only [e, if_false] at hk; exact h.nonempty k ci2 hk
  · intro k ci2 p m hk hp
    simp only [hc'] at hk
    by_cases e : k = st.cells.size
    · simp only [e, if_true, Option.some.injEq] at hk; subst hk
      have hp0 : p = 0 := by
        have := lt_of_getElem?_some _ _ _ hp
        simp at this; omega
      subst hp0
      simp at hp; subst hp
      exact ⟨nd, by simp, rfl⟩
    · simp only [e, if_false] at hk
      obtain ⟨nd2, hn1, hn2⟩ := h.mem k ci2 p m hk hp
      exact ⟨nd2, OmplModel.EST.getElem?_push_old _ _ _ _ hn1, hn2⟩
  · intro i hi
    simp only [Array.size_push] at hi
    by_cases e : i = st.tree.size
    · exact ⟨st.cells.size, ⟨cfg.coord nd.state, #[st.tree.size], st.pdf.next⟩, 0, by simp [hc'], by simp [e]⟩
    · obtain ⟨k, ci2, p, hk, hp⟩ := h.cover i (by omega)
      exact ⟨k, ci2, p, by simp [hc', oldk k ci2 hk, hk], hp⟩
  · intro k k' c1 c2 p p' m hk hk' hp hp'
    simp only [hc'] at hk hk'
    have single : ∀ (p0 : Nat), (#[st.tree.size] : Array Nat)[p0]? = some m → p0 = 0 ∧ m = st.tree.size := by
      intro p0 hp0
      have := lt_of_getElem?_some _ _ _ hp0
      have hp00 : p0 = 0 := by simp at this; omega
      subst hp00
      simp at hp0
      exact ⟨rfl, hp0.symm⟩
    by_cases e : k = st.cells.size <;> by_cases e' : k' = st.cells.size
    · simp only [e, if_true, Option.some.injEq] at hk
      simp only [e', if_true, Option.some.injEq] at hk'
      subst hk hk'
      exact ⟨by rw [e, e'], by rw [(single p hp).1, (single p' hp').1]⟩
    · simp only [e, if_true, Option.some.injEq] at hk
      simp only [e', if_false] at hk'
      subst hk
      have := h.mem_lt hk' hp'
      have := (single p hp).2
      omega
    · simp only [e, if_false] at hk
      simp only [e', if_true, Option.some.injEq] at hk'
      subst hk'
      have := h.mem_lt hk hp
      have := (single p' hp').2
      omega
    · simp only [e, if_false] at hk
      simp only [e', if_false] at hk'
      exact h.uniq k k' c1 c2 p p' m hk hk' hp hp'
  · exact ⟨shapeInv_add _ _ h.p.shape, idxSync_add _ _ h.p.idx, by
      show (st.pdf.add cfg.wOne).next = (st.cells.push _).size
      rw [hns.1, h.p.next, Array.size_push], by
      show (st.pdf.add cfg.wOne).data.size = (st.cells.push _).size
      rw [hns.2, h.p.size, Array.size_push]⟩
  · intro k ci2 hk
    simp only [hc'] at hk
    by_cases e : k = st.cells.size
    · simp only [e, if_true, Option.some.injEq] at hk; subst hk
      rw [e]; exact h.p.next
    · simp only [e, if_false] at hk; exact h.elem k ci2 hk
  · intro k ci2 hk
    simp only [hc'] at hk
    show (st.pdf.add cfg.wOne).getWeight k = _
    rw [OmplModel.EST.getWeight_add st.pdf h.p.shape h.p.idx cfg.wOne hw k, h.p.next]
    by_cases e : k = st.cells.size
    · simp only [e, if_true, Option.some.injEq] at hk; subst hk
      simp [e]
    · simp only [e, if_false] at hk
      rw [if_neg e]; exact h.weight k ci2 hk

theorem addMotion_ginv (cfg : Cfg S D) (hw : WOps.lt cfg.wOne (WOps.zero : D) = false) (st : St S D) (nd : Node S)
    (h : GInv cfg st) : GInv cfg (addMotion cfg st nd) := by
  unfold addMotion
  split
  · next gc hget =>
    obtain ⟨hmem, hcoord⟩ := OmplModel.Grid.getCell_some_mem hget
    obtain ⟨k, hk⟩ := List.getElem?_of_mem hmem
    obtain ⟨hid, ci0, hci0, hc0⟩ := h.gcell k gc hk
    split
    · next ci hci =>
      rw [hid, hci0] at hci
      cases hci
      rw [hid]
      exact ginv_join cfg st nd k ci0 h hci0 (by rw [hc0, hcoord])
    · next hci =>
      rw [hid, hci0] at hci; cases hci
  · next hnone => exact ginv_new cfg hw st nd h hnone


theorem tryAdd_ginv (cfg : Cfg S D) (hw : WOps.lt cfg.wOne (WOps.zero : D) = false) (st : St S D) (ex : Nat)
    (exs x : S) (h : GInv cfg st) : GInv cfg (tryAdd cfg st ex exs x).1 := by
  unfold tryAdd
  have ha := addMotion_ginv cfg hw st ⟨x, some ex⟩ h
  have wrap : ∀ (a b : Option Nat) (d : D), GInv cfg { addMotion cfg st ⟨x, some ex⟩ with solution := a, approxsol := b, approxdif := d } :=
    fun a b d => ⟨ha.glen, ha.gcell, ha.gnodup, ha.nonempty, ha.mem, ha.cover, ha.uniq, ha.p, ha.elem, ha.weight⟩
  split
  · simp only
    split
    · exact wrap _ _ _
    · split
      · exact wrap _ _ _
      · exact ha
  · exact h

theorem addStarts_ginv (cfg : Cfg S D) (hw : WOps.lt cfg.wOne (WOps.zero : D) = false) :
    ∀ (l : List S) (st : St S D), GInv cfg st → GInv cfg (addStarts cfg st l)
  | [], _, h => h
  | s :: rest, st, h => by
    unfold addStarts
    exact addStarts_ginv cfg hw rest _ (addMotion_ginv cfg hw st ⟨s, none⟩ h)

theorem initSt_ginv (cfg : Cfg S D) (hw : WOps.lt cfg.wOne (WOps.zero : D) = false) (starts : Array S)
    (sc : Script S D) : GInv cfg (initSt cfg starts sc).1 := by
  unfold initSt
  apply addStarts_ginv cfg hw
  exact ⟨rfl, fun k gc hg => by simp at hg, by simp, fun k ci hk => by simp at hk,
    fun k ci p m hk => by simp at hk, fun i hi => by simp at hi, fun k k' c1 c2 p p' m hk => by simp at hk,
    ⟨shapeInv_empty, idxSync_empty, rfl, rfl⟩, fun k ci hk => by simp at hk, fun k ci hk => by simp at hk⟩

end

section
variable [WScale D]

theorem step_ginv (cfg : Cfg S D) (hw : WOps.lt cfg.wOne (WOps.zero : D) = false) (st : St S D)
    (h : GInv cfg st) : GInv cfg (step cfg st).1 := by
  have keep : ∀ sc', GInv cfg { st with sc := sc' } := fun sc' =>
    ⟨h.glen, h.gcell, h.gnodup, h.nonempty, h.mem, h.cover, h.uniq, h.p, h.elem, h.weight⟩
  unfold step
  split
  · split
    · exact h
    · split
      · exact h
      · split
        · split
          · exact h
          · exact tryAdd_ginv cfg hw _ _ _ _ (keep _)
        · split
          · exact h
          · split
            · exact keep _
            · exact tryAdd_ginv cfg hw _ _ _ _ (keep _)
  · exact h

theorem loop_ginv (cfg : Cfg S D) (hw : WOps.lt cfg.wOne (WOps.zero : D) = false) :
    ∀ (n : Nat) (st : St S D), GInv cfg st → GInv cfg (loop cfg n st)
  | 0, _, h => h
  | n + 1, st, h => by
    unfold loop
    have := step_ginv cfg hw st h
    generalize step cfg st = r at this ⊢
    obtain ⟨st', fl⟩ := r
    cases fl with
    | cont => exact loop_ginv cfg hw n st' this
    | done => exact this
    | halt => exact this

theorem solve_final (cfg : Cfg S D) (starts : Array S) (sc : Script S D) (budget : Nat) :
    (solve cfg starts sc budget).final =
      if (initSt cfg starts sc).1.grid.length = 0 then (initSt cfg starts sc).1
      else loop cfg budget (initSt cfg starts sc).1 := by
  unfold solve
  simp only
  split
  · rfl
  · split <;> rfl

theorem final_ginv (cfg : Cfg S D) (hw : WOps.lt cfg.wOne (WOps.zero : D) = false) (starts : Array S)
    (sc : Script S D) (budget : Nat) : GInv cfg (solve cfg starts sc budget).final := by
  rw [solve_final]
  have hi := initSt_ginv cfg hw starts sc
  split
  · exact hi
  · exact loop_ginv cfg hw budget _ hi

theorem final_stInv (cfg : Cfg S D) (starts : Array S) (sc : Script S D) (budget : Nat) :
    StInv cfg starts (solve cfg starts sc budget).final := by
  rw [solve_final]
  have hi := initSt_inv cfg starts sc
  split
  · exact hi.1
  · exact loop_inv cfg starts budget _ hi.1 hi.2

end

end OmplModel.ProjEST
