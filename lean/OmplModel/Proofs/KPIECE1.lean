import OmplModel.Model.KPIECE1
import OmplModel.Proofs.PlannerReport
import OmplModel.Proofs.DiscProps
/-!
Invariant proofs for the KPIECE1 model.  Arithmetic-free: every statement holds for every `Cfg` (every validity
predicate, projection, motion validator with `lastValid`, goal, parameter setting) and every `Num α`, hence for the
`Float` instantiation the driver runs.  Core Lean only.
-/
namespace OmplModel.KPIECE1
open OmplModel OmplModel.Grid OmplModel.Disc OmplModel.PlannerReport

variable {S α : Type} [Num α] [HasLog α]

/-- consecutive elements are related -/
def Chain (R : S → S → Prop) : List S → Prop
  | [] => True
  | [_] => True
  | a :: b :: r => R a b ∧ Chain R (b :: r)

theorem chain_snoc (R : S → S → Prop) (l : List S) (x : S) (h : Chain R l)
    (hl : ∀ z, l.getLast? = some z → R z x) : Chain R (l ++ [x]) := by
  induction l with
  | nil => simp [Chain]
  | cons a r ih =>
    cases r with
    | nil => simpa [Chain] using hl a (by simp)
    | cons b r' =>
      obtain ⟨h1, h2⟩ := h
      refine ⟨h1, ?_⟩
      apply ih h2
      intro z hz
      apply hl z
      simpa [List.getLast?_cons_cons] using hz

/-- `s` is one of the problem definition's start states and passed the input filter -/
def ValidStart (cfg : Cfg S α) (starts : Array S) (s : S) : Prop :=
  ∃ k, ∃ h : k < starts.size, starts[k] = s ∧ cfg.bounds s = true ∧ cfg.valid s = true

/-- how a (parent, child) edge is justified.  The planner asked the validator about the motion from `parent` to
some state `x` (the sample), and `child` is the state the validator left in `xstate`; either the validator answered
`true` (it vouches for the whole motion to `x`; `DiscreteMotionValidator` then leaves `xstate = x`), or it answered
`false` with `lastValid.second > minValidPathFraction_` and `child` is its `lastValid.first`: the validator vouches
for the prefix of the motion up to `child`, not for the rest. -/
def Link (cfg : Cfg S α) (parent child : S) : Prop :=
  ∃ x, child = (cfg.checkMotion parent x).2.1 ∧
    ((cfg.checkMotion parent x).1 = true ∨ cfg.minValidFrac < (cfg.checkMotion parent x).2.2)

def TreeInv (cfg : Cfg S α) (starts : Array S) (tree : Array (Node S)) : Prop :=
  ∀ (i : Nat) (nd : Node S), tree[i]? = some nd →
    match nd.parent with
    | none => ValidStart cfg starts nd.state
    | some p => p < i ∧ ∃ np, tree[p]? = some np ∧ Link cfg np.state nd.state

/-- the motions the discretization must hold: motion `i` under the projection coordinate of its state -/
def liveFrom (cfg : Cfg S α) : Nat → List (Node S) → Live
  | _, [] => []
  | k, nd :: r => (k, cfg.coord nd.state) :: liveFrom cfg (k + 1) r

theorem liveFrom_append (cfg : Cfg S α) (k : Nat) (l : List (Node S)) (nd : Node S) :
    liveFrom cfg k (l ++ [nd]) = liveFrom cfg k l ++ [(k + l.length, cfg.coord nd.state)] := by
  induction l generalizing k with
  | nil => simp [liveFrom]
  | cons a r ih => simp [liveFrom, ih]; omega

theorem mem_liveFrom (cfg : Cfg S α) (k : Nat) (l : List (Node S)) (m : Nat) (x : Coord) :
    (m, x) ∈ liveFrom cfg k l ↔ ∃ i nd, l[i]? = some nd ∧ m = k + i ∧ x = cfg.coord nd.state := by
  induction l generalizing k with
  | nil => simp [liveFrom]
  | cons a r ih =>
    simp only [liveFrom, List.mem_cons, Prod.mk.injEq, ih]
    constructor
    · rintro (⟨rfl, rfl⟩ | ⟨i, nd, h1, h2, h3⟩)
      · exact ⟨0, a, rfl, rfl, rfl⟩
      · exact ⟨i + 1, nd, by simpa using h1, by omega, h3⟩
    · rintro ⟨i, nd, h1, h2, h3⟩
      cases i with
      | zero => simp at h1; subst h1; exact Or.inl ⟨by omega, h3⟩
      | succ j => exact Or.inr ⟨j, nd, by simpa using h1, by omega, h3⟩

theorem ids_liveFrom (cfg : Cfg S α) (k : Nat) (l : List (Node S)) (m : Nat)
    (h : m ∈ (liveFrom cfg k l).map (·.1)) : k ≤ m ∧ m < k + l.length := by
  obtain ⟨p, hp, rfl⟩ := List.mem_map.1 h
  obtain ⟨i, nd, h1, h2, _⟩ := (mem_liveFrom cfg k l p.1 p.2).1 hp
  have : i < l.length := by
    rcases Nat.lt_or_ge i l.length with h | h
    · exact h
    · rw [List.getElem?_eq_none_iff.2 h] at h1; cases h1
  omega

structure KInv (cfg : Cfg S α) (starts : Array S) (st : St S α) : Prop where
  tree : TreeInv cfg starts st.tree
  /-- KPIECE1 obeys the `Discretization` protocol: the discretization invariant holds for "motion `i` stored under
  the coordinate of its state" -/
  disc : DInv cfg.P st.disc (liveFrom cfg 0 st.tree.toList)
  sol : ∀ j, st.solution = some j → ∃ nd, st.tree[j]? = some nd ∧ cfg.goalDist nd.state < cfg.threshold ∧
    st.approxdif = cfg.goalDist nd.state
  approx : ∀ i, st.approxsol = some i → ∃ nd, st.tree[i]? = some nd ∧ ¬ (cfg.goalDist nd.state < cfg.threshold) ∧
    (st.solution = none → st.approxdif = cfg.goalDist nd.state)

theorem updateCell_inv {cfg : Cfg S α} {d : Disc α} {live : Live} (h : DInv cfg.P d live) (x : Coord)
    (scale : Option α) : DInv cfg.P (updateCell cfg d x scale) live := by
  unfold updateCell
  split
  · exact updScore_inv h _ _
  · exact h

theorem treeInv_push {cfg : Cfg S α} {starts : Array S} {tree : Array (Node S)} (h : TreeInv cfg starts tree)
    {m : Nat} {ex : Node S} (hm : tree[m]? = some ex) {xs : S} (hl : Link cfg ex.state xs) :
    TreeInv cfg starts (tree.push ⟨xs, some m⟩) := by
  have hlt : m < tree.size := by
    rcases Nat.lt_or_ge m tree.size with h' | h'
    · exact h'
    · rw [Array.getElem?_eq_none h'] at hm; cases hm
  intro i nd hi
  rw [Array.getElem?_push] at hi
  split at hi
  · rename_i hsz
    simp only [Option.some.injEq] at hi
    subst hi
    refine ⟨by omega, ex, ?_, hl⟩
    rw [Array.getElem?_push, if_neg (by omega)]; exact hm
  · have := h i nd hi
    have hil : i < tree.size := by
      rcases Nat.lt_or_ge i tree.size with h' | h'
      · exact h'
      · rw [Array.getElem?_eq_none h'] at hi; cases hi
    cases hp : nd.parent with
    | none => simp only [hp] at this ⊢; exact this
    | some p =>
      simp only [hp] at this ⊢
      obtain ⟨h1, np, h2, h3⟩ := this
      refine ⟨h1, np, ?_, h3⟩
      rw [Array.getElem?_push, if_neg (by omega)]; exact h2

theorem getElem?_push_lt {tree : Array (Node S)} {j : Nat} {nd x : Node S} (h : tree[j]? = some nd) :
    (tree.push x)[j]? = some nd := by
  have hlt : j < tree.size := by
    rcases Nat.lt_or_ge j tree.size with h' | h'
    · exact h'
    · rw [Array.getElem?_eq_none h'] at h; cases h
  rw [Array.getElem?_push, if_neg (by omega)]; exact h

/-- one loop iteration keeps the invariant -/
theorem step_inv (cfg : Cfg S α) (hcoord : ∀ s, (cfg.coord s).length = cfg.P.dim) (starts : Array S)
    (st : St S α) (dr : Draw S α) (h : KInv cfg starts st) : KInv cfg starts (step cfg st dr) := by
  have hd1 : DInv cfg.P (countIteration st.disc) (liveFrom cfg 0 st.tree.toList) :=
    ⟨h.disc.ginv, h.disc.sync, h.disc.mot, h.disc.cov, h.disc.size, h.disc.lnd⟩
  obtain ⟨hd2, hsel⟩ := select_inv hd1 dr.u dr.pick
  unfold step
  simp only []
  split
  · exact ⟨h.tree, hd2, h.sol, h.approx⟩
  · rename_i m ecell hs
    have hmem := hsel m ecell hs
    split
    · exact ⟨h.tree, hd2, h.sol, h.approx⟩
    · rename_i existing hex
      split
      · rename_i hkeep
        -- the new motion
        have hlink : Link cfg existing.state
            (cfg.checkMotion existing.state (xstateOf cfg dr)).2.1 := by
          refine ⟨_, rfl, ?_⟩
          simp only [Bool.or_eq_true, decide_eq_true_eq] at hkeep
          exact hkeep
        have htree := treeInv_push h.tree hex hlink
        have hfresh : st.tree.size ∉ (liveFrom cfg 0 st.tree.toList).map (·.1) := by
          intro hm
          have := ids_liveFrom cfg 0 _ _ hm
          simp at this
        have hd3 := Disc.add_inv (dist := cfg.goalDist
            (cfg.checkMotion existing.state (xstateOf cfg dr)).2.1)
          hd2 (hcoord (cfg.checkMotion existing.state (xstateOf cfg dr)).2.1) hfresh
        have hlive : liveFrom cfg 0 (st.tree.push ⟨(cfg.checkMotion existing.state
              (xstateOf cfg dr)).2.1, some m⟩).toList
            = liveFrom cfg 0 st.tree.toList ++ [(st.tree.size, cfg.coord (cfg.checkMotion existing.state
              (xstateOf cfg dr)).2.1)] := by
          rw [Array.toList_push, liveFrom_append]; simp
        rw [← hlive] at hd3
        have hnew : (st.tree.push ⟨(cfg.checkMotion existing.state
              (xstateOf cfg dr)).2.1, some m⟩)[st.tree.size]?
            = some ⟨(cfg.checkMotion existing.state (xstateOf cfg dr)).2.1,
                some m⟩ := by
          rw [Array.getElem?_push, if_pos rfl]
        split
        · rename_i hsolv
          refine ⟨htree, hd3, ?_, ?_⟩
          · intro j hj
            simp only [Option.some.injEq] at hj
            subst hj
            exact ⟨_, hnew, hsolv, rfl⟩
          · intro i hi
            obtain ⟨nd, h1, h2, _⟩ := h.approx i hi
            exact ⟨nd, getElem?_push_lt h1, h2, by intro hh; cases hh⟩
        · rename_i hsolv
          split
          · refine ⟨htree, updateCell_inv hd3 ecell none, (by intro j hj; cases hj), ?_⟩
            intro i hi
            simp only [Option.some.injEq] at hi
            subst hi
            exact ⟨_, hnew, hsolv, fun _ => rfl⟩
          · refine ⟨htree, updateCell_inv hd3 ecell none, ?_, ?_⟩
            · intro j hj
              obtain ⟨nd, h1, h2, h3⟩ := h.sol j hj
              exact ⟨nd, getElem?_push_lt h1, h2, h3⟩
            · intro i hi
              obtain ⟨nd, h1, h2, h3⟩ := h.approx i hi
              exact ⟨nd, getElem?_push_lt h1, h2, h3⟩
      · exact ⟨h.tree, updateCell_inv hd2 ecell (some cfg.failedFactor), h.sol, h.approx⟩

theorem loop_inv (cfg : Cfg S α) (hcoord : ∀ s, (cfg.coord s).length = cfg.P.dim) (starts : Array S) :
    ∀ (script : List (Draw S α)) (st : St S α), KInv cfg starts st → KInv cfg starts (loop cfg st script).1
  | [], _, h => h
  | dr :: rest, st, h => by
    unfold loop
    simp only []
    split
    · exact step_inv cfg hcoord starts st dr h
    · exact loop_inv cfg hcoord starts rest _ (step_inv cfg hcoord starts st dr h)

/-- the tree never shrinks -/
theorem step_size (cfg : Cfg S α) (st : St S α) (dr : Draw S α) : st.tree.size ≤ (step cfg st dr).tree.size := by
  unfold step
  simp only []
  split
  · exact Nat.le_refl _
  · split
    · exact Nat.le_refl _
    · split
      · split
        · simp
        · split <;> simp
      · exact Nat.le_refl _

theorem loop_size (cfg : Cfg S α) : ∀ (script : List (Draw S α)) (st : St S α),
    st.tree.size ≤ (loop cfg st script).1.tree.size
  | [], _ => Nat.le_refl _
  | dr :: rest, st => by
    unfold loop
    simp only []
    split
    · exact step_size cfg st dr
    · exact Nat.le_trans (step_size cfg st dr) (loop_size cfg rest _)

/-! ### the start states -/

theorem addStarts_inv (cfg : Cfg S α) (hcoord : ∀ s, (cfg.coord s).length = cfg.P.dim) (starts : Array S) :
    ∀ (l : List S) (acc : Array (Node S) × Disc α), (∀ s ∈ l, ValidStart cfg starts s) →
      TreeInv cfg starts acc.1 → DInv cfg.P acc.2 (liveFrom cfg 0 acc.1.toList) →
      (∀ (i : Nat) (nd : Node S), acc.1[i]? = some nd → nd.parent = none) →
      TreeInv cfg starts (addStarts cfg l acc).1 ∧
        DInv cfg.P (addStarts cfg l acc).2 (liveFrom cfg 0 (addStarts cfg l acc).1.toList) ∧
        (addStarts cfg l acc).1.size = acc.1.size + l.length
  | [], _, _, ht, hd, _ => ⟨ht, hd, rfl⟩
  | s :: rest, (tree, d), hv, ht, hd, hroot => by
    unfold addStarts
    have hfresh : tree.size ∉ (liveFrom cfg 0 tree.toList).map (·.1) := by
      intro hm
      have := ids_liveFrom cfg 0 _ _ hm
      simp at this
    have hd' := Disc.add_inv (dist := (Num.ofNat 1 : α)) hd (hcoord s) hfresh
    have hlive : liveFrom cfg 0 (tree.push ⟨s, none⟩).toList
        = liveFrom cfg 0 tree.toList ++ [(tree.size, cfg.coord s)] := by
      rw [Array.toList_push, liveFrom_append]; simp
    rw [← hlive] at hd'
    have ht' : TreeInv cfg starts (tree.push ⟨s, none⟩) := by
      intro i nd hi
      rw [Array.getElem?_push] at hi
      split at hi
      · simp only [Option.some.injEq] at hi
        subst hi
        exact hv s (by simp)
      · have hp := hroot i nd hi
        have := ht i nd hi
        simp only [hp] at this ⊢
        exact this
    have hroot' : ∀ (i : Nat) (nd : Node S), (tree.push ⟨s, none⟩)[i]? = some nd → nd.parent = none := by
      intro i nd hi
      rw [Array.getElem?_push] at hi
      split at hi
      · simp only [Option.some.injEq] at hi
        subst hi; rfl
      · exact hroot i nd hi
    obtain ⟨h1, h2, h3⟩ := addStarts_inv cfg hcoord starts rest (tree.push ⟨s, none⟩, _)
      (fun s' hs' => hv s' (by simp [hs'])) ht' hd' hroot'
    refine ⟨h1, h2, ?_⟩
    rw [h3]; simp; omega

theorem initState_inv (cfg : Cfg S α) (hcoord : ∀ s, (cfg.coord s).length = cfg.P.dim) (starts : Array S) :
    TreeInv cfg starts (initState cfg starts).1.1 ∧
      DInv cfg.P (initState cfg starts).1.2 (liveFrom cfg 0 (initState cfg starts).1.1.toList) := by
  have hspec := (drainStarts_spec cfg.bounds cfg.valid starts (starts.size + 1) {}).1
  have hv : ∀ s ∈ (drainStarts cfg.bounds cfg.valid starts (starts.size + 1) {}).1.map (·.2), ValidStart cfg starts s := by
    intro s hs
    obtain ⟨x, hx, rfl⟩ := List.mem_map.1 hs
    obtain ⟨hi, h1, h2, h3, _⟩ := hspec x hx
    exact ⟨x.1, hi, h1, h2, h3⟩
  have := addStarts_inv cfg hcoord starts _ (#[], { bf := cfg.borderFraction }) hv
    (by intro i nd hi; simp at hi) (Disc.empty_inv cfg.P cfg.borderFraction) (by intro i nd hi; simp at hi)
  exact ⟨this.1, this.2.1⟩

/-! ### the path -/

omit [HasLog α] in
theorem pathTo_spec (cfg : Cfg S α) (starts : Array S) (tree : Array (Node S)) (hinv : TreeInv cfg starts tree) :
    ∀ (fuel i : Nat) (nd : Node S) (acc : List S), tree[i]? = some nd → i < fuel →
      ∃ l : List S, pathTo tree fuel i acc = l ++ acc ∧ (∃ s0, l.head? = some s0 ∧ ValidStart cfg starts s0) ∧
        Chain (Link cfg) l ∧ l.getLast? = some nd.state := by
  intro fuel
  induction fuel with
  | zero => intro i nd acc _ hf; omega
  | succ f ih =>
    intro i nd acc hnd hf
    simp only [pathTo, hnd]
    have hi := hinv i nd hnd
    split
    · next hpar =>
      simp only [hpar] at hi
      exact ⟨[nd.state], rfl, ⟨nd.state, rfl, hi⟩, trivial, rfl⟩
    · next p hpar =>
      simp only [hpar] at hi
      obtain ⟨hp, np, hnp, hlink⟩ := hi
      obtain ⟨l, h1, h2, h3, h4⟩ := ih p np (nd.state :: acc) hnp (by omega)
      refine ⟨l ++ [nd.state], by simp [h1], ?_, ?_, by simp⟩
      · obtain ⟨s0, hs0, hv⟩ := h2
        refine ⟨s0, ?_, hv⟩
        cases l with
        | nil => simp at hs0
        | cons a r => simpa using hs0
      · apply chain_snoc _ _ _ h3
        intro z hz
        rw [h4] at hz
        simp only [Option.some.injEq] at hz
        subst hz
        exact hlink

end OmplModel.KPIECE1
