import OmplModel.Model.LBKPIECE1
import OmplModel.Proofs.PlannerReport
import OmplModel.Proofs.DiscProps
/-!
Invariant proofs for the LBKPIECE1 model.  Arithmetic-free: every statement holds for every `Cfg` (every oracle) and
every `Num α`, hence for the `Float` instantiation the driver runs.  Core Lean only.
-/
namespace OmplModel.LBKPIECE1
open OmplModel OmplModel.Grid OmplModel.Disc OmplModel.PlannerReport

variable {S α : Type} [Num α] [HasLog α]

def ValidStart (cfg : Cfg S α) (starts : Array S) (s : S) : Prop :=
  ∃ k, ∃ h : k < starts.size, starts[k] = s ∧ cfg.bounds s = true ∧ cfg.valid s = true

/-- `s` is one of the goal samples and passed the input filter -/
def ValidGoal (cfg : Cfg S α) (s : S) : Prop :=
  ∃ k, k < cfg.maxGoalSamples ∧ cfg.goalSample k = s ∧ cfg.bounds s = true ∧ cfg.valid s = true

/-- how an edge (parent state `a`, child state `b`) is justified: `checkMotion(a, b)` answered true (inside
`isPathValid`), or `b` is the `lastValid.first` of a motion from `a` that `checkMotion` answered false with
`lastValid.second > minValidPathFraction_` (the re-added valid part: the validator vouches for the motion up to `b`). -/
def Link (cfg : Cfg S α) (a b : S) : Prop :=
  (cfg.checkMotion a b).1 = true ∨
    ∃ x, (cfg.checkMotion a x).1 = false ∧ b = (cfg.checkMotion a x).2.1 ∧ cfg.minValidFrac < (cfg.checkMotion a x).2.2

def RootOK (cfg : Cfg S α) (starts : Array S) (m : Motion S) : Prop :=
  m.valid = true ∧ (if m.inStart then ValidStart cfg starts m.state else ValidGoal cfg m.state)

/-- the arena invariant: a motion without parent is a root (valid flag set, its state a valid start / goal sample of
its tree); any other motion's parent precedes it, and if its `valid` flag is set the edge from the parent is justified.
It speaks about ALL motions ever created (freed ones keep their last field values as ghost state). -/
def ArInv (cfg : Cfg S α) (starts : Array S) (ar : Array (Motion S)) : Prop :=
  ∀ (i : Nat) (m : Motion S), ar[i]? = some m →
    match m.parent with
    | none => RootOK cfg starts m
    | some p => p < i ∧ ∃ pm, ar[p]? = some pm ∧ (m.valid = true → Link cfg pm.state m.state)

/-- `ar'` has the same motions as `ar` up to `valid`/`alive`/`children` updates -/
def Frame (ar ar' : Array (Motion S)) : Prop :=
  ar'.size = ar.size ∧ ∀ (i : Nat) (m : Motion S), ar[i]? = some m →
    ∃ m', ar'[i]? = some m' ∧ m'.state = m.state ∧ m'.parent = m.parent ∧ m'.inStart = m.inStart ∧ m'.root = m.root ∧
      (m.valid = true → m'.valid = true)

theorem Frame.refl (ar : Array (Motion S)) : Frame ar ar := ⟨rfl, fun _ m h => ⟨m, h, rfl, rfl, rfl, rfl, id⟩⟩

theorem Frame.trans {a b c : Array (Motion S)} (h1 : Frame a b) (h2 : Frame b c) : Frame a c := by
  refine ⟨h2.1.trans h1.1, ?_⟩
  intro i m hm
  obtain ⟨m', e1, e2, e3, e4, e5, e6⟩ := h1.2 i m hm
  obtain ⟨m'', f1, f2, f3, f4, f5, f6⟩ := h2.2 i m' e1
  exact ⟨m'', f1, f2.trans e2, f3.trans e3, f4.trans e4, f5.trans e5, fun h => f6 (e6 h)⟩

theorem getElem?_modifyAt (ar : Array (Motion S)) (i j : Nat) (f : Motion S → Motion S) :
    (modifyAt ar i f)[j]? = if i = j then (ar[j]?).map f else ar[j]? := by
  unfold modifyAt
  cases h : ar[i]? with
  | none =>
    by_cases hij : i = j
    · subst hij; simp [h]
    · simp [hij]
  | some m =>
    simp only [Array.getElem?_setIfInBounds]
    by_cases hij : i = j
    · subst hij
      have hlt : i < ar.size := by
        rcases Nat.lt_or_ge i ar.size with h' | h'
        · exact h'
        · rw [Array.getElem?_eq_none h'] at h; cases h
      simp only [if_true, hlt, h, Option.map_some]
    · simp [hij]

theorem size_modifyAt (ar : Array (Motion S)) (i : Nat) (f : Motion S → Motion S) : (modifyAt ar i f).size = ar.size := by
  unfold modifyAt; split <;> simp

theorem frame_modifyAt (ar : Array (Motion S)) (i : Nat) (f : Motion S → Motion S)
    (hf : ∀ m, (f m).state = m.state ∧ (f m).parent = m.parent ∧ (f m).inStart = m.inStart ∧ (f m).root = m.root ∧
      (m.valid = true → (f m).valid = true)) : Frame ar (modifyAt ar i f) := by
  refine ⟨size_modifyAt _ _ _, ?_⟩
  intro j m hm
  rw [getElem?_modifyAt]
  by_cases hij : i = j
  · simp only [hij, if_true, hm, Option.map_some]
    obtain ⟨a, b, c, d, e⟩ := hf m
    exact ⟨f m, rfl, a, b, c, d, e⟩
  · simp only [hij, if_false]
    exact ⟨m, hm, rfl, rfl, rfl, rfl, id⟩

/-- the invariant survives updates that keep states/parents, never clear a `valid` flag, and set one only for a
justified edge -/
theorem ArInv.frame {cfg : Cfg S α} {starts : Array S} {ar ar' : Array (Motion S)} (h : ArInv cfg starts ar)
    (hfr : Frame ar ar')
    (hnew : ∀ (i : Nat) (m m' : Motion S), ar[i]? = some m → ar'[i]? = some m' → m'.valid = true → m.valid = true ∨
      ∃ p pm, m.parent = some p ∧ ar[p]? = some pm ∧ Link cfg pm.state m.state) : ArInv cfg starts ar' := by
  intro i m' hm'
  have hlt : i < ar.size := by
    rcases Nat.lt_or_ge i ar'.size with h' | h'
    · rw [hfr.1] at h'; exact h'
    · rw [Array.getElem?_eq_none h'] at hm'; cases hm'
  obtain ⟨m, hm⟩ : ∃ m, ar[i]? = some m := ⟨ar[i], by simp [hlt]⟩
  obtain ⟨m'', e0, e1, e2, e3, e4, e5⟩ := hfr.2 i m hm
  rw [hm'] at e0
  simp only [Option.some.injEq] at e0
  subst e0
  have hi := h i m hm
  rw [e2]
  cases hp : m.parent with
  | none =>
    simp only [hp] at hi ⊢
    refine ⟨e5 hi.1, ?_⟩
    rw [e3, e1]; exact hi.2
  | some p =>
    simp only [hp] at hi ⊢
    obtain ⟨h1, pm, h2, h3⟩ := hi
    obtain ⟨pm', f0, f1, _, _, _, _⟩ := hfr.2 p pm h2
    refine ⟨h1, pm', f0, ?_⟩
    intro hv
    rw [f1, e1]
    rcases hnew i m m' hm hm' hv with hv0 | ⟨p', pm0, hp', hpm0, hl⟩
    · exact h3 hv0
    · rw [hp] at hp'
      simp only [Option.some.injEq] at hp'
      subst hp'
      rw [h2] at hpm0
      simp only [Option.some.injEq] at hpm0
      subst hpm0
      exact hl

/-- appending a motion -/
theorem ArInv.push {cfg : Cfg S α} {starts : Array S} {ar : Array (Motion S)} (h : ArInv cfg starts ar) (m : Motion S)
    (hm : match m.parent with
      | none => RootOK cfg starts m
      | some p => ∃ pm, ar[p]? = some pm ∧ (m.valid = true → Link cfg pm.state m.state)) :
    ArInv cfg starts (ar.push m) := by
  intro i x hx
  rw [Array.getElem?_push] at hx
  split at hx
  · rename_i hsz
    simp only [Option.some.injEq] at hx
    subst hx
    cases hp : m.parent with
    | none => simp only [hp] at hm ⊢; exact hm
    | some p =>
      simp only [hp] at hm ⊢
      obtain ⟨pm, h1, h2⟩ := hm
      have hlt : p < ar.size := by
        rcases Nat.lt_or_ge p ar.size with h' | h'
        · exact h'
        · rw [Array.getElem?_eq_none h'] at h1; cases h1
      refine ⟨by omega, pm, ?_, h2⟩
      rw [Array.getElem?_push, if_neg (by omega)]; exact h1
  · have hi := h i x hx
    cases hp : x.parent with
    | none => simp only [hp] at hi ⊢; exact hi
    | some p =>
      simp only [hp] at hi ⊢
      obtain ⟨h1, pm, h2, h3⟩ := hi
      have hlt : p < ar.size := by
        rcases Nat.lt_or_ge p ar.size with h' | h'
        · exact h'
        · rw [Array.getElem?_eq_none h'] at h2; cases h2
      refine ⟨h1, pm, ?_, h3⟩
      rw [Array.getElem?_push, if_neg (by omega)]; exact h2

/-! ### the operations on the arena -/

/-- `Frame` plus "no `valid` flag changed" -/
def FrameV (ar ar' : Array (Motion S)) : Prop :=
  Frame ar ar' ∧ ∀ (i : Nat) (x x' : Motion S), ar[i]? = some x → ar'[i]? = some x' → x'.valid = x.valid

theorem FrameV.refl (ar : Array (Motion S)) : FrameV ar ar :=
  ⟨Frame.refl _, fun _ x x' h1 h2 => by rw [h1] at h2; cases h2; rfl⟩

theorem FrameV.trans {a b c : Array (Motion S)} (h1 : FrameV a b) (h2 : FrameV b c) : FrameV a c := by
  refine ⟨h1.1.trans h2.1, ?_⟩
  intro i x x' e1 e2
  obtain ⟨xm, e0, _⟩ := h1.1.2 i x e1
  rw [h2.2 i xm x' e0 e2, h1.2 i x xm e1 e0]

theorem frameV_modifyAt (ar : Array (Motion S)) (i : Nat) (f : Motion S → Motion S)
    (hf : ∀ m, (f m).state = m.state ∧ (f m).parent = m.parent ∧ (f m).inStart = m.inStart ∧ (f m).root = m.root ∧
      (f m).valid = m.valid) : FrameV ar (modifyAt ar i f) := by
  refine ⟨frame_modifyAt ar i f (fun m => ⟨(hf m).1, (hf m).2.1, (hf m).2.2.1, (hf m).2.2.2.1, fun h => by rw [(hf m).2.2.2.2]; exact h⟩), ?_⟩
  intro j x x' h1 h2
  rw [getElem?_modifyAt] at h2
  split at h2
  · rw [h1] at h2; simp only [Option.map_some, Option.some.injEq] at h2; rw [← h2]; exact (hf x).2.2.2.2
  · rw [h1] at h2; cases h2; rfl

theorem ArInv.frameV {cfg : Cfg S α} {starts : Array S} {ar ar' : Array (Motion S)} (h : ArInv cfg starts ar)
    (hf : FrameV ar ar') : ArInv cfg starts ar' :=
  h.frame hf.1 (fun i x x' h1 h2 h3 => Or.inl (by rw [← hf.2 i x x' h1 h2]; exact h3))

theorem ar_setDisc (st : St S α) (t : Bool) (d : Disc α) : (st.setDisc t d).ar = st.ar := by
  unfold St.setDisc; split <;> rfl

theorem addMotion_frame (cfg : Cfg S α) (st : St S α) (m : Motion S) :
    FrameV (st.ar.push m) (addMotion cfg st m).ar := by
  unfold addMotion
  simp only [ar_setDisc]
  cases hp : m.parent with
  | none => exact FrameV.refl _
  | some p => exact frameV_modifyAt _ _ _ (fun _ => ⟨rfl, rfl, rfl, rfl, rfl⟩)

theorem addMotion_inv {cfg : Cfg S α} {starts : Array S} {st : St S α} (h : ArInv cfg starts st.ar) (m : Motion S)
    (hm : match m.parent with
      | none => RootOK cfg starts m
      | some p => ∃ pm, st.ar[p]? = some pm ∧ (m.valid = true → Link cfg pm.state m.state)) :
    ArInv cfg starts (addMotion cfg st m).ar :=
  (h.push m hm).frameV (addMotion_frame cfg st m)

theorem markDead_frame (st : St S α) (i : Nat) : FrameV st.ar (markDead st i).ar :=
  frameV_modifyAt _ _ _ (fun _ => ⟨rfl, rfl, rfl, rfl, rfl⟩)

theorem detachFrom_frame (st : St S α) (p i : Nat) : FrameV st.ar (detachFrom st p i).ar :=
  frameV_modifyAt _ _ _ (fun _ => ⟨rfl, rfl, rfl, rfl, rfl⟩)

/-- `removeSubtree` only touches `alive` flags and `children` lists -/
theorem removeSubtree_frame (cfg : Cfg S α) (t : Bool) : ∀ (fuel i : Nat) (detach : Bool) (st : St S α),
    FrameV st.ar (removeSubtree cfg t fuel i detach st).ar := by
  intro fuel
  induction fuel with
  | zero => intro i detach st; exact FrameV.refl _
  | succ f ih =>
    intro i detach st
    unfold removeSubtree
    cases hm : st.ar[i]? with
    | none => exact FrameV.refl _
    | some m =>
      simp only []
      have hfold : ∀ (cs : List Nat) (s : St S α),
          FrameV s.ar (cs.foldl (fun s c => removeSubtree cfg t f c false s) s).ar := by
        intro cs
        induction cs with
        | nil => intro s; exact FrameV.refl _
        | cons c cs ihc => intro s; exact (ih c false s).trans (ihc _)
      have h1 : FrameV st.ar (markDead (st.setDisc t (remove cfg.P (st.disc t) i (cfg.coord m.state)).1) i).ar := by
        have := markDead_frame (st.setDisc t (remove cfg.P (st.disc t) i (cfg.coord m.state)).1) i
        rw [ar_setDisc] at this; exact this
      show FrameV st.ar (freeMotion _ i).ar
      refine FrameV.trans ?_ (hfold m.children _)
      split
      · exact h1.trans (detachFrom_frame _ _ _)
      · exact h1

theorem removeSubtree_inv {cfg : Cfg S α} {starts : Array S} {st : St S α} (h : ArInv cfg starts st.ar) (t : Bool)
    (fuel i : Nat) (detach : Bool) : ArInv cfg starts (removeSubtree cfg t fuel i detach st).ar :=
  h.frameV (removeSubtree_frame cfg t fuel i detach st)

theorem addMotion_last (cfg : Cfg S α) (st : St S α) (m : Motion S) :
    ∃ m', (addMotion cfg st m).ar[st.ar.size]? = some m' ∧ m'.state = m.state ∧ m'.parent = m.parent ∧ m'.valid = m.valid := by
  have hf := addMotion_frame cfg st m
  have h0 : (st.ar.push m)[st.ar.size]? = some m := by rw [Array.getElem?_push, if_pos rfl]
  obtain ⟨m', e0, e1, e2, _, _, _⟩ := hf.1.2 _ m h0
  exact ⟨m', e0, e1, e2, hf.2 _ m m' h0 e0⟩

theorem addMotion_old (cfg : Cfg S α) (st : St S α) (m : Motion S) {i : Nat} {x : Motion S} (h : st.ar[i]? = some x) :
    ∃ x', (addMotion cfg st m).ar[i]? = some x' ∧ x'.state = x.state ∧ x'.parent = x.parent ∧ x'.valid = x.valid := by
  have hf := addMotion_frame cfg st m
  have hlt : i < st.ar.size := by
    rcases Nat.lt_or_ge i st.ar.size with h' | h'
    · exact h'
    · rw [Array.getElem?_eq_none h'] at h; cases h
  have h0 : (st.ar.push m)[i]? = some x := by rw [Array.getElem?_push, if_neg (by omega)]; exact h
  obtain ⟨x', e0, e1, e2, _, _, _⟩ := hf.1.2 _ x h0
  exact ⟨x', e0, e1, e2, hf.2 _ x x' h0 e0⟩

/-- the root-to-leaf validation keeps the arena invariant; when it answers `true` nothing was removed or added, no
`valid` flag was cleared, and every listed motion that has a parent is flagged valid afterwards -/
theorem validateFrom_inv {cfg : Cfg S α} {starts : Array S} (t : Bool) : ∀ (ids : List Nat) (st : St S α),
    ArInv cfg starts st.ar →
      ArInv cfg starts (validateFrom cfg t ids st).2.ar ∧
        ((validateFrom cfg t ids st).1 = true →
          Frame st.ar (validateFrom cfg t ids st).2.ar ∧ (validateFrom cfg t ids st).2.solved = st.solved ∧
          ∀ i ∈ ids, ∀ m, (validateFrom cfg t ids st).2.ar[i]? = some m → m.parent ≠ none → m.valid = true) := by
  intro ids
  induction ids with
  | nil => intro st h; exact ⟨h, fun _ => ⟨Frame.refl _, rfl, fun i hi => by cases hi⟩⟩
  | cons i rest ih =>
    intro st h
    -- what the recursive call on the same state gives, extended by a fact about `i`
    have keep : ∀ (hi : ∀ m, st.ar[i]? = some m → m.parent ≠ none → m.valid = true),
        ArInv cfg starts (validateFrom cfg t rest st).2.ar ∧
          ((validateFrom cfg t rest st).1 = true →
            Frame st.ar (validateFrom cfg t rest st).2.ar ∧ (validateFrom cfg t rest st).2.solved = st.solved ∧
            ∀ j ∈ i :: rest, ∀ m, (validateFrom cfg t rest st).2.ar[j]? = some m → m.parent ≠ none → m.valid = true) := by
      intro hi
      obtain ⟨a, b⟩ := ih st h
      refine ⟨a, fun ht => ?_⟩
      obtain ⟨b1, b2, b3⟩ := b ht
      refine ⟨b1, b2, ?_⟩
      intro j hj m hm hp
      rcases List.mem_cons.1 hj with rfl | hj'
      · -- `j`'s entry in the final arena comes from the one in `st`
        have hlt : j < st.ar.size := by
          rcases Nat.lt_or_ge j (validateFrom cfg t rest st).2.ar.size with h' | h'
          · rw [b1.1] at h'; exact h'
          · rw [Array.getElem?_eq_none h'] at hm; cases hm
        obtain ⟨m0, hm0⟩ : ∃ m0, st.ar[j]? = some m0 := ⟨st.ar[j], by simp [hlt]⟩
        obtain ⟨m1, e0, _, e2, _, _, e5⟩ := b1.2 j m0 hm0
        rw [hm] at e0; simp only [Option.some.injEq] at e0; subst e0
        exact e5 (hi m0 hm0 (by rw [← e2]; exact hp))
      · exact b3 j hj' m hm hp
    unfold validateFrom
    cases hm : st.ar[i]? with
    | none => exact keep (fun m h' => by rw [hm] at h'; cases h')
    | some m =>
      simp only []
      by_cases hv : m.valid = true
      · rw [if_pos hv]
        exact keep (fun m' h' _ => by rw [hm] at h'; cases h'; exact hv)
      · rw [if_neg hv]
        cases hb : m.parent.bind (fun p => st.ar[p]?.map (fun pm => (p, pm))) with
        | none =>
          simp only []
          refine keep (fun m' h' hp => ?_)
          rw [hm] at h'; cases h'
          -- a parent index without arena entry contradicts the invariant
          have hi := h i m hm
          cases hpar : m.parent with
          | none => exact absurd hpar hp
          | some p =>
            simp only [hpar] at hi
            obtain ⟨_, pm, hpm, _⟩ := hi
            simp [hpar, hpm] at hb
        | some ppm =>
          obtain ⟨p, pm⟩ := ppm
          have hpar : m.parent = some p ∧ st.ar[p]? = some pm := by
            cases hp0 : m.parent with
            | none => simp [hp0] at hb
            | some p0 =>
              simp only [hp0, Option.bind_some, Option.map_eq_some_iff, Prod.mk.injEq] at hb
              obtain ⟨a, ha, rfl, rfl⟩ := hb
              exact ⟨rfl, ha⟩
          simp only []
          by_cases hr : (cfg.checkMotion pm.state m.state).1 = true
          · rw [if_pos hr]
            -- flag `i` valid, go on
            have hst1 : ArInv cfg starts (modifyAt st.ar i (fun x => { x with valid := true })) := by
              refine h.frame (frame_modifyAt _ _ _ (fun _ => ⟨rfl, rfl, rfl, rfl, fun _ => rfl⟩)) ?_
              intro j x x' h1 h2 h3
              rw [getElem?_modifyAt] at h2
              split at h2
              · rename_i hij; subst hij
                rw [hm] at h1; cases h1
                exact Or.inr ⟨p, pm, hpar.1, hpar.2, Or.inl hr⟩
              · rw [h1] at h2; cases h2; exact Or.inl h3
            obtain ⟨a, b⟩ := ih ({ st with ar := modifyAt st.ar i (fun x => { x with valid := true }) } : St S α) hst1
            refine ⟨a, fun ht => ?_⟩
            obtain ⟨b1, b2, b3⟩ := b ht
            have f0 : Frame st.ar (modifyAt st.ar i (fun x => { x with valid := true })) :=
              frame_modifyAt _ _ _ (fun _ => ⟨rfl, rfl, rfl, rfl, fun _ => rfl⟩)
            refine ⟨f0.trans b1, b2, ?_⟩
            intro j hj mj hmj hpj
            rcases List.mem_cons.1 hj with rfl | hj'
            · have h1 : (modifyAt st.ar j (fun x => { x with valid := true }))[j]? = some { m with valid := true } := by
                rw [getElem?_modifyAt, if_pos rfl, hm]; rfl
              obtain ⟨m1, e0, _, _, _, _, e5⟩ := b1.2 j _ h1
              rw [hmj] at e0; simp only [Option.some.injEq] at e0; subst e0
              exact e5 rfl
            · exact b3 j hj' mj hmj hpj
          · rw [if_neg hr]
            have hrm := removeSubtree_inv (starts := starts) h t (st.ar.size + 1) i true
            split
            · rename_i hfrac
              refine ⟨?_, fun ht => by cases ht⟩
              apply addMotion_inv hrm
              simp only []
              -- the parent entry survives the removal with the same state
              obtain ⟨pm', e0, e1, _⟩ := (removeSubtree_frame cfg t (st.ar.size + 1) i true st).1.2 p pm hpar.2
              refine ⟨pm', e0, fun _ => ?_⟩
              rw [e1]
              exact Or.inr ⟨m.state, by simpa using hr, rfl, hfrac⟩
            · exact ⟨hrm, fun ht => by cases ht⟩

/-! ### goal samples, phases, the loop -/

theorem inputOk_true {bounds valid : S → Bool} {s : S} (h : inputOk bounds valid s = true) :
    bounds s = true ∧ valid s = true := by
  unfold inputOk at h
  by_cases hb : bounds s = true
  · rw [if_pos hb] at h; exact ⟨hb, h⟩
  · rw [if_neg hb] at h; cases h

theorem nextGoalPlain_ok (cfg : Cfg S α) (c : Nat) (s : S) (h : (nextGoalPlain cfg c).1 = some s) : ValidGoal cfg s := by
  unfold nextGoalPlain at h
  split at h
  · rename_i hc
    simp only [] at h
    split at h
    · rename_i hok
      simp only [Option.some.injEq] at h
      subst h
      exact ⟨c, hc, rfl, inputOk_true hok⟩
    · cases h
  · cases h

theorem nextGoalWait_ok (cfg : Cfg S α) : ∀ (fuel c : Nat) (s : S), (nextGoalWait cfg fuel c).1 = some s → ValidGoal cfg s := by
  intro fuel
  induction fuel with
  | zero => intro c s h; cases h
  | succ f ih =>
    intro c s h
    unfold nextGoalWait at h
    split at h
    · rename_i hc
      simp only [] at h
      split at h
      · rename_i hok
        simp only [Option.some.injEq] at h
        subst h
        exact ⟨c, hc, rfl, inputOk_true hok⟩
      · exact ih _ s h
    · cases h

theorem goalPhase_inv {cfg : Cfg S α} {starts : Array S} {st : St S α} (h : ArInv cfg starts st.ar) :
    ArInv cfg starts (goalPhase cfg st).1.ar := by
  unfold goalPhase
  simp only []
  split
  · rename_i s hs
    refine addMotion_inv ?_ _ ?_
    · exact h
    simp only []
    refine ⟨rfl, ?_⟩
    simp only [Bool.false_eq_true, if_false]
    split at hs
    · split at hs
      · exact nextGoalWait_ok cfg _ _ s hs
      · exact nextGoalPlain_ok cfg _ s hs
    · cases hs
  · exact h

theorem isPathValid_inv {cfg : Cfg S α} {starts : Array S} {st : St S α} (h : ArInv cfg starts st.ar) (t : Bool) (i : Nat) :
    ArInv cfg starts (isPathValid cfg t i st).2.ar :=
  (validateFrom_inv t _ st h).1

/-- the `connect` motion -/
abbrev mkConnect (cm existing : Motion S) (id : Nat) (useStart : Bool) : Motion S :=
  { state := cm.state, parent := some id, root := existing.root, valid := false, children := [], inStart := useStart }

/-- where the arena of `tryConnect`'s result comes from -/
theorem tryConnect_ar (cfg : Cfg S α) (useStart : Bool) (st : St S α) (id : Nat) (existing : Motion S) (x : S)
    (dr : Draw S α) (info : Info) :
    (tryConnect cfg useStart st id existing x dr info).1.ar = st.ar ∨
    ∃ co cm, st.ar[co]? = some cm ∧
      ((tryConnect cfg useStart st id existing x dr info).1.ar =
          (isPathValid cfg useStart st.ar.size (addMotion cfg st (mkConnect cm existing id useStart))).2.ar ∨
       (tryConnect cfg useStart st id existing x dr info).1.ar =
          (isPathValid cfg (!useStart) co
            (isPathValid cfg useStart st.ar.size (addMotion cfg st (mkConnect cm existing id useStart))).2).2.ar) := by
  unfold tryConnect
  cases h1 : lookup (st.disc (!useStart)).cdata (cfg.coord x) with
  | none => exact Or.inl rfl
  | some ocd =>
    try simp only []
    by_cases h2 : ocd.motions.isEmpty = true
    · rw [if_pos h2]; exact Or.inl rfl
    · rw [if_neg h2]
      try simp only []
      cases h3 : ocd.motions[dr.connPick ocd.motions.length]? with
      | none => exact Or.inl rfl
      | some co =>
        try simp only []
        cases h4 : st.ar[co]? with
        | none => exact Or.inl rfl
        | some cm =>
          try simp only []
          generalize hr1 : isPathValid cfg useStart st.ar.size (addMotion cfg st (mkConnect cm existing id useStart)) = r1
          generalize hr2 : isPathValid cfg (!useStart) co r1.2 = r2
          have g1 : r1.2.ar = (isPathValid cfg useStart st.ar.size (addMotion cfg st (mkConnect cm existing id useStart))).2.ar := by
            rw [hr1]
          have g2 : r2.2.ar = (isPathValid cfg (!useStart) co (isPathValid cfg useStart st.ar.size
              (addMotion cfg st (mkConnect cm existing id useStart))).2).2.ar := by
            rw [← hr2, ← hr1]
          generalize hpv : cfg.pairValid (if useStart = true then existing.root else cm.root)
            (if useStart = true then cm.root else existing.root) = pv
          cases pv with
          | false => exact Or.inl rfl
          | true =>
            rw [if_pos rfl]
            cases h5 : r1.1 with
            | false => exact Or.inr ⟨co, cm, h4, Or.inl g1⟩
            | true =>
              rw [if_pos rfl]
              cases h6 : r2.1 with
              | false => exact Or.inr ⟨co, cm, h4, Or.inr g2⟩
              | true => exact Or.inr ⟨co, cm, h4, Or.inr g2⟩

theorem tryConnect_inv {cfg : Cfg S α} {starts : Array S} {st : St S α} (h : ArInv cfg starts st.ar) (useStart : Bool)
    (id : Nat) (hid : ∃ m, st.ar[id]? = some m) (existing : Motion S) (x : S) (dr : Draw S α) (info : Info) :
    ArInv cfg starts (tryConnect cfg useStart st id existing x dr info).1.ar := by
  obtain ⟨mid, hmid⟩ := hid
  have hadd : ∀ cm : Motion S, ArInv cfg starts (addMotion cfg st (mkConnect cm existing id useStart)).ar :=
    fun cm => addMotion_inv h (mkConnect cm existing id useStart) ⟨mid, hmid, fun hv => by cases hv⟩
  rcases tryConnect_ar cfg useStart st id existing x dr info with e | ⟨co, cm, _, e | e⟩
  · rw [e]; exact h
  · rw [e]; exact isPathValid_inv (hadd cm) _ _
  · rw [e]; exact isPathValid_inv (isPathValid_inv (hadd cm) _ _) _ _

theorem step_inv {cfg : Cfg S α} {starts : Array S} {st : St S α} (h : ArInv cfg starts st.ar) (dr : Draw S α) :
    ArInv cfg starts (step cfg st dr).1.ar := by
  unfold step
  simp only []
  have h0 : ArInv cfg starts (({ st with startTree := !st.startTree } : St S α).setDisc st.startTree
      (countIteration (({ st with startTree := !st.startTree } : St S α).disc st.startTree))).ar := by
    rw [ar_setDisc]; exact h
  have hg := goalPhase_inv h0
  split
  · exact hg
  · split
    · rw [ar_setDisc]; exact hg
    · split
      · rw [ar_setDisc]; exact hg
      · rename_i e _ _ _ existing hex
        rw [ar_setDisc] at hex
        have hst : ArInv cfg starts ((goalPhase cfg (({ st with startTree := !st.startTree } : St S α).setDisc st.startTree
            (countIteration (({ st with startTree := !st.startTree } : St S α).disc st.startTree)))).1.setDisc st.startTree
            (select cfg.P ((goalPhase cfg (({ st with startTree := !st.startTree } : St S α).setDisc st.startTree
            (countIteration (({ st with startTree := !st.startTree } : St S α).disc st.startTree)))).1.disc st.startTree)
              dr.u dr.pick).1).ar := by
          rw [ar_setDisc]; exact hg
        have hadd := addMotion_inv hst { state := dr.nearSample, parent := some e, root := existing.root, valid := false, children := [], inStart := st.startTree } ⟨existing, by rw [ar_setDisc]; exact hex, fun hv => by cases hv⟩
        apply tryConnect_inv hadd
        obtain ⟨m', hm', _⟩ := addMotion_last cfg _ { state := dr.nearSample, parent := some e, root := existing.root, valid := false, children := [], inStart := st.startTree }
        exact ⟨m', hm'⟩

theorem loop_inv {cfg : Cfg S α} {starts : Array S} : ∀ (script : List (Draw S α)) (st : St S α),
    ArInv cfg starts st.ar → ArInv cfg starts (loop cfg st script).1.ar
  | [], _, h => h
  | dr :: rest, st, h => by
    unfold loop
    simp only []
    split
    · exact step_inv h dr
    · exact loop_inv rest _ (step_inv h dr)

theorem addStarts_inv {cfg : Cfg S α} {starts : Array S} : ∀ (l : List S) (st : St S α),
    (∀ s ∈ l, ValidStart cfg starts s) → ArInv cfg starts st.ar → ArInv cfg starts (addStarts cfg l st).ar
  | [], _, _, h => h
  | s :: rest, st, hv, h => by
    unfold addStarts
    apply addStarts_inv rest _ (fun s' hs' => hv s' (by simp [hs']))
    apply addMotion_inv h
    simp only []
    exact ⟨rfl, by simp only [if_true]; exact hv s (by simp)⟩

theorem initState_inv (cfg : Cfg S α) (starts : Array S) : ArInv cfg starts (initState cfg starts).1.ar := by
  have hspec := (drainStarts_spec cfg.bounds cfg.valid starts (starts.size + 1) {}).1
  unfold initState
  apply addStarts_inv
  · intro s hs
    obtain ⟨x, hx, rfl⟩ := List.mem_map.1 hs
    obtain ⟨hi, h1, h2, h3, _⟩ := hspec x hx
    exact ⟨x.1, hi, h1, h2, h3⟩
  · intro i m hm; simp at hm

theorem solve_inv (cfg : Cfg S α) (starts : Array S) (script : List (Draw S α)) :
    ArInv cfg starts (solve cfg starts script).final.ar := by
  unfold solve
  simp only []
  split
  · exact initState_inv cfg starts
  · split
    · exact initState_inv cfg starts
    · have := loop_inv script _ (initState_inv cfg starts)
      split <;> exact this

end OmplModel.LBKPIECE1
