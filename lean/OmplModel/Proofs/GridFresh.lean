import OmplModel.Proofs.GridSplit
/-!
The key of every cell of the grid is FRESH after every history: it is the output of the update event for the cell's
current neighbour counter and border flag (for some data the user or an earlier event had left in the cell) -- no
operation changes a counter or a flag without re-running the event on that cell.  Needs no assumption on the event,
the functors, the bounds or the limit; holds inside the create…add window too (the counters then include the pending
cell).  Helper for `Props/C13.lean`; core Lean only.
-/
namespace OmplModel.GridS
open OmplModel.Grid OmplModel.Heap

/-- the data is what `eventCellUpdate_` returns on this very cell (same id, coordinate, counter, flag), fed with some
earlier data and heap handle (the handle is invisible to the C++ event: `CellX::heapElement` is hidden from the user) -/
def Fresh (cfg : Cfg) (c : Cell) : Prop := ∃ d0 h0, c.data = cfg.ev { c with data := d0, helem := h0 }

/-- every cell satisfies `Q` -/
def AllQ (Q : Cell → Prop) (cells : List Cell) : Prop := ∀ c ∈ cells, Q c

abbrev AllFresh (cfg : Cfg) (cells : List Cell) : Prop := AllQ (Fresh cfg) cells

theorem mem_setCell_imp {cells : List Cell} {c' d : Cell} (h : d ∈ setCell cells c') :
    d = c' ∨ (d ∈ cells ∧ d.coord ≠ c'.coord) := by
  unfold setCell at h
  obtain ⟨e, he, hd⟩ := List.mem_map.1 h
  split at hd
  · exact Or.inl hd.symm
  · rename_i hne
    subst hd
    exact Or.inr ⟨he, by simpa using hne⟩

theorem AllQ.setCell {Q : Cell → Prop} {cells : List Cell} {c' : Cell} (h : AllQ Q cells) (hc : Q c') :
    AllQ Q (setCell cells c') := by
  intro d hd
  rcases mem_setCell_imp hd with rfl | hd
  · exact hc
  · exact h d hd.1

theorem bumpUp_fresh (cfg : Cfg) (c : Cell) (h : Nat) : Fresh cfg { bumpUp cfg c with helem := h } :=
  ⟨c.data, c.helem, rfl⟩

theorem bumpDn_fresh (cfg : Cfg) (c : Cell) (h : Nat) : Fresh cfg { bumpDn cfg c with helem := h } :=
  ⟨c.data, c.helem, rfl⟩

theorem touchCreate_fresh {cfg : Cfg} {Q : Cell → Prop} (hF : ∀ c, Fresh cfg c → Q c) {g : GridB} (x : Coord) (h : AllQ Q g.cells) :
    AllQ Q (touchCreate cfg g x).cells := by
  cases hget : getCell g.cells x with
  | none => unfold touchCreate; rw [hget]; exact h
  | some c =>
    rw [touchCreate_some hget]
    simp only []
    split
    · exact h.setCell (hF _ (bumpUp_fresh cfg c _))
    · split
      · exact h.setCell (hF _ (bumpUp_fresh cfg c _))
      · exact h.setCell (hF _ (bumpUp_fresh cfg c _))

theorem touchRemove_fresh {cfg : Cfg} {Q : Cell → Prop} (hF : ∀ c, Fresh cfg c → Q c) {g : GridB} (x : Coord) (h : AllQ Q g.cells) :
    AllQ Q (touchRemove cfg g x).cells := by
  cases hget : getCell g.cells x with
  | none => unfold touchRemove; rw [hget]; exact h
  | some c =>
    rw [touchRemove_some hget]
    simp only []
    split
    · split
      · exact h.setCell (hF _ (bumpDn_fresh cfg c _))
      · exact h.setCell (hF _ (bumpDn_fresh cfg c _))
    · exact h.setCell (hF _ (bumpDn_fresh cfg c _))

theorem foldl_fresh {Q : Cell → Prop} {f : GridB → Coord → GridB}
    (hf : ∀ g x, AllQ Q g.cells → AllQ Q (f g x).cells) :
    ∀ (L : List Coord) (g : GridB), AllQ Q g.cells → AllQ Q (L.foldl f g).cells
  | [], _, h => h
  | y :: L, g, h => foldl_fresh hf L (f g y) (hf g y h)

theorem createCell_fresh {cfg : Cfg} {Q : Cell → Prop} (hF : ∀ c, Fresh cfg c → Q c) {g : GridB} (x : Coord) (d : Int) (h : AllQ Q g.cells) :
    AllQ Q (createCell cfg g x d).1.cells := by
  show AllQ Q (List.foldl (touchCreate cfg) g ((neighbors cfg.dim g.cells x).map (·.coord))).cells
  exact foldl_fresh (fun _ x => touchCreate_fresh hF x) _ g h

theorem AllQ.addCell {Q : Cell → Prop} {cells : List Cell} {c : Cell} (h : AllQ Q cells) (hc : Q c) :
    AllQ Q (addCell cells c) := by
  unfold Grid.addCell
  split
  · exact h
  · intro d hd
    rcases List.mem_append.1 hd with hd | hd
    · exact h d hd
    · simp at hd; subst hd; exact hc

/-- `GridB::add` runs the event on the new cell before filing it -/
theorem addCellB_fresh {cfg : Cfg} {Q : Cell → Prop} (hF : ∀ c, Fresh cfg c → Q c) {g : GridB} (p : Cell) (h : AllQ Q g.cells) :
    AllQ Q (addCellB cfg g p).cells := by
  unfold addCellB
  simp only []
  split
  · exact h.addCell (hF _ ⟨p.data, p.helem, rfl⟩)
  · exact h.addCell (hF _ ⟨p.data, p.helem, rfl⟩)

theorem removeCell_fresh {cfg : Cfg} {Q : Cell → Prop} (hF : ∀ c, Fresh cfg c → Q c) {g : GridB} (x : Coord) (h : AllQ Q g.cells) :
    AllQ Q (removeCell cfg g x).1.cells := by
  have h1 : AllQ Q (List.foldl (touchRemove cfg) g ((neighbors cfg.dim g.cells x).map (·.coord))).cells :=
    foldl_fresh (fun _ x => touchRemove_fresh hF x) _ g h
  unfold removeCell
  simp only []
  split
  · exact h1
  · split <;> exact fun d hd => h1 d (List.mem_filter.1 hd).1

theorem update_fresh {cfg : Cfg} {Q : Cell → Prop} (hF : ∀ c, Fresh cfg c → Q c) {g : GridB} (x : Coord) (d : Int) (h : AllQ Q g.cells) :
    AllQ Q (update cfg g x d).cells := by
  unfold update
  split
  · exact h
  · rename_i c _
    simp only []
    split <;> exact h.setCell (hF _ ⟨d, c.helem, rfl⟩)

theorem updateAll_fresh {cfg : Cfg} {Q : Cell → Prop} (hF : ∀ c, Fresh cfg c → Q c) {g : GridB} (chg : List (Coord × Int)) :
    AllQ Q (updateAll cfg g chg).cells := by
  intro c hc
  apply hF
  obtain ⟨e, _, rfl⟩ := List.mem_map.1 (show c ∈ (pokeData g.cells chg).map (fun c => { c with data := cfg.ev c }) from hc)
  exact ⟨e.data, e.helem, rfl⟩

theorem newCell_fresh {cfg : Cfg} {Q : Cell → Prop} (hF : ∀ c, Fresh cfg c → Q c) {g : GridB} (x : Coord) (d : Int) (h : AllQ Q g.cells) :
    AllQ Q (newCell cfg g x d).cells := by
  rw [newCell_eq]; exact addCellB_fresh hF _ (createCell_fresh hF x d h)

theorem step_fresh {cfg : Cfg} {Q : Cell → Prop} (hF : ∀ c, Fresh cfg c → Q c) {s : GridS} (op : Op) (h : AllQ Q s.g.cells) :
    AllQ Q (step cfg s op).g.cells := by
  obtain ⟨g, pend⟩ := s
  cases op with
  | create x d =>
    show AllQ Q (if pend.isSome || has g.cells x then (⟨g, pend⟩ : GridS) else _).g.cells
    split
    · exact h
    · exact createCell_fresh hF x d h
  | add =>
    cases pend with
    | none => exact h
    | some p => exact addCellB_fresh hF p h
  | abandon =>
    cases pend with
    | none => exact h
    | some p => exact removeCell_fresh hF p.coord h
  | new x d =>
    show AllQ Q (if pend.isSome then (⟨g, pend⟩ : GridS) else _).g.cells
    split
    · exact h
    · show AllQ Q (if has g.cells x then g else newCell cfg g x d).cells
      split
      · exact h
      · exact newCell_fresh hF x d h
  | rm x =>
    show AllQ Q (if pend.isSome then (⟨g, pend⟩ : GridS) else _).g.cells
    split
    · exact h
    · show AllQ Q (if has g.cells x then (removeCell cfg g x).1 else g).cells
      split
      · exact removeCell_fresh hF x h
      · exact h
  | upd x d => exact update_fresh hF x d h
  | updAll chg => exact updateAll_fresh hF chg
  | clear =>
    show AllQ Q (if pend.isSome then (⟨g, pend⟩ : GridS) else _).g.cells
    split
    · exact h
    · intro c hc; cases hc

/-- the fused protocol of Model/Grid.lean (what `Discretization` uses) -/
theorem gstep_pred {cfg : Cfg} {Q : Cell → Prop} (hF : ∀ c, Fresh cfg c → Q c) {g : GridB} (op : Grid.Op)
    (h : AllQ Q g.cells) : AllQ Q (Grid.step cfg g op).cells := by
  cases op with
  | new x d =>
    show AllQ Q (if has g.cells x then g else newCell cfg g x d).cells
    split
    · exact h
    · exact newCell_fresh hF x d h
  | rm x =>
    show AllQ Q (if has g.cells x then (removeCell cfg g x).1 else g).cells
    split
    · exact removeCell_fresh hF x h
    · exact h
  | upd x d => exact update_fresh hF x d h
  | updAll chg => exact updateAll_fresh hF chg
  | clear => intro c hc; cases hc

/-- `update(cell at x)`: the cell at `x` need not satisfy `Q` beforehand -/
theorem update_pred {cfg : Cfg} {Q : Cell → Prop} (hF : ∀ c, Fresh cfg c → Q c) {g : GridB} (x : Coord) (d : Int)
    (h : ∀ c ∈ g.cells, c.coord ≠ x → Q c) : AllQ Q (update cfg g x d).cells := by
  unfold update
  split
  · rename_i hnone
    intro c hc
    refine h c hc ?_
    rintro rfl
    have : has g.cells c.coord = true := has_coord_of_mem hc
    unfold has at this
    rw [hnone] at this; cases this
  · rename_i c hget
    have hcx : c.coord = x := (getCell_some_mem hget).2
    simp only []
    split <;>
    · intro e he
      rcases mem_setCell_imp he with rfl | ⟨he', hne⟩
      · exact hF _ ⟨d, c.helem, rfl⟩
      · exact h e he' (by rw [← hcx]; exact hne)

theorem run_fresh (cfg : Cfg) (ops : List Op) : AllFresh cfg (run cfg ops).g.cells := by
  unfold run
  have : ∀ (ops : List Op) (s : GridS), AllFresh cfg s.g.cells → AllFresh cfg (ops.foldl (step cfg) s).g.cells := by
    intro ops
    induction ops with
    | nil => intro s h; exact h
    | cons op ops ih => intro s h; exact ih _ (step_fresh (fun _ h => h) op h)
  exact this ops {} (fun c hc => by cases hc)

end OmplModel.GridS
