import OmplModel.Proofs.GridSplit
/-!
The key of every cell of the grid is FRESH after every history: it is the output of the update event for the cell's
current neighbour counter and border flag (for some data the user or an earlier event had left in the cell) -- no
operation changes a counter or a flag without re-running the event on that cell.  Needs no assumption on the event,
the functors, the bounds or the limit; holds inside the create…add window too (the counters then include the pending
cell).  Helper for `Props/C13.lean`; core Lean only.
-/
namespace OmplModel.GridS
open OmplModel.Grid OmplModel.Heap

/-- the data is what `eventCellUpdate_` returns on this very cell (same id, coordinate, counter, flag), fed with some
earlier data and heap handle (the handle is invisible to the C++ event: `CellX::heapElement` is hidden from the user) -/
def Fresh (cfg : Cfg) (c : Cell) : Prop := ∃ d0 h0, c.data = cfg.ev { c with data := d0, helem := h0 }

def AllFresh (cfg : Cfg) (cells : List Cell) : Prop := ∀ c ∈ cells, Fresh cfg c

theorem mem_setCell_imp {cells : List Cell} {c' d : Cell} (h : d ∈ setCell cells c') : d = c' ∨ d ∈ cells := by
  unfold setCell at h
  obtain ⟨e, he, hd⟩ := List.mem_map.1 h
  split at hd
  · exact Or.inl hd.symm
  · exact Or.inr (hd ▸ he)

theorem AllFresh.setCell {cfg : Cfg} {cells : List Cell} {c' : Cell} (h : AllFresh cfg cells) (hc : Fresh cfg c') :
    AllFresh cfg (setCell cells c') := by
  intro d hd
  rcases mem_setCell_imp hd with rfl | hd
  · exact hc
  · exact h d hd

theorem bumpUp_fresh (cfg : Cfg) (c : Cell) (h : Nat) : Fresh cfg { bumpUp cfg c with helem := h } :=
  ⟨c.data, c.helem, rfl⟩

theorem bumpDn_fresh (cfg : Cfg) (c : Cell) (h : Nat) : Fresh cfg { bumpDn cfg c with helem := h } :=
  ⟨c.data, c.helem, rfl⟩

theorem touchCreate_fresh {cfg : Cfg} {g : GridB} (x : Coord) (h : AllFresh cfg g.cells) :
    AllFresh cfg (touchCreate cfg g x).cells := by
  cases hget : getCell g.cells x with
  | none => unfold touchCreate; rw [hget]; exact h
  | some c =>
    rw [touchCreate_some hget]
    simp only []
    split
    · exact h.setCell (bumpUp_fresh cfg c _)
    · split
      · exact h.setCell (bumpUp_fresh cfg c _)
      · exact h.setCell (bumpUp_fresh cfg c _)

theorem touchRemove_fresh {cfg : Cfg} {g : GridB} (x : Coord) (h : AllFresh cfg g.cells) :
    AllFresh cfg (touchRemove cfg g x).cells := by
  cases hget : getCell g.cells x with
  | none => unfold touchRemove; rw [hget]; exact h
  | some c =>
    rw [touchRemove_some hget]
    simp only []
    split
    · split
      · exact h.setCell (bumpDn_fresh cfg c _)
      · exact h.setCell (bumpDn_fresh cfg c _)
    · exact h.setCell (bumpDn_fresh cfg c _)

theorem foldl_fresh {cfg : Cfg} {f : GridB → Coord → GridB}
    (hf : ∀ g x, AllFresh cfg g.cells → AllFresh cfg (f g x).cells) :
    ∀ (L : List Coord) (g : GridB), AllFresh cfg g.cells → AllFresh cfg (L.foldl f g).cells
  | [], _, h => h
  | y :: L, g, h => foldl_fresh hf L (f g y) (hf g y h)

theorem createCell_fresh {cfg : Cfg} {g : GridB} (x : Coord) (d : Int) (h : AllFresh cfg g.cells) :
    AllFresh cfg (createCell cfg g x d).1.cells := by
  show AllFresh cfg (List.foldl (touchCreate cfg) g ((neighbors cfg.dim g.cells x).map (·.coord))).cells
  exact foldl_fresh (fun _ x => touchCreate_fresh x) _ g h

theorem AllFresh.addCell {cfg : Cfg} {cells : List Cell} {c : Cell} (h : AllFresh cfg cells) (hc : Fresh cfg c) :
    AllFresh cfg (addCell cells c) := by
  unfold Grid.addCell
  split
  · exact h
  · intro d hd
    rcases List.mem_append.1 hd with hd | hd
    · exact h d hd
    · simp at hd; subst hd; exact hc

/-- `GridB::add` runs the event on the new cell before filing it -/
theorem addCellB_fresh {cfg : Cfg} {g : GridB} (p : Cell) (h : AllFresh cfg g.cells) :
    AllFresh cfg (addCellB cfg g p).cells := by
  unfold addCellB
  simp only []
  split
  · exact h.addCell ⟨p.data, p.helem, rfl⟩
  · exact h.addCell ⟨p.data, p.helem, rfl⟩

theorem removeCell_fresh {cfg : Cfg} {g : GridB} (x : Coord) (h : AllFresh cfg g.cells) :
    AllFresh cfg (removeCell cfg g x).1.cells := by
  have h1 : AllFresh cfg (List.foldl (touchRemove cfg) g ((neighbors cfg.dim g.cells x).map (·.coord))).cells :=
    foldl_fresh (fun _ x => touchRemove_fresh x) _ g h
  unfold removeCell
  simp only []
  split
  · exact h1
  · split <;> exact fun d hd => h1 d (List.mem_filter.1 hd).1

theorem update_fresh {cfg : Cfg} {g : GridB} (x : Coord) (d : Int) (h : AllFresh cfg g.cells) :
    AllFresh cfg (update cfg g x d).cells := by
  unfold update
  split
  · exact h
  · rename_i c _
    simp only []
    split <;> exact h.setCell ⟨d, c.helem, rfl⟩

theorem updateAll_fresh {cfg : Cfg} {g : GridB} (chg : List (Coord × Int)) :
    AllFresh cfg (updateAll cfg g chg).cells := by
  intro c hc
  obtain ⟨e, _, rfl⟩ := List.mem_map.1 (show c ∈ (pokeData g.cells chg).map (fun c => { c with data := cfg.ev c }) from hc)
  exact ⟨e.data, e.helem, rfl⟩

theorem newCell_fresh {cfg : Cfg} {g : GridB} (x : Coord) (d : Int) (h : AllFresh cfg g.cells) :
    AllFresh cfg (newCell cfg g x d).cells := by
  rw [newCell_eq]; exact addCellB_fresh _ (createCell_fresh x d h)

theorem step_fresh {cfg : Cfg} {s : GridS} (op : Op) (h : AllFresh cfg s.g.cells) :
    AllFresh cfg (step cfg s op).g.cells := by
  obtain ⟨g, pend⟩ := s
  cases op with
  | create x d =>
    show AllFresh cfg (if pend.isSome || has g.cells x then (⟨g, pend⟩ : GridS) else _).g.cells
    split
    · exact h
    · exact createCell_fresh x d h
  | add =>
    cases pend with
    | none => exact h
    | some p => exact addCellB_fresh p h
  | abandon =>
    cases pend with
    | none => exact h
    | some p => exact removeCell_fresh p.coord h
  | new x d =>
    show AllFresh cfg (if pend.isSome then (⟨g, pend⟩ : GridS) else _).g.cells
    split
    · exact h
    · show AllFresh cfg (if has g.cells x then g else newCell cfg g x d).cells
      split
      · exact h
      · exact newCell_fresh x d h
  | rm x =>
    show AllFresh cfg (if pend.isSome then (⟨g, pend⟩ : GridS) else _).g.cells
    split
    · exact h
    · show AllFresh cfg (if has g.cells x then (removeCell cfg g x).1 else g).cells
      split
      · exact removeCell_fresh x h
      · exact h
  | upd x d => exact update_fresh x d h
  | updAll chg => exact updateAll_fresh chg
  | clear =>
    show AllFresh cfg (if pend.isSome then (⟨g, pend⟩ : GridS) else _).g.cells
    split
    · exact h
    · intro c hc; cases hc

theorem run_fresh (cfg : Cfg) (ops : List Op) : AllFresh cfg (run cfg ops).g.cells := by
  unfold run
  have : ∀ (ops : List Op) (s : GridS), AllFresh cfg s.g.cells → AllFresh cfg (ops.foldl (step cfg) s).g.cells := by
    intro ops
    induction ops with
    | nil => intro s h; exact h
    | cons op ops ih => intro s h; exact ih _ (step_fresh op h)
  exact this ops {} (fun c hc => by cases hc)

end OmplModel.GridS
