import OmplModel.Proofs.Interleave
/-!
Lemmas for the solution-list, seed-generator and termination-flag instances.  Core Lean only.
-/
namespace OmplModel.Interleave

/-! ## solution list -/

theorem insertSorted_perm (x : Sol) (l : List Sol) : (insertSorted x l).Perm (x :: l) := by
  induction l with
  | nil => exact List.Perm.refl _
  | cons y ys ih =>
    simp only [insertSorted]
    split
    · exact List.Perm.refl _
    · exact (List.Perm.cons y ih).trans (List.Perm.swap x y ys)

theorem Sorted.tail {x : Sol} {l : List Sol} (h : Sorted (x :: l)) : Sorted l := by
  cases l with
  | nil => trivial
  | cons y ys => exact h.2

theorem insertSorted_sorted (x : Sol) (l : List Sol) (h : Sorted l) : Sorted (insertSorted x l) := by
  induction l with
  | nil => trivial
  | cons y ys ih =>
    simp only [insertSorted]
    split
    · rename_i hlt
      exact ⟨Nat.le_of_lt hlt, h⟩
    · rename_i hge
      have ht := ih h.tail
      cases ys with
      | nil => exact ⟨by omega, trivial⟩
      | cons z zs =>
        simp only [insertSorted] at ht ⊢
        split
        · exact ⟨by omega, by rename_i h2; exact ⟨Nat.le_of_lt h2, h.2⟩⟩
        · rename_i h2
          simp only [h2, if_false] at ht
          exact ⟨h.1, ht⟩

theorem addAll_perm (l init : List Sol) : (addAll l init).Perm (l ++ init) := by
  induction l generalizing init with
  | nil => exact List.Perm.refl _
  | cons x l ih =>
    simp only [addAll, List.foldl_cons] at ih ⊢
    refine (ih (insertSorted x init)).trans ?_
    refine (List.Perm.append_left l (insertSorted_perm x init)).trans ?_
    exact List.perm_middle

theorem addAll_sorted (l init : List Sol) (h : Sorted init) : Sorted (addAll l init) := by
  induction l generalizing init with
  | nil => exact h
  | cons x l ih =>
    simp only [addAll, List.foldl_cons] at ih ⊢
    exact ih _ (insertSorted_sorted x init h)

/-- a list of guarded adds is the sequential `addAll` of its arguments -/
theorem runSteps_adds (l : List Sol) (s : SStore) :
    (runSteps SStep.apply (l.map SStep.add) s).sols = addAll l s.sols := by
  induction l generalizing s with
  | nil => rfl
  | cons x l ih =>
    simp only [List.map_cons, runSteps_cons, addAll, List.foldl_cons]
    rw [ih]
    rfl

theorem addThread_guarded (k : Kind) (hk : k ≠ .plain) (t : Nat) (xs : List Sol) :
    addThread k t xs = xs.map SStep.add := by
  induction xs with
  | nil => rfl
  | cons x xs ih =>
    simp only [addThread, List.map_cons, List.flatten_cons] at ih ⊢
    rw [ih]
    cases k <;> simp_all [addOp]

theorem addThreadsFrom_guarded (k : Kind) (hk : k ≠ .plain) (t : Nat) (xss : List (List Sol)) :
    addThreadsFrom k t xss = xss.map (fun xs => xs.map SStep.add) := by
  induction xss generalizing t with
  | nil => rfl
  | cons xs xss ih => rw [addThreadsFrom, ih, addThread_guarded k hk]; rfl

theorem addThreads_guarded (k : Kind) (hk : k ≠ .plain) (xss : List (List Sol)) :
    addThreads k xss = xss.map (fun xs => xs.map SStep.add) := addThreadsFrom_guarded k hk 0 xss

theorem flatten_map_map {β γ : Type} (f : β → γ) (xss : List (List β)) :
    (xss.map (fun xs => xs.map f)).flatten = xss.flatten.map f := by
  induction xss with
  | nil => rfl
  | cons xs xss ih => rw [List.map_cons, List.flatten_cons, ih, List.flatten_cons, List.map_append]

theorem SStep.add_injective : ∀ a b : Sol, SStep.add a = SStep.add b → a = b := by
  intro a b h; cases h; rfl

/-- a list all of whose elements are `add _` is the image of a list of solutions -/
theorem exists_map_add (tr : List SStep) (h : ∀ a ∈ tr, ∃ x, a = SStep.add x) :
    ∃ l : List Sol, tr = l.map SStep.add := by
  induction tr with
  | nil => exact ⟨[], rfl⟩
  | cons a tr ih =>
    obtain ⟨x, rfl⟩ := h a (List.mem_cons_self ..)
    obtain ⟨l, rfl⟩ := ih (fun b hb => h b (List.mem_cons_of_mem _ hb))
    exact ⟨x :: l, rfl⟩

theorem sublist_of_map_add {xs l : List Sol} (h : (xs.map SStep.add).Sublist (l.map SStep.add)) :
    xs.Sublist l := by
  induction l generalizing xs with
  | nil =>
    cases xs with
    | nil => exact List.Sublist.refl _
    | cons x xs => simp at h
  | cons y l ih =>
    cases xs with
    | nil => exact List.nil_sublist _
    | cons x xs =>
      simp only [List.map_cons] at h
      cases h with
      | cons _ h => exact (ih (xs := x :: xs) (by simpa using h)).cons y
      | cons_cons _ h => exact (ih h).cons_cons y

theorem perm_of_map_add {a b : List Sol} (h : (a.map SStep.add).Perm (b.map SStep.add)) : a.Perm b := by
  have key : ∀ l : List Sol, (l.map SStep.add).filterMap (fun s => match s with | .add x => some x | _ => none) = l := by
    intro l
    induction l with
    | nil => rfl
    | cons x l ih => simp [ih]
  have := h.filterMap (fun s => match s with | .add x => some x | _ => none)
  rwa [key, key] at this

/-! ## seed generator -/

/-- all steps are guarded `next` -/
def AllNext (ts : List (List GStep)) : Prop := ∀ t ∈ ts, ∀ a ∈ t, ∃ u, a = GStep.next u

/-- guarded hand-outs: the positions handed out so far are exactly `0 … pos-1`, in order -/
theorem runSteps_next (l : List GStep) (hl : ∀ a ∈ l, ∃ u, a = GStep.next u) (s : GStore)
    (hs : s.handed.map Prod.snd = List.range s.pos) :
    let s' := runSteps GStep.apply l s
    s'.handed.map Prod.snd = List.range s'.pos ∧ s'.pos = s.pos + l.length := by
  induction l generalizing s with
  | nil => exact ⟨hs, rfl⟩
  | cons a l ih =>
    obtain ⟨u, rfl⟩ := hl a (List.mem_cons_self ..)
    have := ih (fun b hb => hl b (List.mem_cons_of_mem _ hb)) (GStep.apply (.next u) s)
      (by simp [GStep.apply, hs, List.range_succ])
    simp only [runSteps_cons]
    refine ⟨this.1, ?_⟩
    rw [this.2]
    simp [GStep.apply]
    omega

theorem seedThreads_allNext (k : Kind) (hk : k ≠ .plain) (N m : Nat) :
    ∀ t ∈ seedThreads k N m, ∀ a ∈ t, ∃ u, a = GStep.next u := by
  intro t ht a ha
  obtain ⟨i, rfl⟩ := mem_mkThreads ht
  simp only [List.mem_flatten, List.mem_replicate] at ha
  obtain ⟨l, ⟨_, rfl⟩, hal⟩ := ha
  cases k <;> simp_all [seedOp]

theorem seedThreads_totalLen (k : Kind) (hk : k ≠ .plain) (N m : Nat) : totalLen (seedThreads k N m) = N * m := by
  apply totalLen_mkThreads
  intro t
  cases k <;> simp_all [seedOp]

theorem mem_trace {α : Type} (ts : List (List α)) (is : List Nat) (a : α) (h : a ∈ trace ts is) :
    ∃ t ∈ ts, a ∈ t := by
  have hp := trace_perm ts is
  have : a ∈ trace ts is ++ (remain ts is).flatten := List.mem_append_left _ h
  have := (hp.mem_iff).mp this
  simpa [List.mem_flatten] using this

theorem trace_length_of_complete {α : Type} {ts : List (List α)} {is : List Nat} (hc : Complete ts is) :
    (trace ts is).length = totalLen ts := by
  have := (trace_perm_of_complete hc).length_eq
  rw [this]
  simp [totalLen, List.length_flatten]

/-! ## termination flag -/

/-- once the flag is set every poll appends `true` -/
theorem runSteps_flag_true (l : List FStep) (hl : ∀ a ∈ l, a = .set ∨ a = .poll) (r : Bool) (seen : List Bool) :
    (runSteps FStep.apply l ⟨true, r, seen⟩).seen = seen ++ List.replicate (l.filter (· == .poll)).length true := by
  induction l generalizing seen with
  | nil => simp [runSteps]
  | cons a l ih =>
    have hl' : ∀ b ∈ l, b = .set ∨ b = .poll := fun b hb => hl b (List.mem_cons_of_mem _ hb)
    rcases hl a (List.mem_cons_self ..) with rfl | rfl
    · simpa [runSteps_cons, FStep.apply] using ih hl' seen
    · simp only [runSteps_cons, FStep.apply]
      rw [ih hl']
      simp [List.replicate_succ]

/-- atomic flag: the reader's observations are some `false`s followed by one `true` for every poll
scheduled after the `set` -/
theorem runSteps_flag (l : List FStep) (hl : ∀ a ∈ l, a = .set ∨ a = .poll) (r : Bool) (seen : List Bool) :
    ∃ a, (runSteps FStep.apply l ⟨false, r, seen⟩).seen =
      seen ++ List.replicate a false ++ List.replicate (pollsAfterSet l) true := by
  induction l generalizing seen with
  | nil => exact ⟨0, by simp [runSteps, pollsAfterSet]⟩
  | cons a l ih =>
    have hl' : ∀ b ∈ l, b = .set ∨ b = .poll := fun b hb => hl b (List.mem_cons_of_mem _ hb)
    rcases hl a (List.mem_cons_self ..) with rfl | rfl
    · refine ⟨0, ?_⟩
      simp only [runSteps_cons, FStep.apply, pollsAfterSet]
      rw [runSteps_flag_true l hl']
      simp
    · obtain ⟨n, hn⟩ := ih hl' (seen ++ [false])
      refine ⟨n + 1, ?_⟩
      simp only [runSteps_cons, FStep.apply, pollsAfterSet]
      rw [hn]
      simp [List.replicate_succ]

theorem flagThreads_steps (k : Kind) (hk : k ≠ .plain) (n : Nat) :
    ∀ t ∈ flagThreads k n, ∀ a ∈ t, a = FStep.set ∨ a = FStep.poll := by
  intro t ht a ha
  cases k <;> simp_all [flagThreads] <;> rcases ht with rfl | rfl <;> simp_all

theorem pollsAfterSet_append_poll (pre : List FStep) (h : FStep.set ∈ pre) :
    0 < pollsAfterSet (pre ++ [.poll]) := by
  induction pre with
  | nil => simp at h
  | cons a pre ih =>
    cases a with
    | set => simp [pollsAfterSet, List.filter_append]
    | poll =>
      simp only [List.cons_append, pollsAfterSet]
      exact ih (by simpa using h)
    | load =>
      simp only [List.cons_append, pollsAfterSet]
      exact ih (by simpa using h)
    | test =>
      simp only [List.cons_append, pollsAfterSet]
      exact ih (by simpa using h)

end OmplModel.Interleave
